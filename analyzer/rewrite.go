package main

// One-off authoring aid (not used by any check): make the reference implementations refer to the
// reference versions (Spec_X) of every repository function that has one, so that the spec overlay is
// self-contained and does not depend on the signatures of repository helpers.

import (
	"fmt"
	"go/ast"
	"go/types"
	"os"
	"path/filepath"
	"sort"
	"strings"
)

func rewriteSpecs(p *Program, specDir string) {
	type edit struct{ off int }
	edits := map[string][]int{}
	for _, pk := range p.Pkgs {
		for _, f := range pk.Syntax {
			fname := p.Fset.Position(f.Pos()).Filename
			if !strings.HasPrefix(filepath.Base(fname), specFilePrefix) {
				continue
			}
			ast.Inspect(f, func(n ast.Node) bool {
				id, ok := n.(*ast.Ident)
				if !ok {
					return true
				}
				obj, ok := pk.TypesInfo.Uses[id].(*types.Func)
				if !ok || obj.Pkg() == nil || strings.HasPrefix(obj.Name(), specPrefix) {
					return true
				}
				if _, isRepo := p.SSAPkgs[obj.Pkg().Path()]; !isRepo {
					return true
				}
				sig := obj.Type().(*types.Signature)
				specName := specPrefix + obj.Name()
				found := false
				if recv := sig.Recv(); recv != nil {
					if _, isIface := recv.Type().Underlying().(*types.Interface); isIface {
						return true
					}
					ms := types.NewMethodSet(types.NewPointer(derefNamed(recv.Type())))
					for i := 0; i < ms.Len(); i++ {
						if ms.At(i).Obj().Name() == specName {
							found = true
						}
					}
				} else if obj.Pkg().Scope().Lookup(specName) != nil {
					found = true
				}
				if found {
					edits[fname] = append(edits[fname], p.Fset.Position(id.Pos()).Offset)
				}
				return true
			})
		}
	}
	total := 0
	for fname, offs := range edits {
		content := p.Overlay[fname]
		sort.Sort(sort.Reverse(sort.IntSlice(offs)))
		for _, o := range offs {
			content = append(content[:o], append([]byte(specPrefix), content[o:]...)...)
			total++
		}
		// map the overlay name back to the spec file
		rel, _ := filepath.Rel(p.RepoRoot, fname)
		dst := filepath.Join(specDir, filepath.Dir(rel), strings.TrimPrefix(filepath.Base(rel), specFilePrefix))
		if err := os.WriteFile(dst, content, 0o644); err != nil {
			fmt.Println("write:", err)
		}
	}
	fmt.Printf("rewrote %d references in %d files\n", total, len(edits))
}

func derefNamed(t types.Type) types.Type {
	if p, ok := t.(*types.Pointer); ok {
		return p.Elem()
	}
	return t
}
