package main

// E5-consts: the package-level constants of the repository packages are part of the wire contract (method, bias and
// parameter names, tolerances, separators) and of the formulas (eps, rounding precision). The reference implementations
// refer to them by name, so a changed value would change code and reference together; their values are therefore pinned
// in /verif/spec/constants.json (written by `rdmcheck -dump consts`, reviewed against the README and the properties).

import (
	"encoding/json"
	"fmt"
	"go/types"
	"os"
	"path/filepath"
	"sort"
	"strings"
)

func repoConstants(p *Program) map[string]string {
	out := map[string]string{}
	for _, pk := range p.Pkgs {
		if isTestUtils(pk.PkgPath) {
			continue
		}
		sc := pk.Types.Scope()
		for _, n := range sc.Names() {
			c, ok := sc.Lookup(n).(*types.Const)
			if !ok || strings.HasPrefix(n, specPrefix) {
				continue
			}
			if !strings.HasPrefix(p.Fset.Position(c.Pos()).Filename, p.RepoRoot) || strings.Contains(p.Fset.Position(c.Pos()).Filename, "zz_verifspec_") {
				continue
			}
			out[pk.Types.Name()+"."+n] = c.Val().ExactString()
		}
	}
	return out
}

func dumpConstants(p *Program) {
	m := repoConstants(p)
	b, _ := json.MarshalIndent(m, "", " ")
	fmt.Println(string(b))
}

func ruleConsts(p *Program, c *Check, verifDir string, anchoredPkgs map[string]bool) {
	rule := "E5-consts"
	b, err := os.ReadFile(filepath.Join(verifDir, "spec", "constants.json"))
	if err != nil {
		c.Brokenf("cannot read spec/constants.json: %v", err)
		return
	}
	want := map[string]string{}
	if err := json.Unmarshal(b, &want); err != nil {
		c.Brokenf("spec/constants.json: %v", err)
		return
	}
	have := repoConstants(p)
	keys := make([]string, 0, len(want))
	for k := range want {
		keys = append(keys, k)
	}
	sort.Strings(keys)
	for _, k := range keys {
		pkg := k[:strings.Index(k, ".")]
		if !anchoredPkgs[pkg] {
			continue
		}
		c.Rule(rule, "every package-level constant of a package in which this property has anchored functions has the value recorded in spec/constants.json "+
			"(names of methods, biases, functions and parameters; tolerances; separators): the references use the constants by name", 1)
		h, ok := have[k]
		if !ok {
			c.Pass(rule, "const:"+k, "value", "?", "constant no longer exists (its former uses are literals or other constants in the compared terms)")
			continue
		}
		c.Decide(h == want[k], rule, "const:"+k, "value", "", fmt.Sprintf("the constant is %s, the recorded value is %s", h, want[k]))
	}
}
