package main

// E5-consts: the package-level constants of the repository packages are part of the wire contract (method, bias and
// parameter names, tolerances, separators) and of the formulas (eps, rounding precision). The reference implementations
// refer to them by name, so a changed value would change code and reference together; their values are therefore pinned
// in /verif/spec/constants.json (written by `rdmcheck -dump consts`, reviewed against the README and the properties).

import (
	"encoding/json"
	"fmt"
	"go/ast"
	"go/token"
	"go/types"
	"os"
	"path/filepath"
	"sort"
	"strings"
)

func repoConstants(p *Program) map[string]string {
	out := map[string]string{}
	for _, pk := range p.Pkgs {
		if isTestUtils(pk.PkgPath) {
			continue
		}
		sc := pk.Types.Scope()
		for _, n := range sc.Names() {
			c, ok := sc.Lookup(n).(*types.Const)
			if !ok || strings.HasPrefix(n, specPrefix) {
				continue
			}
			if !strings.HasPrefix(p.Fset.Position(c.Pos()).Filename, p.RepoRoot) || strings.Contains(p.Fset.Position(c.Pos()).Filename, "zz_verifspec_") {
				continue
			}
			out[pk.Types.Name()+"."+n] = c.Val().ExactString()
		}
	}
	return out
}

func dumpConstants(p *Program) {
	m := repoConstants(p)
	b, _ := json.MarshalIndent(m, "", " ")
	fmt.Println(string(b))
}

// constUses: for every repository function (by key) and every package-level variable ("global:pkg.name"), the package-level
// constants its source text refers to (SSA has them folded into literals, so this is read off the syntax).
func constUses(p *Program) map[string]map[string]bool {
	if p.constUse != nil {
		return p.constUse
	}
	out := map[string]map[string]bool{}
	add := func(owner string, obj types.Object) {
		c, ok := obj.(*types.Const)
		if !ok || c.Pkg() == nil || c.Parent() != c.Pkg().Scope() {
			return
		}
		if out[owner] == nil {
			out[owner] = map[string]bool{}
		}
		out[owner][c.Pkg().Name()+"."+c.Name()] = true
	}
	for _, pk := range p.Pkgs {
		if isTestUtils(pk.PkgPath) {
			continue
		}
		for i, file := range pk.Syntax {
			if strings.Contains(pk.CompiledGoFiles[i], "zz_verifspec_") {
				continue
			}
			for _, d := range file.Decls {
				switch x := d.(type) {
				case *ast.FuncDecl:
					if x.Body == nil {
						continue
					}
					owner := pk.Name + "." + x.Name.Name
					if obj, ok := pk.TypesInfo.Defs[x.Name].(*types.Func); ok {
						if sf := p.SSA.FuncValue(obj); sf != nil {
							owner = funcKey(sf)
						}
					}
					ast.Inspect(x.Body, func(n ast.Node) bool {
						if id, ok := n.(*ast.Ident); ok {
							add(owner, pk.TypesInfo.Uses[id])
						}
						return true
					})
				case *ast.GenDecl:
					for _, sp := range x.Specs {
						vs, ok := sp.(*ast.ValueSpec)
						if !ok || x.Tok != token.VAR {
							continue
						}
						for _, name := range vs.Names {
							owner := "global:" + pk.Name + "." + name.Name
							for _, v := range vs.Values {
								ast.Inspect(v, func(n ast.Node) bool {
									if id, ok := n.(*ast.Ident); ok {
										add(owner, pk.TypesInfo.Uses[id])
									}
									return true
								})
							}
						}
					}
				}
			}
		}
	}
	// a constant defined in terms of another one depends on it
	p.constUse = out
	return out
}

func ruleConsts(p *Program, c *Check, verifDir string, anchoredFuncs map[string]bool) {
	rule := "E5-consts"
	b, err := os.ReadFile(filepath.Join(verifDir, "spec", "constants.json"))
	if err != nil {
		c.Brokenf("cannot read spec/constants.json: %v", err)
		return
	}
	want := map[string]string{}
	if err := json.Unmarshal(b, &want); err != nil {
		c.Brokenf("spec/constants.json: %v", err)
		return
	}
	have := repoConstants(p)
	uses := constUses(p)
	relevant := map[string]bool{}
	for owner, cs := range uses {
		if anchoredFuncs[owner] || (strings.HasPrefix(owner, "global:") && anchoredIn(c.Property, owner)) {
			for k := range cs {
				relevant[k] = true
			}
		}
	}
	keys := make([]string, 0, len(want))
	for k := range want {
		keys = append(keys, k)
	}
	sort.Strings(keys)
	for _, k := range keys {
		if !relevant[k] {
			continue
		}
		c.Rule(rule, "every package-level constant that an anchored function or an anchored package-level variable of this property refers to has the value recorded in spec/constants.json "+
			"(names of methods, biases, functions and parameters; tolerances; separators): the references use the constants by name", 1)
		h, ok := have[k]
		if !ok {
			c.Pass(rule, "const:"+k, "value", "?", "constant no longer exists (its former uses are literals or other constants in the compared terms)")
			continue
		}
		c.Decide(h == want[k], rule, "const:"+k, "value", "", fmt.Sprintf("the constant is %s, the recorded value is %s", h, want[k]))
	}
}

// E5-typedefs: the definitions of the named non-struct types (type Weight = float64, type Weights map[string]Weight,
// type CriterionType string, ...) that anchored functions use are pinned in spec/typedefs.json: changing one changes the
// meaning of every formula over it without touching a function body.
func repoTypeDefs(p *Program) map[string]string {
	out := map[string]string{}
	for _, pk := range p.Pkgs {
		if isTestUtils(pk.PkgPath) {
			continue
		}
		sc := pk.Types.Scope()
		for _, n := range sc.Names() {
			tn, ok := sc.Lookup(n).(*types.TypeName)
			if !ok || strings.HasPrefix(n, specPrefix) {
				continue
			}
			if !strings.HasPrefix(p.Fset.Position(tn.Pos()).Filename, p.RepoRoot) || strings.Contains(p.Fset.Position(tn.Pos()).Filename, "zz_verifspec_") {
				continue
			}
			u := tn.Type().Underlying()
			if _, isStruct := u.(*types.Struct); isStruct {
				continue
			}
			def := types.TypeString(u, func(q *types.Package) string { return q.Name() })
			if tn.IsAlias() {
				def = "= " + types.TypeString(types.Unalias(tn.Type()), func(q *types.Package) string { return q.Name() })
			}
			// codec methods replace the encoding of the underlying type
			var codecs []string
			for _, t := range []types.Type{tn.Type(), types.NewPointer(tn.Type())} {
				ms := types.NewMethodSet(t)
				for i := 0; i < ms.Len(); i++ {
					if reflectivelyCalled[ms.At(i).Obj().Name()] {
						codecs = append(codecs, ms.At(i).Obj().Name())
					}
				}
			}
			if len(codecs) > 0 && !tn.IsAlias() {
				def += " codecs[" + strings.Join(dedup(codecs), ",") + "]"
			}
			out[pk.Types.Name()+"."+n] = def
		}
	}
	return out
}

func dumpTypeDefs(p *Program) {
	b, _ := json.MarshalIndent(repoTypeDefs(p), "", " ")
	fmt.Println(string(b))
}

func ruleTypeDefs(p *Program, c *Check, verifDir string, used map[string]bool) {
	rule := "E5-typedefs"
	b, err := os.ReadFile(filepath.Join(verifDir, "spec", "typedefs.json"))
	if err != nil {
		c.Brokenf("cannot read spec/typedefs.json: %v", err)
		return
	}
	want := map[string]string{}
	if err := json.Unmarshal(b, &want); err != nil {
		c.Brokenf("spec/typedefs.json: %v", err)
		return
	}
	have := repoTypeDefs(p)
	keys := make([]string, 0, len(want))
	for k := range want {
		keys = append(keys, k)
	}
	sort.Strings(keys)
	for _, k := range keys {
		if !used["typedef:"+k] && !strings.HasPrefix(want[k], "= ") {
			continue // aliases leave no trace in the types of SSA values: they are checked in every property
		}
		c.Rule(rule, "every named non-struct type (numeric, string, map, slice, function and interface types) used by an anchored function has the definition recorded in spec/typedefs.json", 1)
		h, ok := have[k]
		if !ok {
			c.Pass(rule, "typedef:"+k, "definition", "?", "type no longer exists under this name")
			continue
		}
		c.Decide(h == want[k], rule, "typedef:"+k, "definition", "", fmt.Sprintf("the type is defined as %s, the recorded definition is %s", h, want[k]))
	}
}
