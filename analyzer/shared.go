package main

// E3 (part 1): shared-state analysis. Which values may point into memory that
// outlives a request (package-level variables and the objects the package
// initialisers allocate — the registered singletons)?

import (
	"fmt"
	"go/token"
	"go/types"
	"sort"
	"strings"

	"golang.org/x/tools/go/ssa"
)

type callSite struct {
	Caller *ssa.Function
	Instr  ssa.CallInstruction
}

type SharedInfo struct {
	fieldIndex  map[string][]fieldWrite
	p           *Program
	SharedTypes map[string]bool              // typeKey of struct types instantiated by initialisers / globals
	sharedNamed []*types.Named               // same, as types
	callers     map[*ssa.Function][]callSite // reverse call graph restricted to request-path call sites
	closures    map[*ssa.Function][]*ssa.MakeClosure
	memo        map[ssa.Value]*sharedVerdict
	inprog      map[ssa.Value]bool
}

type sharedVerdict struct {
	Shared bool
	Why    string
}

func NewSharedInfo(p *Program) *SharedInfo {
	s := &SharedInfo{p: p, SharedTypes: map[string]bool{}, callers: map[*ssa.Function][]callSite{},
		closures: map[*ssa.Function][]*ssa.MakeClosure{}, memo: map[ssa.Value]*sharedVerdict{}, inprog: map[ssa.Value]bool{}}
	// types of objects allocated by initialisers
	addNamed := func(t types.Type) {
		if n := namedOf(t); n != nil {
			if _, ok := n.Underlying().(*types.Struct); ok && n.Obj().Pkg() != nil {
				k := typeKey(n)
				if !s.SharedTypes[k] {
					s.SharedTypes[k] = true
					s.sharedNamed = append(s.sharedNamed, n)
				}
			}
		}
	}
	var addStruct func(t types.Type, seen map[types.Type]bool)
	addStruct = func(t types.Type, seen map[types.Type]bool) {
		if seen[t] {
			return
		}
		seen[t] = true
		addNamed(t)
		switch u := t.Underlying().(type) {
		case *types.Pointer:
			addStruct(u.Elem(), seen)
		case *types.Slice:
			addStruct(u.Elem(), seen)
		case *types.Array:
			addStruct(u.Elem(), seen)
		case *types.Map:
			addStruct(u.Elem(), seen)
		case *types.Struct:
			for i := 0; i < u.NumFields(); i++ {
				addStruct(u.Field(i).Type(), seen)
			}
		}
	}
	for f := range p.Inits {
		if p.RPHttp[f] && !strings.HasSuffix(f.Name(), "init") && f.Name() != "init" {
			// also on the request path (lazy closures): allocations there are per call
			continue
		}
		for _, b := range f.Blocks {
			for _, in := range b.Instrs {
				if a, ok := in.(*ssa.Alloc); ok {
					addStruct(a.Type().(*types.Pointer).Elem(), map[types.Type]bool{})
				}
			}
		}
	}
	for _, sp := range p.SSAPkgs {
		if isTestUtils(sp.Pkg.Path()) {
			continue
		}
		for _, m := range sp.Members {
			if g, ok := m.(*ssa.Global); ok {
				addStruct(g.Type().(*types.Pointer).Elem(), map[types.Type]bool{})
			}
		}
	}
	// request-local value types that merely appear in globals are not singletons:
	// nothing to do here, the rule only fires on *pointers* to these types that do not resolve to fresh memory.
	sort.Slice(s.sharedNamed, func(i, j int) bool { return typeKey(s.sharedNamed[i]) < typeKey(s.sharedNamed[j]) })

	// reverse call graph over request-path call sites + closure creation sites (everywhere)
	for _, f := range p.Funcs {
		for _, b := range f.Blocks {
			for _, in := range b.Instrs {
				if mc, ok := in.(*ssa.MakeClosure); ok {
					if fn, ok := mc.Fn.(*ssa.Function); ok {
						s.closures[fn] = append(s.closures[fn], mc)
					}
				}
				if !p.RPHttp[f] {
					continue
				}
				if call, ok := in.(ssa.CallInstruction); ok {
					repo, _, _ := p.callees(call)
					for _, g := range repo {
						s.callers[g] = append(s.callers[g], callSite{f, call})
					}
				}
			}
		}
	}
	return s
}

func (s *SharedInfo) isSharedType(t types.Type) bool {
	if n := namedOf(t); n != nil {
		return s.SharedTypes[typeKey(n)]
	}
	return false
}

// typeMayHoldShared: a value of this static type, read from memory, may refer to a singleton.
func (s *SharedInfo) typeMayHoldShared(t types.Type) (bool, string) {
	switch u := t.Underlying().(type) {
	case *types.Pointer:
		if s.isSharedType(u.Elem()) && !zeroSize(u.Elem()) {
			return true, "pointer to singleton type " + typeKey(u.Elem())
		}
	case *types.Interface:
		if u.NumMethods() == 0 {
			return false, ""
		}
		for _, n := range s.sharedNamed {
			if zeroSize(n) {
				continue
			}
			if types.Implements(types.NewPointer(n), u) || types.Implements(n, u) {
				return true, "interface " + t.String() + " implemented by singleton type " + typeKey(n)
			}
		}
	}
	return false, ""
}

// MayBeShared decides whether v may point into shared memory.
func (s *SharedInfo) MayBeShared(v ssa.Value) (bool, string) {
	return s.may(v, 0)
}

const sharedDepth = 12

func (s *SharedInfo) may(v ssa.Value, depth int) (bool, string) {
	if v == nil {
		return false, ""
	}
	if r, ok := s.memo[v]; ok {
		return r.Shared, r.Why
	}
	if s.inprog[v] || depth > sharedDepth {
		return false, "" // cycle / bound: optimistic on the cycle, the other paths decide
	}
	s.inprog[v] = true
	defer delete(s.inprog, v)
	shared, why := s.mayUncached(v, depth)
	if depth == 0 || shared {
		s.memo[v] = &sharedVerdict{shared, why}
	}
	return shared, why
}

func (s *SharedInfo) mayUncached(v ssa.Value, depth int) (bool, string) {
	if !hasRefs(v.Type()) {
		return false, ""
	}
	switch x := v.(type) {
	case *ssa.Alloc, *ssa.MakeMap, *ssa.MakeSlice, *ssa.MakeChan, *ssa.MakeClosure, *ssa.Const, *ssa.Function, *ssa.Builtin:
		return false, ""
	case *ssa.Global:
		return true, "package-level variable " + x.Name()
	case *ssa.FieldAddr:
		return s.may(x.X, depth)
	case *ssa.IndexAddr:
		return s.may(x.X, depth)
	case *ssa.Field:
		return s.loaded(x, x.X, depth)
	case *ssa.Index:
		return s.loaded(x, x.X, depth)
	case *ssa.Lookup:
		return s.loaded(x, x.X, depth)
	case *ssa.Slice:
		return s.may(x.X, depth)
	case *ssa.UnOp:
		if x.Op == token.MUL {
			return s.loaded(x, x.X, depth)
		}
		return false, ""
	case *ssa.ChangeType:
		return s.may(x.X, depth)
	case *ssa.Convert:
		return s.may(x.X, depth)
	case *ssa.ChangeInterface:
		return s.may(x.X, depth)
	case *ssa.MakeInterface:
		if zeroSize(x.X.Type()) {
			return false, "" // field-less object: nothing can be written into it
		}
		return s.may(x.X, depth)
	case *ssa.TypeAssert:
		return s.may(x.X, depth)
	case *ssa.SliceToArrayPointer:
		return s.may(x.X, depth)
	case *ssa.Extract:
		switch t := x.Tuple.(type) {
		case *ssa.Call:
			return s.callResult(t, x.Index, depth)
		case *ssa.Next:
			if r, ok := t.Iter.(*ssa.Range); ok {
				return s.loaded(x, r.X, depth)
			}
			return false, ""
		case *ssa.TypeAssert:
			return s.may(t.X, depth)
		case *ssa.Lookup:
			return s.loaded(x, t.X, depth)
		}
		return s.may(x.Tuple, depth)
	case *ssa.Phi:
		for _, e := range x.Edges {
			if sh, why := s.may(e, depth); sh {
				return true, why
			}
		}
		return false, ""
	case *ssa.Call:
		return s.callResult(x, -1, depth)
	case *ssa.Parameter:
		return s.param(x, depth)
	case *ssa.FreeVar:
		return s.freeVar(x, depth)
	}
	return false, ""
}

// loaded: value `v` was read from memory `from`.
func (s *SharedInfo) loaded(v ssa.Value, from ssa.Value, depth int) (bool, string) {
	if sh, why := s.may(from, depth); sh {
		return true, why
	}
	// the container is request-local, but a pointer/interface stored in it may still refer to a singleton
	if sh, why := s.typeMayHoldShared(v.Type()); sh {
		// field-based refinement: a field of a named struct holds what some store put there. When the program stores into
		// that field explicitly (and never through a package initialiser), the stored values decide.
		if vals, ok := s.fieldWriters(from); ok {
			for _, w := range vals {
				if w.init {
					return true, "loaded " + why + " (the field is filled by a package initialiser)"
				}
				if sh2, why2 := s.may(w.val, depth+1); sh2 {
					return true, "loaded from a field that holds: " + why2
				}
			}
			return false, ""
		}
		return true, "loaded " + why
	}
	return false, ""
}

type fieldWrite struct {
	val  ssa.Value
	init bool
}

// fieldWriters: all values stored anywhere in the repository into the struct field the address denotes (field-based:
// every object of the struct type is treated alike). ok=false when the address is not a field of a named struct or
// nothing stores into the field explicitly (then it is filled by a decoder or never: the type rule applies).
func (s *SharedInfo) fieldWriters(addr ssa.Value) ([]fieldWrite, bool) {
	var base types.Type
	var idx int
	switch a := addr.(type) {
	case *ssa.FieldAddr:
		base, idx = a.X.Type(), a.Field
	case *ssa.Field:
		base, idx = a.X.Type(), a.Field
	default:
		return nil, false
	}
	n := namedOf(base)
	if n == nil {
		return nil, false
	}
	if s.fieldIndex == nil {
		s.fieldIndex = map[string][]fieldWrite{}
		for _, f := range s.p.Funcs {
			isInit := s.p.Inits[f] && !s.p.RPHttp[f]
			for _, b := range f.Blocks {
				for _, in := range b.Instrs {
					st, ok := in.(*ssa.Store)
					if !ok {
						continue
					}
					fa, ok := st.Addr.(*ssa.FieldAddr)
					if !ok {
						continue
					}
					bn := namedOf(fa.X.Type())
					if bn == nil {
						continue
					}
					k := typeKey(bn) + "." + fieldName(fa.X.Type(), fa.Field)
					s.fieldIndex[k] = append(s.fieldIndex[k], fieldWrite{st.Val, isInit})
				}
			}
		}
	}
	w, ok := s.fieldIndex[typeKey(n)+"."+fieldName(base, idx)]
	return w, ok && len(w) > 0
}

func (s *SharedInfo) callResult(call *ssa.Call, index int, depth int) (bool, string) {
	if b, ok := call.Call.Value.(*ssa.Builtin); ok {
		if b.Name() == "append" {
			return s.may(call.Call.Args[0], depth)
		}
		return false, ""
	}
	repo, ext, _ := s.p.callees(call)
	if ext != nil {
		if cls, _ := classifyExternal(ext); cls == extSync {
			return true, "object handed out by " + extPkgPath(ext) + "." + extName(ext) + " (shared between requests)"
		}
		return false, "" // results of external functions are fresh or derived from (request-local) arguments; see the classification table
	}
	for _, g := range repo {
		for _, b := range g.Blocks {
			ret, ok := b.Instrs[len(b.Instrs)-1].(*ssa.Return)
			if !ok {
				continue
			}
			for i, r := range ret.Results {
				if index >= 0 && i != index {
					continue
				}
				if sh, why := s.may(r, depth+1); sh {
					return true, fmt.Sprintf("returned by %s: %s", funcKey(g), why)
				}
			}
		}
	}
	return false, ""
}

func (s *SharedInfo) param(x *ssa.Parameter, depth int) (bool, string) {
	fn := x.Parent()
	idx := -1
	for i, p := range fn.Params {
		if p == x {
			idx = i
		}
	}
	if idx < 0 {
		return false, ""
	}
	sites := s.callers[fn]
	if len(sites) == 0 {
		// entry point (gin handler), reflection-called method, or callback invoked by external code
		if fn.Signature.Recv() != nil && idx == 0 {
			if sh, why := s.typeMayHoldShared(x.Type()); sh {
				return true, "receiver: " + why
			}
		}
		return false, ""
	}
	for _, cs := range sites {
		c := cs.Instr.Common()
		var arg ssa.Value
		if c.IsInvoke() {
			if idx == 0 {
				arg = c.Value
			} else if idx-1 < len(c.Args) {
				arg = c.Args[idx-1]
			}
		} else if idx < len(c.Args) {
			arg = c.Args[idx]
		}
		if arg == nil {
			continue
		}
		if sh, why := s.may(arg, depth+1); sh {
			return true, fmt.Sprintf("argument at %s: %s", s.p.ipos(cs.Instr), why)
		}
	}
	return false, ""
}

func (s *SharedInfo) freeVar(x *ssa.FreeVar, depth int) (bool, string) {
	fn := x.Parent()
	idx := -1
	for i, fv := range fn.FreeVars {
		if fv == x {
			idx = i
		}
	}
	mcs := s.closures[fn]
	if idx < 0 || len(mcs) == 0 {
		return true, "captured variable with unknown binding"
	}
	for _, mc := range mcs {
		creator := mc.Parent()
		if !s.p.RPHttp[creator] || (s.p.Inits[creator] && !s.perRequestCreator(creator)) {
			// the closure object is created during initialisation: its captured variables live for the process
			return true, fmt.Sprintf("variable captured by a closure created in initialiser %s", funcKey(creator))
		}
		if sh, why := s.may(mc.Bindings[idx], depth+1); sh {
			return true, why
		}
	}
	return false, ""
}

// perRequestCreator: a function that is reachable from initialisers but also called per request
// (e.g. utils.RandomBasedSeedValueGenerator, which initialisers only reference).
func (s *SharedInfo) perRequestCreator(f *ssa.Function) bool {
	// called (not merely referenced) from an init-only function?
	for _, g := range s.p.Funcs {
		if !s.p.Inits[g] || s.p.RPHttp[g] {
			continue
		}
		for _, b := range g.Blocks {
			for _, in := range b.Instrs {
				if call, ok := in.(ssa.CallInstruction); ok {
					if call.Common().StaticCallee() == f {
						return false
					}
				}
			}
		}
	}
	return true
}
