package main

// Classification of callees without a body in the repository (standard
// library and third-party modules). Frozen table; anything with
// reference-typed parameters that is not listed is "unclassified".

import (
	"go/types"
	"strings"

	"golang.org/x/tools/go/ssa"
)

type extClass int

const (
	extPure        extClass = iota // result is a function of the arguments, no writes
	extSortArg0                    // sorts / reorders argument 0 in place
	extWritesArg1                  // decodes into argument 1
	extMutatesRecv                 // advances the state of its receiver (rand.Rand)
	extFresh                       // returns a fresh object
	extIO                          // response writing (allowed only in package main)
	extLog                         // diagnostic output (log.Print*, fmt.Print*): no effect on any response
	extForbidden                   // nondeterminism or process control
	extSync                        // synchronisation primitive
	extUnclassified
)

func extPkgPath(fn *ssa.Function) string {
	if fn.Pkg != nil {
		return fn.Pkg.Pkg.Path()
	}
	if fn.Object() != nil && fn.Object().Pkg() != nil {
		return fn.Object().Pkg().Path()
	}
	return ""
}

func extName(fn *ssa.Function) string {
	name := fn.Name()
	if recv := fn.Signature.Recv(); recv != nil {
		if n := namedOf(recv.Type()); n != nil {
			return "(" + n.Obj().Name() + ")." + name
		}
	}
	return name
}

var purePkgs = map[string]bool{
	"math": true, "math/bits": true, "math/cmplx": true, "strings": true, "strconv": true,
	"unicode": true, "unicode/utf8": true, "unicode/utf16": true, "errors": true, "bytes": true,
	"slices": false, "maps": false, // iteration-order sensitive helpers: handled as unclassified
}

func classifyExternal(fn *ssa.Function) (extClass, string) {
	pkg, name := extPkgPath(fn), extName(fn)
	full := pkg + "." + name
	switch pkg {
	case "time":
		return extForbidden, full + " reads the clock"
	case "crypto/rand":
		return extForbidden, full + " draws from the system entropy source"
	case "os", "os/exec", "os/signal", "syscall", "runtime", "runtime/debug", "unsafe", "net", "net/http":
		if pkg == "net/http" {
			return extIO, full
		}
		return extForbidden, full + " depends on / controls the process environment"
	case "math/rand", "math/rand/v2":
		switch name {
		case "New", "NewSource":
			return extFresh, full
		}
		if strings.HasPrefix(name, "(Rand).") {
			return extMutatesRecv, full
		}
		return extForbidden, full + " uses the process-global random source"
	case "sort":
		switch name {
		case "Slice", "SliceStable", "Sort", "Stable", "Strings", "Float64s", "Ints":
			return extSortArg0, full
		}
		return extPure, full // Reverse, IntSlice methods, Search*, IsSorted
	case "fmt":
		switch name {
		case "Errorf", "Sprintf", "Sprint", "Sprintln":
			return extPure, full
		case "Print", "Printf", "Println":
			return extLog, full
		}
		return extIO, full
	case "log":
		if strings.HasPrefix(name, "Fatal") || strings.HasPrefix(name, "Panic") || strings.HasPrefix(name, "(Logger).Fatal") {
			return extForbidden, full + " terminates the process"
		}
		if strings.HasPrefix(name, "Print") || strings.HasPrefix(name, "(Logger).Print") {
			return extLog, full
		}
		return extIO, full
	case "sync", "sync/atomic":
		return extSync, full
	case "github.com/mitchellh/mapstructure":
		if name == "Decode" {
			return extWritesArg1, full
		}
	case "github.com/alecthomas/jsonschema":
		return extPure, full
	case "github.com/gin-gonic/gin", "github.com/gin-contrib/cors", "github.com/gin-gonic/contrib/static":
		return extIO, full
	case "github.com/go-errors/errors":
		return extPure, full
	case "reflect":
		// the read-only part of the API: types and values are inspected, nothing is written or created that outlives the call.
		// MapKeys returns the keys in unspecified order: its call sites are checked against a table (ND-1).
		switch name {
		case "TypeOf", "ValueOf",
			"(Value).Kind", "(Value).IsNil", "(Value).Elem", "(Value).Len", "(Value).Type", "(Value).String", "(Value).Index",
			"(Value).MapIndex", "(Value).MapKeys", "(Value).Interface", "(Value).Convert", "(Value).IsValid", "(Value).NumField", "(Value).Field":
			return extPure, full
		}
		if strings.HasPrefix(name, "(rtype).") || strings.HasPrefix(name, "(*rtype).") || strings.HasPrefix(name, "(Type).") {
			return extPure, full
		}
		return extUnclassified, full
	}
	if purePkgs[pkg] {
		return extPure, full
	}
	// value-only signature: pure by construction
	sig := fn.Signature
	refs := false
	for i := 0; i < sig.Params().Len(); i++ {
		if hasRefs(sig.Params().At(i).Type()) {
			refs = true
		}
	}
	if sig.Recv() != nil && hasRefs(sig.Recv().Type()) {
		refs = true
	}
	if !refs && !hasRefs(sig.Results()) {
		return extPure, full
	}
	return extUnclassified, full
}

func isErrorOrString(t types.Type) bool {
	if b, ok := t.Underlying().(*types.Basic); ok && b.Info()&types.IsString != 0 {
		return true
	}
	errT := types.Universe.Lookup("error").Type()
	return types.Implements(t, errT.Underlying().(*types.Interface))
}
