package main

// Positive controls: /verif/fixtures is analysed with the same engines on every run; each seeded
// violation (Bad*) must be reported and each clean twin (Ok*, and the E5 twins) must be silent.

import (
	"fmt"
	"go/token"
	"path/filepath"
	"sort"
	"strings"

	"golang.org/x/tools/go/packages"
	"golang.org/x/tools/go/ssa"
	"golang.org/x/tools/go/ssa/ssautil"
)

func loadFixture(dir string) (*Program, error) {
	fset := token.NewFileSet()
	cfg := &packages.Config{
		Mode: packages.NeedName | packages.NeedFiles | packages.NeedCompiledGoFiles | packages.NeedImports |
			packages.NeedTypes | packages.NeedTypesSizes | packages.NeedSyntax | packages.NeedTypesInfo | packages.NeedModule,
		Dir: dir, Env: repoEnv(), Fset: fset,
	}
	pkgs, err := packages.Load(cfg, "./...")
	if err != nil {
		return nil, err
	}
	if len(pkgs) == 0 {
		return nil, fmt.Errorf("no fixture packages")
	}
	for _, pk := range pkgs {
		for _, e := range pk.Errors {
			return nil, fmt.Errorf("fixture %s: %v", pk.PkgPath, e)
		}
	}
	p := &Program{RepoRoot: dir, Fset: fset, SSAPkgs: map[string]*ssa.Package{}, SpecByName: true}
	p.Pkgs = pkgs
	prog, _ := ssautil.Packages(pkgs, ssa.InstantiateGenerics)
	prog.Build()
	p.SSA = prog
	for _, pk := range pkgs {
		p.SSAPkgs[pk.PkgPath] = prog.Package(pk.Types)
	}
	p.collectFuncs()
	p.RPLib, p.RPHttp, p.Inits = map[*ssa.Function]bool{}, map[*ssa.Function]bool{}, map[*ssa.Function]bool{}
	for _, f := range p.Funcs {
		if f.Name() == "init" || (f.Parent() != nil && f.Parent().Name() == "init") {
			p.Inits[f] = true
			continue
		}
		p.RPLib[f], p.RPHttp[f] = true, true
	}
	return p, nil
}

// runFixtures returns a message for every positive control that misbehaves.
func runFixtures(verif string) []string {
	p, err := loadFixture(filepath.Join(verif, "fixtures"))
	if err != nil {
		return []string{"cannot load fixtures: " + err.Error()}
	}
	c := NewCheck("FIXTURES", "quick")
	funcs := p.requestPath(true)
	sh := NewSharedInfo(p)
	ruleND1(p, c, funcs)
	ruleND2(p, c, funcs)
	ruleND3(p, c, funcs)
	ruleND4(p, c, funcs)
	ruleSHR1(p, c, sh, funcs)
	ruleSHR2(p, c, sh, funcs)
	ruleOWN1(p, c, sh, funcs)
	ruleOWN2(p, c, funcs)
	ruleOWN3(p, c, funcs)
	ruleOWN4(p, c, funcs)
	pairs, _ := p.specPairs()
	for _, sp := range pairs {
		res := compareSummaries(p, Summarize(p, sp.Code), Summarize(p, sp.Spec))
		c.Decide(res.OK, "E5-formula", sp.Key, "value-graph", p.fpos(sp.Code), strings.Join(res.Details, " ## "))
	}
	// expected outcome per function: Bad* must be reported by the named rule, everything else silent
	expect := map[string]string{
		"fx.BadClock": "ND-1", "fx.BadConstSeed": "ND-2", "fx.BadMapSum": "ND-3", "fx.BadMapFirst": "ND-3",
		"fx.BadComparator$1": "ND-4", "fx.BadGlobalWrite": "SHR-1", "fx.(*BadSource).BlankParams": "SHR-2",
		"fx.BadUseRegistry": "SHR-1", "fx.BadClampStrict": "E5-formula", "fx.BadInPlace": "OWN-1", "fx.BadRemoveFirst": "OWN-1", "fx.BadForkedAppend": "OWN-2", "fx.BadTwoAppends": "OWN-3", "fx.BadSharedRange": "OWN-4", "fx.BadCapturedLoopVar": "OWN-4", "fx.BadWeightedTotal": "E5-formula",
	}
	fired := map[string]map[string]bool{}
	for _, o := range c.Obs {
		if o.Status != Violated {
			continue
		}
		parts := strings.SplitN(o.Key, "|", 3)
		if len(parts) < 2 {
			continue
		}
		if fired[parts[1]] == nil {
			fired[parts[1]] = map[string]bool{}
		}
		fired[parts[1]][o.Rule] = true
	}
	var msgs []string
	for fn, rule := range expect {
		if !fired[fn][rule] {
			msgs = append(msgs, fmt.Sprintf("seeded violation in %s was not reported by %s", fn, rule))
		}
	}
	for fn, rules := range fired {
		if _, isBad := expect[fn]; isBad {
			continue
		}
		if strings.Contains(fn, "Bad") {
			continue // collateral report inside a seeded function (e.g. its closure)
		}
		var rs []string
		for r := range rules {
			rs = append(rs, r)
		}
		sort.Strings(rs)
		msgs = append(msgs, fmt.Sprintf("clean twin %s was reported by %v", fn, rs))
	}
	sort.Strings(msgs)
	fixtureStats = fmt.Sprintf("%d seeded violations reported, %d clean functions silent", len(expect), len(p.Funcs)-len(expect))
	return msgs
}

var fixtureStats string
