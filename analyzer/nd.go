package main

// E3 (part 2): nondeterminism-source rules ND-1..ND-4 and shared-state rules SHR-1..SHR-4.

import (
	"fmt"
	"go/constant"
	"go/token"
	"go/types"
	"sort"
	"strings"

	"golang.org/x/tools/go/ssa"
)

func (p *Program) requestPath(includeMain bool) []*ssa.Function {
	var out []*ssa.Function
	src := p.RPLib
	if includeMain {
		src = p.RPHttp
	}
	for f := range src {
		if !includeMain && pkgNameOf(f) == "main" {
			continue
		}
		out = append(out, f)
	}
	sort.Slice(out, func(i, j int) bool { return funcKey(out[i]) < funcKey(out[j]) })
	return out
}

// ---------------------------------------------------------------------------
// ND-1 forbidden sources

func ruleND1(p *Program, c *Check, funcs []*ssa.Function) {
	c.Rule("ND-1", "no function on the request path calls the clock, the global math/rand source, crypto/rand, os/runtime/syscall, "+
		"an unclassified external function with reference-typed parameters, formats with %p, starts a goroutine or uses channels", 25)
	for _, f := range funcs {
		fk := funcKey(f)
		for _, b := range f.Blocks {
			for _, in := range b.Instrs {
				switch x := in.(type) {
				case *ssa.Go:
					c.Fail("ND-1", fk, "go-statement", p.ipos(in), "goroutine started on the request path")
				case *ssa.Send, *ssa.Select, *ssa.MakeChan:
					c.Fail("ND-1", fk, "channel-op", p.ipos(in), "channel operation on the request path")
				case *ssa.UnOp:
					if x.Op == token.ARROW {
						c.Fail("ND-1", fk, "channel-recv", p.ipos(in), "channel receive on the request path")
					}
				case ssa.CallInstruction:
					_, ext, _ := p.callees(x)
					if ext == nil {
						continue
					}
					cls, why := classifyExternal(ext)
					name := extPkgPath(ext) + "." + extName(ext)
					switch cls {
					case extForbidden:
						c.Fail("ND-1", fk, "call:"+name, p.ipos(in), why)
					case extUnclassified:
						c.Fail("ND-1", fk, "call:"+name, p.ipos(in), "unclassified external callee with reference-typed parameters: cannot be shown deterministic")
					case extLog:
						c.Pass("ND-1", fk, "call:"+name, p.ipos(in), "diagnostic output: not part of any response")
					case extIO:
						if pkgNameOf(f) != "main" {
							c.Fail("ND-1", fk, "call:"+name, p.ipos(in), "I/O call in library code on the request path")
						} else {
							c.Pass("ND-1", fk, "call:"+name, p.ipos(in), "logging/response call in the handler layer")
						}
					default:
						if name == "reflect.(Value).MapKeys" {
							// keys in unspecified order: allowed only at confirmed sites
							if why, ok := tabledMapKeysSites[fk]; ok {
								c.Pass("ND-1", fk, "call:"+name, p.ipos(in), "keys in unspecified order: "+why)
							} else {
								c.Fail("ND-1", fk, "call:"+name, p.ipos(in), "reflect MapKeys returns the keys in unspecified order and this site is not in the table of confirmed order-insensitive uses")
							}
							continue
						}
						// %p formatting leaks addresses
						bad := false
						if extPkgPath(ext) == "fmt" {
							for _, a := range x.Common().Args {
								if k, ok := a.(*ssa.Const); ok && k.Value != nil && k.Value.Kind() == constant.String &&
									strings.Contains(constant.StringVal(k.Value), "%p") {
									bad = true
								}
							}
						}
						if bad {
							c.Fail("ND-1", fk, "call:"+name, p.ipos(in), "%p formats an address")
						} else {
							c.Pass("ND-1", fk, "call:"+name, p.ipos(in), "")
						}
					}
				}
			}
		}
	}
}

// ---------------------------------------------------------------------------
// ND-2 seed provenance

func isSeededGeneratorSig(t types.Type) bool {
	sig, ok := t.Underlying().(*types.Signature)
	if !ok || sig.Params().Len() != 1 || sig.Results().Len() != 1 {
		return false
	}
	if b, ok := sig.Params().At(0).Type().Underlying().(*types.Basic); !ok || b.Kind() != types.Int64 {
		return false
	}
	return isValueGeneratorSig(sig.Results().At(0).Type())
}

func isValueGeneratorSig(t types.Type) bool {
	sig, ok := t.Underlying().(*types.Signature)
	if !ok || sig.Params().Len() != 0 || sig.Results().Len() != 1 {
		return false
	}
	b, ok := sig.Results().At(0).Type().Underlying().(*types.Basic)
	return ok && b.Kind() == types.Float64
}

// seedOrigin explains where an int64 seed argument comes from; ok=false if it is not a request seed.
func (p *Program) seedOrigin(v ssa.Value, depth int) (string, bool) {
	if depth > 6 {
		return "too deep", false
	}
	switch x := v.(type) {
	case *ssa.Const:
		return "constant " + x.String(), false
	case *ssa.UnOp:
		if x.Op == token.MUL {
			if fa, ok := x.X.(*ssa.FieldAddr); ok {
				name := fieldName(fa.X.Type(), fa.Field)
				return "field " + name, strings.HasSuffix(name, "Seed")
			}
		}
	case *ssa.Field:
		name := fieldName(x.X.Type(), x.Field)
		return "field " + name, strings.HasSuffix(name, "Seed")
	case *ssa.BinOp:
		if x.Op == token.ADD {
			ls, lok := p.seedOrigin(x.X, depth+1)
			rs, rok := p.seedOrigin(x.Y, depth+1)
			if lok && isIndexLike(x.Y) {
				return ls + " + index", true
			}
			if rok && isIndexLike(x.X) {
				return rs + " + index", true
			}
			return ls + " + " + rs, false
		}
	case *ssa.Call:
		repo, _, _ := p.callees(x)
		if len(repo) == 0 {
			return "call result", false
		}
		why := ""
		for _, g := range repo {
			for _, b := range g.Blocks {
				if ret, ok := b.Instrs[len(b.Instrs)-1].(*ssa.Return); ok && len(ret.Results) == 1 {
					s, ok := p.seedOrigin(ret.Results[0], depth+1)
					if !ok {
						return funcKey(g) + " returns " + s, false
					}
					why = s
				}
			}
		}
		return "accessor returning " + why, why != ""
	case *ssa.Phi:
		why := ""
		for _, e := range x.Edges {
			s, ok := p.seedOrigin(e, depth+1)
			if !ok {
				return s, false
			}
			why = s
		}
		return why, true
	case *ssa.Convert:
		return p.seedOrigin(x.X, depth+1)
	case *ssa.Parameter:
		// a seed handed down through a helper: every request-path caller must pass a request seed
		fn := x.Parent()
		idx := -1
		for i, prm := range fn.Params {
			if prm == x {
				idx = i
			}
		}
		why, n := "", 0
		for _, g := range p.Funcs {
			if !p.RPHttp[g] {
				continue
			}
			for _, b := range g.Blocks {
				for _, in := range b.Instrs {
					call, ok := in.(ssa.CallInstruction)
					if !ok || call.Common().StaticCallee() != fn || idx >= len(call.Common().Args) {
						continue
					}
					s, ok := p.seedOrigin(call.Common().Args[idx], depth+1)
					if !ok {
						return "parameter " + x.Name() + " <- " + s, false
					}
					why = s
					n++
				}
			}
		}
		if n > 0 {
			return "parameter " + x.Name() + " <- " + why, true
		}
		return "parameter " + x.Name(), false
	}
	return fmt.Sprintf("%T", v), false
}

// isIndexLike: an int converted to int64 that is not a constant (loop index / ordinal parameter).
func isIndexLike(v ssa.Value) bool {
	cv, ok := v.(*ssa.Convert)
	if !ok {
		return false
	}
	if isConst(cv.X) {
		return false
	}
	b, ok := cv.X.Type().Underlying().(*types.Basic)
	return ok && b.Kind() == types.Int
}

func ruleND2(p *Program, c *Check, funcs []*ssa.Function) {
	c.Rule("ND-2", "every seeded generator is created from a request field named *Seed (optionally plus a loop index); "+
		"rand.New/NewSource are called only by utils.RandomGenerator with its parameter", 13)
	for _, f := range funcs {
		fk := funcKey(f)
		for _, b := range f.Blocks {
			for _, in := range b.Instrs {
				call, ok := in.(ssa.CallInstruction)
				if !ok {
					continue
				}
				cm := call.Common()
				if cm.IsInvoke() {
					continue
				}
				static := cm.StaticCallee()
				if static == nil {
					if _, isB := cm.Value.(*ssa.Builtin); isB || !isSeededGeneratorSig(cm.Value.Type()) {
						continue
					}
					why, ok := p.seedOrigin(cm.Args[0], 0)
					c.Decide(ok, "ND-2", fk, "generator("+seedDesc(cm.Args[0])+")", p.ipos(in), "seed from "+why)
					continue
				}
				name := extPkgPath(static) + "." + static.Name()
				switch {
				case funcKey(static) == "utils.RandomBasedSeedValueGenerator" || funcKey(static) == "utils.RandomGenerator":
					// direct (static) call: the seed must be a parameter handed down by a checked dynamic site, or a request seed
					arg := cm.Args[0]
					if prm, isP := arg.(*ssa.Parameter); isP && (fk == "utils.RandomBasedSeedValueGenerator" || isSeededGeneratorSig(prm.Parent().Signature)) {
						c.Pass("ND-2", fk, "call:"+funcKey(static), p.ipos(in), "seed parameter handed down")
					} else {
						why, ok := p.seedOrigin(arg, 0)
						c.Decide(ok, "ND-2", fk, "call:"+funcKey(static), p.ipos(in), "seed from "+why)
					}
				case name == "math/rand.NewSource" || name == "math/rand.New":
					okSite := fk == "utils.RandomGenerator"
					if okSite && static.Name() == "NewSource" {
						_, okSite = cm.Args[0].(*ssa.Parameter)
					}
					c.Decide(okSite, "ND-2", fk, "call:"+name, p.ipos(in), "random sources are created only in utils.RandomGenerator from its seed parameter")
				}
			}
		}
	}
}

func seedDesc(v ssa.Value) string {
	roots := rootsOf(v)
	if len(roots) > 0 && roots[0].Path != "" {
		return roots[0].Path
	}
	return v.Name()
}

// ---------------------------------------------------------------------------
// ND-3 map iteration

var tabledSortSites = map[string]string{
	"model.(*Weights).AsKeyValue":                                    "sorted by name; map keys are unique, so the order is total",
	"satisfaction_levels.(*SatisfactionLevelsUpdateListeners).Fetch": "keys sorted by sort.Strings; unique; only used in an error message",
	"owa.sortAlternativeCriteriaWeights":                             "only the float values are kept and sorted; equal values are indistinguishable",
	"choquet.prepareCriteriaInAscendingOrder":                        "sorted by value; exactly-equal values form one tie group in computeTotalWeight whose members are re-sorted by name (criterionKey)",
	"owa.additionAsOwaParams":                                        "ids sorted by sort.Strings; map keys are unique",
	"fx.OkMapSorted":                                                 "positive-control twin in /verif/fixtures: only the values are kept and sorted",
}

// reflect.Value.MapKeys sites whose use of the keys is order-insensitive (confirmed by reading).
var tabledMapKeysSites = map[string]string{
	"utils.rejectAmbiguousKeys": "struct target: the keys are sorted before the duplicate check; map target: every value is visited and the visit only reads (a rejection may name another pair, which C02 allows)",
}

// reachesGenerator: does f (transitively, bounded) call a ValueGenerator?
func (p *Program) reachesGenerator(f *ssa.Function, seen map[*ssa.Function]bool) bool {
	if seen[f] {
		return false
	}
	seen[f] = true
	for _, b := range f.Blocks {
		for _, in := range b.Instrs {
			call, ok := in.(ssa.CallInstruction)
			if !ok {
				continue
			}
			cm := call.Common()
			if !cm.IsInvoke() && cm.StaticCallee() == nil {
				if _, isB := cm.Value.(*ssa.Builtin); !isB && isValueGeneratorSig(cm.Value.Type()) {
					return true
				}
			}
			repo, ext, _ := p.callees(call)
			if ext != nil && strings.HasPrefix(extPkgPath(ext), "math/rand") {
				return true
			}
			for _, g := range repo {
				if p.reachesGenerator(g, seen) {
					return true
				}
			}
		}
	}
	return false
}

func ruleND3(p *Program, c *Check, funcs []*ssa.Function) {
	c.Rule("ND-3", "every range over a map on the request path is order-insensitive: per-key map writes (P), panic-only values (E), "+
		"or collected into a fresh slice that is sorted before use at a tabled site (S); no other loop-carried value, early exit, "+
		"generator call or escaping per-iteration value", 14)
	for _, f := range funcs {
		for _, mr := range findMapRanges(f) {
			classifyMapRange(p, c, mr)
		}
	}
}

func inLoop(mr *mapRange, in ssa.Instruction) bool { return mr.Loop[in.Block()] }

func allRefsInLoop(a *ssa.Alloc, loop map[*ssa.BasicBlock]bool) bool {
	if a.Referrers() == nil {
		return true
	}
	for _, r := range *a.Referrers() {
		if _, isDbg := r.(*ssa.DebugRef); isDbg {
			continue
		}
		if r.Block() == nil || !loop[r.Block()] {
			return false
		}
	}
	return true
}

func (mr *mapRange) keyDerived(p *Program, v ssa.Value, depth int) bool {
	if depth > 6 || v == nil {
		return false
	}
	if v == mr.Key {
		return true
	}
	switch x := v.(type) {
	case *ssa.Call:
		// pure function of key-derived arguments (criterionKey(containedCriteria(k)))
		for _, a := range x.Call.Args {
			if !mr.keyDerived(p, a, depth+1) && !isConst(a) {
				return false
			}
		}
		return len(x.Call.Args) > 0
	case *ssa.Alloc:
		// address-taken temporary holding a key-derived value: all stores into it are key-derived
		ok := false
		for _, r := range *x.Referrers() {
			if st, isSt := r.(*ssa.Store); isSt && st.Addr == x {
				if !mr.keyDerived(p, st.Val, depth+1) {
					return false
				}
				ok = true
			}
		}
		return ok
	case *ssa.UnOp:
		if x.Op == token.MUL {
			return mr.keyDerived(p, x.X, depth+1)
		}
	case *ssa.Convert:
		return mr.keyDerived(p, x.X, depth+1)
	case *ssa.ChangeType:
		return mr.keyDerived(p, x.X, depth+1)
	case *ssa.Phi:
		for _, e := range x.Edges {
			if !mr.keyDerived(p, e, depth+1) {
				return false
			}
		}
		return true
	}
	return false
}

func classifyMapRange(p *Program, c *Check, mr *mapRange) {
	f := mr.Fn
	fk := funcKey(f)
	construct := "maprange:" + describeValue(mr.Range.X)
	pos := p.ipos(mr.Next)
	if !mr.Range.Pos().IsValid() {
		pos = p.ipos(mr.Range)
	}
	var problems []string
	class := map[string]bool{}
	var collectors []ssa.Value // slices filled in map order
	counters := map[*ssa.Phi]bool{}

	// (a) loop-carried phis at the header
	for _, in := range mr.Header.Instrs {
		phi, ok := in.(*ssa.Phi)
		if !ok {
			continue
		}
		switch {
		case isCounterPhi(phi, mr.Loop):
			counters[phi] = true
		case isCollectorPhi(phi, mr.Loop):
			collectors = append(collectors, phi)
			class["S"] = true
		default:
			problems = append(problems, fmt.Sprintf("loop-carried %s value %s depends on the iteration order", phi.Type(), phi.Comment))
		}
	}
	// (b) effects inside the loop
	for b := range mr.Loop {
		for _, in := range b.Instrs {
			switch x := in.(type) {
			case *ssa.Phi:
				if b != mr.Header {
					// phis of inner control flow are per iteration unless they merge a value from a previous iteration (header phi handled above)
				}
			case *ssa.Store:
				if ia, ok := x.Addr.(*ssa.IndexAddr); ok {
					if phi, isPhi := ia.Index.(*ssa.Phi); isPhi && counters[phi] {
						collectors = append(collectors, ia.X)
						class["S"] = true
						continue
					}
				}
				// res = append(res, x) through an address-taken local: a collector kept in memory
				if a, ok := x.Addr.(*ssa.Alloc); ok && !mr.Loop[a.Block()] {
					if call, ok := x.Val.(*ssa.Call); ok {
						if b, isB := call.Call.Value.(*ssa.Builtin); isB && b.Name() == "append" {
							if ld, isLd := call.Call.Args[0].(*ssa.UnOp); isLd && ld.Op == token.MUL && ld.X == a {
								collectors = append(collectors, a)
								class["S"] = true
								continue
							}
						}
					}
				}
				roots := rootsOf(x.Addr)
				for _, r := range roots {
					if r.Kind == RFresh {
						if def, ok := r.V.(ssa.Instruction); ok && mr.Loop[def.Block()] {
							continue // per-iteration temporary
						}
						if a, ok := r.V.(*ssa.Alloc); ok && r.Deref == 0 && allRefsInLoop(a, mr.Loop) {
							continue // address-taken iteration variable: written and read only inside the loop
						}
					}
					problems = append(problems, fmt.Sprintf("store to %s (%s root %s) inside the map loop", describeValue(x.Addr), r.Kind, r.V.Name()))
				}
			case *ssa.MapUpdate:
				if mr.keyDerived(p, x.Key, 0) {
					class["P"] = true
				} else {
					problems = append(problems, fmt.Sprintf("map update %s[%s] is not keyed by the range key", describeValue(x.Map), describeValue(x.Key)))
				}
			case *ssa.Panic:
				class["E"] = true
			case ssa.CallInstruction:
				cm := x.Common()
				if bi, ok := cm.Value.(*ssa.Builtin); ok {
					if bi.Name() == "delete" && !mr.keyDerived(p, cm.Args[1], 0) {
						problems = append(problems, "delete with a key that is not the range key")
					}
					continue
				}
				if !cm.IsInvoke() && cm.StaticCallee() == nil && isValueGeneratorSig(cm.Value.Type()) {
					problems = append(problems, "random draw inside the map loop (draw order follows map order)")
					continue
				}
				repo, ext, _ := p.callees(x)
				if ext != nil {
					cls, _ := classifyExternal(ext)
					if cls == extMutatesRecv || cls == extIO || cls == extForbidden || cls == extUnclassified {
						problems = append(problems, "call of "+extPkgPath(ext)+"."+extName(ext)+" inside the map loop")
					}
				}
				for _, g := range repo {
					if p.reachesGenerator(g, map[*ssa.Function]bool{}) {
						problems = append(problems, "callee "+funcKey(g)+" draws random numbers inside the map loop")
					}
				}
			}
			// (c) per-iteration values escaping the loop
			if v, ok := in.(ssa.Value); ok && v.Referrers() != nil {
				if phi, isPhi := v.(*ssa.Phi); isPhi && b == mr.Header && (counters[phi] || isCollectorPhi(phi, mr.Loop)) {
					continue
				}
				for _, r := range *v.Referrers() {
					if r.Block() == nil || mr.Loop[r.Block()] {
						continue
					}
					if endsInPanic(r.Block()) {
						continue
					}
					if _, isAlloc := v.(*ssa.Alloc); isAlloc {
						continue
					}
					problems = append(problems, fmt.Sprintf("value %s computed in one iteration is used after the loop", v.Name()))
				}
			}
		}
		// (d) early exits
		if b != mr.Header {
			for _, s := range b.Succs {
				if !mr.Loop[s] && !endsInPanic(s) && !returnsOnlyConsts(s) {
					problems = append(problems, "early exit from the map loop carries an order-dependent state")
				}
			}
		}
	}
	// (e) collected slices must be sorted before use
	if class["S"] {
		delete(class, "S")
		for _, col := range dedupValues(collectors) {
			st, why := sortedBeforeUse(p, mr, col)
			switch st {
			case "bad":
				problems = append(problems, why)
			case "panic-only":
				class["E"] = true
			case "sorted":
				class["S"] = true
				if _, tabled := tabledSortSites[fk]; !tabled {
					problems = append(problems, "collect-then-sort site is not in the table of confirmed sites (totality of the sort key unconfirmed)")
				}
			}
		}
	}
	cls := ""
	for _, k := range []string{"P", "E", "S"} {
		if class[k] {
			cls += k
		}
	}
	if cls == "" {
		cls = "R" // read-only
	}
	if len(problems) == 0 {
		detail := "class " + cls
		if class["S"] {
			detail += ": " + tabledSortSites[fk]
		}
		c.Pass("ND-3", fk, construct, pos, detail)
	} else {
		c.Fail("ND-3", fk, construct, pos, strings.Join(dedupStrings(problems), "; "))
	}
}

func dedupStrings(in []string) []string {
	seen := map[string]bool{}
	var out []string
	for _, s := range in {
		if !seen[s] {
			seen[s] = true
			out = append(out, s)
		}
	}
	return out
}

func dedupValues(in []ssa.Value) []ssa.Value {
	seen := map[ssa.Value]bool{}
	var out []ssa.Value
	for _, s := range in {
		if !seen[s] {
			seen[s] = true
			out = append(out, s)
		}
	}
	return out
}

// sortedBeforeUse: the collected slice (or the local variable holding it) reaches a sort call after the loop,
// or is only used for an error message.
func sortedBeforeUse(p *Program, mr *mapRange, col ssa.Value) (string, string) {
	// identify the storage: the slice value itself, and if it is stored in an Alloc (address-taken local), that alloc
	aliases := map[ssa.Value]bool{col: true}
	if col.Referrers() != nil {
		for _, r := range *col.Referrers() {
			if st, ok := r.(*ssa.Store); ok && st.Val == col {
				if a, ok := st.Addr.(*ssa.Alloc); ok {
					aliases[a] = true
				}
			}
		}
	}
	// collect uses after the loop
	f := mr.Fn
	foundSort := false
	var firstBad string
	for _, b := range f.Blocks {
		if mr.Loop[b] {
			continue
		}
		for _, in := range b.Instrs {
			uses := false
			for _, op := range in.Operands(nil) {
				if op != nil && *op != nil && aliases[*op] {
					uses = true
				}
			}
			if !uses {
				continue
			}
			switch x := in.(type) {
			case *ssa.Store:
				if aliases[x.Addr] || (aliases[x.Val] && isAllocAddr(x.Addr)) {
					continue // initial store of the make() result / copy into the variable
				}
			case *ssa.UnOp:
				if x.Op == token.MUL {
					aliases[x] = true // load of the variable: same slice
					continue
				}
			case *ssa.MakeInterface:
				aliases[x] = true
				continue
			case *ssa.Slice:
				aliases[x] = true
				continue
			case *ssa.Phi:
				continue
			case ssa.CallInstruction:
				_, ext, _ := p.callees(x)
				if ext != nil {
					if cls, _ := classifyExternal(ext); cls == extSortArg0 {
						foundSort = true
						continue
					}
				}
				if bi, ok := x.Common().Value.(*ssa.Builtin); ok && (bi.Name() == "len" || bi.Name() == "cap") {
					continue
				}
			case *ssa.Return:
				if foundSort {
					continue
				}
			case *ssa.IndexAddr:
				if mr.Loop[in.Block()] {
					continue
				}
			}
			if endsInPanic(in.Block()) {
				continue
			}
			if !foundSort && firstBad == "" {
				firstBad = fmt.Sprintf("slice collected in map order is used at %s before being sorted", p.ipos(in))
			}
		}
	}
	if firstBad != "" {
		return "bad", firstBad
	}
	if !foundSort {
		// never sorted: it is used exclusively on panic paths (checked above) or not at all
		return "panic-only", ""
	}
	return "sorted", ""
}

func isAllocAddr(v ssa.Value) bool { _, ok := v.(*ssa.Alloc); return ok }

// describeValue renders a short, position-independent description of a value (access path from its root).
func describeValue(v ssa.Value) string {
	roots := rootsOf(v)
	if len(roots) == 0 {
		return v.Name()
	}
	r := roots[0]
	base := ""
	switch r.Kind {
	case RParam:
		base = "param:" + r.V.Name()
	case RGlobal:
		base = "global:" + r.V.Name()
	case RFreeVar:
		base = "captured:" + r.V.Name()
	case RFresh:
		base = "local"
		if a, ok := r.V.(*ssa.Alloc); ok && a.Comment != "" {
			base = "local:" + a.Comment
		}
	case RCall:
		if call, ok := r.V.(*ssa.Call); ok {
			if sc := call.Call.StaticCallee(); sc != nil {
				base = sc.Name() + "()"
			} else if call.Call.IsInvoke() {
				base = call.Call.Method.Name() + "()"
			} else {
				base = "call()"
			}
		}
	case RConst:
		base = "const"
		if k, ok := r.V.(*ssa.Const); ok {
			base = k.String()
		}
	default:
		base = r.V.Name()
	}
	return base + r.Path
}

// ---------------------------------------------------------------------------
// ND-4 comparator purity

func ruleND4(p *Program, c *Check, funcs []*ssa.Function) {
	c.Rule("ND-4", "comparators handed to sort.* (closures and Less methods) write nothing and draw no random numbers "+
		"(tabled exception: aspect_elimination.sortCriteria breaks weight ties with the request generator)", 5)
	check := func(cmp *ssa.Function, site string, where *ssa.Function) {
		fk := funcKey(cmp)
		var problems []string
		for _, b := range cmp.Blocks {
			for _, in := range b.Instrs {
				switch in.(type) {
				case *ssa.Store, *ssa.MapUpdate:
					if st, ok := in.(*ssa.Store); ok {
						if a, isA := st.Addr.(*ssa.Alloc); isA && a.Parent() == cmp {
							continue
						}
					}
					problems = append(problems, "writes memory at "+p.ipos(in))
				}
			}
		}
		if p.reachesGenerator(cmp, map[*ssa.Function]bool{}) {
			if strings.HasPrefix(fk, "aspect_elimination.sortCriteria$") {
				// tabled exception
			} else {
				problems = append(problems, "draws random numbers")
			}
		}
		c.Decide(len(problems) == 0, "ND-4", fk, "comparator@"+site, p.fpos(cmp), strings.Join(problems, "; "))
	}
	for _, f := range funcs {
		for _, b := range f.Blocks {
			for _, in := range b.Instrs {
				call, ok := in.(ssa.CallInstruction)
				if !ok {
					continue
				}
				_, ext, _ := p.callees(call)
				if ext == nil || extPkgPath(ext) != "sort" {
					continue
				}
				cm := call.Common()
				switch ext.Name() {
				case "Slice", "SliceStable":
					if len(cm.Args) == 2 {
						switch fn := cm.Args[1].(type) {
						case *ssa.MakeClosure:
							check(fn.Fn.(*ssa.Function), "sort."+ext.Name(), f)
						case *ssa.Function:
							check(fn, "sort."+ext.Name(), f)
						default:
							c.Fail("ND-4", funcKey(f), "comparator@sort."+ext.Name(), p.ipos(in), "comparator is not a function literal: cannot be resolved")
						}
					}
				case "Sort", "Stable":
					if mi, ok := cm.Args[0].(*ssa.MakeInterface); ok {
						ms := p.SSA.MethodSets.MethodSet(mi.X.Type())
						for i := 0; i < ms.Len(); i++ {
							if ms.At(i).Obj().Name() == "Less" {
								if fn := p.SSA.MethodValue(ms.At(i)); fn != nil && fn.Blocks != nil && p.inRepo(fn) {
									check(fn, "sort."+ext.Name(), f)
								}
							}
						}
					}
				}
			}
		}
	}
}

// ---------------------------------------------------------------------------
// SHR-1: no write to shared state on the request path

type writeSite struct {
	Instr  ssa.Instruction
	Target ssa.Value
	What   string
}

func writeSites(p *Program, f *ssa.Function) []writeSite {
	var out []writeSite
	for _, b := range f.Blocks {
		for _, in := range b.Instrs {
			switch x := in.(type) {
			case *ssa.Store:
				out = append(out, writeSite{in, x.Addr, "store"})
			case *ssa.MapUpdate:
				out = append(out, writeSite{in, x.Map, "map update"})
			case ssa.CallInstruction:
				cm := x.Common()
				if bi, ok := cm.Value.(*ssa.Builtin); ok {
					switch bi.Name() {
					case "copy":
						out = append(out, writeSite{in, cm.Args[0], "copy into"})
					case "delete":
						out = append(out, writeSite{in, cm.Args[0], "delete from"})
					}
					continue
				}
				_, ext, _ := p.callees(x)
				if ext == nil {
					continue
				}
				cls, _ := classifyExternal(ext)
				switch cls {
				case extSortArg0:
					out = append(out, writeSite{in, cm.Args[0], "in-place sort of"})
				case extWritesArg1:
					out = append(out, writeSite{in, cm.Args[1], "decode into"})
				case extMutatesRecv:
					out = append(out, writeSite{in, cm.Args[0], "state advance of"})
				case extSync:
					out = append(out, writeSite{in, cm.Args[0], "sync operation on"})
				}
			}
		}
	}
	return out
}

func ruleSHR1(p *Program, c *Check, sh *SharedInfo, funcs []*ssa.Function) {
	c.Rule("SHR-1", "no instruction reachable from a handler writes (store, map update, copy, delete, in-place sort, decode, PRNG advance) "+
		"through a pointer that may refer to a package-level variable or to an object allocated by an initialiser "+
		"(tabled exception: the sync.Once-guarded schema cache in main.Make)", 150)
	shr1(p, c, sh, funcs, "SHR-1")
}

// ruleSHR1Handlers: the same rule restricted to the handler layer (package main), for the properties that are not about
// shared state themselves but are stated for every request.
func ruleSHR1Handlers(p *Program, c *Check, sh *SharedInfo, funcs []*ssa.Function) {
	c.Rule("SHR-H", "the handler layer (package main) writes nothing that outlives the request: the value handed to the library carries nothing over "+
		"from an earlier request (no pooled or package-level request objects; tabled exception: the sync.Once-guarded schema cache in main.Make)", 5)
	shr1(p, c, sh, funcs, "SHR-H")
}

func shr1(p *Program, c *Check, sh *SharedInfo, funcs []*ssa.Function, rule string) {
	for _, f := range funcs {
		fk := funcKey(f)
		for _, w := range writeSites(p, f) {
			construct := w.What + ":" + describeValue(w.Target)
			shared, why := sh.MayBeShared(w.Target)
			if !shared {
				c.Pass(rule, fk, construct, p.ipos(w.Instr), "")
				continue
			}
			if strings.HasPrefix(fk, "main.Make$") && onceGuarded(p, f) {
				c.Pass(rule, fk, construct, p.ipos(w.Instr), "exception: executed once under sync.Once.Do (lazy schema cache)")
				continue
			}
			c.Fail(rule, fk, construct, p.ipos(w.Instr), w.What+" shared memory: "+why)
		}
	}
}

// onceGuarded: f is main.Make$1 calling once.Do(f$1), or the literal passed to Do.
func onceGuarded(p *Program, f *ssa.Function) bool {
	isDoArg := func(g *ssa.Function) bool {
		par := g.Parent()
		if par == nil {
			return false
		}
		for _, b := range par.Blocks {
			for _, in := range b.Instrs {
				call, ok := in.(ssa.CallInstruction)
				if !ok {
					continue
				}
				_, ext, _ := p.callees(call)
				if ext == nil || extPkgPath(ext) != "sync" || extName(ext) != "(Once).Do" {
					continue
				}
				if mc, ok := call.Common().Args[1].(*ssa.MakeClosure); ok && mc.Fn == g {
					return true
				}
			}
		}
		return false
	}
	if isDoArg(f) {
		return true
	}
	// the outer closure: its only shared "write" is the Once.Do call itself
	for _, a := range f.AnonFuncs {
		if isDoArg(a) {
			return true
		}
	}
	return false
}

// ---------------------------------------------------------------------------
// SHR-2: factories return per-request objects; decode targets are request-local

func ruleSHR2(p *Program, c *Check, sh *SharedInfo, funcs []*ssa.Function) {
	c.Rule("SHR-2", "every BlankParams/NewProvider implementation returns a fresh object (or a field-less one) and every "+
		"utils.DecodeToStruct target is request-local", 22)
	for _, f := range p.Funcs {
		if f.Signature.Recv() == nil || (f.Name() != "BlankParams" && f.Name() != "NewProvider") || f.Parent() != nil || f.Synthetic != "" {
			continue
		}
		fk := funcKey(f)
		for _, b := range f.Blocks {
			ret, ok := b.Instrs[len(b.Instrs)-1].(*ssa.Return)
			if !ok {
				continue
			}
			for _, r := range ret.Results {
				fresh := true
				why := ""
				for _, root := range rootsOf(r) {
					switch root.Kind {
					case RFresh, RConst:
					case RParam:
						if zeroSize(root.V.Type()) {
							continue
						}
						fresh, why = false, "returns (part of) its receiver "+root.V.Name()
					case RCall:
						if sc := root.V.(*ssa.Call).Call.StaticCallee(); sc != nil && sc.Blocks == nil {
							continue // external constructor
						}
						if s, w := sh.MayBeShared(root.V); s {
							fresh, why = false, w
						}
					default:
						fresh, why = false, fmt.Sprintf("returns %s value %s", root.Kind, root.V.Name())
					}
				}
				c.Decide(fresh, "SHR-2", fk, "return", p.ipos(ret), why)
			}
		}
	}
	for _, f := range funcs {
		for _, b := range f.Blocks {
			for _, in := range b.Instrs {
				call, ok := in.(ssa.CallInstruction)
				if !ok {
					continue
				}
				sc := call.Common().StaticCallee()
				if sc == nil || funcKey(sc) != "utils.DecodeToStruct" {
					continue
				}
				target := call.Common().Args[1]
				shared, why := sh.MayBeShared(target)
				c.Decide(!shared, "SHR-2", funcKey(f), "decode-target:"+describeValue(target), p.ipos(in), why)
			}
		}
	}
}

// ---------------------------------------------------------------------------
// SHR-4: globals are assigned only by initialisers (direct stores to a Global) and
// no package-level variable holds a random source.

func ruleSHR4(p *Program, c *Check) {
	c.Rule("SHR-4", "package-level variables are written only by package initialisers; none of them is (or contains) a *rand.Rand or rand.Source", 20)
	for _, sp := range p.SSAPkgs {
		if isTestUtils(sp.Pkg.Path()) {
			continue
		}
		for _, m := range sp.Members {
			g, ok := m.(*ssa.Global)
			if !ok {
				continue
			}
			bad := ""
			var rec func(t types.Type, seen map[types.Type]bool)
			rec = func(t types.Type, seen map[types.Type]bool) {
				if seen[t] {
					return
				}
				seen[t] = true
				if n := namedOf(t); n != nil && n.Obj().Pkg() != nil && strings.HasPrefix(n.Obj().Pkg().Path(), "math/rand") {
					bad = "holds a " + n.String()
				}
				switch u := t.Underlying().(type) {
				case *types.Pointer:
					rec(u.Elem(), seen)
				case *types.Slice:
					rec(u.Elem(), seen)
				case *types.Map:
					rec(u.Elem(), seen)
				case *types.Struct:
					for i := 0; i < u.NumFields(); i++ {
						rec(u.Field(i).Type(), seen)
					}
				}
			}
			rec(g.Type(), map[types.Type]bool{})
			// writers
			for _, f := range p.Funcs {
				if p.Inits[f] && !p.RPHttp[f] {
					continue
				}
				for _, b := range f.Blocks {
					for _, in := range b.Instrs {
						if st, ok := in.(*ssa.Store); ok && st.Addr == g {
							bad = "assigned in " + funcKey(f) + " at " + p.ipos(in)
						}
					}
				}
			}
			c.Decide(bad == "", "SHR-4", sp.Pkg.Name()+"."+g.Name(), "global", p.pos(g.Pos()), bad)
		}
	}
}
