package main

// E4: agreement rules between sibling implementations and small structural rules, decided without
// reference implementations.
//
// TCH        type channels: the dynamic types a listener's producers put into MethodParameters / an
//            "addition" are types its consumers' type assertions accept (for every method id).
// LIT        literal completeness: a composite literal of the working state or of a parsed-parameters
//            struct sets all fields or none.
// LEN        make/fill agreement: a slice allocated with make([]T, n) and filled by index in a counting
//            loop is sized by that loop's trip count.
// PANIC-type every panic operand on the request path is an error or a string (the handler renders it).
// REC        every recursion cycle on the request path is tabled with its termination argument.

import (
	"fmt"
	"go/ast"
	"go/types"
	"path/filepath"
	"sort"
	"strings"

	"golang.org/x/tools/go/ssa"
)

// ---------------------------------------------------------------------------
// dynamic types

func dynTypeName(t types.Type) string {
	return types.TypeString(t, func(p *types.Package) string { return p.Name() })
}

// dynTypesOf: the concrete types an interface-typed value may hold (as far as visible), "nil", or "?<why>".
func (p *Program) dynTypesOf(v ssa.Value, depth int, seen map[ssa.Value]bool) map[string]bool {
	out := map[string]bool{}
	if v == nil || seen[v] || depth > 6 {
		return out
	}
	seen[v] = true
	switch x := v.(type) {
	case *ssa.MakeInterface:
		out[dynTypeName(x.X.Type())] = true
	case *ssa.Const:
		if x.Value == nil {
			out["nil"] = true
		}
	case *ssa.ChangeInterface:
		return p.dynTypesOf(x.X, depth, seen)
	case *ssa.Phi:
		for _, e := range x.Edges {
			for k := range p.dynTypesOf(e, depth, seen) {
				out[k] = true
			}
		}
	case *ssa.Call:
		repo, _, _ := p.callees(x)
		if len(repo) == 0 {
			out["?result of external/unknown call"] = true
		}
		for _, g := range repo {
			for _, b := range g.Blocks {
				if ret, ok := b.Instrs[len(b.Instrs)-1].(*ssa.Return); ok && len(ret.Results) == 1 {
					for k := range p.dynTypesOf(ret.Results[0], depth+1, seen) {
						out[k] = true
					}
				}
			}
		}
	case *ssa.Parameter:
		out["?parameter "+x.Name()+" passed through"] = true
	case *ssa.TypeAssert:
		if !x.CommaOk {
			if _, isIface := x.AssertedType.Underlying().(*types.Interface); !isIface {
				out[dynTypeName(x.AssertedType)] = true
				return out
			}
		}
		return p.dynTypesOf(x.X, depth, seen)
	case *ssa.UnOp:
		out["?loaded value"] = true
	case *ssa.Extract:
		if ta, ok := x.Tuple.(*ssa.TypeAssert); ok && x.Index == 0 {
			out[dynTypeName(ta.AssertedType)] = true
		} else {
			out["?tuple element"] = true
		}
	default:
		if !isInterface(v.Type()) {
			out[dynTypeName(v.Type())] = true
		} else {
			out[fmt.Sprintf("?%T", v)] = true
		}
	}
	return out
}

func isInterface(t types.Type) bool { _, ok := t.Underlying().(*types.Interface); return ok }

type assertInfo struct {
	Types      map[string]bool
	NonCommaOk map[string]bool // types asserted without comma-ok (a mismatch panics with a runtime error)
	Passed     bool            // the value is handed on to something that could not be followed
}

// assertionsOn: the concrete types v is asserted to (following phis, interface conversions and static callees).
func (p *Program) assertionsOn(v ssa.Value, depth int, seen map[ssa.Value]bool, info *assertInfo) {
	if v == nil || seen[v] || depth > 5 || v.Referrers() == nil {
		return
	}
	seen[v] = true
	for _, r := range *v.Referrers() {
		switch x := r.(type) {
		case *ssa.TypeAssert:
			if x.X != v {
				continue
			}
			if _, isIface := x.AssertedType.Underlying().(*types.Interface); isIface {
				p.assertionsOn(x, depth, seen, info)
				continue
			}
			name := dynTypeName(x.AssertedType)
			info.Types[name] = true
			if !x.CommaOk {
				info.NonCommaOk[name] = true
			}
		case *ssa.ChangeInterface:
			p.assertionsOn(x, depth, seen, info)
		case *ssa.MakeInterface:
			p.assertionsOn(x, depth, seen, info)
		case *ssa.Phi:
			p.assertionsOn(x, depth, seen, info)
		case ssa.CallInstruction:
			cm := x.Common()
			g := cm.StaticCallee()
			if g == nil || g.Blocks == nil || !p.inRepo(g) {
				// interface call / external: the nested listeners are checked on their own
				continue
			}
			for i, a := range cm.Args {
				if a == v && i < len(g.Params) {
					p.assertionsOn(g.Params[i], depth+1, seen, info)
				}
			}
		}
	}
}

// implementersOf lists repository types (pointer or value) implementing the interface named pkg.Name.
func (p *Program) implementersOf(pkgName, ifaceName string) []types.Type {
	var iface *types.Interface
	for _, pk := range p.Pkgs {
		if pk.Types.Name() != pkgName {
			continue
		}
		if obj := pk.Types.Scope().Lookup(ifaceName); obj != nil {
			iface, _ = obj.Type().Underlying().(*types.Interface)
		}
	}
	if iface == nil {
		return nil
	}
	var out []types.Type
	for _, pk := range p.Pkgs {
		if isTestUtils(pk.PkgPath) {
			continue
		}
		sc := pk.Types.Scope()
		for _, n := range sc.Names() {
			tn, ok := sc.Lookup(n).(*types.TypeName)
			if !ok || tn.IsAlias() {
				continue
			}
			named, ok := tn.Type().(*types.Named)
			if !ok || isInterface(named) {
				continue
			}
			if types.Implements(types.NewPointer(named), iface) {
				out = append(out, types.NewPointer(named))
			}
		}
	}
	sort.Slice(out, func(i, j int) bool { return out[i].String() < out[j].String() })
	return out
}

func (p *Program) method(t types.Type, name string) *ssa.Function {
	ms := p.SSA.MethodSets.MethodSet(t)
	for i := 0; i < ms.Len(); i++ {
		if ms.At(i).Obj().Name() == name {
			return p.SSA.MethodValue(ms.At(i))
		}
	}
	return nil
}

// returnedDynTypes: dynamic types of the (single) result of fn.
func (p *Program) returnedDynTypes(fn *ssa.Function) map[string]bool {
	out := map[string]bool{}
	if fn == nil {
		return out
	}
	for _, b := range fn.Blocks {
		if ret, ok := b.Instrs[len(b.Instrs)-1].(*ssa.Return); ok && len(ret.Results) >= 1 {
			for k := range p.dynTypesOf(ret.Results[0], 0, map[ssa.Value]bool{}) {
				out[k] = true
			}
		}
	}
	return out
}

// identifierConst: the string constant returned by the type's Identifier() method.
func (p *Program) identifierConst(t types.Type) string {
	fn := p.method(t, "Identifier")
	if fn == nil {
		return ""
	}
	for _, b := range fn.Blocks {
		if ret, ok := b.Instrs[len(b.Instrs)-1].(*ssa.Return); ok && len(ret.Results) == 1 {
			if k, ok := ret.Results[0].(*ssa.Const); ok && k.Value != nil {
				return strings.Trim(k.Value.ExactString(), `"`)
			}
		}
	}
	return ""
}

func keysOf(m map[string]bool) []string {
	var out []string
	for k := range m {
		out = append(out, k)
	}
	sort.Strings(out)
	return out
}

func (p *Program) paramAssertions(fn *ssa.Function, idx int) *assertInfo {
	info := &assertInfo{Types: map[string]bool{}, NonCommaOk: map[string]bool{}}
	if fn != nil && idx < len(fn.Params) {
		p.assertionsOn(fn.Params[idx], 0, map[ssa.Value]bool{}, info)
	}
	return info
}

// fieldAssertions: assertions on values loaded from field `field` of parameter idx (dmp.MethodParameters).
func (p *Program) fieldAssertions(fn *ssa.Function, idx int, field string) *assertInfo {
	info := &assertInfo{Types: map[string]bool{}, NonCommaOk: map[string]bool{}}
	if fn == nil || idx >= len(fn.Params) {
		return info
	}
	var follow func(fn *ssa.Function, prm *ssa.Parameter, depth int)
	follow = func(fn *ssa.Function, prm *ssa.Parameter, depth int) {
		if depth > 3 || prm.Referrers() == nil {
			return
		}
		for _, r := range *prm.Referrers() {
			switch x := r.(type) {
			case *ssa.FieldAddr:
				if fieldName(x.X.Type(), x.Field) != field || x.Referrers() == nil {
					continue
				}
				for _, rr := range *x.Referrers() {
					if ld, ok := rr.(*ssa.UnOp); ok {
						p.assertionsOn(ld, 0, map[ssa.Value]bool{}, info)
					}
				}
			case ssa.CallInstruction:
				g := x.Common().StaticCallee()
				if g == nil || g.Blocks == nil || !p.inRepo(g) {
					continue
				}
				for i, a := range x.Common().Args {
					if a == ssa.Value(prm) && i < len(g.Params) {
						follow(g, g.Params[i], depth+1)
					}
				}
			}
		}
	}
	follow(fn, fn.Params[idx], 0)
	return info
}

func ruleTCH(p *Program, c *Check) {
	c.Rule("TCH", "for every method id: the dynamic types produced for MethodParameters (ParseParams, listener Merge and OnCriteriaRemoved) are the type every consumer asserts "+
		"(Evaluate, the listener callbacks, RankCriteriaAscending), and the types a listener's OnCriterionAdded produces are accepted by the assertions of its own Merge; "+
		"the same for the nested satisfaction-level listeners", 10)
	check := func(channel, owner string, producers map[string]bool, consumers *assertInfo, where string) {
		if len(consumers.Types) == 0 {
			c.Pass("TCH", owner, channel, where, "no assertion on this channel: every producer is accepted")
			return
		}
		var bad []string
		for t := range producers {
			if strings.HasPrefix(t, "?") {
				bad = append(bad, "unresolved producer "+t)
				continue
			}
			if t == "nil" {
				if len(consumers.NonCommaOk) > 0 {
					bad = append(bad, "nil is produced but asserted without comma-ok")
				}
				continue
			}
			if !consumers.Types[t] {
				bad = append(bad, fmt.Sprintf("producer type %s is not among the asserted types %v", t, keysOf(consumers.Types)))
			}
		}
		sort.Strings(bad)
		c.Decide(len(bad) == 0, "TCH", owner, channel, where, strings.Join(bad, "; "))
	}
	// preference functions by id
	funcsByID := map[string]types.Type{}
	for _, t := range p.implementersOf("model", "PreferenceFunction") {
		if id := p.identifierConst(t); id != "" {
			funcsByID[id] = t
		}
	}
	for _, lt := range p.implementersOf("model", "BiasListener") {
		id := p.identifierConst(lt)
		owner := typeKey(lt)
		where := "?"
		if fn := p.method(lt, "Merge"); fn != nil {
			where = p.fpos(fn)
		}
		// --- Addition channel
		add := p.returnedDynTypes(p.method(lt, "OnCriterionAdded"))
		check("Addition["+id+"]", owner, add, p.paramAssertions(p.method(lt, "Merge"), 2), where)
		// --- MethodParameters channel
		prod := map[string]bool{}
		for k := range p.returnedDynTypes(p.method(lt, "Merge")) {
			prod[k] = true
		}
		for k := range p.returnedDynTypes(p.method(lt, "OnCriteriaRemoved")) {
			prod[k] = true
		}
		if ft, ok := funcsByID[id]; ok {
			for k := range p.returnedDynTypes(p.method(ft, "ParseParams")) {
				prod[k] = true
			}
		} else {
			c.Fail("TCH", owner, "MethodParameters["+id+"]", where, "no preference function with the identifier of this listener")
			continue
		}
		cons := &assertInfo{Types: map[string]bool{}, NonCommaOk: map[string]bool{}}
		merge := func(a *assertInfo) {
			for k := range a.Types {
				cons.Types[k] = true
			}
			for k := range a.NonCommaOk {
				cons.NonCommaOk[k] = true
			}
		}
		merge(p.paramAssertions(p.method(lt, "OnCriterionAdded"), 3))
		merge(p.paramAssertions(p.method(lt, "OnCriteriaRemoved"), 2))
		merge(p.paramAssertions(p.method(lt, "Merge"), 1))
		merge(p.fieldAssertions(p.method(lt, "RankCriteriaAscending"), 1, "MethodParameters"))
		merge(p.fieldAssertions(p.method(funcsByID[id], "Evaluate"), 1, "MethodParameters"))
		if len(cons.Types) > 1 {
			c.Fail("TCH", owner, "MethodParameters["+id+"]", where, fmt.Sprintf("consumers assert different types %v", keysOf(cons.Types)))
			continue
		}
		check("MethodParameters["+id+"]", owner, prod, cons, where)
	}
	// nested satisfaction-level listeners
	for _, lt := range p.implementersOf("satisfaction_levels", "SatisfactionLevelsUpdateListener") {
		owner := typeKey(lt)
		where := "?"
		if fn := p.method(lt, "Merge"); fn != nil {
			where = p.fpos(fn)
		}
		add := p.returnedDynTypes(p.method(lt, "OnCriterionAdded"))
		check("ParamsAddition", owner, add, p.paramAssertions(p.method(lt, "Merge"), 2), where)
		prod := map[string]bool{}
		for _, m := range []string{"Merge", "OnCriteriaRemoved", "BlankParams"} {
			for k := range p.returnedDynTypes(p.method(lt, m)) {
				if !strings.HasPrefix(k, "?parameter") { // returning the parameters unchanged keeps their type
					prod[k] = true
				}
			}
		}
		cons := &assertInfo{Types: map[string]bool{}, NonCommaOk: map[string]bool{}}
		for m, idx := range map[string]int{"OnCriterionAdded": 3, "OnCriteriaRemoved": 2, "Merge": 1} {
			a := p.paramAssertions(p.method(lt, m), idx)
			for k := range a.Types {
				cons.Types[k] = true
			}
		}
		check("SatisfactionLevels", owner, prod, cons, where)
	}
}

// ---------------------------------------------------------------------------
// LIT

var litTypes = map[string]bool{
	"model.DecisionMakingParams": true, "majority.MajorityHeuristicParams": true,
	"aspect_elimination.AspectEliminationHeuristicParams": true, "satisfaction.SatisfactionParameters": true,
	"electreIII.electreIIIParams": true, "choquet.choquetParams": true, "owa.owaParams": true,
	"weighted_sum.weightedSumParams": true, "satisfaction_levels.ThresholdSatisfactionLevels": true,
}

// partial literals that are deliberate (one reason each)
var litExceptions = map[string]string{
	"electreIII.OnCriterionAdded|electreIII.electreIIIParams":   "the addition for one new criterion carries only its ElectreCriterion; Merge keeps the distillation function of the old parameters",
	"aspect_elimination.ParseParams|model.DecisionMakingParams": "throw-away state handed to Initialize to validate thresholds/series parameters at parse time: Initialize reads the criteria and the alternatives only, the state is never handed on",
	"satisfaction.ParseParams|model.DecisionMakingParams":       "throw-away state handed to Initialize to validate thresholds/series parameters at parse time: Initialize reads the criteria and the alternatives only, the state is never handed on",
}

func ruleLIT(p *Program, c *Check) {
	c.Rule("LIT", "every composite literal of the working state (DecisionMakingParams) or of a parsed-parameters struct sets all fields or none "+
		"(a forgotten field silently resets an option after a bias went through the listener)", 15)
	for _, pk := range p.Pkgs {
		if isTestUtils(pk.PkgPath) || pk.Name == "main" {
			continue
		}
		for _, file := range pk.Syntax {
			fname := p.Fset.Position(file.Pos()).Filename
			if strings.HasPrefix(filepath.Base(fname), specFilePrefix) {
				continue
			}
			for _, decl := range file.Decls {
				fd, ok := decl.(*ast.FuncDecl)
				if !ok || fd.Body == nil {
					continue
				}
				ast.Inspect(fd.Body, func(n ast.Node) bool {
					lit, ok := n.(*ast.CompositeLit)
					if !ok {
						return true
					}
					tv, ok := pk.TypesInfo.Types[lit]
					if !ok {
						return true
					}
					named := namedOf(tv.Type)
					if named == nil || !litTypes[typeKey(named)] {
						return true
					}
					st, ok := named.Underlying().(*types.Struct)
					if !ok {
						return true
					}
					set := len(lit.Elts)
					key := pk.Name + "." + fd.Name.Name + "|" + typeKey(named)
					detail := fmt.Sprintf("%d of %d fields set", set, st.NumFields())
					switch {
					case set == 0 || set == st.NumFields():
						c.Pass("LIT", pk.Name+"."+fd.Name.Name, "literal:"+typeKey(named), p.pos(lit.Pos()), detail)
					case litExceptions[key] != "":
						c.Pass("LIT", pk.Name+"."+fd.Name.Name, "literal:"+typeKey(named), p.pos(lit.Pos()), detail+" — exception: "+litExceptions[key])
					default:
						var missing []string
						have := map[string]bool{}
						for _, e := range lit.Elts {
							if kv, ok := e.(*ast.KeyValueExpr); ok {
								if id, ok := kv.Key.(*ast.Ident); ok {
									have[id.Name] = true
								}
							}
						}
						for i := 0; i < st.NumFields(); i++ {
							if !have[st.Field(i).Name()] {
								missing = append(missing, st.Field(i).Name())
							}
						}
						c.Fail("LIT", pk.Name+"."+fd.Name.Name, "literal:"+typeKey(named), p.pos(lit.Pos()), detail+": missing "+strings.Join(missing, ", "))
					}
					return true
				})
			}
		}
	}
}

// ---------------------------------------------------------------------------
// LEN

var lenExceptions = map[string]string{
	"owa.toArray": "sized by the weights map and filled over the criteria: its only caller ParseParams panics unless len(weights) == len(criteria)",
}

func ruleLEN(p *Program, c *Check, funcs []*ssa.Function) {
	c.Rule("LEN", "a slice allocated with make([]T, n) and filled by index on every iteration of a counting loop is sized by the loop's trip count "+
		"(a result sized by another collection yields zero-valued trailing entries or an index panic)", 25)
	for _, f := range funcs {
		if f.Blocks == nil || len(loopHeaders(f)) == 0 {
			continue
		}
		sum := Summarize(p, f)
		for _, n := range sum.LenChecks {
			fk := funcKey(f)
			if !n.OK && lenExceptions[fk] != "" {
				c.Pass("LEN", fk, "fill:"+n.What, p.fpos(f), "exception: "+lenExceptions[fk])
				continue
			}
			c.Decide(n.OK, "LEN", fk, "fill:"+n.What, p.fpos(f), n.Detail)
		}
	}
}

// ---------------------------------------------------------------------------
// PANIC-type

func rulePanicType(p *Program, c *Check, funcs []*ssa.Function) {
	c.Rule("PANIC-type", "every panic on the request path carries an error or a string, so that the handler's recover can render it as the 400 body", 45)
	errT := types.Universe.Lookup("error").Type()
	for _, f := range funcs {
		for _, b := range f.Blocks {
			pn, ok := b.Instrs[len(b.Instrs)-1].(*ssa.Panic)
			if !ok {
				continue
			}
			okType, desc := false, ""
			switch x := pn.X.(type) {
			case *ssa.MakeInterface:
				desc = dynTypeName(x.X.Type())
				okType = isErrorOrString(x.X.Type())
			case *ssa.ChangeInterface:
				desc = dynTypeName(x.X.Type())
				okType = types.Identical(x.X.Type(), errT) || isErrorOrString(x.X.Type())
			default:
				desc = dynTypeName(pn.X.Type())
				okType = types.Identical(pn.X.Type(), errT)
			}
			c.Decide(okType, "PANIC-type", funcKey(f), "panic("+desc+")", p.ipos(pn), "operand of type "+desc)
		}
	}
}

// ---------------------------------------------------------------------------
// REC

var recTable = map[string]string{
	"utils.rejectAmbiguousKeys":                        "recursion over the value tree of a decoded JSON document (finite and acyclic) guided by the static target type",
	"electreIII.distillate,electreIII.updatePositions": "inner distillation: the cut level strictly decreases over the finite set of credibility values (getDistillationFunc rejects functions negative on [0,1], so the next level is strictly below the current one); outer distillation: the matrix loses the classed alternatives",
}

func ruleREC(p *Program, c *Check, funcs []*ssa.Function) {
	c.Rule("REC", "every recursion cycle on the request path is tabled with its termination argument (a fatal stack overflow cannot be recovered by the handler)", 1)
	index := map[*ssa.Function]int{}
	low := map[*ssa.Function]int{}
	on := map[*ssa.Function]bool{}
	var stack []*ssa.Function
	next := 0
	inSet := map[*ssa.Function]bool{}
	for _, f := range funcs {
		inSet[f] = true
	}
	succ := func(f *ssa.Function) []*ssa.Function {
		var out []*ssa.Function
		for _, b := range f.Blocks {
			for _, in := range b.Instrs {
				if call, ok := in.(ssa.CallInstruction); ok {
					repo, _, dyn := p.callees(call)
					if dyn && !call.Common().IsInvoke() {
						continue // function values: closures do not recurse into their creators here
					}
					for _, g := range repo {
						if inSet[g] {
							out = append(out, g)
						}
					}
				}
			}
		}
		return out
	}
	var sccs [][]*ssa.Function
	var strong func(f *ssa.Function)
	strong = func(f *ssa.Function) {
		index[f], low[f] = next, next
		next++
		stack = append(stack, f)
		on[f] = true
		self := false
		for _, g := range succ(f) {
			if g == f {
				self = true
			}
			if _, seen := index[g]; !seen {
				strong(g)
				if low[g] < low[f] {
					low[f] = low[g]
				}
			} else if on[g] && index[g] < low[f] {
				low[f] = index[g]
			}
		}
		if low[f] == index[f] {
			var comp []*ssa.Function
			for {
				g := stack[len(stack)-1]
				stack = stack[:len(stack)-1]
				on[g] = false
				comp = append(comp, g)
				if g == f {
					break
				}
			}
			if len(comp) > 1 || self {
				sccs = append(sccs, comp)
			}
		}
	}
	for _, f := range funcs {
		if _, seen := index[f]; !seen {
			strong(f)
		}
	}
	for _, comp := range sccs {
		var names []string
		for _, f := range comp {
			names = append(names, funcKey(f))
		}
		sort.Strings(names)
		key := strings.Join(names, ",")
		reason, ok := recTable[key]
		c.Decide(ok, "REC", names[0], "cycle:"+key, p.fpos(comp[0]), map[bool]string{true: reason, false: "recursion cycle " + key + " is not in the table of confirmed cycles (termination unconfirmed)"}[ok])
	}
}

// ---------------------------------------------------------------------------
// ND-5: struct decoding with order-dependent key resolution

// ruleND5: mapstructure v1.1.2 resolves the key of a struct field, when there is no exact match, by ranging over the
// source map and taking the first key that is equal under case folding (decodeStructFromMap). The repository's structs
// carry json tags only, so every field of every decoded struct is resolved that way.
func ruleND5(p *Program, c *Check, funcs []*ssa.Function) {
	c.Rule("ND-5", "no request object is decoded into a struct by a decoder that resolves keys by ranging over a Go map "+
		"(mapstructure.Decode with its default configuration: two keys that differ only in letter case are resolved by map iteration order)", 1)
	for _, f := range funcs {
		for _, b := range f.Blocks {
			for _, in := range b.Instrs {
				call, ok := in.(ssa.CallInstruction)
				if !ok {
					continue
				}
				g := call.Common().StaticCallee()
				if g == nil || g.Pkg == nil || g.Pkg.Pkg.Path() != "github.com/mitchellh/mapstructure" {
					continue
				}
				switch g.Name() {
				case "Decode", "WeakDecode", "DecodeMetadata":
					if guardedByKeyCheck(call, b) {
						c.Pass("ND-5", funcKey(f), "extcall:mapstructure."+g.Name(), p.ipos(in),
							"the same source value is first handed to utils.rejectAmbiguousKeys (compared with its reference): objects with case-variant keys never reach the decoder")
						continue
					}
					c.Fail("ND-5", funcKey(f), "extcall:mapstructure."+g.Name(), p.ipos(in),
						"struct fields are matched to request keys case-insensitively by ranging over the request map: "+
							"with two case-variant keys in one object the winner changes from call to call")
				default:
					c.Pass("ND-5", funcKey(f), "extcall:mapstructure."+g.Name(), p.ipos(in), "not a default-configured decode")
				}
			}
		}
	}
}

// guardedByKeyCheck: a call of the repository's ambiguity check on the same source value dominates the decode call.
func guardedByKeyCheck(decode ssa.CallInstruction, b *ssa.BasicBlock) bool {
	if len(decode.Common().Args) == 0 {
		return false
	}
	src := decode.Common().Args[0]
	isCheck := func(in ssa.Instruction) bool {
		call, ok := in.(ssa.CallInstruction)
		if !ok {
			return false
		}
		g := call.Common().StaticCallee()
		return g != nil && g.Blocks != nil && funcKey(g) == "utils.rejectAmbiguousKeys" && len(call.Common().Args) > 0 && call.Common().Args[0] == src
	}
	for _, in := range b.Instrs {
		if in == decode.(ssa.Instruction) {
			break
		}
		if isCheck(in) {
			return true
		}
	}
	for d := b.Idom(); d != nil; d = d.Idom() {
		for _, in := range d.Instrs {
			if isCheck(in) {
				return true
			}
		}
	}
	return false
}

// ---------------------------------------------------------------------------
// VAL-1: validation must not depend on a random draw

// ruleVAL1: Bias.Apply is the only place where a bias parses and validates its props. If the call is control dependent on
// a comparison with a drawn value, an invalid props object is rejected or answered with a ranking depending on the draw.
func ruleVAL1(p *Program, c *Check, funcs []*ssa.Function) {
	c.Rule("VAL-1", "the call that validates the props of an enabled bias (Bias.Apply) is not control dependent on a random draw: "+
		"a constraint violation must be rejected whether or not the bias happens to be applied", 1)
	dependsOnDraw := func(v ssa.Value) bool {
		seen := map[ssa.Value]bool{}
		var rec func(v ssa.Value, d int) bool
		rec = func(v ssa.Value, d int) bool {
			if v == nil || seen[v] || d > 12 {
				return false
			}
			seen[v] = true
			if call, ok := v.(*ssa.Call); ok {
				cm := call.Common()
				if !cm.IsInvoke() && cm.StaticCallee() == nil && isValueGeneratorSig(cm.Value.Type()) {
					return true
				}
			}
			if in, ok := v.(ssa.Instruction); ok {
				for _, op := range in.Operands(nil) {
					if op != nil && *op != nil && rec(*op, d+1) {
						return true
					}
				}
			}
			return false
		}
		return rec(v, 0)
	}
	for _, f := range funcs {
		for _, b := range f.Blocks {
			for _, in := range b.Instrs {
				call, ok := in.(*ssa.Call)
				if !ok || !call.Common().IsInvoke() || call.Common().Method.Name() != "Apply" {
					continue
				}
				if n := namedOf(call.Common().Value.Type()); n == nil || n.Obj().Name() != "Bias" {
					continue
				}
				problem := ""
				for d := b.Idom(); d != nil; d = d.Idom() {
					ifi, ok := d.Instrs[len(d.Instrs)-1].(*ssa.If)
					if !ok || len(d.Succs) != 2 {
						continue
					}
					through0 := d.Succs[0] == b || d.Succs[0].Dominates(b)
					through1 := d.Succs[1] == b || d.Succs[1].Dominates(b)
					if through0 != through1 && dependsOnDraw(ifi.Cond) {
						problem = "the call is reached only when the comparison at " + p.ipos(ifi) + " with a drawn value succeeds: the props of a bias that is not applied are never parsed"
						break
					}
				}
				c.Decide(problem == "", "VAL-1", funcKey(f), "invoke:Bias.Apply", p.ipos(in), problem)
			}
		}
	}
}
