package main

// E5-types: the exported fields (name, type, struct tag) of every struct type that has a reference
// declaration `type Spec_T struct{...}` in the overlay equal the reference. Field order and unexported
// fields are not compared (they are invisible to encoding/json and mapstructure).

import (
	"fmt"
	"go/types"
	"sort"
	"strings"
)

func exportedFields(st *types.Struct) map[string]string {
	out := map[string]string{}
	for i := 0; i < st.NumFields(); i++ {
		f := st.Field(i)
		if !f.Exported() {
			continue
		}
		ty := types.TypeString(f.Type(), func(p *types.Package) string { return p.Name() })
		ty = strings.ReplaceAll(ty, specPrefix, "")
		emb := ""
		if f.Embedded() {
			emb = " (embedded)"
		}
		out[f.Name()] = ty + emb + " `" + st.Tag(i) + "`"
	}
	return out
}

func ruleTypes(p *Program, c *Check) {
	rule := "E5-types"
	for _, pk := range p.Pkgs {
		if isTestUtils(pk.PkgPath) {
			continue
		}
		sc := pk.Types.Scope()
		names := sc.Names()
		sort.Strings(names)
		for _, n := range names {
			if !strings.HasPrefix(n, specPrefix) {
				continue
			}
			tn, ok := sc.Lookup(n).(*types.TypeName)
			if !ok {
				continue
			}
			sst, ok := tn.Type().Underlying().(*types.Struct)
			if !ok {
				continue
			}
			target := strings.TrimPrefix(n, specPrefix)
			key := "type:" + pk.Types.Name() + "." + target
			if !anchoredIn(c.Property, key) && !c.usedTypes[key] {
				continue
			}
			c.Rule(rule, "the exported fields (name, type, struct tag) of every anchored struct type equal its reference declaration "+
				"(they are what encoding/json writes and what mapstructure decodes into)", 1)
			obj, ok := sc.Lookup(target).(*types.TypeName)
			if !ok {
				c.Pass(rule, key, "fields", "?", "type no longer exists under this name (not compared)")
				continue
			}
			cst, ok := obj.Type().Underlying().(*types.Struct)
			if !ok {
				c.Fail(rule, key, "fields", p.pos(obj.Pos()), "no longer a struct type")
				continue
			}
			want, have := exportedFields(sst), exportedFields(cst)
			var diffs []string
			for f, w := range want {
				if h, ok := have[f]; !ok {
					diffs = append(diffs, "field "+f+" is missing")
				} else if h != w {
					diffs = append(diffs, fmt.Sprintf("field %s is %s, the reference declares %s", f, h, w))
				}
			}
			for f := range have {
				if _, ok := want[f]; !ok {
					diffs = append(diffs, "additional exported field "+f+" "+have[f])
				}
			}
			sort.Strings(diffs)
			c.Decide(len(diffs) == 0, rule, key, "fields", p.pos(obj.Pos()), strings.Join(diffs, "; "))
			// custom codecs replace the field-by-field encoding altogether (also when promoted from an embedded field)
			var codecs []string
			for _, t := range []types.Type{obj.Type(), types.NewPointer(obj.Type())} {
				ms := types.NewMethodSet(t)
				for i := 0; i < ms.Len(); i++ {
					switch m := ms.At(i).Obj().Name(); m {
					case "MarshalJSON", "UnmarshalJSON", "MarshalText", "UnmarshalText":
						codecs = append(codecs, m)
					}
				}
			}
			sort.Strings(codecs)
			var wantCodecs []string
			for _, t := range []types.Type{tn.Type(), types.NewPointer(tn.Type())} {
				ms := types.NewMethodSet(t)
				for i := 0; i < ms.Len(); i++ {
					switch m := ms.At(i).Obj().Name(); m {
					case "MarshalJSON", "UnmarshalJSON", "MarshalText", "UnmarshalText":
						wantCodecs = append(wantCodecs, m)
					}
				}
			}
			sort.Strings(wantCodecs)
			c.Decide(strings.Join(dedup(codecs), ",") == strings.Join(dedup(wantCodecs), ","), rule, key, "codec-methods", p.pos(obj.Pos()),
				fmt.Sprintf("the type has the custom encoding methods [%s] (own or promoted from an embedded field), the reference declares [%s]: "+
					"encoding/json then no longer writes the fields the reference describes", strings.Join(dedup(codecs), ","), strings.Join(dedup(wantCodecs), ",")))
		}
	}
}

func dedup(in []string) []string {
	var out []string
	for i, s := range in {
		if i == 0 || s != in[i-1] {
			out = append(out, s)
		}
	}
	return out
}
