package main

// Roots: where does the memory a value refers to come from? Used by the
// ownership (E2) and shared-state (E3) rules.

import (
	"go/token"
	"go/types"

	"golang.org/x/tools/go/ssa"
)

type RootKind int

const (
	RFresh   RootKind = iota // allocated in this activation (Alloc, make, composite literal, closure)
	RGlobal                  // package-level variable
	RParam                   // function parameter (incl. receiver)
	RFreeVar                 // captured variable
	RCall                    // result of a call
	RConst                   // constant / nil / no memory
	RUnknown                 // anything else
)

type Root struct {
	Kind  RootKind
	V     ssa.Value // the root value
	Deref int       // number of loads between the root and the value (0 = the value is the root / an address computed from it)
	Path  string    // access path from the root, e.g. ".ConsideredAlternatives[]"
}

func (k RootKind) String() string {
	return [...]string{"fresh", "global", "param", "freevar", "call", "const", "unknown"}[k]
}

// rootsOf walks def chains through address arithmetic, loads, views and
// conversions. Loads increase Deref: the value was *read from* memory
// reachable from the root.
func rootsOf(v ssa.Value) []Root {
	seen := map[ssa.Value]bool{}
	var out []Root
	var walk func(v ssa.Value, deref int, path string)
	walk = func(v ssa.Value, deref int, path string) {
		if v == nil {
			return
		}
		if seen[v] {
			return
		}
		seen[v] = true
		switch x := v.(type) {
		case *ssa.Alloc:
			out = append(out, Root{RFresh, x, deref, path})
		case *ssa.MakeMap, *ssa.MakeSlice, *ssa.MakeChan, *ssa.MakeClosure:
			out = append(out, Root{RFresh, x, deref, path})
		case *ssa.Global:
			out = append(out, Root{RGlobal, x, deref, path})
		case *ssa.Parameter:
			out = append(out, Root{RParam, x, deref, path})
		case *ssa.FreeVar:
			out = append(out, Root{RFreeVar, x, deref, path})
		case *ssa.Const, *ssa.Function, *ssa.Builtin:
			out = append(out, Root{RConst, x, deref, path})
		case *ssa.FieldAddr:
			walk(x.X, deref, "."+fieldName(x.X.Type(), x.Field)+path)
		case *ssa.Field:
			walk(x.X, deref, "."+fieldName(x.X.Type(), x.Field)+path)
		case *ssa.IndexAddr:
			walk(x.X, deref, "[]"+path)
		case *ssa.Index:
			walk(x.X, deref, "[]"+path)
		case *ssa.Lookup:
			walk(x.X, deref+1, "[k]"+path)
		case *ssa.Slice:
			walk(x.X, deref, path)
		case *ssa.UnOp:
			if x.Op == token.MUL {
				walk(x.X, deref+1, "*"+path)
			} else {
				out = append(out, Root{RConst, x, deref, path})
			}
		case *ssa.ChangeType:
			walk(x.X, deref, path)
		case *ssa.Convert:
			walk(x.X, deref, path)
		case *ssa.ChangeInterface:
			walk(x.X, deref, path)
		case *ssa.MakeInterface:
			walk(x.X, deref, path)
		case *ssa.TypeAssert:
			walk(x.X, deref, path)
		case *ssa.SliceToArrayPointer:
			walk(x.X, deref, path)
		case *ssa.Extract:
			walk(x.Tuple, deref, path)
		case *ssa.Next:
			walk(x.Iter, deref+1, "[range]"+path)
		case *ssa.Range:
			walk(x.X, deref, path)
		case *ssa.Phi:
			for _, e := range x.Edges {
				walk(e, deref, path)
			}
		case *ssa.Call:
			if b, ok := x.Call.Value.(*ssa.Builtin); ok && b.Name() == "append" {
				// result may be the base (spare capacity) or fresh
				walk(x.Call.Args[0], deref, path)
				out = append(out, Root{RFresh, x, deref, path})
				return
			}
			out = append(out, Root{RCall, x, deref, path})
		case *ssa.BinOp:
			out = append(out, Root{RConst, x, deref, path})
		default:
			out = append(out, Root{RUnknown, v, deref, path})
		}
	}
	walk(v, 0, "")
	return out
}

func fieldName(t types.Type, i int) string {
	if p, ok := t.Underlying().(*types.Pointer); ok {
		t = p.Elem()
	}
	if s, ok := t.Underlying().(*types.Struct); ok && i < s.NumFields() {
		return s.Field(i).Name()
	}
	return "?"
}

// namedOf strips pointers and returns the named type, if any.
func namedOf(t types.Type) *types.Named {
	for {
		switch x := t.(type) {
		case *types.Pointer:
			t = x.Elem()
			continue
		case *types.Named:
			return x
		case *types.Alias:
			t = types.Unalias(x)
			continue
		}
		return nil
	}
}

func typeKey(t types.Type) string {
	if n := namedOf(t); n != nil && n.Obj().Pkg() != nil {
		return n.Obj().Pkg().Name() + "." + n.Obj().Name()
	}
	return t.String()
}

// hasRefs: does a type contain pointers/slices/maps/chans/funcs/interfaces?
func hasRefs(t types.Type) bool {
	seen := map[types.Type]bool{}
	var rec func(t types.Type) bool
	rec = func(t types.Type) bool {
		if seen[t] {
			return false
		}
		seen[t] = true
		switch u := t.Underlying().(type) {
		case *types.Basic:
			return u.Kind() == types.UnsafePointer
		case *types.Pointer, *types.Slice, *types.Map, *types.Chan, *types.Signature, *types.Interface:
			return true
		case *types.Array:
			return rec(u.Elem())
		case *types.Struct:
			for i := 0; i < u.NumFields(); i++ {
				if rec(u.Field(i).Type()) {
					return true
				}
			}
			return false
		case *types.Tuple:
			for i := 0; i < u.Len(); i++ {
				if rec(u.At(i).Type()) {
					return true
				}
			}
			return false
		}
		return true
	}
	return rec(t)
}

// zeroSize: struct without fields (nothing can be stored in it).
func zeroSize(t types.Type) bool {
	if p, ok := t.Underlying().(*types.Pointer); ok {
		t = p.Elem()
	}
	s, ok := t.Underlying().(*types.Struct)
	return ok && s.NumFields() == 0
}
