package main

// E1 — program model: loading of /repo (lib + httpClient/main.go wired to the
// current /repo/lib through a generated modfile), SSA construction,
// reachability from the entry points, and lookup helpers used by all rules.

import (
	"fmt"
	"go/ast"
	"go/parser"
	"go/token"
	"go/types"
	"os"
	"path/filepath"
	"sort"
	"strings"

	"golang.org/x/tools/go/packages"
	"golang.org/x/tools/go/ssa"
	"golang.org/x/tools/go/ssa/ssautil"
)

const libMod = "github.com/Azbesciak/RealDecisionMaker/lib"

type Program struct {
	RepoRoot string
	Fset     *token.FileSet
	Pkgs     []*packages.Package // repository packages (lib/... and main)
	SSA      *ssa.Program
	SSAPkgs  map[string]*ssa.Package // by package path
	Main     *ssa.Package            // httpClient main (nil when not loaded)
	// all repository functions with bodies (incl. anonymous), excluding lib/testUtils
	Funcs []*ssa.Function
	// functions defined in the spec overlay (reference implementations used by E5)
	SpecFuncs []*ssa.Function
	// reachability
	RPLib      map[*ssa.Function]bool // from MakeDecision / FetchParameters
	RPHttp     map[*ssa.Function]bool // from decideHandler/functionsHandler (+ RPLib)
	Inits      map[*ssa.Function]bool // package initialisers and what only they reach
	Overlay    map[string][]byte
	SpecByName bool     // fixtures: reference implementations are recognised by their Spec_ name, not by the overlay file
	Drifted    []string // reference functions dropped because they no longer type-check
	specIndex  map[string]*ssa.Function
	panicMemo  map[*ssa.Function]int // 0 unknown, 1 in progress, 2 no, 3 yes
	constUse   map[string]map[string]bool
	codeIndex  map[string]*ssa.Function
}

func repoEnv() []string {
	env := os.Environ()
	out := env[:0:0]
	for _, e := range env {
		if strings.HasPrefix(e, "GOFLAGS=") || strings.HasPrefix(e, "GOWORK=") || strings.HasPrefix(e, "GOPROXY=") ||
			strings.HasPrefix(e, "GOSUMDB=") || strings.HasPrefix(e, "GOTOOLCHAIN=") {
			continue
		}
		out = append(out, e)
	}
	return append(out, "GOFLAGS=-mod=mod", "GOWORK=off", "GOPROXY=off", "GOSUMDB=off", "GOTOOLCHAIN=local")
}

// prepareModfile writes work/httpClient.mod (+ .sum): httpClient/go.mod with a
// replace of the lib module by the working tree.
func prepareModfile(repo, work string) (string, error) {
	src := filepath.Join(repo, "httpClient", "go.mod")
	b, err := os.ReadFile(src)
	if err != nil {
		return "", err
	}
	if err := os.MkdirAll(work, 0o755); err != nil {
		return "", err
	}
	mod := filepath.Join(work, fmt.Sprintf("httpClient.%d.mod", os.Getpid()))
	content := string(b) + "\nreplace " + libMod + " => " + filepath.Join(repo, "lib") + "\n"
	if err := os.WriteFile(mod, []byte(content), 0o644); err != nil {
		return "", err
	}
	sum, err := os.ReadFile(filepath.Join(repo, "httpClient", "go.sum"))
	if err != nil {
		return "", err
	}
	if err := os.WriteFile(strings.TrimSuffix(mod, ".mod")+".sum", sum, 0o644); err != nil {
		return "", err
	}
	return mod, nil
}

// specOverlay maps /verif/spec/<dir>/<name>.go to <repo>/<dir>/zz_verifspec_<name>.go (in memory only).
func specOverlay(repo, specDir string) (map[string][]byte, error) {
	out := map[string][]byte{}
	err := filepath.Walk(specDir, func(path string, info os.FileInfo, err error) error {
		if err != nil {
			if os.IsNotExist(err) {
				return nil
			}
			return err
		}
		if info.IsDir() || !strings.HasSuffix(path, ".go") {
			return nil
		}
		rel, _ := filepath.Rel(specDir, path)
		b, err := os.ReadFile(path)
		if err != nil {
			return err
		}
		out[filepath.Join(repo, filepath.Dir(rel), specFilePrefix+filepath.Base(rel))] = b
		return nil
	})
	return out, err
}

const specFilePrefix = "zz_verifspec_"

type LoadError struct {
	Msg    string
	Errors []packages.Error
}

func (e *LoadError) Error() string { return e.Msg }

// LoadWithSpecs loads the program with the reference implementations overlaid. Reference functions
// that no longer type-check against the working tree (the anchored code changed its interface) are
// dropped one by one and reported as drifted.
func LoadWithSpecs(repo, work string, overlay map[string][]byte) (*Program, []string, error) {
	var drifted []string
	for round := 0; round < 40; round++ {
		prog, err := LoadProgram(repo, work, overlay)
		if err == nil {
			prog.Drifted = drifted
			return prog, drifted, nil
		}
		le, ok := err.(*LoadError)
		if !ok {
			return nil, drifted, err
		}
		removed := 0
		for _, e := range le.Errors {
			file, line := splitPos(e.Pos)
			content, isSpec := overlay[file]
			if !isSpec {
				continue
			}
			name, newContent := dropFuncAt(content, line)
			if name == "" {
				continue
			}
			overlay[file] = newContent
			if os.Getenv("RDM_DEBUG") != "" {
				fmt.Fprintf(os.Stderr, "spec drop %s: %s\n", name, e.Error())
			}
			if name != "import" {
				drifted = append(drifted, name)
			}
			removed++
		}
		if removed == 0 {
			// errors outside the overlay (the repository itself does not type-check) or unresolvable
			if _, err2 := LoadProgram(repo, work, nil); err2 != nil {
				return nil, drifted, err2
			}
			return nil, drifted, err
		}
	}
	return nil, drifted, fmt.Errorf("reference implementations could not be reconciled with the working tree")
}

func splitPos(pos string) (string, int) {
	parts := strings.Split(pos, ":")
	if len(parts) < 2 {
		return pos, 0
	}
	line := 0
	fmt.Sscanf(parts[1], "%d", &line)
	return parts[0], line
}

// dropFuncAt blanks the top-level declaration (function, or var/type/const block) enclosing the line.
func dropFuncAt(content []byte, line int) (string, []byte) {
	fs := token.NewFileSet()
	f, err := parser.ParseFile(fs, "spec.go", content, parser.ParseComments)
	if err != nil {
		return "", content
	}
	for _, d := range f.Decls {
		start, end := fs.Position(d.Pos()), fs.Position(d.End())
		if line < start.Line || line > end.Line {
			continue
		}
		name := "declaration"
		if fd, ok := d.(*ast.FuncDecl); ok {
			name = fd.Name.Name
			if fd.Recv != nil && len(fd.Recv.List) > 0 {
				name = types.ExprString(fd.Recv.List[0].Type) + "." + name
			}
		} else if gd, ok := d.(*ast.GenDecl); ok {
			if gd.Tok == token.IMPORT {
				// an import that became unused because functions were dropped: blank that line only
				out := append([]byte{}, content...)
				ln, off := 1, 0
				for off < len(out) && ln < line {
					if out[off] == '\n' {
						ln++
					}
					off++
				}
				for i := off; i < len(out) && out[i] != '\n'; i++ {
					out[i] = ' '
				}
				return "import", out
			}
			for _, sp := range gd.Specs {
				if vs, ok := sp.(*ast.ValueSpec); ok && len(vs.Names) > 0 {
					name = vs.Names[0].Name
				}
			}
		}
		out := append([]byte{}, content...)
		for i := start.Offset; i < end.Offset && i < len(out); i++ {
			if out[i] != '\n' {
				out[i] = ' '
			}
		}
		return f.Name.Name + "." + name, out
	}
	return "", content
}

func LoadProgram(repo, work string, overlay map[string][]byte) (*Program, error) {
	modfile, err := prepareModfile(repo, work)
	if err != nil {
		return nil, fmt.Errorf("modfile: %v", err)
	}
	defer func() {
		os.Remove(modfile)
		os.Remove(strings.TrimSuffix(modfile, ".mod") + ".sum")
	}()
	fset := token.NewFileSet()
	cfg := &packages.Config{
		Mode: packages.NeedName | packages.NeedFiles | packages.NeedCompiledGoFiles | packages.NeedImports |
			packages.NeedTypes | packages.NeedTypesSizes | packages.NeedSyntax |
			packages.NeedTypesInfo | packages.NeedModule,
		Dir:        filepath.Join(repo, "httpClient"),
		Env:        repoEnv(),
		Fset:       fset,
		Tests:      false,
		BuildFlags: []string{"-modfile=" + modfile},
		Overlay:    overlay,
	}
	initial, err := packages.Load(cfg, ".", libMod+"/...")
	if err != nil {
		return nil, err
	}
	if len(initial) == 0 {
		return nil, fmt.Errorf("no packages loaded")
	}
	var errs []string
	var perrs []packages.Error
	packages.Visit(initial, nil, func(p *packages.Package) {
		for _, e := range p.Errors {
			errs = append(errs, p.PkgPath+": "+e.Error())
			perrs = append(perrs, e)
		}
	})
	if len(errs) > 0 {
		return nil, &LoadError{Msg: fmt.Sprintf("load/type errors:\n  %s", strings.Join(errs, "\n  ")), Errors: perrs}
	}
	p := &Program{RepoRoot: repo, Fset: fset, SSAPkgs: map[string]*ssa.Package{}, Overlay: overlay}
	// collect all repository packages (initial + lib packages reached as deps)
	seen := map[string]bool{}
	var repoPkgs []*packages.Package
	packages.Visit(initial, nil, func(pk *packages.Package) {
		if seen[pk.PkgPath] {
			return
		}
		seen[pk.PkgPath] = true
		if pk.PkgPath == libMod || strings.HasPrefix(pk.PkgPath, libMod+"/") || pk.Name == "main" && strings.HasSuffix(pk.PkgPath, "httpClient") {
			if len(pk.GoFiles) == 0 {
				return // test-only package (lib/client)
			}
			repoPkgs = append(repoPkgs, pk)
		}
	})
	sort.Slice(repoPkgs, func(i, j int) bool { return repoPkgs[i].PkgPath < repoPkgs[j].PkgPath })
	for _, pk := range repoPkgs {
		if len(pk.Syntax) == 0 {
			return nil, fmt.Errorf("package %s loaded without syntax", pk.PkgPath)
		}
		// the working tree must be what is analysed, not a module-cache copy
		for _, f := range pk.GoFiles {
			if _, isOverlay := overlay[f]; isOverlay {
				continue
			}
			if !strings.HasPrefix(f, repo+string(filepath.Separator)) {
				return nil, fmt.Errorf("package %s file %s is outside %s", pk.PkgPath, f, repo)
			}
		}
	}
	p.Pkgs = repoPkgs
	prog, _ := ssautil.Packages(repoPkgs, ssa.InstantiateGenerics)
	prog.Build()
	p.SSA = prog
	for _, pk := range repoPkgs {
		sp := prog.Package(pk.Types)
		if sp == nil {
			return nil, fmt.Errorf("no SSA package for %s", pk.PkgPath)
		}
		p.SSAPkgs[pk.PkgPath] = sp
		if pk.Name == "main" {
			p.Main = sp
		}
	}
	p.collectFuncs()
	p.computeReachability()
	return p, nil
}

// normKey: function key modulo pointer/value receiver.
func normKey(key string) string { return strings.Replace(key, "(*", "(", 1) }

// specFor: the reference implementation of the repository function with this key (nil if none).
func (p *Program) specFor(key string) *ssa.Function {
	if p.specIndex == nil {
		p.specIndex = map[string]*ssa.Function{}
		for _, sf := range p.SpecFuncs {
			if sf.Parent() == nil && sf.Synthetic == "" && strings.Contains(sf.Name(), specPrefix) {
				p.specIndex[normKey(strings.Replace(funcKey(sf), specPrefix, "", 1))] = sf
			}
		}
	}
	return p.specIndex[normKey(key)]
}

// codeFor: the repository function a reference implementation describes (nil if it no longer exists).
func (p *Program) codeFor(spec *ssa.Function) *ssa.Function {
	want := normKey(strings.Replace(funcKey(spec), specPrefix, "", 1))
	if p.codeIndex == nil {
		p.codeIndex = map[string]*ssa.Function{}
		for _, f := range p.Funcs {
			if f.Parent() == nil && f.Synthetic == "" {
				p.codeIndex[normKey(funcKey(f))] = f
			}
		}
	}
	return p.codeIndex[want]
}

// codeByNormKey: repository function by key modulo pointer receiver.
func (p *Program) codeByNormKey(key string) *ssa.Function {
	if p.codeIndex == nil {
		p.codeIndex = map[string]*ssa.Function{}
		for _, f := range p.Funcs {
			if f.Parent() == nil && f.Synthetic == "" {
				p.codeIndex[normKey(funcKey(f))] = f
			}
		}
	}
	return p.codeIndex[normKey(key)]
}

// sameInterface: identical parameter and result types (receivers compared modulo pointer).
func sameInterface(a, b *ssa.Function) bool {
	sa, sb := a.Signature, b.Signature
	if (sa.Recv() == nil) != (sb.Recv() == nil) {
		return false
	}
	if sa.Recv() != nil && !types.Identical(derefType(sa.Recv().Type()), derefType(sb.Recv().Type())) {
		return false
	}
	return types.Identical(sa.Params(), sb.Params()) && types.Identical(sa.Results(), sb.Results()) && sa.Variadic() == sb.Variadic()
}

// paired: the function has a counterpart with the same interface on the other side of the comparison
// (then calls to it are compared by identity, and the pair is an obligation of its own).
func (p *Program) paired(f *ssa.Function) bool {
	if p.isSpec(f) {
		c := p.codeFor(f)
		return c != nil && sameInterface(c, f)
	}
	sp := p.specFor(funcKey(f))
	return sp != nil && sameInterface(f, sp)
}

// isSpec: the function (or its enclosing function) is defined in a spec overlay file.
func (p *Program) isSpec(f *ssa.Function) bool {
	if p.SpecByName {
		for g := f; g != nil; g = g.Parent() {
			if strings.HasPrefix(g.Name(), specPrefix) {
				return true
			}
		}
		return false
	}
	for g := f; g != nil; g = g.Parent() {
		pos := g.Pos()
		if !pos.IsValid() && g.Syntax() != nil {
			pos = g.Syntax().Pos()
		}
		if pos.IsValid() && strings.HasPrefix(filepath.Base(p.Fset.Position(pos).Filename), specFilePrefix) {
			return true
		}
	}
	return false
}

func (p *Program) isRepoPkg(pkg *ssa.Package) bool {
	if pkg == nil {
		return false
	}
	_, ok := p.SSAPkgs[pkg.Pkg.Path()]
	return ok
}

func isTestUtils(path string) bool { return strings.HasSuffix(path, "/lib/testUtils") }

func (p *Program) collectFuncs() {
	all := ssautil.AllFunctions(p.SSA)
	for f := range all {
		if f.Blocks == nil {
			continue
		}
		pk := f.Package()
		if pk == nil && f.Parent() != nil {
			pk = f.Parent().Package()
		}
		if pk == nil {
			// synthetic wrappers (bound methods, thunks): keep if their object is in the repo
			if f.Object() != nil && f.Object().Pkg() != nil {
				if sp, ok := p.SSAPkgs[f.Object().Pkg().Path()]; ok {
					pk = sp
				}
			}
		}
		if pk == nil || !p.isRepoPkg(pk) || isTestUtils(pk.Pkg.Path()) {
			continue
		}
		if p.isSpec(f) {
			p.SpecFuncs = append(p.SpecFuncs, f)
			continue
		}
		p.Funcs = append(p.Funcs, f)
	}
	sort.Slice(p.SpecFuncs, func(i, j int) bool { return funcKey(p.SpecFuncs[i]) < funcKey(p.SpecFuncs[j]) })
	sort.Slice(p.Funcs, func(i, j int) bool { return funcKey(p.Funcs[i]) < funcKey(p.Funcs[j]) })
}

// funcKey is a position-independent name: pkgname.(Recv).Name or pkgname.Name$N for closures.
func funcKey(f *ssa.Function) string {
	if f == nil {
		return "<nil>"
	}
	if f.Parent() != nil {
		return funcKey(f.Parent()) + "$" + strings.TrimPrefix(f.Name(), f.Parent().Name()+"$")
	}
	pk := ""
	if f.Pkg != nil {
		pk = f.Pkg.Pkg.Name()
	} else if f.Object() != nil && f.Object().Pkg() != nil {
		pk = f.Object().Pkg().Name()
	}
	if recv := f.Signature.Recv(); recv != nil {
		t := recv.Type()
		ptr := ""
		if pt, ok := t.(*types.Pointer); ok {
			t = pt.Elem()
			ptr = "*"
		}
		name := t.String()
		if n, ok := t.(*types.Named); ok {
			name = n.Obj().Name()
		}
		return pk + ".(" + ptr + name + ")." + f.Name()
	}
	return pk + "." + f.Name()
}

// Func finds a repository function by its key (see funcKey); nil if absent.
func (p *Program) Func(key string) *ssa.Function {
	for _, f := range p.Funcs {
		if funcKey(f) == key {
			return f
		}
	}
	return nil
}

func (p *Program) MustFunc(key string) (*ssa.Function, error) {
	if f := p.Func(key); f != nil {
		return f, nil
	}
	return nil, fmt.Errorf("anchor %q does not resolve", key)
}

func (p *Program) pos(pos token.Pos) string {
	if !pos.IsValid() {
		return "?"
	}
	ps := p.Fset.Position(pos)
	rel, err := filepath.Rel(p.RepoRoot, ps.Filename)
	if err != nil {
		rel = ps.Filename
	}
	return fmt.Sprintf("%s:%d", rel, ps.Line)
}

func (p *Program) fpos(f *ssa.Function) string {
	if f == nil {
		return "?"
	}
	if f.Pos().IsValid() {
		return p.pos(f.Pos())
	}
	if f.Syntax() != nil {
		return p.pos(f.Syntax().Pos())
	}
	return "?"
}

// instrPos gives the best source position for an instruction.
func (p *Program) ipos(in ssa.Instruction) string {
	if in.Pos().IsValid() {
		return p.pos(in.Pos())
	}
	// fall back to operands / block neighbours
	if b := in.Block(); b != nil {
		for _, o := range b.Instrs {
			if o.Pos().IsValid() {
				return p.pos(o.Pos()) + "~"
			}
		}
		return p.fpos(b.Parent()) + "~"
	}
	return "?"
}

// ---------------------------------------------------------------------------
// Reachability (closed world over repository functions).

// implementations of an interface method among repository named types
func (p *Program) implementers(iface *types.Interface, method *types.Func) []*ssa.Function {
	var out []*ssa.Function
	for _, pk := range p.Pkgs {
		if isTestUtils(pk.PkgPath) {
			continue
		}
		scope := pk.Types.Scope()
		for _, name := range scope.Names() {
			tn, ok := scope.Lookup(name).(*types.TypeName)
			if !ok || tn.IsAlias() {
				continue
			}
			named, ok := tn.Type().(*types.Named)
			if !ok {
				continue
			}
			if _, isIface := named.Underlying().(*types.Interface); isIface {
				continue
			}
			for _, t := range []types.Type{named, types.NewPointer(named)} {
				if !types.Implements(t, iface) {
					continue
				}
				sel := p.SSA.MethodSets.MethodSet(t).Lookup(method.Pkg(), method.Name())
				if sel == nil {
					continue
				}
				if fn := p.SSA.MethodValue(sel); fn != nil {
					out = append(out, fn)
				}
				break
			}
		}
	}
	return out
}

// callees resolves a call site to repository functions with bodies
// (static callee, CHA for interface invokes, address-taken functions of the
// same signature for dynamic calls) plus the external callee (if any).
func (p *Program) callees(site ssa.CallInstruction) (repo []*ssa.Function, external *ssa.Function, dynamic bool) {
	c := site.Common()
	if c.IsInvoke() {
		iface, _ := c.Value.Type().Underlying().(*types.Interface)
		if iface != nil {
			repo = append(repo, p.implementers(iface, c.Method)...)
		}
		return repo, nil, true
	}
	if fn := c.StaticCallee(); fn != nil {
		if fn.Blocks != nil && p.inRepo(fn) {
			return []*ssa.Function{fn}, nil, false
		}
		return nil, fn, false
	}
	if _, ok := c.Value.(*ssa.Builtin); ok {
		return nil, nil, false
	}
	// dynamic call through a function value
	sig, _ := c.Value.Type().Underlying().(*types.Signature)
	for _, f := range p.addressTaken() {
		if sig != nil && types.Identical(f.Signature, sig) {
			repo = append(repo, f)
		} else if sig != nil && f.Signature.Recv() == nil && sameParamsResults(f.Signature, sig) {
			repo = append(repo, f)
		}
	}
	return repo, nil, true
}

func sameParamsResults(a, b *types.Signature) bool {
	return types.Identical(a.Params(), b.Params()) && types.Identical(a.Results(), b.Results()) && a.Variadic() == b.Variadic()
}

func (p *Program) inRepo(f *ssa.Function) bool {
	if p.isSpec(f) {
		return false
	}
	for g := f; g != nil; g = g.Parent() {
		if g.Pkg != nil {
			return p.isRepoPkg(g.Pkg) && !isTestUtils(g.Pkg.Pkg.Path())
		}
	}
	if f.Object() != nil && f.Object().Pkg() != nil {
		_, ok := p.SSAPkgs[f.Object().Pkg().Path()]
		return ok && !isTestUtils(f.Object().Pkg().Path())
	}
	return false
}

var addrTakenCache []*ssa.Function
var addrTakenFor *Program

// addressTaken: repository functions used as values (closures, function
// values stored in fields/vars/args).
func (p *Program) addressTaken() []*ssa.Function {
	if addrTakenFor == p {
		return addrTakenCache
	}
	set := map[*ssa.Function]bool{}
	for _, f := range p.Funcs {
		for _, b := range f.Blocks {
			for _, in := range b.Instrs {
				if mc, ok := in.(*ssa.MakeClosure); ok {
					if fn, ok := mc.Fn.(*ssa.Function); ok {
						set[fn] = true
					}
				}
				ops := in.Operands(nil)
				for i, op := range ops {
					if op == nil || *op == nil {
						continue
					}
					fn, ok := (*op).(*ssa.Function)
					if !ok {
						continue
					}
					if call, isCall := in.(ssa.CallInstruction); isCall && i == 0 && call.Common().Value == fn {
						continue // callee position
					}
					set[fn] = true
				}
			}
		}
	}
	var out []*ssa.Function
	for f := range set {
		if f.Blocks != nil && p.inRepo(f) {
			out = append(out, f)
		}
	}
	sort.Slice(out, func(i, j int) bool { return funcKey(out[i]) < funcKey(out[j]) })
	addrTakenCache, addrTakenFor = out, p
	return out
}

func (p *Program) reach(roots []*ssa.Function) map[*ssa.Function]bool {
	seen := map[*ssa.Function]bool{}
	var work []*ssa.Function
	push := func(f *ssa.Function) {
		if f != nil && f.Blocks != nil && !seen[f] && p.inRepo(f) {
			seen[f] = true
			work = append(work, f)
		}
	}
	for _, r := range roots {
		push(r)
	}
	for len(work) > 0 {
		f := work[len(work)-1]
		work = work[:len(work)-1]
		for _, b := range f.Blocks {
			for _, in := range b.Instrs {
				switch x := in.(type) {
				case ssa.CallInstruction:
					repo, _, _ := p.callees(x)
					for _, g := range repo {
						push(g)
					}
				}
				// function values and closures created here may be called by external code (sort.Slice, once.Do)
				if mc, ok := in.(*ssa.MakeClosure); ok {
					if fn, ok := mc.Fn.(*ssa.Function); ok {
						push(fn)
					}
				}
				for _, op := range in.Operands(nil) {
					if op != nil && *op != nil {
						if fn, ok := (*op).(*ssa.Function); ok {
							push(fn)
						}
					}
				}
				// a concrete value converted to an interface and handed to external code
				// (sort.Sort(&x)): its methods may be called back
				if mi, ok := in.(*ssa.MakeInterface); ok {
					ms := p.SSA.MethodSets.MethodSet(mi.X.Type())
					for i := 0; i < ms.Len(); i++ {
						if fn := p.SSA.MethodValue(ms.At(i)); fn != nil && p.escapesToExternal(mi) {
							push(fn)
						}
					}
				}
			}
		}
	}
	return seen
}

// escapesToExternal: the interface value is passed directly to a call whose callee has no body in the repository.
func (p *Program) escapesToExternal(mi *ssa.MakeInterface) bool {
	if mi.Referrers() == nil {
		return false
	}
	for _, r := range *mi.Referrers() {
		if call, ok := r.(ssa.CallInstruction); ok {
			_, ext, _ := p.callees(call)
			if ext != nil {
				return true
			}
		}
	}
	return false
}

var reflectivelyCalled = map[string]bool{"MarshalJSON": true, "UnmarshalJSON": true, "MarshalText": true, "UnmarshalText": true,
	"Format": true, "GoString": true}

func (p *Program) computeReachability() {
	var libRoots, httpRoots, initRoots []*ssa.Function
	if f := p.Func("model.(*DecisionMaker).MakeDecision"); f != nil {
		libRoots = append(libRoots, f)
	}
	if f := p.Func("model.(*PreferenceFunctions).FetchParameters"); f != nil {
		libRoots = append(libRoots, f)
	}
	// String()/Error() methods are invoked by fmt through reflection when values are formatted
	for _, f := range p.Funcs {
		if f.Signature.Recv() != nil && f.Parent() == nil && (f.Name() == "String" || f.Name() == "Error") &&
			f.Signature.Params().Len() == 0 && f.Pkg != nil && f.Pkg != p.Main {
			libRoots = append(libRoots, f)
		}
		// codec and formatter methods are invoked by encoding/json, mapstructure and fmt through reflection
		if f.Signature.Recv() != nil && f.Parent() == nil && f.Pkg != nil && f.Pkg != p.Main && reflectivelyCalled[f.Name()] {
			libRoots = append(libRoots, f)
		}
	}
	p.RPLib = p.reach(libRoots)
	if p.Main != nil {
		for _, n := range []string{"decideHandler", "functionsHandler"} {
			if f := p.Main.Func(n); f != nil {
				httpRoots = append(httpRoots, f)
			}
		}
	}
	p.RPHttp = p.reach(append(httpRoots, libRoots...))
	for _, sp := range p.SSAPkgs {
		if isTestUtils(sp.Pkg.Path()) {
			continue
		}
		if f := sp.Func("init"); f != nil {
			initRoots = append(initRoots, f)
		}
	}
	p.Inits = p.reach(initRoots)
}

func sortedFuncs(m map[*ssa.Function]bool) []*ssa.Function {
	var out []*ssa.Function
	for f := range m {
		out = append(out, f)
	}
	sort.Slice(out, func(i, j int) bool { return funcKey(out[i]) < funcKey(out[j]) })
	return out
}

// pkgOf returns the short package name of a function's package.
func pkgNameOf(f *ssa.Function) string {
	for g := f; g != nil; g = g.Parent() {
		if g.Pkg != nil {
			return g.Pkg.Pkg.Name()
		}
	}
	if f.Object() != nil && f.Object().Pkg() != nil {
		return f.Object().Pkg().Name()
	}
	return ""
}

// mayPanic: the repository function contains a panic statement or statically calls (through repository functions) one that does.
func (p *Program) mayPanic(f *ssa.Function) bool {
	if p.panicMemo == nil {
		p.panicMemo = map[*ssa.Function]int{}
	}
	switch p.panicMemo[f] {
	case 1, 2:
		return false
	case 3:
		return true
	}
	p.panicMemo[f] = 1
	res := false
	var visit func(fn *ssa.Function)
	visit = func(fn *ssa.Function) {
		for _, b := range fn.Blocks {
			for _, in := range b.Instrs {
				switch x := in.(type) {
				case *ssa.Panic:
					res = true
					return
				case ssa.CallInstruction:
					if g := x.Common().StaticCallee(); g != nil && g.Blocks != nil && g != fn {
						if p.mayPanic(g) {
							res = true
							return
						}
					}
				}
			}
		}
		for _, anon := range fn.AnonFuncs {
			if !res {
				visit(anon)
			}
		}
	}
	visit(f)
	if res {
		p.panicMemo[f] = 3
	} else {
		p.panicMemo[f] = 2
	}
	return res
}
