package main

func init() {
	register("C02", checkC02)
	register("C10", checkC10)
}

func checkC02(p *Program, c *Check) {
	c.Explanation = "Determinism by exclusion: a computation with no nondeterministic input is a function of the request. " +
		"Decided statically on the SSA of every function reachable from MakeDecision/FetchParameters and the HTTP handlers: " +
		"ND-1 no clock/global-rand/os/runtime/goroutine/channel/unclassified external call; ND-2 every generator seeded from a request *Seed field; " +
		"ND-3 every map range order-insensitive (per-key writes, panic-only, or collect-then-sort at a tabled site); ND-4 comparators pure; " +
		"SHR-1/SHR-4 no request-path write to memory that outlives the request (so no dependence on earlier requests)."
	c.NotDecided = "bit-reproducibility of math.Exp/Pow across platforms (same binary assumed); encoding/json; " +
		"the byte-level encoding of the response"
	c.Assumptions = []string{
		"math/rand with a fixed seed, sort.* and encoding/json are deterministic for one binary",
	}
	funcs := p.requestPath(true)
	ruleND1(p, c, funcs)
	ruleND2(p, c, funcs)
	ruleND3(p, c, funcs)
	ruleND4(p, c, funcs)
	ruleND5(p, c, funcs)
	sh := NewSharedInfo(p)
	ruleSHR1(p, c, sh, funcs)
	ruleSHR4(p, c)
	// the constructors of the seeded generators, the handlers/registries, and the functions the tabled
	// collect-then-sort map ranges rely on are compared with their references
	ruleE5(p, c, 1)
}

func checkC10(p *Program, c *Check) {
	c.Explanation = "Race freedom by construction: if no code reachable from a handler writes memory another request can reach, there is nothing to race on. " +
		"SHR-1: every store/map update/copy/delete/in-place sort/decode/PRNG advance/sync operation in functions reachable from decideHandler and functionsHandler targets request-local memory " +
		"(may-point-to-shared analysis: globals, objects allocated by initialisers, receivers of singleton types, values loaded from them, captured variables of initialiser-created closures; " +
		"resolved interprocedurally over request-path call sites); SHR-2: factories return fresh objects and every decode target is request-local; " +
		"SHR-4: globals are assigned only by initialisers and hold no random source; ND-1: no goroutines/channels in the library; ND-2: each generator owns a source created from the request seed; ND-3/ND-4/ND-5: no dependence on map iteration order (a request has one response to be equal to)."
	c.NotDecided = "data races inside gin/net/http/log (third-party, assumed race-free); scheduler-dependent timing; that responses equal the sequential ones beyond what the exclusion argument gives"
	c.Assumptions = []string{"mapstructure.Decode writes only into its target argument", "jsonschema.Reflector.Reflect only reads the prototype value it is given"}
	funcs := p.requestPath(true)
	sh := NewSharedInfo(p)
	ruleSHR1(p, c, sh, funcs)
	ruleSHR2(p, c, sh, funcs)
	ruleSHR4(p, c)
	ruleND1(p, c, funcs)
	ruleND2(p, c, funcs)
	// "exactly the responses the same requests produce one at a time" presupposes that a request has one response
	ruleND3(p, c, funcs)
	ruleND4(p, c, funcs)
	ruleND5(p, c, funcs)
	ruleE5(p, c, 1) // factories, constructors, handlers and registries against their references
	c.Extra["shared_types"] = sortedKeys(sh.SharedTypes)
}

func sortedKeys(m map[string]bool) []string {
	var out []string
	for k := range m {
		out = append(out, k)
	}
	sortStrings(out)
	return out
}
