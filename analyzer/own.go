package main

// E2: ownership rules, decided without any reference implementation.
//
// OWN-1  no in-place write (element/field store through a pointer, map update, delete, copy-into, in-place
//        sort, in-place deletion by append(x[:i], x[i+1:]...)) on the request path targets memory that is
//        *borrowed*: loaded from a field of one of the protected state types (the request, the working
//        state handed from bias to bias, alternatives, criteria, parsed method parameters) or reachable
//        from a package-level variable. Helpers may write through their parameters when every request-path
//        call site passes memory that resolves to fresh allocations.
// OWN-2  no forked append: inside a loop, append(b, ...) with a base b that is defined outside the loop and
//        does not receive the result back (x = append(x, ...)) makes every iteration write into the same
//        spare capacity.

import (
	"fmt"
	"go/token"
	"go/types"
	"strings"

	"golang.org/x/tools/go/ssa"
)

var protectedTypes = map[string]string{
	"model.DecisionMaker":                                 "the request value",
	"model.DecisionMakingParams":                          "the working state handed from bias to bias and stored in reports",
	"model.AlternativeWithCriteria":                       "an alternative's value map is shared between states and reports",
	"model.Criterion":                                     "criteria (and their declared value ranges) are shared with the request",
	"model.WeightedCriterion":                             "ranked criteria embed request criteria",
	"model.BiasedResult":                                  "a bias result",
	"model.BiasParams":                                    "a bias entry of the request (its props are the request's own maps)",
	"weighted_sum.weightedSumParams":                      "parsed method parameters",
	"owa.owaParams":                                       "parsed method parameters",
	"choquet.choquetParams":                               "parsed method parameters",
	"electreIII.electreIIIParams":                         "parsed method parameters",
	"majority.MajorityHeuristicParams":                    "parsed method parameters",
	"aspect_elimination.AspectEliminationHeuristicParams": "parsed method parameters",
	"satisfaction.SatisfactionParameters":                 "parsed method parameters",
	"fx.State":                                            "positive control in /verif/fixtures",
}

type ownInfo struct {
	p      *Program
	sh     *SharedInfo // for the reverse call graph
	memo   map[ssa.Value]*sharedVerdict
	inprog map[ssa.Value]bool
}

func newOwnInfo(p *Program, sh *SharedInfo) *ownInfo {
	return &ownInfo{p: p, sh: sh, memo: map[ssa.Value]*sharedVerdict{}, inprog: map[ssa.Value]bool{}}
}

func isProtected(t types.Type) (string, bool) {
	if n := namedOf(t); n != nil {
		k := typeKey(n)
		_, ok := protectedTypes[k]
		return k, ok
	}
	return "", false
}

func refLike(t types.Type) bool {
	switch t.Underlying().(type) {
	case *types.Pointer, *types.Slice, *types.Map, *types.Interface:
		return true
	}
	return false
}

// borrowed: may v refer to memory owned by the request / the shared working state?
func (o *ownInfo) borrowed(v ssa.Value, depth int) (bool, string) {
	if v == nil || !hasRefs(v.Type()) {
		return false, ""
	}
	if r, ok := o.memo[v]; ok {
		return r.Shared, r.Why
	}
	if o.inprog[v] || depth > sharedDepth {
		return false, ""
	}
	o.inprog[v] = true
	defer delete(o.inprog, v)
	b, why := o.borrowedUncached(v, depth)
	if depth == 0 || b {
		o.memo[v] = &sharedVerdict{b, why}
	}
	return b, why
}

func (o *ownInfo) loadedFrom(v ssa.Value, addr ssa.Value, depth int) (bool, string) {
	// value read from memory: borrowed if the memory is, or if a reference is read out of a protected struct
	if refLike(v.Type()) {
		for _, origin := range o.addressOrigins(addr, 0) {
			var base types.Type
			var fname string
			switch a := origin.(type) {
			case *ssa.FieldAddr:
				base, fname = a.X.Type(), fieldName(a.X.Type(), a.Field)
			case *ssa.Field:
				base, fname = a.X.Type(), fieldName(a.X.Type(), a.Field)
			}
			if base != nil {
				if k, ok := isProtected(base); ok {
					return true, fmt.Sprintf("loaded from %s.%s (%s)", k, fname, protectedTypes[k])
				}
			}
		}
	}
	// a local variable holds whatever was stored into it
	var local *ssa.Alloc
	field := -1
	switch a := addr.(type) {
	case *ssa.Alloc:
		local = a
	case *ssa.FieldAddr:
		local, _ = a.X.(*ssa.Alloc)
		field = a.Field
	case *ssa.IndexAddr:
		local, _ = a.X.(*ssa.Alloc)
	}
	if local != nil {
		if b, why := o.storedIntoLocal(local, field, depth); b {
			return true, why
		}
	}
	return o.borrowed(addr, depth)
}

// addressOrigins: the address itself, or - when it is a pointer parameter - the addresses the request-path call sites pass.
func (o *ownInfo) addressOrigins(addr ssa.Value, depth int) []ssa.Value {
	prm, ok := addr.(*ssa.Parameter)
	if !ok || depth > 3 {
		return []ssa.Value{addr}
	}
	fn := prm.Parent()
	idx := -1
	for i, p := range fn.Params {
		if p == prm {
			idx = i
		}
	}
	out := []ssa.Value{addr}
	for _, cs := range o.sh.callers[fn] {
		c := cs.Instr.Common()
		var arg ssa.Value
		if c.IsInvoke() {
			if idx == 0 {
				arg = c.Value
			} else if idx-1 < len(c.Args) {
				arg = c.Args[idx-1]
			}
		} else if idx >= 0 && idx < len(c.Args) {
			arg = c.Args[idx]
		}
		if arg != nil {
			out = append(out, o.addressOrigins(arg, depth+1)...)
		}
	}
	return out
}

// storedIntoLocal: some value stored into (a field/element of) the local variable is borrowed.
func (o *ownInfo) storedIntoLocal(a *ssa.Alloc, field int, depth int) (bool, string) {
	var walk func(addr ssa.Value, d int) (bool, string)
	walk = func(addr ssa.Value, d int) (bool, string) {
		if addr.Referrers() == nil || d > 4 {
			return false, ""
		}
		for _, r := range *addr.Referrers() {
			switch x := r.(type) {
			case *ssa.Store:
				if x.Addr == addr {
					if b, why := o.borrowed(x.Val, depth+1); b {
						return true, why
					}
				}
			case *ssa.FieldAddr:
				if x.X == addr {
					if d == 0 && field >= 0 && x.Field != field {
						continue // another field of the local struct
					}
					if b, why := walk(x, d+1); b {
						return true, why
					}
				}
			case *ssa.IndexAddr:
				if x.X == addr {
					if b, why := walk(x, d+1); b {
						return true, why
					}
				}
			}
		}
		return false, ""
	}
	return walk(a, 0)
}

func (o *ownInfo) borrowedUncached(v ssa.Value, depth int) (bool, string) {
	switch x := v.(type) {
	case *ssa.Alloc, *ssa.MakeMap, *ssa.MakeSlice, *ssa.MakeChan, *ssa.MakeClosure, *ssa.Const, *ssa.Function, *ssa.Builtin:
		return false, ""
	case *ssa.Global:
		return true, "package-level variable " + x.Name()
	case *ssa.FieldAddr:
		return o.borrowed(x.X, depth)
	case *ssa.IndexAddr:
		return o.borrowed(x.X, depth)
	case *ssa.Field:
		return o.loadedFrom(x, x, depth)
	case *ssa.Index:
		return o.borrowed(x.X, depth)
	case *ssa.Lookup:
		return o.borrowed(x.X, depth)
	case *ssa.Slice:
		return o.borrowed(x.X, depth)
	case *ssa.UnOp:
		if x.Op == token.MUL {
			return o.loadedFrom(x, x.X, depth)
		}
		return false, ""
	case *ssa.ChangeType:
		return o.borrowed(x.X, depth)
	case *ssa.Convert:
		return o.borrowed(x.X, depth)
	case *ssa.ChangeInterface:
		return o.borrowed(x.X, depth)
	case *ssa.MakeInterface:
		return o.borrowed(x.X, depth)
	case *ssa.TypeAssert:
		return o.borrowed(x.X, depth)
	case *ssa.Extract:
		switch t := x.Tuple.(type) {
		case *ssa.Call:
			return o.callResult(t, x.Index, depth)
		case *ssa.Next:
			if r, ok := t.Iter.(*ssa.Range); ok {
				return o.borrowed(r.X, depth)
			}
			return false, ""
		case *ssa.TypeAssert:
			return o.borrowed(t.X, depth)
		case *ssa.Lookup:
			return o.borrowed(t.X, depth)
		}
		return o.borrowed(x.Tuple, depth)
	case *ssa.Phi:
		for _, e := range x.Edges {
			if b, why := o.borrowed(e, depth); b {
				return true, why
			}
		}
		return false, ""
	case *ssa.Call:
		return o.callResult(x, -1, depth)
	case *ssa.Parameter:
		return o.param(x, depth)
	case *ssa.FreeVar:
		fn := x.Parent()
		for i, fv := range fn.FreeVars {
			if fv != x {
				continue
			}
			for _, mc := range o.sh.closures[fn] {
				if b, why := o.borrowed(mc.Bindings[i], depth+1); b {
					return true, why
				}
			}
		}
		return false, ""
	}
	return false, ""
}

func (o *ownInfo) callResult(call *ssa.Call, index int, depth int) (bool, string) {
	if b, ok := call.Call.Value.(*ssa.Builtin); ok {
		if b.Name() == "append" {
			// the result may be the base (spare capacity)
			return o.borrowed(call.Call.Args[0], depth)
		}
		return false, ""
	}
	repo, ext, _ := o.p.callees(call)
	if ext != nil {
		return false, ""
	}
	for _, g := range repo {
		for _, b := range g.Blocks {
			ret, ok := b.Instrs[len(b.Instrs)-1].(*ssa.Return)
			if !ok {
				continue
			}
			for i, r := range ret.Results {
				if index >= 0 && i != index {
					continue
				}
				if bo, why := o.borrowed(r, depth+1); bo {
					return true, fmt.Sprintf("returned by %s: %s", funcKey(g), why)
				}
			}
		}
	}
	return false, ""
}

func (o *ownInfo) param(x *ssa.Parameter, depth int) (bool, string) {
	fn := x.Parent()
	idx := -1
	for i, p := range fn.Params {
		if p == x {
			idx = i
		}
	}
	sites := o.sh.callers[fn]
	if k := funcKey(fn); k == "model.(*DecisionMaker).MakeDecision" || k == "model.(*PreferenceFunctions).FetchParameters" {
		// the library's entry points: whatever is handed in belongs to the caller (the HTTP handler is only one caller)
		return true, "parameter " + x.Name() + " of the library entry point " + k + " (caller-owned)"
	}
	if idx == 0 && len(sites) == 0 && fn.Signature.Recv() != nil {
		// method called back by external code (sort.Sort(&x)): the receiver is the value that was converted to the interface
		found := false
		for _, g := range o.p.Funcs {
			if !o.p.RPHttp[g] {
				continue
			}
			for _, b := range g.Blocks {
				for _, in := range b.Instrs {
					mi, ok := in.(*ssa.MakeInterface)
					if !ok || !types.Identical(mi.X.Type(), fn.Signature.Recv().Type()) || !o.p.escapesToExternal(mi) {
						continue
					}
					found = true
					if bo, why := o.borrowed(mi.X, depth+1); bo {
						return true, fmt.Sprintf("receiver handed to external code at %s: %s", o.p.ipos(in), why)
					}
				}
			}
		}
		if found {
			return false, ""
		}
	}
	if idx < 0 || len(sites) == 0 {
		// entry point: whatever is handed in belongs to the caller
		if pkgNameOf(fn) == "main" {
			return false, ""
		}
		return true, "parameter " + x.Name() + " of an entry point (caller-owned)"
	}
	for _, cs := range sites {
		c := cs.Instr.Common()
		var arg ssa.Value
		if c.IsInvoke() {
			if idx == 0 {
				arg = c.Value
			} else if idx-1 < len(c.Args) {
				arg = c.Args[idx-1]
			}
		} else if idx < len(c.Args) {
			arg = c.Args[idx]
		}
		if arg == nil {
			continue
		}
		if b, why := o.borrowed(arg, depth+1); b {
			return true, fmt.Sprintf("argument at %s: %s", o.p.ipos(cs.Instr), why)
		}
	}
	return false, ""
}

// inPlaceWrites: write sites of OWN-1 in f.
func inPlaceWrites(p *Program, f *ssa.Function) []writeSite {
	var out []writeSite
	for _, b := range f.Blocks {
		for _, in := range b.Instrs {
			switch x := in.(type) {
			case *ssa.Store:
				// a store into a local variable itself is not an in-place write; a store through a pointer/element is
				switch a := x.Addr.(type) {
				case *ssa.Alloc:
					continue
				case *ssa.FieldAddr:
					if _, isAlloc := a.X.(*ssa.Alloc); isAlloc {
						continue
					}
				case *ssa.Global:
					continue // SHR-4
				}
				out = append(out, writeSite{in, x.Addr, "store"})
			case *ssa.MapUpdate:
				out = append(out, writeSite{in, x.Map, "map update"})
			case ssa.CallInstruction:
				cm := x.Common()
				if bi, ok := cm.Value.(*ssa.Builtin); ok {
					switch bi.Name() {
					case "copy":
						out = append(out, writeSite{in, cm.Args[0], "copy into"})
					case "delete":
						out = append(out, writeSite{in, cm.Args[0], "delete from"})
					case "append":
						// in-place deletion / insertion: the base is a truncated view x[:i] of a longer slice
						if sl, ok := cm.Args[0].(*ssa.Slice); ok && sl.High != nil {
							out = append(out, writeSite{in, sl.X, "in-place append on a truncated view of"})
						}
					}
					continue
				}
				_, ext, _ := p.callees(x)
				if ext == nil {
					continue
				}
				if cls, _ := classifyExternal(ext); cls == extSortArg0 {
					out = append(out, writeSite{in, cm.Args[0], "in-place sort of"})
				}
			}
		}
	}
	return out
}

func ruleOWN1(p *Program, c *Check, sh *SharedInfo, funcs []*ssa.Function) {
	c.Rule("OWN-1", "no in-place write on the request path targets memory borrowed from the request, from the working state "+
		"(a reference loaded from a field of DecisionMaker, DecisionMakingParams, AlternativeWithCriteria, Criterion, WeightedCriterion, BiasedResult or a parsed-parameters struct) "+
		"or from a package-level variable; writes through parameters are resolved over all request-path call sites", 150)
	o := newOwnInfo(p, sh)
	for _, f := range funcs {
		if pkgNameOf(f) == "main" {
			continue
		}
		fk := funcKey(f)
		for _, w := range inPlaceWrites(p, f) {
			construct := w.What + ":" + describeValue(w.Target)
			b, why := o.borrowed(w.Target, 0)
			c.Decide(!b, "OWN-1", fk, construct, p.ipos(w.Instr), strings.TrimSpace(w.What+" borrowed memory: "+why))
		}
	}
}

// ruleOWN2: forked appends.
func ruleOWN2(p *Program, c *Check, funcs []*ssa.Function) {
	c.Rule("OWN-2", "inside a loop, the base of an append is either defined in the same iteration or receives the result back "+
		"(x = append(x, ...)); a loop-invariant base appended once per iteration makes all results share one backing array", 20)
	for _, f := range funcs {
		fk := funcKey(f)
		heads := loopHeaders(f)
		if len(heads) == 0 {
			continue
		}
		loops := make([]map[*ssa.BasicBlock]bool, len(heads))
		for i, h := range heads {
			loops[i] = loopBlocks(h)
		}
		for _, b := range f.Blocks {
			for _, in := range b.Instrs {
				call, ok := in.(*ssa.Call)
				if !ok {
					continue
				}
				bi, isB := call.Call.Value.(*ssa.Builtin)
				if !isB || bi.Name() != "append" {
					continue
				}
				base := call.Call.Args[0]
				problem := ""
				// the accumulate idiom x = append(x, ...) starts from the initial value of its loop-carried variable
				origin := base
				accLoop := -1
				for hops := 0; hops < 4; hops++ {
					phi, isPhi := origin.(*ssa.Phi)
					if !isPhi {
						break
					}
					li := -1
					for i, h := range heads {
						if phi.Block() == h {
							li = i
						}
					}
					if li < 0 || !flowsBack(call, phi) {
						break
					}
					if accLoop < 0 {
						accLoop = li
					}
					var init ssa.Value
					for i, e := range phi.Edges {
						if !loops[li][phi.Block().Preds[i]] {
							init = e
						}
					}
					if init == nil {
						break
					}
					origin = init
				}
				if k, isConst := origin.(*ssa.Const); isConst && k.Value == nil {
					origin = nil // nil base: append always allocates
				}
				if origin != nil && !isFreshEmpty(origin) {
					for i, h := range heads {
						if !loops[i][b] || i == accLoop {
							continue
						}
						if accLoop >= 0 && !loops[i][heads[accLoop]] {
							continue // not an enclosing loop of the accumulation
						}
						def, isInstr := origin.(ssa.Instruction)
						definedInLoop := isInstr && def.Block() != nil && loops[i][def.Block()]
						if phi, isPhi := origin.(*ssa.Phi); isPhi && phi.Block() == h {
							definedInLoop = flowsBack(call, phi) // the enclosing loop's own accumulator
							if !definedInLoop {
								problem = fmt.Sprintf("the base %s is carried round the loop at %s but does not receive the result of this append back", phi.Comment, p.ipos(h.Instrs[0]))
							}
						}
						if !definedInLoop && problem == "" {
							problem = fmt.Sprintf("the appended base originates from %s, defined outside the loop at %s: every iteration appends into the same spare capacity", describeValue(origin), p.ipos(h.Instrs[0]))
						}
					}
				}
				c.Decide(problem == "", "OWN-2", fk, "append#base="+describeValue(base), p.ipos(in), problem)
			}
		}
	}
}

// flowsBack: the append result (possibly through further appends / phis) is an incoming value of the phi.
func flowsBack(call *ssa.Call, phi *ssa.Phi) bool {
	seen := map[ssa.Value]bool{}
	var reach func(v ssa.Value) bool
	reach = func(v ssa.Value) bool {
		if seen[v] {
			return false
		}
		seen[v] = true
		if v.Referrers() == nil {
			return false
		}
		for _, r := range *v.Referrers() {
			switch x := r.(type) {
			case *ssa.Phi:
				if x == phi || reach(x) {
					return true
				}
			case *ssa.Call:
				if b, ok := x.Call.Value.(*ssa.Builtin); ok && b.Name() == "append" && x.Call.Args[0] == v {
					if reach(x) {
						return true
					}
				}
			case *ssa.Slice:
				if reach(x) {
					return true
				}
			}
		}
		return false
	}
	return reach(call)
}

func isFreshEmpty(v ssa.Value) bool {
	switch x := v.(type) {
	case *ssa.Slice:
		// T{} literal: slice of a fresh zero-length array
		if a, ok := x.X.(*ssa.Alloc); ok {
			if arr, ok := derefType(a.Type()).Underlying().(*types.Array); ok && arr.Len() == 0 {
				return true
			}
		}
	}
	return false
}
