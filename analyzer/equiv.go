package main

// E5 (part 3): equivalence of a repository function with its reference
// implementation (spec overlay), label by label.

import (
	"crypto/sha1"
	"fmt"
	"sort"
	"strings"

	"golang.org/x/tools/go/ssa"
)

type equivResult struct {
	Finger  string // label and hash of the code-side term of the first mismatch
	OK      bool
	Cases   int
	Labels  int
	Details []string
}

const maxAtoms = 18

func compareSummaries(p *Program, code, spec *Summary) *equivResult {
	r := &equivResult{OK: true}
	fail := func(format string, a ...interface{}) {
		r.OK = false
		if len(r.Details) < 6 {
			r.Details = append(r.Details, fmt.Sprintf(format, a...))
		}
	}
	cmp := func(label string, a, b *Term) {
		r.Labels++
		if a == nil || b == nil {
			if a != b {
				fail("%s: present on one side only", label)
			}
			return
		}
		ok, m, cases := equivTerms(a, b, maxAtoms)
		r.Cases += cases
		if !ok {
			if r.Finger == "" {
				h := sha1.Sum([]byte(m.A))
				r.Finger = fmt.Sprintf("%s=%x", label, h[:4])
			}
			fail("%s differs: %s", label, m)
		}
	}
	if len(code.Results) != len(spec.Results) {
		fail("number of results differs")
	} else {
		for i := range code.Results {
			cmp(fmt.Sprintf("result#%d", i), code.Results[i], spec.Results[i])
		}
	}
	if len(code.Loops) != len(spec.Loops) {
		fail("loop structure differs: code has %d loops, the reference %d", len(code.Loops), len(spec.Loops))
	} else {
		for i, cl := range code.Loops {
			sl := spec.Loops[i]
			if cl.Parent != sl.Parent {
				fail("loop L%d nesting differs", i)
			}
			cmp(fmt.Sprintf("L%d.cond", i), cl.Cond, sl.Cond)
			cmp(fmt.Sprintf("L%d.over", i), cl.Over, sl.Over)
			if len(cl.Exits) != len(sl.Exits) {
				fail("L%d: %d early exits in the code, %d in the reference", i, len(cl.Exits), len(sl.Exits))
			} else {
				for j := range cl.Exits {
					cmp(fmt.Sprintf("L%d.exit%d", i, j), cl.Exits[j], sl.Exits[j])
				}
			}
			if len(cl.Vars) != len(sl.Vars) {
				fail("L%d: %d loop-carried values in the code, %d in the reference (%s | %s)", i, len(cl.Vars), len(sl.Vars), varNames(cl), varNames(sl))
				continue
			}
			for j := range cl.Vars {
				cmp(fmt.Sprintf("L%d.v%d(%s).init", i, j, cl.Vars[j].Name), cl.Vars[j].Init, sl.Vars[j].Init)
				cmp(fmt.Sprintf("L%d.v%d(%s).step", i, j, cl.Vars[j].Name), cl.Vars[j].Step, sl.Vars[j].Step)
			}
		}
	}
	if len(code.Effects) != len(spec.Effects) {
		fail("effect sequence differs: code %s | reference %s", effectKinds(p, code), effectKinds(p, spec))
	} else {
		for i, ce := range code.Effects {
			se := spec.Effects[i]
			label := fmt.Sprintf("effect#%d(%s@%s)", i, ce.Kind, p.pos(ce.Pos))
			if ce.Kind != se.Kind || ce.Region != se.Region || len(ce.Args) != len(se.Args) {
				fail("%s: code has %s in region %d, the reference %s in region %d", label, ce.Kind, ce.Region, se.Kind, se.Region)
				continue
			}
			cmp(label+".guard", ce.Guard, se.Guard)
			for j := range ce.Args {
				cmp(fmt.Sprintf("%s.arg%d", label, j), ce.Args[j], se.Args[j])
			}
		}
	}
	if len(code.Closures) != len(spec.Closures) {
		fail("number of function literals differs")
	} else {
		for i := range code.Closures {
			sub := compareSummaries(p, Summarize(p, code.Closures[i]), Summarize(p, spec.Closures[i]))
			r.Cases += sub.Cases
			r.Labels += sub.Labels
			if !sub.OK {
				for _, d := range sub.Details {
					fail("closure#%d: %s", i, d)
				}
			}
		}
	}
	return r
}

func varNames(l *LoopSum) string {
	var n []string
	for _, v := range l.Vars {
		n = append(n, v.Name)
	}
	return strings.Join(n, ",")
}

func effectKinds(p *Program, s *Summary) string {
	var parts []string
	for _, e := range s.Effects {
		parts = append(parts, fmt.Sprintf("%s@L%d", e.Kind, e.Region))
	}
	return "[" + strings.Join(parts, " ") + "]"
}

// specPairs: every Spec_ function of the overlay with the repository function it describes.
type specPair struct {
	Key  string
	Code *ssa.Function
	Spec *ssa.Function
}

func (p *Program) specPairs() (pairs []specPair, missing []string) {
	for _, sf := range p.SpecFuncs {
		if sf.Parent() != nil || !strings.HasPrefix(sf.Name(), specPrefix) || sf.Synthetic != "" {
			continue
		}
		key := strings.Replace(funcKey(sf), specPrefix, "", 1)
		cf := p.Func(key)
		if cf == nil {
			missing = append(missing, key)
			continue
		}
		pairs = append(pairs, specPair{key, cf, sf})
	}
	sort.Slice(pairs, func(i, j int) bool { return pairs[i].Key < pairs[j].Key })
	return
}

// ruleSpec checks the listed anchors (function keys) against their reference implementations.
func ruleSpec(p *Program, c *Check, rule string, keys []string) {
	pairs, _ := p.specPairs()
	byKey := map[string]specPair{}
	for _, sp := range pairs {
		byKey[sp.Key] = sp
	}
	for _, k := range keys {
		sp, ok := byKey[k]
		if !ok {
			if p.Func(k) == nil {
				c.Brokenf("anchor %s does not resolve in the repository", k)
			} else {
				c.Brokenf("no reference implementation for anchor %s", k)
			}
			continue
		}
		res := compareSummaries(p, Summarize(p, sp.Code), Summarize(p, sp.Spec))
		detail := fmt.Sprintf("%d labelled terms equal to the reference over %d boolean cases", res.Labels, res.Cases)
		if !res.OK {
			detail = strings.Join(res.Details, " ## ")
		}
		c.Decide(res.OK, rule, k, "formula", p.fpos(sp.Code), detail)
	}
}

func dumpSummary(p *Program, s *Summary) {
	pr := func(label string, t *Term) {
		if t == nil {
			return
		}
		str, need := tryCanon(t, map[string]bool{})
		if need != "" {
			str = printTerm(t)
		}
		fmt.Printf("  %-28s %s\n", label, str)
	}
	fmt.Printf("== %s\n", funcKey(s.Fn))
	for i, r := range s.Results {
		pr(fmt.Sprintf("result#%d", i), r)
	}
	for _, l := range s.Loops {
		pr(fmt.Sprintf("L%d(parent %d).cond", l.ID, l.Parent), l.Cond)
		pr(fmt.Sprintf("L%d.over", l.ID), l.Over)
		for j, x := range l.Exits {
			pr(fmt.Sprintf("L%d.exit%d", l.ID, j), x)
		}
		for j, v := range l.Vars {
			pr(fmt.Sprintf("L%d.v%d(%s).init", l.ID, j, v.Name), v.Init)
			pr(fmt.Sprintf("L%d.v%d(%s).step", l.ID, j, v.Name), v.Step)
		}
	}
	for i, e := range s.Effects {
		pr(fmt.Sprintf("effect#%d %s@L%d guard", i, e.Kind, e.Region), e.Guard)
		for j, a := range e.Args {
			pr(fmt.Sprintf("   arg%d", j), a)
		}
	}
	for _, n := range s.Notes {
		fmt.Println("  note:", n)
	}
	for i, cl := range s.Closures {
		fmt.Printf("-- closure#%d\n", i)
		dumpSummary(p, Summarize(p, cl))
	}
}

func printTerm(t *Term) string {
	if t == nil {
		return "<nil>"
	}
	switch t.Op {
	case "const", "sym":
		return t.Val
	case "struct":
		var parts []string
		for i, a := range t.Args {
			parts = append(parts, t.Fields[i]+":"+printTerm(a))
		}
		return t.Val + "{" + strings.Join(parts, ",") + "}"
	}
	var parts []string
	for _, a := range t.Args {
		parts = append(parts, printTerm(a))
	}
	return t.Op + ":" + t.Val + "(" + strings.Join(parts, ", ") + ")"
}
