package main

// E5 (part 3): equivalence of a repository function with its reference
// implementation (spec overlay), label by label.

import (
	"crypto/sha1"
	"fmt"
	"os"
	"sort"
	"strings"

	"golang.org/x/tools/go/ssa"
)

type equivResult struct {
	Finger  string // label and hash of the code-side term of the first mismatch
	OK      bool
	Cases   int
	Labels  int
	Details []string
}

const maxAtoms = 18

func compareSummaries(p *Program, code, spec *Summary) *equivResult {
	r := &equivResult{OK: true}
	fail := func(format string, a ...interface{}) {
		r.OK = false
		if len(r.Details) < 6 {
			r.Details = append(r.Details, fmt.Sprintf(format, a...))
		}
	}
	rename := map[string]string{} // reference symbol -> code symbol (loop-carried values up to permutation)
	eq := func(a, b *Term) (bool, *mismatch) {
		if a == nil || b == nil {
			return a == b, &mismatch{A: "absent/present", B: "absent/present"}
		}
		ok, m, cases := equivTermsR(a, b, maxAtoms, rename)
		r.Cases += cases
		return ok, m
	}
	cmp := func(label string, a, b *Term) {
		r.Labels++
		ok, m := eq(a, b)
		if !ok {
			if r.Finger == "" {
				h := sha1.Sum([]byte(m.A))
				r.Finger = fmt.Sprintf("%s=%x", label, h[:4])
			}
			fail("%s differs: %s", label, m)
		}
	}
	unreach := tSym("unreachable")
	// inLoop(side, i, t): t as it matters inside an iteration of loop i (and of the loops around it)
	var inLoop func(sum *Summary, i int, t *Term) *Term
	inLoop = func(sum *Summary, i int, t *Term) *Term {
		if t == nil || i < 0 || i >= len(sum.Loops) {
			return t
		}
		l := sum.Loops[i]
		w := tIte(l.Cond, t, unreach)
		w.Num, w.Bool, w.Str = false, false, false
		if t.Bool {
			w = tAnd(l.Cond, t)
		}
		return inLoop(sum, l.Parent, w)
	}
	// --- loops first: fixes the correspondence of loop-carried values
	if len(code.Loops) != len(spec.Loops) {
		fail("loop structure differs: code has %d loops, the reference %d", len(code.Loops), len(spec.Loops))
	} else {
		for i, cl := range code.Loops {
			sl := spec.Loops[i]
			if cl.Parent != sl.Parent {
				fail("loop L%d nesting differs", i)
			}
			if len(cl.Vars) != len(sl.Vars) {
				fail("L%d: %d loop-carried values in the code, %d in the reference (%s | %s)", i, len(cl.Vars), len(sl.Vars), varNames(cl), varNames(sl))
				continue
			}
			// find a bijection code var j <-> reference var perm[j] under which init and step agree
			n := len(cl.Vars)
			perm := make([]int, n)
			used := make([]bool, n)
			tries := 0
			var search func(j int) bool
			search = func(j int) bool {
				if j == n {
					for a := 0; a < n; a++ {
						if ok, m := eq(inLoop(code, i, cl.Vars[a].Step), inLoop(spec, i, sl.Vars[perm[a]].Step)); !ok {
							if os.Getenv("RDM_DEBUG") != "" {
								fmt.Printf("DEBUG perm %v: step of code var %d vs reference var %d: %s\n", perm, a, perm[a], m)
							}
							return false
						}
					}
					return true
				}
				for k := 0; k < n; k++ {
					if used[k] {
						continue
					}
					tries++
					if tries > 400 {
						return false
					}
					if ok, _ := eq(cl.Vars[j].Init, sl.Vars[k].Init); !ok {
						continue
					}
					used[k], perm[j] = true, k
					from, to := fmt.Sprintf("L%d.v%d", i, k), fmt.Sprintf("L%d.v%d", i, j)
					rename[from] = to
					if search(j + 1) {
						return true
					}
					delete(rename, from)
					used[k] = false
				}
				return false
			}
			// identity first (cheap, and gives the most readable report)
			identity := true
			for a := 0; a < n; a++ {
				rename[fmt.Sprintf("L%d.v%d", i, a)] = fmt.Sprintf("L%d.v%d", i, a)
			}
			for a := 0; a < n && identity; a++ {
				ok1, _ := eq(cl.Vars[a].Init, sl.Vars[a].Init)
				ok2, _ := eq(inLoop(code, i, cl.Vars[a].Step), inLoop(spec, i, sl.Vars[a].Step))
				identity = ok1 && ok2
			}
			if !identity {
				for a := 0; a < n; a++ {
					delete(rename, fmt.Sprintf("L%d.v%d", i, a))
				}
				if !search(0) {
					// report with the identity mapping
					for a := 0; a < n; a++ {
						rename[fmt.Sprintf("L%d.v%d", i, a)] = fmt.Sprintf("L%d.v%d", i, a)
					}
					for a := 0; a < n; a++ {
						cmp(fmt.Sprintf("L%d.v%d(%s).init", i, a, cl.Vars[a].Name), cl.Vars[a].Init, sl.Vars[a].Init)
						cmp(fmt.Sprintf("L%d.v%d(%s).step", i, a, cl.Vars[a].Name), inLoop(code, i, cl.Vars[a].Step), inLoop(spec, i, sl.Vars[a].Step))
					}
				}
			}
			r.Labels += 2 * n
			cmp(fmt.Sprintf("L%d.cond", i), cl.Cond, sl.Cond)
			cmp(fmt.Sprintf("L%d.entry", i), inLoop(code, cl.Parent, cl.Entry), inLoop(spec, sl.Parent, sl.Entry))
			cmp(fmt.Sprintf("L%d.over", i), cl.Over, sl.Over)
			if len(cl.Exits) != len(sl.Exits) {
				fail("L%d: %d early exits in the code, %d in the reference", i, len(cl.Exits), len(sl.Exits))
			} else {
				matchUnordered(len(cl.Exits), func(a, b int) bool {
					ok, _ := eq(inLoop(code, i, cl.Exits[a]), inLoop(spec, i, sl.Exits[b]))
					return ok
				},
					func(a int) {
						cmp(fmt.Sprintf("L%d.exit%d", i, a), inLoop(code, i, cl.Exits[a]), inLoop(spec, i, sl.Exits[a]))
					})
				r.Labels += len(cl.Exits)
			}
		}
	}
	if len(code.Results) != len(spec.Results) {
		fail("number of results differs")
	} else {
		for i := range code.Results {
			cmp(fmt.Sprintf("result#%d", i), code.Results[i], spec.Results[i])
		}
	}
	// --- effects: an unordered collection per region (independent statements may be reordered; data
	// dependences are part of the terms, random draws carry their sequence number)
	code.Effects = mergeChecks(mergeExclusiveWrites(code.Effects))
	spec.Effects = mergeChecks(mergeExclusiveWrites(spec.Effects))
	if len(code.Effects) != len(spec.Effects) {
		fail("effects differ: code %s | reference %s", effectKinds(p, code), effectKinds(p, spec))
	} else {
		same := func(a, b int) bool {
			ce, se := code.Effects[a], spec.Effects[b]
			if ce.Kind != se.Kind || ce.Region != se.Region || len(ce.Args) != len(se.Args) {
				return false
			}
			if ok, _ := eq(inLoop(code, ce.Region, ce.Guard), inLoop(spec, se.Region, se.Guard)); !ok {
				return false
			}
			for j := range ce.Args {
				if ok, _ := eq(inLoop(code, ce.Region, underGuard(ce.Guard, ce.Args[j])), inLoop(spec, se.Region, underGuard(se.Guard, se.Args[j]))); !ok {
					return false
				}
			}
			return true
		}
		matchUnordered(len(code.Effects), same, func(a int) {
			ce := code.Effects[a]
			// report against the reference effect of the same kind and region that is closest in order
			best := -1
			for b, se := range spec.Effects {
				if se.Kind == ce.Kind && se.Region == ce.Region && len(se.Args) == len(ce.Args) && (best < 0 || abs(b-a) < abs(best-a)) {
					best = b
				}
			}
			label := fmt.Sprintf("effect#%d(%s@%s)", a, ce.Kind, p.pos(ce.Pos))
			if best < 0 {
				fail("%s: no %s effect in region %d of the reference", label, ce.Kind, ce.Region)
				if r.Finger == "" {
					r.Finger = fmt.Sprintf("effect(%s)=unmatched", ce.Kind)
				}
				return
			}
			se := spec.Effects[best]
			cmp(label+".guard", inLoop(code, ce.Region, ce.Guard), inLoop(spec, se.Region, se.Guard))
			for j := range ce.Args {
				cmp(fmt.Sprintf("%s.arg%d", label, j), inLoop(code, ce.Region, underGuard(ce.Guard, ce.Args[j])), inLoop(spec, se.Region, underGuard(se.Guard, se.Args[j])))
			}
		})
		r.Labels += len(code.Effects)
	}
	if len(code.Closures) != len(spec.Closures) {
		fail("number of function literals differs")
	} else {
		for i := range code.Closures {
			sub := compareSummaries(p, Summarize(p, code.Closures[i]), Summarize(p, spec.Closures[i]))
			r.Cases += sub.Cases
			r.Labels += sub.Labels
			if !sub.OK {
				if r.Finger == "" {
					r.Finger = fmt.Sprintf("closure#%d.%s", i, sub.Finger)
				}
				for _, d := range sub.Details {
					fail("closure#%d: %s", i, d)
				}
			}
		}
	}
	return r
}

// mergeExclusiveWrites: writes to one and the same target under mutually exclusive guards
// (if c { m[k] = a } else { m[k] = b }) are one write of a guarded value (m[k] = ite(c, a, b)).
func mergeExclusiveWrites(effects []Effect) []Effect {
	canon := func(t *Term) (string, bool) {
		s, need := tryCanon(t, map[string]bool{})
		return s, need == ""
	}
	targetOf := func(e Effect) (string, bool) {
		switch e.Kind {
		case "store":
			s, ok := canon(e.Args[0])
			return "store|" + s, ok
		case "mapupdate":
			a, ok1 := canon(e.Args[0])
			b, ok2 := canon(e.Args[1])
			return "map|" + a + "|" + b, ok1 && ok2
		}
		return "", false
	}
	var out []Effect
	merged := make([]bool, len(effects))
	for i, e := range effects {
		if merged[i] {
			continue
		}
		ti, ok := targetOf(e)
		if ok {
			for j := i + 1; j < len(effects); j++ {
				f := effects[j]
				if merged[j] || f.Kind != e.Kind || f.Region != e.Region {
					continue
				}
				tj, ok2 := targetOf(f)
				if !ok2 || tj != ti {
					continue
				}
				// exclusive guards?
				if excl, _, _ := equivTerms(tAnd(e.Guard, f.Guard), tFalse(), maxAtoms); !excl {
					continue
				}
				last := len(e.Args) - 1
				args := append([]*Term{}, e.Args...)
				args[last] = tIte(e.Guard, e.Args[last], f.Args[last])
				e = Effect{e.Kind, e.Region, simplifyBool(tOr(e.Guard, f.Guard)), args, e.Pos}
				merged[j] = true
			}
		}
		out = append(out, e)
	}
	return out
}

// mergeChecks: a pure call that may panic, evaluated several times with the same arguments, rejects its input the first
// time or never: the executions of one region are one check under the disjunction of their guards.
func mergeChecks(effects []Effect) []Effect {
	var out []Effect
	index := map[string]int{}
	for _, e := range effects {
		if e.Kind != "check" {
			out = append(out, e)
			continue
		}
		key, need := tryCanon(e.Args[0], map[string]bool{})
		if need != "" {
			out = append(out, e)
			continue
		}
		key = fmt.Sprintf("%d|%s", e.Region, key)
		if i, ok := index[key]; ok {
			out[i].Guard = simplifyBool(tOr(out[i].Guard, e.Guard))
			continue
		}
		index[key] = len(out)
		out = append(out, e)
	}
	return out
}

// underGuard: the argument of an effect matters only when the effect happens.
func underGuard(g, t *Term) *Term {
	if g == nil || t == nil || isTrue(g) {
		return t
	}
	if t.Bool {
		return tAnd(g, t)
	}
	w := tIte(g, t, tSym("unreachable"))
	w.Num, w.Bool, w.Str = false, false, false
	return w
}

func abs(i int) int {
	if i < 0 {
		return -i
	}
	return i
}

// matchUnordered pairs n code items with n reference items (greedy, identity first); onFail is called for
// every code item left without partner.
func matchUnordered(n int, same func(a, b int) bool, onFail func(a int)) {
	used := make([]bool, n)
	var unmatched []int
	for a := 0; a < n; a++ {
		if !used[a] && same(a, a) {
			used[a] = true
			continue
		}
		found := false
		for b := 0; b < n; b++ {
			if !used[b] && b != a && same(a, b) {
				used[b] = true
				found = true
				break
			}
		}
		if !found {
			unmatched = append(unmatched, a)
		}
	}
	for _, a := range unmatched {
		onFail(a)
	}
}

func varNames(l *LoopSum) string {
	var n []string
	for _, v := range l.Vars {
		n = append(n, v.Name)
	}
	return strings.Join(n, ",")
}

func effectKinds(p *Program, s *Summary) string {
	var parts []string
	for _, e := range s.Effects {
		parts = append(parts, fmt.Sprintf("%s@L%d", e.Kind, e.Region))
	}
	return "[" + strings.Join(parts, " ") + "]"
}

// specPairs: every Spec_ function of the overlay with the repository function it describes.
type specPair struct {
	Key  string
	Code *ssa.Function
	Spec *ssa.Function
}

func (p *Program) specPairs() (pairs []specPair, missing []string) {
	for _, sf := range p.SpecFuncs {
		if sf.Parent() != nil || !strings.HasPrefix(sf.Name(), specPrefix) || sf.Synthetic != "" {
			continue
		}
		key := strings.Replace(funcKey(sf), specPrefix, "", 1)
		cf := p.codeFor(sf)
		if cf == nil || !sameInterface(cf, sf) {
			// renamed, removed, inlined or re-parameterised helper: it is compared through its callers (inlining)
			missing = append(missing, key)
			continue
		}
		pairs = append(pairs, specPair{key, cf, sf})
	}
	sort.Slice(pairs, func(i, j int) bool { return pairs[i].Key < pairs[j].Key })
	return
}

// ruleSpec checks the listed anchors (function keys) against their reference implementations.
func ruleSpec(p *Program, c *Check, rule string, keys []string) {
	pairs, _ := p.specPairs()
	byKey := map[string]specPair{}
	for _, sp := range pairs {
		byKey[sp.Key] = sp
	}
	for _, k := range keys {
		sp, ok := byKey[k]
		if !ok {
			if p.Func(k) == nil {
				c.Brokenf("anchor %s does not resolve in the repository", k)
			} else {
				c.Brokenf("no reference implementation for anchor %s", k)
			}
			continue
		}
		res := compareSummaries(p, Summarize(p, sp.Code), Summarize(p, sp.Spec))
		detail := fmt.Sprintf("%d labelled terms equal to the reference over %d boolean cases", res.Labels, res.Cases)
		if !res.OK {
			detail = strings.Join(res.Details, " ## ")
		}
		c.Decide(res.OK, rule, k, "formula", p.fpos(sp.Code), detail)
	}
}

func dumpSummary(p *Program, s *Summary) {
	pr := func(label string, t *Term) {
		if t == nil {
			return
		}
		str, need := tryCanon(t, map[string]bool{})
		if need != "" {
			str = printTerm(t)
		}
		fmt.Printf("  %-28s %s\n", label, str)
	}
	fmt.Printf("== %s\n", funcKey(s.Fn))
	for i, r := range s.Results {
		pr(fmt.Sprintf("result#%d", i), r)
	}
	for _, l := range s.Loops {
		pr(fmt.Sprintf("L%d(parent %d).cond", l.ID, l.Parent), l.Cond)
		pr(fmt.Sprintf("L%d.entry", l.ID), l.Entry)
		pr(fmt.Sprintf("L%d.over", l.ID), l.Over)
		for j, x := range l.Exits {
			pr(fmt.Sprintf("L%d.exit%d", l.ID, j), x)
		}
		for j, v := range l.Vars {
			pr(fmt.Sprintf("L%d.v%d(%s).init", l.ID, j, v.Name), v.Init)
			pr(fmt.Sprintf("L%d.v%d(%s).step", l.ID, j, v.Name), v.Step)
		}
	}
	for i, e := range s.Effects {
		pr(fmt.Sprintf("effect#%d %s@L%d guard", i, e.Kind, e.Region), e.Guard)
		for j, a := range e.Args {
			pr(fmt.Sprintf("   arg%d", j), a)
		}
	}
	for _, n := range s.Notes {
		fmt.Println("  note:", n)
	}
	for i, cl := range s.Closures {
		fmt.Printf("-- closure#%d\n", i)
		dumpSummary(p, Summarize(p, cl))
	}
}

func printTerm(t *Term) string {
	if t == nil {
		return "<nil>"
	}
	switch t.Op {
	case "const", "sym":
		return t.Val
	case "struct":
		var parts []string
		for i, a := range t.Args {
			parts = append(parts, t.Fields[i]+":"+printTerm(a))
		}
		return t.Val + "{" + strings.Join(parts, ",") + "}"
	}
	var parts []string
	for _, a := range t.Args {
		parts = append(parts, printTerm(a))
	}
	return t.Op + ":" + t.Val + "(" + strings.Join(parts, ", ") + ")"
}
