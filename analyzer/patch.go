package main

// Thorough tier: sensitivity of a check to the catalogue of seeded changes (/verif/seeded). Each patch is
// applied IN MEMORY (go/packages overlay on top of the current working tree), the program is re-loaded and
// the same check is run; nothing is written, compiled or executed.

import (
	"fmt"
	"os"
	"path/filepath"
	"sort"
	"strings"
)

// applyUnifiedDiff applies a git-style unified diff to files read through read(); returns new contents by path.
func applyUnifiedDiff(diff string, root string, read func(string) ([]byte, error)) (map[string][]byte, error) {
	out := map[string][]byte{}
	lines := strings.Split(diff, "\n")
	i := 0
	for i < len(lines) {
		if !strings.HasPrefix(lines[i], "--- ") {
			i++
			continue
		}
		if i+1 >= len(lines) || !strings.HasPrefix(lines[i+1], "+++ ") {
			i++
			continue
		}
		oldName := strings.TrimPrefix(strings.Fields(lines[i])[1], "a/")
		newName := strings.TrimPrefix(strings.Fields(lines[i+1])[1], "b/")
		i += 2
		var src []string
		path := filepath.Join(root, newName)
		if oldName != "/dev/null" && oldName != "dev/null" {
			b, err := read(filepath.Join(root, oldName))
			if err != nil {
				return nil, err
			}
			src = strings.Split(string(b), "\n")
		}
		var dst []string
		pos := 0 // index in src
		for i < len(lines) && strings.HasPrefix(lines[i], "@@") {
			var os1, ol, ns, nl int
			ol, nl = 1, 1
			hdr := lines[i]
			parts := strings.Fields(hdr)
			if len(parts) < 3 {
				return nil, fmt.Errorf("bad hunk header %q", hdr)
			}
			parseRange := func(s string, start, n *int) {
				s = s[1:]
				if k := strings.Index(s, ","); k >= 0 {
					fmt.Sscanf(s[:k], "%d", start)
					fmt.Sscanf(s[k+1:], "%d", n)
				} else {
					fmt.Sscanf(s, "%d", start)
				}
			}
			parseRange(parts[1], &os1, &ol)
			parseRange(parts[2], &ns, &nl)
			_ = ns
			start := os1 - 1
			if ol == 0 {
				start = os1
			}
			// like git apply, tolerate a shifted position: look for the hunk's old lines near the stated line
			{
				var oldLines []string
				for k := i + 1; k < len(lines) && !strings.HasPrefix(lines[k], "@@") && !strings.HasPrefix(lines[k], "diff ") && !strings.HasPrefix(lines[k], "--- "); k++ {
					l := lines[k]
					if strings.HasPrefix(l, "-") || strings.HasPrefix(l, " ") {
						oldLines = append(oldLines, l[1:])
					}
				}
				matches := func(p int) bool {
					if p < pos || p+len(oldLines) > len(src) {
						return false
					}
					for k, ol := range oldLines {
						if src[p+k] != ol {
							return false
						}
					}
					return true
				}
				if len(oldLines) > 0 && !matches(start) {
					for d := 1; d <= 400; d++ {
						if matches(start + d) {
							start += d
							break
						}
						if matches(start - d) {
							start -= d
							break
						}
					}
				}
			}
			if start < pos || start > len(src) {
				return nil, fmt.Errorf("hunk out of order in %s", newName)
			}
			dst = append(dst, src[pos:start]...)
			pos = start
			i++
			for i < len(lines) && !strings.HasPrefix(lines[i], "@@") && !strings.HasPrefix(lines[i], "diff ") && !strings.HasPrefix(lines[i], "--- ") {
				l := lines[i]
				switch {
				case strings.HasPrefix(l, "+"):
					dst = append(dst, l[1:])
				case strings.HasPrefix(l, "-"):
					if pos >= len(src) || src[pos] != l[1:] {
						return nil, fmt.Errorf("patch does not apply to %s (line %d)", newName, pos+1)
					}
					pos++
				case strings.HasPrefix(l, " ") || l == "":
					want := ""
					if l != "" {
						want = l[1:]
					}
					if pos < len(src) && src[pos] == want {
						dst = append(dst, src[pos])
						pos++
					} else if l == "" && i == len(lines)-1 {
						// trailing newline of the diff
					} else if pos >= len(src) {
						// context beyond EOF: ignore
					} else {
						return nil, fmt.Errorf("patch context mismatch in %s (line %d)", newName, pos+1)
					}
				case strings.HasPrefix(l, "\\"):
				default:
					// index/mode lines between hunks
				}
				i++
			}
		}
		dst = append(dst, src[pos:]...)
		out[path] = []byte(strings.Join(dst, "\n"))
	}
	if len(out) == 0 {
		return nil, fmt.Errorf("no file in patch")
	}
	return out, nil
}

type sensitivityResult struct {
	Seed     string `json:"seed"`
	Applies  bool   `json:"applies"`
	Detected bool   `json:"detected"`
	Rules    string `json:"reported_by,omitempty"`
	Note     string `json:"note,omitempty"`
}

func runSensitivity(repo, verif, prop string, known map[string]bool) []sensitivityResult {
	dirs, _ := filepath.Glob(filepath.Join(verif, "seeded", prop+"-*"))
	sort.Strings(dirs)
	var out []sensitivityResult
	for _, d := range dirs {
		res := sensitivityResult{Seed: filepath.Base(d)}
		diff, err := os.ReadFile(filepath.Join(d, "patch.diff"))
		if err != nil {
			continue
		}
		patched, err := applyUnifiedDiff(string(diff), repo, os.ReadFile)
		if err != nil {
			res.Note = err.Error()
			out = append(out, res)
			continue
		}
		res.Applies = true
		overlay, err := specOverlay(repo, filepath.Join(verif, "spec"))
		if err != nil {
			res.Note = err.Error()
			out = append(out, res)
			continue
		}
		for k, v := range patched {
			overlay[k] = v
		}
		prog, _, err := LoadWithSpecs(repo, filepath.Join(verif, "work"), overlay)
		if err != nil {
			res.Note = "patched program does not load: " + trunc(err.Error(), 200)
			out = append(out, res)
			continue
		}
		c := NewCheck(prop, "thorough")
		func() {
			defer func() {
				if r := recover(); r != nil {
					res.Note = fmt.Sprintf("analyzer panic: %v", r)
				}
			}()
			registry[prop](prog, c)
		}()
		rules := map[string]bool{}
		for _, o := range c.Obs {
			if o.Status == Violated && !known[o.Key] {
				rules[o.Rule] = true
			}
		}
		var rs []string
		for r := range rules {
			rs = append(rs, r)
		}
		sort.Strings(rs)
		res.Detected = len(rs) > 0
		res.Rules = strings.Join(rs, ",")
		out = append(out, res)
	}
	return out
}
