package main

// Self-test of the checker by source mutation (never part of a registered check's verdict).
//
// `rdmcheck -selftest mutants` enumerates small type-preserving edits of every repository function
// (operator, strictness, constant, argument-order, negated condition, dropped statement), applies them IN MEMORY
// (go/packages overlay over /repo's current files; nothing is written to /repo, nothing is executed), runs every
// property's rules on each variant and records which mutants no rule reports. A surviving mutant is either
// semantically equivalent, outside every property's anchors, or a hole/unsoundness of a normalisation - the
// survivors are triaged by hand in /verif/selftest/TRIAGE.md.

import (
	"encoding/json"
	"fmt"
	"go/ast"
	"go/constant"
	"go/token"
	"go/types"
	"os"
	"path/filepath"
	"regexp"
	"sort"
	"strconv"
	"strings"

	"golang.org/x/tools/go/packages"
)

type mutant struct {
	ID    int    `json:"id"`
	File  string `json:"file"`
	Line  int    `json:"line"`
	Func  string `json:"func"`
	Kind  string `json:"kind"`
	Orig  string `json:"orig"`
	Repl  string `json:"repl"`
	start int
	end   int
	full  string // the replacement text (Repl is shortened for the report)
	// outcome
	Status     string `json:"status"` // killed | survived | invalid
	ReportedBy string `json:"reported_by,omitempty"`
}

type mutCollector struct {
	benign bool
	prog   *Program
	pkg    *packages.Package
	src    []byte
	file   string
	fn     string
	out    *[]*mutant
}

func (m *mutCollector) add(kind string, start, end token.Pos, repl string) {
	s, e := m.prog.Fset.Position(start), m.prog.Fset.Position(end)
	if s.Offset < 0 || e.Offset > len(m.src) || s.Offset > e.Offset {
		return
	}
	orig := string(m.src[s.Offset:e.Offset])
	if orig == repl {
		return
	}
	*m.out = append(*m.out, &mutant{File: m.file, Line: s.Line, Func: m.fn, Kind: kind, Orig: trunc(orig, 80), Repl: trunc(repl, 80), start: s.Offset, end: e.Offset, full: repl})
}

func (m *mutCollector) text(n ast.Node) string {
	s, e := m.prog.Fset.Position(n.Pos()), m.prog.Fset.Position(n.End())
	return string(m.src[s.Offset:e.Offset])
}

func basicInfo(t types.Type) types.BasicInfo {
	if t == nil {
		return 0
	}
	if b, ok := t.Underlying().(*types.Basic); ok {
		return b.Info()
	}
	return 0
}

func (m *mutCollector) walk(body ast.Node) {
	info := m.pkg.TypesInfo
	if m.benign {
		m.walkBenign(body)
		return
	}
	ast.Inspect(body, func(n ast.Node) bool {
		switch x := n.(type) {
		case *ast.BinaryExpr:
			opEnd := x.OpPos + token.Pos(len(x.Op.String()))
			lt := info.TypeOf(x.X)
			switch x.Op {
			case token.LSS:
				m.add("strictness", x.OpPos, opEnd, "<=")
				m.add("direction", x.OpPos, opEnd, ">")
			case token.LEQ:
				m.add("strictness", x.OpPos, opEnd, "<")
			case token.GTR:
				m.add("strictness", x.OpPos, opEnd, ">=")
				m.add("direction", x.OpPos, opEnd, "<")
			case token.GEQ:
				m.add("strictness", x.OpPos, opEnd, ">")
			case token.EQL:
				m.add("equality", x.OpPos, opEnd, "!=")
			case token.NEQ:
				m.add("equality", x.OpPos, opEnd, "==")
			case token.LAND:
				m.add("connective", x.OpPos, opEnd, "||")
			case token.LOR:
				m.add("connective", x.OpPos, opEnd, "&&")
			case token.ADD:
				if basicInfo(lt)&types.IsNumeric != 0 {
					m.add("arith", x.OpPos, opEnd, "-")
				}
			case token.SUB:
				m.add("arith", x.OpPos, opEnd, "+")
			case token.MUL:
				if basicInfo(lt)&types.IsFloat != 0 {
					m.add("arith", x.OpPos, opEnd, "/")
				} else if basicInfo(lt)&types.IsNumeric != 0 {
					m.add("arith", x.OpPos, opEnd, "+")
				}
			case token.QUO:
				m.add("arith", x.OpPos, opEnd, "*")
			}
		case *ast.BasicLit:
			tv, ok := info.Types[x]
			if !ok || tv.Value == nil {
				// untyped constant in a constant expression: still has a value
			}
			switch x.Kind {
			case token.INT:
				if v, err := strconv.ParseInt(x.Value, 0, 64); err == nil {
					m.add("constant", x.Pos(), x.End(), strconv.FormatInt(v+1, 10))
				}
			case token.FLOAT:
				if v, err := strconv.ParseFloat(x.Value, 64); err == nil {
					if v == 0 {
						m.add("constant", x.Pos(), x.End(), "0.5")
					} else {
						m.add("constant", x.Pos(), x.End(), strconv.FormatFloat(v*2, 'g', -1, 64))
					}
				}
			}
		case *ast.UnaryExpr:
			if x.Op == token.NOT {
				m.add("negation", x.Pos(), x.End(), "("+m.text(x.X)+")")
			}
			if x.Op == token.SUB {
				if _, isLit := x.X.(*ast.BasicLit); !isLit {
					m.add("sign", x.Pos(), x.End(), "("+m.text(x.X)+")")
				}
			}
		case *ast.IncDecStmt:
			if x.Tok == token.INC {
				m.add("incdec", x.TokPos, x.TokPos+2, "--")
			} else {
				m.add("incdec", x.TokPos, x.TokPos+2, "++")
			}
		case *ast.AssignStmt:
			switch x.Tok {
			case token.ADD_ASSIGN:
				if len(x.Lhs) == 1 && basicInfo(info.TypeOf(x.Lhs[0]))&types.IsNumeric != 0 {
					m.add("assignop", x.TokPos, x.TokPos+2, "-=")
				}
			case token.SUB_ASSIGN:
				m.add("assignop", x.TokPos, x.TokPos+2, "+=")
			case token.MUL_ASSIGN:
				m.add("assignop", x.TokPos, x.TokPos+2, "+=")
			}
		case *ast.IfStmt:
			if x.Cond != nil {
				m.add("ifcond", x.Cond.Pos(), x.Cond.End(), "!("+m.text(x.Cond)+")")
			}
		case *ast.CallExpr:
			// swap two adjacent arguments of identical type
			if !x.Ellipsis.IsValid() {
				for i := 0; i+1 < len(x.Args); i++ {
					a, b := x.Args[i], x.Args[i+1]
					ta, tb := info.TypeOf(a), info.TypeOf(b)
					if ta == nil || tb == nil || !types.Identical(ta, tb) {
						continue
					}
					if m.text(a) == m.text(b) {
						continue
					}
					// constants may not be representable in the other position's context only if types differ; identical here
					_ = constant.Unknown
					m.add("argswap", a.Pos(), b.End(), m.text(b)+", "+m.text(a))
					break
				}
			}
		case *ast.ExprStmt:
			if call, ok := x.X.(*ast.CallExpr); ok {
				// dropping a call statement (effect dropped); panics are dropped too (a validation removed)
				_ = call
				m.add("dropstmt", x.Pos(), x.End(), "_ = 0")
			}
		case *ast.BranchStmt:
			if x.Label == nil {
				if x.Tok == token.BREAK {
					m.add("branch", x.Pos(), x.End(), "continue")
				} else if x.Tok == token.CONTINUE {
					m.add("branch", x.Pos(), x.End(), "break")
				}
			}
		case *ast.SliceExpr:
			if x.Low != nil {
				m.add("slicebound", x.Low.Pos(), x.Low.End(), "("+m.text(x.Low)+")+1")
			}
			if x.High != nil && !x.Slice3 {
				m.add("slicebound", x.High.Pos(), x.High.End(), "("+m.text(x.High)+")-1")
			}
		case *ast.IndexExpr:
			if t := info.TypeOf(x.X); t != nil {
				switch t.Underlying().(type) {
				case *types.Slice, *types.Array:
					if basicInfo(info.TypeOf(x.Index))&types.IsInteger != 0 {
						if _, isLit := x.Index.(*ast.BasicLit); !isLit {
							m.add("index", x.Index.Pos(), x.Index.End(), "("+m.text(x.Index)+")+1")
						}
					}
				}
			}
		}
		return true
	})
}

// walkBenign: edits that preserve behaviour by construction (used to measure false alarms of the rules).
func (m *mutCollector) walkBenign(body ast.Node) {
	info := m.pkg.TypesInfo
	pureOperand := func(e ast.Expr) bool {
		ok := true
		ast.Inspect(e, func(n ast.Node) bool {
			switch n.(type) {
			case *ast.CallExpr, *ast.IndexExpr, *ast.StarExpr, *ast.SliceExpr, *ast.TypeAssertExpr, *ast.UnaryExpr:
				ok = false
			}
			return ok
		})
		return ok
	}
	ast.Inspect(body, func(n ast.Node) bool {
		switch x := n.(type) {
		case *ast.BinaryExpr:
			lt := info.TypeOf(x.X)
			num := basicInfo(lt)&types.IsNumeric != 0
			switch x.Op {
			case token.ADD, token.MUL:
				// float addition/multiplication is commutative (not associative): swap the two operands when neither can panic
				if num && pureOperand(x.X) && pureOperand(x.Y) {
					m.add("eq-commute", x.Pos(), x.End(), "("+m.text(x.Y)+") "+x.Op.String()+" ("+m.text(x.X)+")")
				}
			case token.LSS, token.LEQ, token.GTR, token.GEQ:
				if pureOperand(x.X) && pureOperand(x.Y) {
					mir := map[token.Token]string{token.LSS: ">", token.LEQ: ">=", token.GTR: "<", token.GEQ: "<="}[x.Op]
					m.add("eq-mirror", x.Pos(), x.End(), "("+m.text(x.Y)+") "+mir+" ("+m.text(x.X)+")")
				}
			case token.EQL, token.NEQ:
				// len(x) == 0  ->  len(x) < 1 ; len(x) != 0 -> len(x) >= 1
				if call, ok := x.X.(*ast.CallExpr); ok {
					if fn, ok := call.Fun.(*ast.Ident); ok && fn.Name == "len" && m.text(x.Y) == "0" {
						if x.Op == token.EQL {
							m.add("eq-lenzero", x.Pos(), x.End(), m.text(x.X)+" < 1")
						} else {
							m.add("eq-lenzero", x.Pos(), x.End(), m.text(x.X)+" >= 1")
						}
					}
				}
				if pureOperand(x.X) && pureOperand(x.Y) {
					if _, isNil := x.Y.(*ast.Ident); !(isNil && m.text(x.Y) == "nil") {
						m.add("eq-commute", x.Pos(), x.End(), "("+m.text(x.Y)+") "+x.Op.String()+" ("+m.text(x.X)+")")
					}
				}
			}
		case *ast.IfStmt:
			if x.Init == nil && x.Else != nil {
				if eb, ok := x.Else.(*ast.BlockStmt); ok {
					// if c {A} else {B}  ->  if !(c) {B} else {A}
					m.add("eq-flipif", x.Pos(), x.End(), "if !("+m.text(x.Cond)+") "+m.text(eb)+" else "+m.text(x.Body))
				}
			}
			if be, ok := x.Cond.(*ast.BinaryExpr); ok && x.Init == nil {
				switch be.Op {
				case token.LAND:
					// De Morgan:  a && b  ->  !(!(a) || !(b))
					m.add("eq-demorgan", x.Cond.Pos(), x.Cond.End(), "!(!("+m.text(be.X)+") || !("+m.text(be.Y)+"))")
					if x.Else == nil {
						// if a && b {X}  ->  if a { if b {X} }
						m.add("eq-nestif", x.Pos(), x.End(), "if "+m.text(be.X)+" { if "+m.text(be.Y)+" "+m.text(x.Body)+" }")
					}
				case token.LOR:
					m.add("eq-demorgan", x.Cond.Pos(), x.Cond.End(), "!(!("+m.text(be.X)+") && !("+m.text(be.Y)+"))")
				}
			}
		case *ast.AssignStmt:
			if len(x.Lhs) == 1 && len(x.Rhs) == 1 {
				if id, ok := x.Lhs[0].(*ast.Ident); ok && basicInfo(info.TypeOf(id))&types.IsNumeric != 0 {
					switch x.Tok {
					case token.ADD_ASSIGN:
						m.add("eq-expandop", x.Pos(), x.End(), id.Name+" = "+id.Name+" + ("+m.text(x.Rhs[0])+")")
					case token.SUB_ASSIGN:
						m.add("eq-expandop", x.Pos(), x.End(), id.Name+" = "+id.Name+" - ("+m.text(x.Rhs[0])+")")
					}
				}
			}
		case *ast.IncDecStmt:
			if id, ok := x.X.(*ast.Ident); ok {
				if x.Tok == token.INC {
					m.add("eq-expandop", x.Pos(), x.End(), id.Name+" += 1")
				} else {
					m.add("eq-expandop", x.Pos(), x.End(), id.Name+" -= 1")
				}
			}
		case *ast.RangeStmt:
			// for _, v := range xs {  ->  for zzI := range xs { v := xs[zzI]; (slices, xs a plain name or selector)
			if id, ok := x.Key.(*ast.Ident); ok && id.Name == "_" && x.Value != nil && x.Tok == token.DEFINE {
				if v, ok := x.Value.(*ast.Ident); ok && v.Name != "_" {
					if t := info.TypeOf(x.X); t != nil {
						_, isSlice := t.Underlying().(*types.Slice)
						plain := false
						switch x.X.(type) {
						case *ast.Ident, *ast.SelectorExpr:
							plain = true
						}
						if isSlice && plain {
							m.add("eq-rangeidx", x.Pos(), x.Body.Lbrace+1, "for zzI := range "+m.text(x.X)+" { "+v.Name+" := "+m.text(x.X)+"[zzI];")
						}
					}
				}
			}
		case *ast.ReturnStmt:
			if len(x.Results) == 1 {
				if t := info.TypeOf(x.Results[0]); t != nil {
					if _, isTuple := t.(*types.Tuple); !isTuple && m.text(x.Results[0]) != "nil" {
						m.add("eq-temp", x.Pos(), x.End(), "{ zzTmp := "+m.text(x.Results[0])+"; return zzTmp }")
					}
				}
			}
		}
		return true
	})
}

// renameLocals: one edit per function that renames up to three local variables consistently (all their occurrences).
func (m *mutCollector) renameLocals(fd *ast.FuncDecl) {
	info := m.pkg.TypesInfo
	type occ struct{ pos, end token.Pos }
	byObj := map[types.Object][]occ{}
	var order []types.Object
	ast.Inspect(fd.Body, func(n ast.Node) bool {
		id, ok := n.(*ast.Ident)
		if !ok || id.Name == "_" {
			return true
		}
		obj := info.Defs[id]
		if obj == nil {
			obj = info.Uses[id]
		}
		v, isVar := obj.(*types.Var)
		if !isVar || v.IsField() || v.Pkg() == nil || v.Parent() == nil || v.Parent() == v.Pkg().Scope() {
			return true
		}
		if v.Pos() < fd.Body.Pos() || v.Pos() > fd.Body.End() {
			return true // parameters and results keep their names (they may be documented)
		}
		if _, seen := byObj[obj]; !seen {
			order = append(order, obj)
		}
		byObj[obj] = append(byObj[obj], occ{id.Pos(), id.End()})
		return true
	})
	if len(order) == 0 {
		return
	}
	if len(order) > 3 {
		order = order[:3]
	}
	// build the new body text
	start, end := fd.Body.Pos(), fd.Body.End()
	s0 := m.prog.Fset.Position(start).Offset
	text := []byte(m.text(fd.Body))
	var all []occ
	names := map[token.Pos]string{}
	for _, o := range order {
		for _, oc := range byObj[o] {
			all = append(all, oc)
			names[oc.pos] = o.Name() + "Zr"
		}
	}
	sort.Slice(all, func(i, j int) bool { return all[i].pos > all[j].pos })
	for _, oc := range all {
		a := m.prog.Fset.Position(oc.pos).Offset - s0
		b := m.prog.Fset.Position(oc.end).Offset - s0
		if a < 0 || b > len(text) || a > b {
			return
		}
		text = append(append(append([]byte{}, text[:a]...), []byte(names[oc.pos])...), text[b:]...)
	}
	m.add("eq-rename", start, end, string(text))
}

func enumerateMutants(prog *Program) []*mutant {
	return enumerateEdits(prog, false)
}

func enumerateEdits(prog *Program, benign bool) []*mutant {
	var out []*mutant
	for _, pk := range prog.Pkgs {
		if isTestUtils(pk.PkgPath) {
			continue
		}
		for i, file := range pk.Syntax {
			name := pk.CompiledGoFiles[i]
			if strings.Contains(filepath.Base(name), "zz_verifspec_") || !strings.HasPrefix(name, prog.RepoRoot) {
				continue
			}
			src, err := os.ReadFile(name)
			if err != nil {
				continue
			}
			for _, d := range file.Decls {
				fd, ok := d.(*ast.FuncDecl)
				if !ok || fd.Body == nil {
					continue
				}
				fn := pk.Name + "." + fd.Name.Name
				if obj, ok := pk.TypesInfo.Defs[fd.Name].(*types.Func); ok {
					if sf := prog.SSA.FuncValue(obj); sf != nil {
						fn = funcKey(sf)
					}
				}
				mc := &mutCollector{benign: benign, prog: prog, pkg: pk, src: src, file: name, fn: fn, out: &out}
				mc.walk(fd.Body)
				if benign {
					mc.renameLocals(fd)
				}
			}
		}
	}
	for i, m := range out {
		m.ID = i
	}
	return out
}

// applyMutants returns the overlay entries for the files touched by the given (non-overlapping) mutants.
func applyMutants(ms []*mutant) map[string][]byte {
	byFile := map[string][]*mutant{}
	for _, m := range ms {
		byFile[m.File] = append(byFile[m.File], m)
	}
	out := map[string][]byte{}
	for f, list := range byFile {
		src, err := os.ReadFile(f)
		if err != nil {
			continue
		}
		sort.Slice(list, func(i, j int) bool { return list[i].start > list[j].start })
		for _, m := range list {
			src = append(append(append([]byte{}, src[:m.start]...), []byte(padLines(m.full, src[m.start:m.end]))...), src[m.end:]...)
		}
		out[f] = src
	}
	return out
}

// padLines keeps the line count of the replaced text (so that error positions of other mutants stay attributable).
func padLines(repl string, orig []byte) string {
	n := strings.Count(string(orig), "\n") - strings.Count(repl, "\n")
	for i := 0; i < n; i++ {
		repl += "\n"
	}
	return repl
}

var errPosRe = regexp.MustCompile(`([^\s:]+\.go):(\d+):`)

type funcRange struct {
	file       string
	start, end int
	fn         string
}

// runVariant loads the program with the given mutants applied and returns, per function key, the rules that report a
// violation that the baseline does not have; invalid = mutants whose function does not type-check any more.
func runVariant(repo, verif, work string, ms []*mutant, ranges []funcRange, baseline map[string]bool) (viol map[string]map[string]bool, all map[string]bool, invalid map[int]bool, err error) {
	invalid = map[int]bool{}
	live := append([]*mutant{}, ms...)
	for round := 0; round < 30; round++ {
		overlay, e := specOverlay(repo, filepath.Join(verif, "spec"))
		if e != nil {
			return nil, nil, invalid, e
		}
		for k, v := range applyMutants(live) {
			overlay[k] = v
		}
		prog, _, e := LoadWithSpecs(repo, work, overlay)
		if e != nil {
			le, ok := e.(*LoadError)
			if !ok {
				return nil, nil, invalid, e
			}
			dropped := 0
			type fl struct {
				file string
				line int
			}
			var sites []fl
			for _, pe := range le.Errors {
				file, line := splitPos(pe.Pos)
				sites = append(sites, fl{file, line})
				// compiler output relayed by go list carries the positions in the message text
				for _, mm := range errPosRe.FindAllStringSubmatch(pe.Msg, -1) {
					n, _ := strconv.Atoi(mm[2])
					f := mm[1]
					if !filepath.IsAbs(f) {
						f = filepath.Join(repo, "httpClient", f)
					}
					sites = append(sites, fl{filepath.Clean(f), n})
				}
			}
			for _, st := range sites {
				file, line := st.file, st.line
				inFunc := false
				for _, r := range ranges {
					if r.file == file && line >= r.start && line <= r.end {
						inFunc = true
					}
				}
				if !inFunc {
					// e.g. an import that became unused: every mutant of that file is suspect
					var keep []*mutant
					for _, m := range live {
						if m.File == file {
							invalid[m.ID] = true
							dropped++
						} else {
							keep = append(keep, m)
						}
					}
					live = keep
					continue
				}
				for _, r := range ranges {
					if r.file == file && line >= r.start && line <= r.end {
						var keep []*mutant
						for _, m := range live {
							if m.Func == r.fn && m.File == file {
								invalid[m.ID] = true
								dropped++
							} else {
								keep = append(keep, m)
							}
						}
						live = keep
					}
				}
			}
			if dropped == 0 {
				// not attributable (e.g. an import that became unused): give up on this batch one by one
				if len(live) == 1 {
					invalid[live[0].ID] = true
					return map[string]map[string]bool{}, map[string]bool{}, invalid, nil
				}
				return nil, nil, invalid, fmt.Errorf("unattributable load error: %s", trunc(e.Error(), 300))
			}
			continue
		}
		viol = map[string]map[string]bool{}
		all = map[string]bool{}
		ids := make([]string, 0, len(registry))
		for id := range registry {
			ids = append(ids, id)
		}
		sort.Strings(ids)
		for _, id := range ids {
			c := NewCheck(id, "selftest")
			func() {
				defer func() {
					if r := recover(); r != nil {
						c.Fail("PANIC", "analyzer", fmt.Sprint(r), "", "analyzer panic")
					}
				}()
				registry[id](prog, c)
			}()
			for _, o := range c.Obs {
				if o.Status != Violated {
					continue
				}
				parts := strings.SplitN(o.Key, "|", 3)
				if len(parts) < 3 {
					continue
				}
				bk := parts[0] + "|" + parts[1]
				if baseline[bk] {
					continue
				}
				fn := parts[1]
				if i := strings.Index(fn, "$"); i >= 0 {
					fn = fn[:i]
				}
				if viol[fn] == nil {
					viol[fn] = map[string]bool{}
				}
				viol[fn][id+":"+o.Rule] = true
				all[id+":"+o.Rule] = true
			}
		}
		return viol, all, invalid, nil
	}
	return nil, nil, invalid, fmt.Errorf("variant could not be loaded")
}

func selftestMutants(prog *Program, repo, verif string, shard, shards int, kinds, funcsRe string, outPath string) int {
	work := filepath.Join(verif, "work", fmt.Sprintf("mut%d", os.Getpid()))
	os.MkdirAll(work, 0o755)
	defer os.RemoveAll(work)
	benign := kinds == "benign"
	ms := enumerateEdits(prog, benign)
	if benign {
		kinds = ""
	}
	if kinds != "" {
		want := map[string]bool{}
		for _, k := range strings.Split(kinds, ",") {
			want[k] = true
		}
		var f []*mutant
		for _, m := range ms {
			if want[m.Kind] {
				f = append(f, m)
			}
		}
		ms = f
	}
	if funcsRe != "" {
		re := regexp.MustCompile(funcsRe)
		var f []*mutant
		for _, m := range ms {
			if re.MatchString(m.Func) {
				f = append(f, m)
			}
		}
		ms = f
	}
	// function line ranges for error attribution
	var ranges []funcRange
	for _, pk := range prog.Pkgs {
		for i, file := range pk.Syntax {
			name := pk.CompiledGoFiles[i]
			for _, d := range file.Decls {
				if fd, ok := d.(*ast.FuncDecl); ok && fd.Body != nil {
					fn := pk.Name + "." + fd.Name.Name
					if obj, ok := pk.TypesInfo.Defs[fd.Name].(*types.Func); ok {
						if sf := prog.SSA.FuncValue(obj); sf != nil {
							fn = funcKey(sf)
						}
					}
					ranges = append(ranges, funcRange{name, prog.Fset.Position(fd.Pos()).Line, prog.Fset.Position(fd.End()).Line, fn})
				}
			}
		}
	}
	// baseline violations (known findings) are not attributed to mutants
	baseline := map[string]bool{}
	{
		v, _, _, err := runVariant(repo, verif, work, nil, ranges, map[string]bool{})
		if err != nil {
			fmt.Printf("CHECKER-BROKEN selftest baseline: %v\n", err)
			return 2
		}
		for fn, rules := range v {
			for r := range rules {
				baseline[strings.SplitN(r, ":", 2)[1]+"|"+fn] = true
			}
		}
	}
	// group by function; shard by function
	byFn := map[string][]*mutant{}
	var fns []string
	for _, m := range ms {
		if byFn[m.Func] == nil {
			fns = append(fns, m.Func)
		}
		byFn[m.Func] = append(byFn[m.Func], m)
	}
	sort.Strings(fns)
	var mine []string
	for i, f := range fns {
		if shards <= 1 || i%shards == shard {
			mine = append(mine, f)
		}
	}
	maxPer := 0
	for _, f := range mine {
		if len(byFn[f]) > maxPer {
			maxPer = len(byFn[f])
		}
	}
	fmt.Printf("selftest: %d mutants in %d functions (this shard: %d functions, %d rounds)\n", len(ms), len(fns), len(mine), maxPer)
	var pendingSingles []*mutant
	for round := 0; round < maxPer; round++ {
		var batch []*mutant
		for _, f := range mine {
			if round < len(byFn[f]) {
				batch = append(batch, byFn[f][round])
			}
		}
		viol, _, invalid, err := runVariant(repo, verif, work, batch, ranges, baseline)
		if err != nil {
			// fall back to singles for the whole batch
			pendingSingles = append(pendingSingles, batch...)
			fmt.Printf("  round %d: batch failed (%v); %d mutants queued for single runs\n", round, trunc(err.Error(), 120), len(batch))
			continue
		}
		k, s, iv := 0, 0, 0
		for _, m := range batch {
			if invalid[m.ID] {
				// the function had a type error: retry this mutant alone (another mutant cannot be the cause: one per function)
				m.Status = "invalid"
				iv++
				continue
			}
			if rules := viol[m.Func]; len(rules) > 0 {
				m.Status = "killed"
				m.ReportedBy = joinKeys(rules)
				k++
			} else if benign && len(viol) == 0 {
				m.Status = "survived" // behaviour-preserving edit, nothing reported anywhere: quiet
				s++
			} else {
				pendingSingles = append(pendingSingles, m)
				s++
			}
		}
		fmt.Printf("  round %d: %d mutants: %d reported in their function, %d to re-run alone, %d invalid\n", round, len(batch), k, s, iv)
	}
	for i, m := range pendingSingles {
		_, all, invalid, err := runVariant(repo, verif, work, []*mutant{m}, ranges, baseline)
		switch {
		case err != nil || invalid[m.ID]:
			m.Status = "invalid"
		case len(all) > 0:
			m.Status = "killed"
			m.ReportedBy = joinKeys(all)
		default:
			m.Status = "survived"
		}
		if (i+1)%25 == 0 {
			fmt.Printf("  singles: %d/%d\n", i+1, len(pendingSingles))
		}
	}
	var mineMs []*mutant
	counts := map[string]map[string]int{}
	for _, f := range mine {
		for _, m := range byFn[f] {
			mineMs = append(mineMs, m)
			if counts[m.Kind] == nil {
				counts[m.Kind] = map[string]int{}
			}
			counts[m.Kind][m.Status]++
		}
	}
	for i := range mineMs {
		mineMs[i].File = strings.TrimPrefix(mineMs[i].File, repo+"/")
	}
	b, _ := json.MarshalIndent(map[string]interface{}{"counts": counts, "mutants": mineMs}, "", " ")
	os.MkdirAll(filepath.Dir(outPath), 0o755)
	os.WriteFile(outPath, b, 0o644)
	kinds2 := make([]string, 0, len(counts))
	for k := range counts {
		kinds2 = append(kinds2, k)
	}
	sort.Strings(kinds2)
	for _, k := range kinds2 {
		fmt.Printf("  %-12s %v\n", k, counts[k])
	}
	return 0
}

func joinKeys(m map[string]bool) string {
	var ks []string
	for k := range m {
		ks = append(ks, k)
	}
	sort.Strings(ks)
	if len(ks) > 6 {
		ks = append(ks[:6], "…")
	}
	return strings.Join(ks, ",")
}

// mutationSensitivity (thorough tier): per anchored function up to perFn mutants of different kinds, one mutant per function
// per load, judged by the property's own rules.
func mutationSensitivity(prog *Program, repo, verif, prop string, anchored map[string]bool, known map[string]bool, perFn int) (applied, reported, invalidN int) {
	work := filepath.Join(verif, "work", fmt.Sprintf("mut%d", os.Getpid()))
	os.MkdirAll(work, 0o755)
	defer os.RemoveAll(work)
	all := enumerateMutants(prog)
	byFn := map[string][]*mutant{}
	var fns []string
	for _, m := range all {
		if !anchored[m.Func] {
			continue
		}
		// spread over kinds: keep the first mutant of each kind, up to perFn
		dup := false
		for _, o := range byFn[m.Func] {
			if o.Kind == m.Kind {
				dup = true
			}
		}
		if dup || len(byFn[m.Func]) >= perFn {
			continue
		}
		if byFn[m.Func] == nil {
			fns = append(fns, m.Func)
		}
		byFn[m.Func] = append(byFn[m.Func], m)
	}
	sort.Strings(fns)
	var ranges []funcRange
	for _, pk := range prog.Pkgs {
		for i, file := range pk.Syntax {
			name := pk.CompiledGoFiles[i]
			for _, d := range file.Decls {
				if fd, ok := d.(*ast.FuncDecl); ok && fd.Body != nil {
					fn := pk.Name + "." + fd.Name.Name
					if obj, ok := pk.TypesInfo.Defs[fd.Name].(*types.Func); ok {
						if sf := prog.SSA.FuncValue(obj); sf != nil {
							fn = funcKey(sf)
						}
					}
					ranges = append(ranges, funcRange{name, prog.Fset.Position(fd.Pos()).Line, prog.Fset.Position(fd.End()).Line, fn})
				}
			}
		}
	}
	for round := 0; round < perFn; round++ {
		var batch []*mutant
		for _, f := range fns {
			if round < len(byFn[f]) {
				batch = append(batch, byFn[f][round])
			}
		}
		if len(batch) == 0 {
			break
		}
		viol, invalid, err := runVariantFor(repo, verif, work, prop, batch, ranges, known)
		if err != nil {
			invalidN += len(batch)
			continue
		}
		for _, m := range batch {
			switch {
			case invalid[m.ID]:
				invalidN++
			case viol[m.Func]:
				applied++
				reported++
			default:
				applied++
			}
		}
	}
	return
}

// runVariantFor: like runVariant but with one property's rules only; returns the functions with a violation that is not a known finding.
func runVariantFor(repo, verif, work, prop string, ms []*mutant, ranges []funcRange, known map[string]bool) (map[string]bool, map[int]bool, error) {
	invalid := map[int]bool{}
	live := append([]*mutant{}, ms...)
	for round := 0; round < 30; round++ {
		overlay, e := specOverlay(repo, filepath.Join(verif, "spec"))
		if e != nil {
			return nil, invalid, e
		}
		for k, v := range applyMutants(live) {
			overlay[k] = v
		}
		prog, _, e := LoadWithSpecs(repo, work, overlay)
		if e != nil {
			le, ok := e.(*LoadError)
			if !ok {
				return nil, invalid, e
			}
			dropped := 0
			for _, pe := range le.Errors {
				file, line := splitPos(pe.Pos)
				sites := [][2]string{{file, strconv.Itoa(line)}}
				for _, mm := range errPosRe.FindAllStringSubmatch(pe.Msg, -1) {
					f := mm[1]
					if !filepath.IsAbs(f) {
						f = filepath.Join(repo, "httpClient", f)
					}
					sites = append(sites, [2]string{filepath.Clean(f), mm[2]})
				}
				for _, st := range sites {
					ln, _ := strconv.Atoi(st[1])
					var keep []*mutant
					for _, m := range live {
						hit := false
						if m.File == st[0] {
							inFn := false
							for _, r := range ranges {
								if r.file == st[0] && ln >= r.start && ln <= r.end {
									inFn = true
									if r.fn == m.Func {
										hit = true
									}
								}
							}
							if !inFn {
								hit = true
							}
						}
						if hit {
							invalid[m.ID] = true
							dropped++
						} else {
							keep = append(keep, m)
						}
					}
					live = keep
				}
			}
			if dropped == 0 {
				return nil, invalid, fmt.Errorf("unattributable load error")
			}
			continue
		}
		c := NewCheck(prop, "selftest")
		func() {
			defer func() { recover() }()
			registry[prop](prog, c)
		}()
		viol := map[string]bool{}
		for _, o := range c.Obs {
			if o.Status != Violated || known[o.Key] {
				continue
			}
			parts := strings.SplitN(o.Key, "|", 3)
			if len(parts) < 3 {
				continue
			}
			fn := parts[1]
			if i := strings.Index(fn, "$"); i >= 0 {
				fn = fn[:i]
			}
			viol[fn] = true
		}
		return viol, invalid, nil
	}
	return nil, invalid, fmt.Errorf("variant could not be loaded")
}
