package main

// E5 (part 4): package-level variable initialisers. A spec file may declare
// `var Spec_X = <expr>`; the stores the package initialiser performs for X must
// equal those it performs for Spec_X (same value graph, function literals compared pairwise).

import (
	"fmt"
	"regexp"
	"sort"
	"strings"

	"golang.org/x/tools/go/ssa"
)

type globalInit struct {
	Items    []string // canonical "path := value" strings, ordinals normalised
	Closures []*ssa.Function
}

var ordRe = regexp.MustCompile(`(closure|local|makemap|makeslice)#(\d+)`)
var funcLitRe = regexp.MustCompile(`func:\w+\.init\$(\d+)`)

var makemapRe = regexp.MustCompile(`makemap#\d+:[^ ,(){}]+`)

// collectGlobalInit: canonical description of everything the package initialiser stores into the global
// (value graphs of the stored values, structural for literals; updates of maps created for it).
func collectGlobalInit(p *Program, s *summarizer, init *ssa.Function, g *ssa.Global, canonName string) *globalInit {
	gi := &globalInit{}
	ord := map[string]string{}
	name := "global:" + g.Pkg.Pkg.Name() + "." + g.Name()
	isThis := func(target string) bool {
		i := strings.Index(target, name)
		if i < 0 {
			return false
		}
		rest := target[i+len(name):]
		return rest == "" || !(rest[0] == '_' || rest[0] >= '0' && rest[0] <= '9' || rest[0] >= 'a' && rest[0] <= 'z' || rest[0] >= 'A' && rest[0] <= 'Z')
	}
	canonOf := func(t *Term) string {
		str, need := tryCanon(t, map[string]bool{})
		if need != "" {
			return printTerm(t)
		}
		return str
	}
	var raw []string
	maps := map[string]bool{}
	for _, e := range s.sum.Effects {
		if e.Kind != "store" {
			continue
		}
		target := canonOf(e.Args[0])
		if !isThis(target) {
			continue
		}
		val := canonOf(e.Args[1])
		raw = append(raw, target+" := "+val)
		for _, m := range makemapRe.FindAllString(val, -1) {
			maps[m] = true
		}
	}
	for changed := true; changed; {
		changed = false
		for _, e := range s.sum.Effects {
			if e.Kind != "mapupdate" {
				continue
			}
			m := canonOf(e.Args[0])
			if !maps[m] {
				continue
			}
			item := m + "[" + canonOf(e.Args[1]) + "] := " + canonOf(e.Args[2])
			dup := false
			for _, r := range raw {
				if r == item {
					dup = true
				}
			}
			if dup {
				continue
			}
			raw = append(raw, item)
			for _, mm := range makemapRe.FindAllString(item, -1) {
				if !maps[mm] {
					maps[mm] = true
					changed = true
				}
			}
		}
	}
	norm := func(str string) string {
		str = strings.ReplaceAll(str, name, "global:"+canonName)
		str = funcLitRe.ReplaceAllStringFunc(str, func(m string) string {
			if v, ok := ord[m]; ok {
				return v
			}
			v := fmt.Sprintf("funclit@%d", len(ord))
			ord[m] = v
			fname := m[strings.LastIndex(m, ".")+1:]
			for _, af := range init.AnonFuncs {
				if af.Name() == fname {
					gi.Closures = append(gi.Closures, af)
				}
			}
			return v
		})
		return ordRe.ReplaceAllStringFunc(str, func(m string) string {
			if v, ok := ord[m]; ok {
				return v
			}
			kind := m[:strings.Index(m, "#")]
			v := fmt.Sprintf("%s@%d", kind, len(ord))
			ord[m] = v
			if kind == "closure" {
				var n int
				fmt.Sscanf(m[strings.Index(m, "#")+1:], "%d", &n)
				if n < len(s.ord.closList) {
					gi.Closures = append(gi.Closures, s.ord.closList[n])
				}
			}
			return v
		})
	}
	for _, r := range raw {
		gi.Items = append(gi.Items, norm(r))
	}
	// references to other globals of the spec overlay denote their counterparts
	for i := range gi.Items {
		gi.Items[i] = strings.ReplaceAll(gi.Items[i], "."+specPrefix, ".")
	}
	return gi
}

// ruleGlobals compares every Spec_ global with its counterpart (if anchored in the property).
func ruleGlobals(p *Program, c *Check) {
	rule := "E5-globals"
	var pkgs []*ssa.Package
	for _, sp := range p.SSAPkgs {
		pkgs = append(pkgs, sp)
	}
	sort.Slice(pkgs, func(i, j int) bool { return pkgs[i].Pkg.Path() < pkgs[j].Pkg.Path() })
	for _, sp := range pkgs {
		init := sp.Func("init")
		if init == nil || init.Blocks == nil {
			continue
		}
		var s *summarizer
		for name, m := range sp.Members {
			sg, ok := m.(*ssa.Global)
			if !ok || !strings.HasPrefix(name, specPrefix) {
				continue
			}
			target := strings.TrimPrefix(name, specPrefix)
			key := "global:" + sp.Pkg.Name() + "." + target
			if !anchoredIn(c.Property, key) {
				continue
			}
			c.Rule(rule, "the initial value of every anchored package-level variable (including the function literals stored in it) equals its reference declaration", 1)
			cg, ok := sp.Members[target].(*ssa.Global)
			if !ok {
				c.Fail(rule, key, "initialiser", "?", "the anchored package-level variable no longer exists")
				continue
			}
			if s == nil {
				s = newSummarizer(p, init)
				s.collect()
			}
			canon := sp.Pkg.Name() + "." + target
			a := collectGlobalInit(p, s, init, cg, canon)
			b := collectGlobalInit(p, s, init, sg, canon)
			var problems []string
			if strings.Join(a.Items, "\n") != strings.Join(b.Items, "\n") {
				problems = append(problems, fmt.Sprintf("initial value differs: code [%s] reference [%s]", trunc(strings.Join(a.Items, "; "), 500), trunc(strings.Join(b.Items, "; "), 500)))
			}
			if len(a.Closures) != len(b.Closures) {
				problems = append(problems, "number of function literals differs")
			} else {
				for i := range a.Closures {
					res := compareSummaries(p, Summarize(p, a.Closures[i]), Summarize(p, b.Closures[i]))
					if !res.OK {
						problems = append(problems, fmt.Sprintf("function literal #%d: %s", i, strings.Join(res.Details, " ## ")))
					}
				}
			}
			c.Decide(len(problems) == 0, rule, key, "initialiser", p.pos(cg.Pos()), strings.Join(problems, " ## "))
		}
	}
}
