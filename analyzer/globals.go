package main

// E5 (part 4): package-level variable initialisers. A spec file may declare
// `var Spec_X = <expr>`; the stores the package initialiser performs for X must
// equal those it performs for Spec_X (same value graph, function literals compared pairwise).

import (
	"fmt"
	"regexp"
	"sort"
	"strings"

	"golang.org/x/tools/go/ssa"
)

type globalInit struct {
	Items    []string // canonical "path := value" strings, ordinals normalised
	Closures []*ssa.Function
}

var ordRe = regexp.MustCompile(`(closure|local|makemap|makeslice)#(\d+)`)
var funcLitRe = regexp.MustCompile(`func:\w+\.init\$(\d+)`)

func collectGlobalInit(p *Program, s *summarizer, init *ssa.Function, g *ssa.Global, canonName string) *globalInit {
	gi := &globalInit{}
	ord := map[string]string{}
	norm := func(str string) string {
		str = strings.ReplaceAll(str, "global:"+g.Pkg.Pkg.Name()+"."+g.Name(), "global:"+canonName)
		str = funcLitRe.ReplaceAllStringFunc(str, func(m string) string {
			if v, ok := ord[m]; ok {
				return v
			}
			v := fmt.Sprintf("funclit@%d", len(ord))
			ord[m] = v
			name := m[strings.LastIndex(m, ".")+1:]
			for _, af := range init.AnonFuncs {
				if af.Name() == name {
					gi.Closures = append(gi.Closures, af)
				}
			}
			return v
		})
		return ordRe.ReplaceAllStringFunc(str, func(m string) string {
			if v, ok := ord[m]; ok {
				return v
			}
			kind := m[:strings.Index(m, "#")]
			v := fmt.Sprintf("%s@%d", kind, len(ord))
			ord[m] = v
			if kind == "closure" {
				var n int
				fmt.Sscanf(m[strings.Index(m, "#")+1:], "%d", &n)
				if n < len(s.ord.closList) {
					gi.Closures = append(gi.Closures, s.ord.closList[n])
				}
			}
			return v
		})
	}
	for _, b := range init.Blocks {
		for _, in := range b.Instrs {
			st, ok := in.(*ssa.Store)
			if !ok {
				continue
			}
			rooted := false
			for _, r := range rootsOf(st.Addr) {
				if r.Kind == RGlobal && r.V == g && r.Deref == 0 {
					rooted = true
				}
			}
			if !rooted {
				continue
			}
			at, _ := tryCanon(s.addrTerm(st.Addr), map[string]bool{})
			vt, need := tryCanon(s.term(st.Val), map[string]bool{})
			if need != "" {
				vt = printTerm(s.term(st.Val))
			}
			gi.Items = append(gi.Items, norm(at+" := "+vt))
		}
	}
	return gi
}

// ruleGlobals compares every Spec_ global with its counterpart (if anchored in the property).
func ruleGlobals(p *Program, c *Check) {
	rule := "E5-globals"
	var pkgs []*ssa.Package
	for _, sp := range p.SSAPkgs {
		pkgs = append(pkgs, sp)
	}
	sort.Slice(pkgs, func(i, j int) bool { return pkgs[i].Pkg.Path() < pkgs[j].Pkg.Path() })
	for _, sp := range pkgs {
		init := sp.Func("init")
		if init == nil || init.Blocks == nil {
			continue
		}
		var s *summarizer
		for name, m := range sp.Members {
			sg, ok := m.(*ssa.Global)
			if !ok || !strings.HasPrefix(name, specPrefix) {
				continue
			}
			target := strings.TrimPrefix(name, specPrefix)
			key := "global:" + sp.Pkg.Name() + "." + target
			if !anchoredIn(c.Property, key) {
				continue
			}
			c.Rule(rule, "the initial value of every anchored package-level variable (including the function literals stored in it) equals its reference declaration", 1)
			cg, ok := sp.Members[target].(*ssa.Global)
			if !ok {
				c.Fail(rule, key, "initialiser", "?", "the anchored package-level variable no longer exists")
				continue
			}
			if s == nil {
				s = newSummarizer(p, init)
			}
			canon := sp.Pkg.Name() + "." + target
			a := collectGlobalInit(p, s, init, cg, canon)
			b := collectGlobalInit(p, s, init, sg, canon)
			var problems []string
			if strings.Join(a.Items, "\n") != strings.Join(b.Items, "\n") {
				problems = append(problems, fmt.Sprintf("initial value differs: code [%s] reference [%s]", trunc(strings.Join(a.Items, "; "), 500), trunc(strings.Join(b.Items, "; "), 500)))
			}
			if len(a.Closures) != len(b.Closures) {
				problems = append(problems, "number of function literals differs")
			} else {
				for i := range a.Closures {
					res := compareSummaries(p, Summarize(p, a.Closures[i]), Summarize(p, b.Closures[i]))
					if !res.OK {
						problems = append(problems, fmt.Sprintf("function literal #%d: %s", i, strings.Join(res.Details, " ## ")))
					}
				}
			}
			c.Decide(len(problems) == 0, rule, key, "initialiser", p.pos(cg.Pos()), strings.Join(problems, " ## "))
		}
	}
}
