package main

// Which reference implementations (spec overlay) are obligations of which property.
// Patterns are regular expressions over function keys (package.(Recv).Name).

import (
	"fmt"
	"go/types"
	"regexp"
	"sort"
	"strconv"
	"strings"

	"golang.org/x/tools/go/ssa"
)

var anchorPatterns = map[string][]string{
	// complete, well-formed ranking: the four ranking builders, the search order, result arrays, current choice carried through listeners
	"C01": {`^type:model\.(AlternativesRankEntry|AlternativeResult|AlternativeWithCriteria|DecisionMakerChoice)$`, `^model\.UpdateAlternatives$`, `^(criteria_concealment\.generateCriterionValuesForAlternatives|criteria_mixing\.updateDMParams|preference_reversal\.updateAlternativesWithReversedCriteriaValues|criteria_omission\.omitCriteria|fatigue\.prepareResult)$`, `^anchoring\.\(\*(Inline|NewCriterion)AnchoringApplier\)\.ApplyAnchoring$`, `^(majority|satisfaction|aspect_elimination)\.\(\*\w+\)\.ParseParams$`,

		`^model\.\(\*AlternativeResults\)\.Ranking$`, `^model\.\(\*AlternativeResult\)\.positionInRanking$`, `^model\.Rank$`,
		`^limited_rationality\.`, `^majority\.prepareRanking$`, `^majority\.\(\*Majority\)\.Evaluate$`, `^majority\.\(\*\w+Resolver\)\.Resolve$`,
		`^majority\.\(\*Majority\)\.takeBetter$`, `^electreIII\.EvaluateRanking$`, `^electreIII\.ElectreIII$`,
		`^aspect_elimination\.(checkWithinSatisfactionLevels|fillRemainingAlternatives|updateResult)$`, `^aspect_elimination\.\(\*AspectEliminationHeuristic\)\.Evaluate$`,
		`^satisfaction\.(checkWithinSatisfactionLevels|fillRemainingAlternatives|updateResult)$`, `^satisfaction\.\(\*Satisfaction\)\.Evaluate$`,
		`^model\.(RemoveAlternative|CopyAlternatives|ShuffleAlternatives|FetchAlternatives|FetchAlternative)$`,
		`^model\.\(\*DecisionMaker\)\.(AlternativesToConsider|NotConsideredAlternatives|prepareParams|MakeDecision)$`,
		`^model\.\(\*DecisionMakingParams\)\.AllAlternatives$`, `^model\.\(\*AlternativesRanking\)\.ReverseOrder$`,
		`^(majority|satisfaction|aspect_elimination)\.\(\*\w+BiasListener\)\.(Merge|OnCriteriaRemoved)$`,
		`^(satisfaction|aspect_elimination)\.\(\*\w+\)\.with$`, `^(majority|satisfaction)\.\(\*\w+\)\.GetCurrentChoice$`,
	},
	"C02": {`^type:model\.DecisionMaker$`,
		`^utils\.(RandomGenerator|RandomBasedSeedValueGenerator|NewValueInRangeGenerator)$`, `^main\.`, `^global:main\.`,
		// the functions the tabled collect-then-sort map ranges (ND-3 class S) rely on
		`^model\.\(\*Weights\)\.AsKeyValue$`, `^owa\.(sortAlternativeCriteriaWeights|additionAsOwaParams)$`, `^choquet\.(prepareCriteriaInAscendingOrder|computeTotalWeight|criterionKey)$`,
		`^choquet\.\(\*criteriaWeights\)\.(Less|Len|Swap)$`, `^satisfaction_levels\.\(\*SatisfactionLevelsUpdateListeners\)\.Fetch$`},
	"C03": {`^model\.\(\*Criteria\)\.(Get|Len)$`, `^type:model\.(EvaluationSingleValue|AlternativeResult|AlternativesRankEntry|WeightType)$`,

		`^weighted_sum\.`, `^owa\.`, `^choquet\.`, `^model\.\(\*AlternativeResult\)\.(rounded|Value)$`, `^model\.(ValueAlternativeResult|Rank|ExtractWeights)$`,
		`^model\.\(\*AlternativeWithCriteria\)\.(CriterionValue|CriterionRawValue)$`, `^model\.\(\*Criterion\)\.(Multiplier|IsGain)$`,
		`^model\.\(\*Criteria\)\.(ZipWithWeights|FindWeight|Names)$`, `^model\.\(\*Weights\)\.Fetch$`, `^utils\.FloatsAreEqual$`,
	},
	"C04": {`^model\.\(\*DecisionMaker\)\.(AlternativesToConsider|NotConsideredAlternatives|prepareParams)$`, `^model\.(FetchAlternatives|FetchAlternative)$`, `^type:model\.(EvaluationSingleValue|AlternativeResult|AlternativesRankEntry)$`, `^model\.\(\*AlternativeResults\)\.(Len|Swap)$`,

		`^model\.\(\*AlternativeResults\)\.(Ranking|Less)$`, `^model\.\(\*AlternativeResult\)\.(positionInRanking|rounded|Value)$`, `^model\.Rank$`, `^model\.ValueAlternativeResult$`,
		// listing-order independence also of what a bias asks the utility methods about the criteria (defect 37)
		`^(weighted_sum|owa|choquet)\.\(\*\w+Bias[Ll][Ii]stener\)\.RankCriteriaAscending$`, `^model\.(PrepareCumulatedWeightsMap|SortAlternativesByName)$`, `^choquet\.decomposeWeights$`,
	},
	"C05": {`^type:electreIII\.`, `^global:electreIII\.`, `^type:utils\.LinearFunctionParameters$`,
		`^electreIII\.`, `^utils\.\(\*LinearFunctionParameters\)\.Evaluate$`, `^utils\.(IsPositive|ContainsInts)$`,
		`^model\.\(\*AlternativeWithCriteria\)\.(CriterionValue|CriterionRawValue)$`, `^model\.\(\*Criterion\)\.Multiplier$`},
	"C07": {`^global:main\.`, `^type:(anchoring|criteria_concealment|criteria_mixing|criteria_omission|fatigue|preference_reversal|model)\.`,

		`^(anchoring|criteria_concealment|criteria_mixing|criteria_omission|fatigue|preference_reversal)\.`,
		`\.\(\*\w+Bias[Ll][Ii]stener\)\.`, `^satisfaction_levels\.\(\*(ThresholdSatisfactionLevelsSource|IdealCoefficientSatisfactionLevelsSource|ThresholdSatisfactionLevels|SatisfactionLevelsUpdateListeners)\)\.`,
		`^satisfaction_levels\.(assignNewThresholds|fetchParams|mapThresholdsToEntries|sortThresholds)$`,
		`^model\.(UpdateAlternatives|AddCriterionToAlternatives|PreserveCriteriaForAlternatives|PrepareCumulatedWeightsMap|NewCriterionValue|SingleWeight|WeightIdentity|FetchAlternative)$`,
		`^model\.\(\*AlternativeWithCriteria\)\.(WithCriterion|WithCriteriaOnly|WithCriteriaValues)$`,
		`^model\.\(\*Criteria\)\.(Add|NotUsedName|countWithPrefix|SortByWeights|Weight|FindWeight|ShallowCopy)$`, `^model\.firstFreeName$`,
		`^model\.\(\*Weights\)\.(Merge|PreserveOnly|Copy|Fetch)$`, `^model\.\(\*DecisionMaker\)\.(processBiases|prepareParams)$`, `^model\.\(\*BiasListeners\)\.Fetch$`,
		`^model\.\(\*DecisionMakingParams\)\.AllAlternatives$`, `^(aspect_elimination|satisfaction)\.\(\*\w+\)\.(with|getMethodParams)$`,
		`^owa\.(additionAsOwaParams|addCriteria|_sortWeightsMutate)$`, `^owa\.\(\*owaParams\)\.`, `^weighted_sum\.\(\*weightedSumParams\)\.Criterion$`,
		`^choquet\.(PowerSet|PowerSetSize|criterionKey|getWeightForCriteriaUnion|getWeightForCombinedCriterion|decomposeWeights)$`,
		`^criteria_(ordering|splitting)\.`, `^reference_criterion\.`, `^criteria_bounding\.`, `^utils\.RemoveSingleStringOccurrence$`,
	},
	"C08": {`^type:model\.(BiasParams|BiasWithProps|BiasedResult|DecisionMakerChoice|DecisionMaker)$`, `^global:main\.biases$`,
		`^model\.(ChooseBiases|UpdateBiasesProps)$`, `^model\.\(\*DecisionMaker\)\.(processBiases|MakeDecision)$`, `^utils\.(RandomGenerator|RandomBasedSeedValueGenerator)$`, `^main\.decideHandler$`},
	"C09": {`^electreIII\.getDistillationFunc$`, `^utils\.NewValueRange$`, `^model\.\(\*Criteria\)\.Validate$`, `^choquet\.\(\*ChoquetIntegralBiasListener\)\.(Merge|OnCriterionAdded|OnCriteriaRemoved)$`, `^weighted_sum\.\(\*WeightedSumBiasListener\)\.Merge$`, `^global:`,

		`^model\.(FetchAlternatives|FetchAlternative|CopyAlternatives|ShuffleAlternatives|SortAlternativesByName|RemoveAlternative|RemoveAlternativeAt|UpdateAlternatives|AddCriterionToAlternatives|PreserveCriteriaForAlternatives|CriteriaValuesRange|ValuesRangeWithGroundZero|RescaleCriterion)$`,
		`^model\.\(\*DecisionMaker\)\.(NotConsideredAlternatives|AlternativesToConsider|prepareParams|processBiases|MakeDecision)$`,
		`^model\.\(\*DecisionMakingParams\)\.AllAlternatives$`, `^model\.\(\*Criteria\)\.(Add|ShallowCopy|SortByWeights|ZipWithWeights)$`,
		`^model\.\(\*Weights\)\.(Copy|Merge|PreserveOnly)$`, `^model\.\(\*AlternativeWithCriteria\)\.(WithCriterion|WithCriteriaOnly|WithCriteriaValues)$`,
		`^limited_rationality\.`, `^fatigue\.(prepareResult|blurCriteriaValues)$`, `^fatigue\.\(\*Fatigue\)\.Apply$`,
		`^preference_reversal\.(reverseCriteriaForEachAlternative|updateAlternativesWithReversedCriteriaValues|getCriteriaToReverse|prepareReverseResult)$`,
		`^anchoring\.\(\*(Inline|NewCriterion)AnchoringApplier\)\.ApplyAnchoring$`, `^anchoring\.(addAnchoringCriteriaToAlternatives|normalizeCriteriaByTotalValue)$`,
		`^criteria_ordering\.(shuffleCriteria)$`, `^criteria_ordering\.\(\*\w+\)\.OrderCriteria$`, `^satisfaction_levels\.\(\*IdealCoefficientSatisfactionLevels\)\.(Initialize|Next)$`,
		`^owa\.(sortWeights|_sortWeightsMutate)$`, `^electreIII\.\(\*Matrix\)\.(Without|Slice|Filter)$`, `^utils\.\(\*ValueRange\)\.ScaleEqually$`, `^criteria_bounding\.scaleRange$`,
		`^majority\.prepareRanking$`, `^(aspect_elimination|satisfaction)\.checkWithinSatisfactionLevels$`, `^main\.`,
		// what the other three biases report against what they hand on
		`^criteria_omission\.omitCriteria$`, `^criteria_omission\.\(\*CriteriaOmission\)\.Apply$`,
		`^criteria_concealment\.\(\*CriteriaConcealment\)\.(Apply|addCriterion)$`, `^criteria_concealment\.(generateCriterionValuesForAlternatives|assignNewCriterionToAlternatives)$`,
		`^criteria_mixing\.\(\*CriteriaMixing\)\.Apply$`, `^criteria_mixing\.(updateDMParams|updateAlternatives|prepareMixedCriterion)$`,
		`^preference_reversal\.\(\*PreferenceReversal\)\.Apply$`, `^anchoring\.\(\*Anchoring\)\.Apply$`,
	},
	"C10": {`^global:`,

		`\.BlankParams$`, `\.NewProvider$`, `^reference_criterion\.\(\*ReferenceCriteriaManager\)\.`, `^reference_criterion\.NewReferenceCriteriaManager$`,
		`^satisfaction_levels\.Find$`, `^satisfaction_levels\.\(\*SatisfactionLevelsUpdateListeners\)\.`, `^anchoring\.parseFuncParams$`, `^fatigue\.parseFatigueFuncParams$`,
		`^fatigue\.\(\*Fatigue\)\.Apply$`, `^utils\.(RandomGenerator|RandomBasedSeedValueGenerator|DecodeToStruct|AsMap)$`, `\.New\w+$`, `^main\.`,
		`^satisfaction_levels\.\(\*(IdealCoefficientSatisfactionLevels|ThresholdSatisfactionLevels)\)\.`, `^choquet\.PowerSet$`,
	},
	"C11": {`^model\.\(\*DecisionMaker\)\.(AlternativesToConsider|NotConsideredAlternatives|prepareParams)$`, `^model\.(FetchAlternatives|FetchAlternative)$`, `^type:majority\.`, `^global:main\.funcs$`,
		`^majority\.`, `^limited_rationality\.(GetAlternativesSearchOrder|OrderAlternatives)$`, `^utils\.FloatsAreEqual$`,
		`^model\.\(\*AlternativeWithCriteria\)\.CriterionValue$`, `^model\.\(\*Criteria\)\.ZipWithWeights$`, `^model\.\(\*AlternativesRanking\)\.ReverseOrder$`},
	"C12": {`^type:aspect_elimination\.`, `^satisfaction_levels\.\(\*\w+Source\)\.BlankParams$`, `^global:main\.(funcs|increasingSatisfactionLevels)$`, `^global:satisfaction_levels\.`, `^satisfaction_levels\.\(\*(IdealCoefficientSatisfactionLevels|IncreasingCoefficientManager)\)\.`,
		`^aspect_elimination\.(checkWithinSatisfactionLevels|fillRemainingAlternatives|updateResult|isBellowThreshold|makeWeightPair|sortCriteria)$`,
		`^aspect_elimination\.\(\*AspectEliminationHeuristic\)\.(Evaluate|ParseParams)$`, `^limited_rationality\.(OrderAlternatives|PrepareSequentialRanking)$`,
		`^satisfaction_levels\.Find$`, `^model\.(RemoveAlternative|CopyAlternatives|ShuffleAlternatives)$`, `^model\.\(\*AlternativeWithCriteria\)\.CriterionValue$`,
		`^model\.\(\*Criteria\)\.ZipWithWeights$`, `^satisfaction_levels\.\(\*ThresholdSatisfactionLevels\)\.(Initialize|HasNext|Next)$`},
	"C13": {`^type:satisfaction\.`, `^satisfaction_levels\.\(\*\w+Source\)\.BlankParams$`, `^global:main\.(funcs|decreasingSatisfactionLevels)$`, `^global:satisfaction_levels\.`, `^satisfaction_levels\.\(\*(IdealCoefficientSatisfactionLevels|DecreasingCoefficientManager)\)\.`, `^satisfaction\.\(\*SatisfactionBiasListener\)\.`,
		`^satisfaction\.(checkWithinSatisfactionLevels|fillRemainingAlternatives|updateResult|isGoodEnough|weightsSupplier)$`,
		`^satisfaction\.\(\*Satisfaction\)\.(Evaluate|ParseParams)$`, `^satisfaction\.\(\*SatisfactionParameters\)\.`, `^limited_rationality\.`,
		`^satisfaction_levels\.Find$`, `^model\.(RemoveAlternative|CopyAlternatives|ShuffleAlternatives|CriteriaValuesRange)$`, `^model\.\(\*AlternativeWithCriteria\)\.CriterionValue$`,
		`^model\.\(\*Criteria\)\.ZipWithWeights$`, `^model\.\(\*Criterion\)\.(IsGain|Multiplier)$`, `^satisfaction_levels\.\(\*ThresholdSatisfactionLevels\)\.(Initialize|HasNext|Next)$`,
		`^model\.\(\*DecisionMakingParams\)\.AllAlternatives$`},
	"C14": {`^type:satisfaction_levels\.`, `^global:main\.(funcs|biasListeners)$`,
		`^satisfaction_levels\.\(\*(IdealCoefficientSatisfactionLevels|IncreasingCoefficientManager|DecreasingCoefficientManager|IdealCoefficientSatisfactionLevelsSource)\)\.`,
		`^satisfaction_levels\.Find$`, `^model\.CriteriaValuesRange$`, `^utils\.\(\*ValueRange\)\.Diff$`, `^utils\.NewValueRange$`, `^model\.\(\*Criterion\)\.Multiplier$`,
		`^model\.\(\*DecisionMakingParams\)\.AllAlternatives$`, `^global:satisfaction_levels\.`, `^global:main\.(increasing|decreasing)`,
		// from which state the two heuristics initialise the series they walk
		`^(aspect_elimination|satisfaction)\.\(\*\w+\)\.(ParseParams|Evaluate)$`},
	"C15": {`^global:main\.(criteriaOrdering|biases|biasListeners)$`, `^type:(criteria_omission|criteria_splitting|criteria_ordering)\.`,
		`^criteria_omission\.`, `^criteria_splitting\.`, `^criteria_ordering\.`, `^model\.\(\*Criteria\)\.(SortByWeights|Weight|FindWeight)$`,
		`\.\(\*\w+Bias[Ll][Ii]stener\)\.(RankCriteriaAscending|OnCriteriaRemoved)$`, `^model\.(PrepareCumulatedWeightsMap|WeightIdentity|PreserveCriteriaForAlternatives)$`,
		`^choquet\.(decomposeWeights|computeTotalWeight|prepareCriteriaInAscendingOrder)$`, `^model\.\(\*WeightedCriteria\)\.Criteria$`, `^model\.\(\*Weights\)\.PreserveOnly$`,
		`^model\.\(\*AlternativeWithCriteria\)\.WithCriteriaOnly$`, `^satisfaction_levels\.\(\*\w+Source\)\.OnCriteriaRemoved$`, `^satisfaction_levels\.\(\*ThresholdSatisfactionLevels\)\.preserveLeftThresholds$`,
		`^utils\.(IsProbability|IsInBounds)$`, `^weighted_sum\.\(\*weightedSumParams\)\.Criterion$`, `^owa\.\(\*owaParams\)\.find$`, `^(aspect_elimination|satisfaction)\.\(\*\w+\)\.(with|getMethodParams)$`},
	"C16": {`^utils\.NewValueRange$`, `^type:preference_reversal\.`, `^global:main\.(criteriaOrdering|biases)$`,
		`^preference_reversal\.`, `^criteria_splitting\.`, `^criteria_ordering\.`, `^model\.(CriteriaValuesRange|UpdateAlternatives)$`, `^model\.\(\*Weights\)\.(Copy|Fetch)$`,
		`^model\.\(\*AlternativeWithCriteria\)\.WithCriteriaValues$`, `^model\.\(\*DecisionMakingParams\)\.AllAlternatives$`},
	"C17": {`^type:(fatigue|criteria_bounding)\.`, `^global:main\.biases$`, `^utils\.NewValueRange$`,
		`^fatigue\.`, `^criteria_bounding\.`, `^utils\.\(\*ExpFromZeroFunction\)\.Evaluate$`, `^utils\.\(\*ValueRange\)\.(ScaleEqually|Diff)$`, `^model\.CriteriaValuesRange$`,
		`^model\.\(\*AlternativeWithCriteria\)\.(WithCriteriaValues|CriterionRawValue)$`, `^model\.\(\*DecisionMakingParams\)\.AllAlternatives$`},
	"C18": {`^type:(criteria_concealment|criteria_mixing|reference_criterion)\.`, `^global:main\.(biases|referenceCriterionManager)$`, `^global:model\.`,
		`^criteria_concealment\.`, `^criteria_mixing\.`, `^reference_criterion\.`, `^model\.(ValuesRangeWithGroundZero|RescaleCriterion|scaleCriterion|GetScaleRatio|GetNormalScaleRatio|NewCriterionValue|SingleWeight|AddCriterionToAlternatives|SortAlternativesByName|UpdateAlternatives|CriteriaValuesRange)$`,
		`^criteria_bounding\.`, `^utils\.NewValueInRangeGenerator$`, `\.\(\*\w+Bias[Ll][Ii]stener\)\.(OnCriterionAdded|Merge|OnCriteriaRemoved)$`, `^satisfaction_levels\.\(\*\w+Source\)\.(OnCriterionAdded|Merge)$`,
		`^satisfaction_levels\.(assignNewThresholds|mapThresholdsToEntries|sortThresholds)$`, `^satisfaction_levels\.\(\*ThresholdSatisfactionLevels\)\.merge$`,
		`^model\.\(\*Criteria\)\.(NotUsedName|countWithPrefix|Add)$`, `^model\.firstFreeName$`, `^model\.\(\*AlternativeWithCriteria\)\.WithCriterion$`,
		`^utils\.\(\*ValueRange\)\.(ScaleEqually|Diff)$`, `^utils\.(IsProbability|IsInBounds)$`, `^owa\.(additionAsOwaParams|addCriteria)$`, `^owa\.\(\*owaParams\)\.(merge|find)$`,
		`^model\.\(\*Weights\)\.Merge$`},
	"C19": {`^type:anchoring\.`, `^global:main\.biases$`, `^global:model\.`,
		`^anchoring\.`, `^criteria_bounding\.`, `^model\.(GetScaleRatio|GetNormalScaleRatio|CriteriaValuesRange|UpdateAlternatives)$`,
		`^utils\.\(\*(ExpFromZeroFunction|LinearFunctionParameters)\)\.Evaluate$`, `^utils\.\(\*ValueRange\)\.(Diff|ScaleEqually)$`,
		`^model\.\(\*AlternativeWithCriteria\)\.(CriterionValue|WithCriterion|WithCriteriaValues)$`, `^model\.\(\*Criterion\)\.IsGain$`},
	"C20": {`\.\(\*\w+\)\.MethodParameters$`, `^model\.\(\*(Criteria|BiasListeners|PreferenceFunctions|BiasMap)\)\.(Get|Len)$`, `^global:main\.`, `^type:main\.`, `^type:model\.(DecisionMaker|DecisionMakerChoice|Criterion|BiasParams)$`, `^satisfaction_levels\.\(\*(IdealCoefficientSatisfactionLevels|IncreasingCoefficientManager|DecreasingCoefficientManager|ThresholdSatisfactionLevels)\)\.`, `^global:satisfaction_levels\.`, `^global:electreIII\.`,
		`^main\.`, `^model\.\(\*DecisionMaker\)\.(MakeDecision|validateAlternatives|prepareParams)$`, `^model\.\(\*Criteria\)\.(Validate|FindWeight)$`,
		`^model\.\(\*(PreferenceFunctions|BiasListeners)\)\.(Fetch|FetchParameters)$`, `^model\.(ChooseBiases|FetchAlternative|ExtractWeights|IsStringBlank)$`,
		`^model\.\(\*Weights\)\.Fetch$`, `^model\.\(\*AlternativeWithCriteria\)\.CriterionRawValue$`,
		`^electreIII\.(validateParameters|requireBValueAtLeast|getDistillationFunc|extractElectreIIICriteria|distillate|updatePositions|getDistillateMatrix|evaluatePair|rank|ElectreIII)$`,
		`^electreIII\.\(\*ElectreIIIPreferenceFunc\)\.ParseParams$`, `^electreIII\.\(\*Matrix\)\.(FindBest|Without|Slice)$`,
		`^choquet\.(parse|remapWeights|validateAllCriteriaAreGain|validateAllWeightsAvailable|prepareWeights|validateWeightValue|getWeightForCombinedCriterion|EachSubSet|PowerSet|PowerSetSize)$`,
		`^choquet\.\(\*ChoquetIntegralPreferenceFunc\)\.ParseParams$`, `^owa\.\(\*OWAPreferenceFunc\)\.ParseParams$`, `^owa\.(toArray|validateSameCriteriaAndWeightsCount)$`,
		`^criteria_splitting\.(Parse)$`, `^criteria_splitting\.\(\*CriteriaSplitCondition\)\.validate$`, `^criteria_bounding\.FromParams$`,
		`^satisfaction_levels\.\(\*(In|De)creasingCoefficientManager\)\.Validate$`, `^satisfaction_levels\.Find$`, `^satisfaction_levels\.\(\*ThresholdSatisfactionLevels\)\.Initialize$`,
		`^criteria_mixing\.(parseProps)$`, `^criteria_mixing\.\(\*CriteriaMixingParams\)\.validate$`, `^criteria_concealment\.parseProps$`,
		`^criteria_ordering\.FetchOrderingResolver$`, `^fatigue\.\(\*Fatigue\)\.getFatigueFunction$`, `^anchoring\.\(\*Anchoring\)\.get\w+$`, `^anchoring\.(parseProps|checkAnchoringAlternatives)$`,
		`^majority\.\(\*Majority\)\.drawResolver$`, `^reference_criterion\.\(\*ReferenceCriteriaManager\)\.(factory|ForParams)$`,
		`^utils\.(IsProbability|IsInBounds|DecodeToStruct)$`, `^weighted_sum\.\(\*WeightedSumPreferenceFunc\)\.ParseParams$`, `^weighted_sum\.\(\*weightedSumParams\)\.Criterion$`,
		// every method validates its parameters before the biases run (defect 31)
		`\.\(\*\w+\)\.ParseParams$`, `^model\.\(\*Criteria\)\.ZipWithWeights$`,
	},
}

var anchorRe = map[string][]*regexp.Regexp{}

func init() {
	for id, pats := range anchorPatterns {
		for _, p := range pats {
			anchorRe[id] = append(anchorRe[id], regexp.MustCompile(p))
		}
	}
}

// commonAnchors: how a request is decomposed before any method or bias runs (which alternatives are considered, in which
// order, with which parsed parameters) and how it travels through the HTTP handler is a premise of every property about
// the outcome of a decision.
var commonAnchorRe = []*regexp.Regexp{
	regexp.MustCompile(`^model\.\(\*DecisionMaker\)\.(MakeDecision|prepareParams|AlternativesToConsider|NotConsideredAlternatives|validateAlternatives)$`),
	regexp.MustCompile(`^model\.(FetchAlternatives|FetchAlternative)$`),
	regexp.MustCompile(`^model\.\(\*PreferenceFunctions\)\.(Fetch|Get|Len)$`),
	// the HTTP handler decodes the request every property speaks about and encodes the response it is observed in
	regexp.MustCompile(`^main\.(decideHandler|writeJSON|writeError)$`),
}

// shallowAnchorRe: compared themselves, their callees are not pulled in. C20: where a bias parses (= validates) its props
// relative to its early returns decides whether an invalid request is answered with a ranking (defect 23).
var shallowAnchorRe = map[string][]*regexp.Regexp{
	"C20": {regexp.MustCompile(`^(criteria_omission|criteria_mixing|criteria_concealment|preference_reversal|fatigue|anchoring)\.\(\*\w+\)\.Apply$`),
		// the two bounds that keep a small request from exhausting the memory (defects 30, 33)
		regexp.MustCompile(`^choquet\.\(\*ChoquetIntegralBiasListener\)\.OnCriterionAdded$`), regexp.MustCompile(`^criteria_mixing\.\(\*criteriaToMix\)\.criterion$`)},
}

func commonAnchor(prop, key string) bool {
	for _, re := range shallowAnchorRe[prop] {
		if re.MatchString(key) {
			return true
		}
	}
	if prop == "C02" || prop == "C10" {
		return false
	}
	for _, re := range commonAnchorRe {
		if re.MatchString(key) {
			return true
		}
	}
	return false
}

// fpExactRe: the functions whose property clause is an exact statement about floating-point values, so that a
// reassociation that is an identity over the reals (max-v+min for max-(v-min)) changes what the property promises.
var fpExactRe = map[string][]*regexp.Regexp{
	"C16": {regexp.MustCompile(`^preference_reversal\.`)},
	"C14": {regexp.MustCompile(`^satisfaction_levels\.`)},
	"C04": {regexp.MustCompile(`^model\.\(\*?AlternativeResult\)\.rounded$`)},
	"C03": {regexp.MustCompile(`^model\.\(\*?AlternativeResult\)\.rounded$`)},
	// C18: a mixed value lies between its two components (ratio 1 gives c1 itself)
	"C18": {regexp.MustCompile(`^criteria_mixing\.\(\*criteriaToMix\)\.mix$`), regexp.MustCompile(`^model\.scaleCriterion$`)},
	// C19/C09: the inline applier reports exactly new - old
	"C19": {regexp.MustCompile(`^anchoring\.\(\*InlineAnchoringApplier\)\.ApplyAnchoring$`), regexp.MustCompile(`^anchoring\.(pointOfRange|calculateReferencePointDiffs|addAnchoringCriteriaToAlternatives)$`)},
	"C09": {regexp.MustCompile(`^anchoring\.\(\*InlineAnchoringApplier\)\.ApplyAnchoring$`)},
}

var fpExactMin = map[string]int{"C16": 5, "C14": 10, "C04": 1, "C03": 1, "C18": 1, "C19": 1, "C09": 1}

func fpExact(prop, key string) bool {
	for _, re := range fpExactRe[prop] {
		if re.MatchString(key) {
			return true
		}
	}
	return false
}

func anchoredIn(prop, key string) bool {
	for _, re := range anchorRe[prop] {
		if re.MatchString(key) {
			return true
		}
	}
	return false
}

// ruleE5 checks every reference implementation anchored in the property.
func ruleE5(p *Program, c *Check, min int) {
	rule := "E5-formula"
	c.Rule(rule, "the value graph (results, guarded effects, loop-carried values, loop conditions and exits, function literals) of every anchored function equals, "+
		"over the reals and under every truth assignment of its atomic comparisons, the value graph of the reference implementation written from the property statement", min)
	pairs, missing := p.specPairs()
	// An anchored function is compared modulo the identity of the paired helpers it calls, so those helpers are
	// obligations of the same property: the anchor set is closed under static calls and function references.
	anchored := map[string]bool{}
	byCode := map[*ssa.Function]string{}
	for _, sp := range pairs {
		byCode[sp.Code] = sp.Key
		if anchoredIn(c.Property, sp.Key) {
			anchored[sp.Key] = true
		}
	}
	direct := len(anchored)
	for changed := true; changed; {
		changed = false
		for _, sp := range pairs {
			if !anchored[sp.Key] {
				continue
			}
			for _, g := range staticRefs(sp.Code) {
				if k, ok := byCode[g]; ok && !anchored[k] {
					anchored[k] = true
					changed = true
				}
			}
		}
	}
	closed := len(anchored)
	// the request-decomposition functions are compared themselves, their callees are not pulled in
	for _, sp := range pairs {
		if commonAnchor(c.Property, sp.Key) {
			anchored[sp.Key] = true
		}
	}
	c.Extra["anchors"] = map[string]int{"matched_by_pattern": direct, "added_as_static_callees": closed - direct, "request_decomposition": len(anchored) - closed}
	// the struct types whose fields the anchored functions read or write are obligations of the same property (E5-types)
	usedTypes := map[string]bool{}
	for _, sp := range pairs {
		if anchored[sp.Key] {
			for k := range structTypesUsed(sp.Code) {
				usedTypes[k] = true
			}
		}
	}
	c.usedTypes = usedTypes
	c.anchoredFuncs = anchored
	for _, sp := range pairs {
		if !anchored[sp.Key] {
			continue
		}
		res := compareSummaries(p, Summarize(p, sp.Code), Summarize(p, sp.Spec))
		detail := ""
		if !res.OK {
			detail = strings.Join(res.Details, " ## ")
		} else {
			detail = "equal to the reference on " + itoa(res.Labels) + " labelled terms over " + itoa(res.Cases) + " boolean cases"
		}
		construct := "value-graph"
		if !res.OK {
			fp := res.Finger
			if fp == "" {
				fp = "shape"
			}
			// the fingerprint (first differing label + hash of the code-side term) identifies this particular deviation
			construct += "#" + stripPos(fp)
		}
		c.Decide(res.OK, rule, sp.Key, construct, p.fpos(sp.Code), detail)
		if res.OK && fpExact(c.Property, sp.Key) {
			c.Rule("E5-fp", "where the property states an exact identity on floating-point end points (a mirrored range end is the other end, "+
				"a generated level stays inside its range, a utility is rounded to 1e-8), the floating-point operations of the anchored function are "+
				"evaluated in the reference's order (commutative operands aside): equality over the reals is not enough", fpExactMin[c.Property])
			fpShapeMode = true
			r2 := compareSummaries(p, Summarize(p, sp.Code), Summarize(p, sp.Spec))
			fpShapeMode = false
			d2 := "floating-point operations in the reference's order"
			if !r2.OK {
				d2 = "equal to the reference over the reals, but rounded differently: " + strings.Join(r2.Details, " ## ")
			}
			c.Decide(r2.OK, "E5-fp", sp.Key, "fp-shape", p.fpos(sp.Code), d2)
		}
	}
	// anchors without a directly comparable counterpart (helper renamed, removed, inlined or with a changed
	// interface; reference dropped because a type it uses changed): they are covered through their callers by
	// inlining, not reported as violations. The minimum instance count of the rule guards against vacuity.
	var unmatched []string
	sort.Strings(missing)
	for _, k := range missing {
		if anchoredIn(c.Property, k) {
			unmatched = append(unmatched, k)
		}
	}
	for _, d := range p.Drifted {
		k := driftKey(d)
		if !anchoredIn(c.Property, k) {
			continue
		}
		if cf := p.codeByNormKey(k); cf != nil {
			// the anchored function is still there, but something its reference relies on (a type, a field, a method
			// set) changed: the formula can no longer be validated
			c.Fail(rule, k, "value-graph#reference-does-not-type-check", p.fpos(cf),
				"the reference implementation of this function no longer type-checks against the working tree (a type, field or method it relies on changed), so the function cannot be validated")
			continue
		}
		unmatched = append(unmatched, k+" (removed together with what its reference used)")
	}
	if len(unmatched) > 0 {
		c.Extra["unmatched_anchors"] = unmatched
		fmt.Printf("NOTE property=%s %d anchored functions have no directly comparable counterpart any more (compared through their callers): %s\n",
			c.Property, len(unmatched), trunc(strings.Join(unmatched, ", "), 400))
	}
	ruleGlobals(p, c)
	ruleTypes(p, c)
	ruleConsts(p, c, verifRoot, anchored)
	ruleTypeDefs(p, c, verifRoot, usedTypes)
}

func itoa(i int) string { return strconv.Itoa(i) }

// driftKey converts "pkg.*Recv.Spec_Name" / "pkg.Spec_Name" (from the overlay parser) into a function key.
func driftKey(d string) string {
	d = strings.Replace(d, specPrefix, "", 1)
	parts := strings.SplitN(d, ".", 3)
	if len(parts) == 3 {
		return parts[0] + ".(" + parts[1] + ")." + parts[2]
	}
	return d
}

var posInLabel = regexp.MustCompile(`\([^)]*\)`)

// stripPos removes variable names and file:line parts from a label so that keys stay independent of positions and local names.
func stripPos(s string) string { return posInLabel.ReplaceAllString(s, "") }

// staticRefs: repository functions a function calls statically or refers to as a value (incl. through its function literals).
func staticRefs(f *ssa.Function) []*ssa.Function {
	var out []*ssa.Function
	seen := map[*ssa.Function]bool{}
	var visit func(fn *ssa.Function)
	visit = func(fn *ssa.Function) {
		for _, b := range fn.Blocks {
			for _, in := range b.Instrs {
				for _, op := range in.Operands(nil) {
					if op == nil || *op == nil {
						continue
					}
					g, ok := (*op).(*ssa.Function)
					if !ok || seen[g] {
						continue
					}
					seen[g] = true
					if g.Parent() != nil {
						visit(g) // function literal: part of the enclosing function
						continue
					}
					out = append(out, g)
				}
			}
		}
		for _, anon := range fn.AnonFuncs {
			if !seen[anon] {
				seen[anon] = true
				visit(anon)
			}
		}
	}
	visit(f)
	return out
}

// structTypesUsed: named repository struct types whose fields the function (or its function literals) accesses, builds or
// receives/returns.
func structTypesUsed(f *ssa.Function) map[string]bool {
	out := map[string]bool{}
	var add func(t types.Type)
	add = func(t types.Type) {
		for i := 0; i < 3; i++ {
			switch x := t.(type) {
			case *types.Pointer:
				t = x.Elem()
				continue
			case *types.Slice:
				t = x.Elem()
				continue
			}
			break
		}
		n, ok := t.(*types.Named)
		if !ok || n.Obj().Pkg() == nil {
			return
		}
		if _, isStruct := n.Underlying().(*types.Struct); !isStruct {
			// other named types (Weight, Weights, Criteria, CriterionType, ...): their definition is pinned by E5-typedefs
			out["typedef:"+n.Obj().Pkg().Name()+"."+n.Obj().Name()] = true
			if m, isMap := n.Underlying().(*types.Map); isMap {
				add(m.Elem())
			}
			return
		}
		out["type:"+n.Obj().Pkg().Name()+"."+n.Obj().Name()] = true
	}
	var visit func(fn *ssa.Function)
	visit = func(fn *ssa.Function) {
		for _, prm := range fn.Params {
			add(prm.Type())
		}
		res := fn.Signature.Results()
		for i := 0; i < res.Len(); i++ {
			add(res.At(i).Type())
		}
		for _, b := range fn.Blocks {
			for _, in := range b.Instrs {
				switch x := in.(type) {
				case *ssa.FieldAddr:
					add(x.X.Type())
				case *ssa.Field:
					add(x.X.Type())
				case *ssa.Alloc:
					add(x.Type())
				case *ssa.MakeInterface:
					add(x.X.Type())
				case *ssa.BinOp:
					add(x.X.Type())
				case *ssa.MakeMap:
					add(x.Type())
				case *ssa.MakeSlice:
					add(x.Type())
				case *ssa.Lookup:
					add(x.X.Type())
				case *ssa.MapUpdate:
					add(x.Map.Type())
				}
			}
		}
		for _, anon := range fn.AnonFuncs {
			visit(anon)
		}
	}
	visit(f)
	return out
}
