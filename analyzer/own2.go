package main

// E2, continued: two aliasing rules added after the ninth seed round (Go-language-semantics traps), decided
// without any reference implementation.
//
// OWN-3  no forked append across statements or calls: one slice value is the base of two appends that can both
//        execute in one activation (the second reachable from the first), where an "append" is the builtin or a
//        call that hands the value to a parameter its callee appends to (summary, fixpoint over static callees
//        and interface implementers). Both results share the spare capacity of the base: the second overwrites
//        what the first wrote. The accumulate idiom x = append(x, ...) uses a new SSA value per append and is
//        not concerned; the in-loop form is OWN-2's.
// OWN-4  no retained pointer to a variable that is rewritten per iteration: a local variable declared outside a
//        loop (which, under the module's `go 1.12` language version, includes every range/for variable) and
//        stored to inside the loop must not have its address - directly, as a field/element address, or through
//        a callee that returns or stores its parameter (summary) - stored into memory inside that loop: every
//        iteration would retain the same pointer and see the last iteration's value.

import (
	"fmt"
	"go/types"
	"sort"

	"golang.org/x/tools/go/ssa"
)

type aliasSumm struct {
	p       *Program
	appends map[*ssa.Function]map[int]bool // parameter index -> appended to
	retains map[*ssa.Function]map[int]bool // parameter index -> returned or stored
}

var aliasSummCache = map[*Program]*aliasSumm{}

func aliasSummaries(p *Program) *aliasSumm {
	if s, ok := aliasSummCache[p]; ok {
		return s
	}
	s := &aliasSumm{p: p, appends: map[*ssa.Function]map[int]bool{}, retains: map[*ssa.Function]map[int]bool{}}
	var all []*ssa.Function
	for _, f := range p.Funcs {
		if f.Blocks != nil {
			all = append(all, f)
		}
	}
	for changed := true; changed; {
		changed = false
		for _, f := range all {
			for i, par := range f.Params {
				if _, isSlice := par.Type().Underlying().(*types.Slice); isSlice && !s.appends[f][i] {
					if len(s.appendUses(par)) > 0 {
						if s.appends[f] == nil {
							s.appends[f] = map[int]bool{}
						}
						s.appends[f][i] = true
						changed = true
					}
				}
				if mayCarryPointer(par.Type()) && !s.retains[f][i] {
					if s.retained(par, true) {
						if s.retains[f] == nil {
							s.retains[f] = map[int]bool{}
						}
						s.retains[f][i] = true
						changed = true
					}
				}
			}
		}
	}
	aliasSummCache[p] = s
	return s
}

func mayCarryPointer(t types.Type) bool {
	switch t.Underlying().(type) {
	case *types.Pointer, *types.Interface:
		return true
	}
	return false
}

// argParams: for a call site and an operand position in Common().Args, the (callee, parameter index) pairs.
func (s *aliasSumm) argParams(site ssa.CallInstruction, argIdx int) (out []struct {
	f *ssa.Function
	i int
}) {
	repo, _, _ := s.p.callees(site)
	off := 0
	if site.Common().IsInvoke() {
		off = 1
	}
	for _, f := range repo {
		if argIdx+off < len(f.Params) {
			out = append(out, struct {
				f *ssa.Function
				i int
			}{f, argIdx + off})
		}
	}
	return out
}

// appendUses: the instructions that append to the backing array of v (v itself, or v passed on unchanged).
func (s *aliasSumm) appendUses(v ssa.Value) []ssa.Instruction {
	var out []ssa.Instruction
	seen := map[ssa.Value]bool{}
	var walk func(v ssa.Value)
	walk = func(v ssa.Value) {
		if seen[v] || v.Referrers() == nil {
			return
		}
		seen[v] = true
		for _, r := range *v.Referrers() {
			switch x := r.(type) {
			case *ssa.ChangeType:
				walk(x)
			case ssa.CallInstruction:
				c := x.Common()
				if b, ok := c.Value.(*ssa.Builtin); ok {
					if b.Name() == "append" && len(c.Args) > 0 && c.Args[0] == v {
						out = append(out, x)
					}
					continue
				}
				for ai, a := range c.Args {
					if a != v {
						continue
					}
					for _, fp := range s.argParams(x, ai) {
						if s.appends[fp.f][fp.i] {
							out = append(out, x)
							break
						}
					}
				}
			}
		}
	}
	walk(v)
	return out
}

// derived: the values that carry the pointer v (v itself, addresses inside the variable, conversions, phis, and
// results of calls that return a retained parameter).
func (s *aliasSumm) derived(v ssa.Value) map[ssa.Value]bool {
	set := map[ssa.Value]bool{}
	var walk func(v ssa.Value)
	walk = func(v ssa.Value) {
		if set[v] {
			return
		}
		set[v] = true
		if v.Referrers() == nil {
			return
		}
		for _, r := range *v.Referrers() {
			switch x := r.(type) {
			case *ssa.FieldAddr:
				walk(x)
			case *ssa.IndexAddr:
				if x.X == v {
					walk(x)
				}
			case *ssa.ChangeType:
				walk(x)
			case *ssa.Convert:
				walk(x)
			case *ssa.MakeInterface:
				walk(x)
			case *ssa.ChangeInterface:
				walk(x)
			case *ssa.Phi:
				walk(x)
			case *ssa.Call:
				c := x.Common()
				if _, ok := c.Value.(*ssa.Builtin); ok {
					continue
				}
				for ai, a := range c.Args {
					if a != v {
						continue
					}
					for _, fp := range s.argParams(x, ai) {
						if s.retains[fp.f][fp.i] && mayCarryPointer(x.Type()) {
							walk(x)
						}
					}
				}
			case *ssa.Extract:
				walk(x)
			case *ssa.MakeClosure:
				// a function literal that captures the variable by reference carries its address
				for _, bnd := range x.Bindings {
					if bnd == v {
						walk(x)
					}
				}
			}
		}
	}
	walk(v)
	return set
}

// retained: a value derived from v is stored as a value somewhere (or, withReturn, returned).
func (s *aliasSumm) retained(v ssa.Value, withReturn bool) bool {
	for d := range s.derived(v) {
		if d.Referrers() == nil {
			continue
		}
		for _, r := range *d.Referrers() {
			switch x := r.(type) {
			case *ssa.Store:
				if x.Val == d {
					return true
				}
			case *ssa.Return:
				if withReturn {
					return true
				}
			case *ssa.MapUpdate:
				if x.Value == d || x.Key == d {
					return true
				}
			case *ssa.Call:
				// handed to a callee that stores it (summary "retains" covers returned-or-stored; a callee that only
				// returns it is followed by derived())
			}
		}
	}
	return false
}

func blockReach(from *ssa.BasicBlock) map[*ssa.BasicBlock]bool {
	seen := map[*ssa.BasicBlock]bool{}
	var walk func(b *ssa.BasicBlock)
	walk = func(b *ssa.BasicBlock) {
		for _, s := range b.Succs {
			if !seen[s] {
				seen[s] = true
				walk(s)
			}
		}
	}
	walk(from)
	return seen
}

// blockReachAvoiding: blocks reachable from `from` by at least one edge without entering `avoid`.
func blockReachAvoiding(from, avoid *ssa.BasicBlock) map[*ssa.BasicBlock]bool {
	seen := map[*ssa.BasicBlock]bool{}
	var walk func(b *ssa.BasicBlock)
	walk = func(b *ssa.BasicBlock) {
		for _, s := range b.Succs {
			if s == avoid || seen[s] {
				continue
			}
			seen[s] = true
			walk(s)
		}
	}
	walk(from)
	return seen
}

func instrIndex(in ssa.Instruction) int {
	for i, x := range in.Block().Instrs {
		if x == in {
			return i
		}
	}
	return -1
}

func ruleOWN3(p *Program, c *Check, funcs []*ssa.Function) {
	c.Rule("OWN-3", "a slice value is the base of at most one append (the builtin, or a call whose callee appends to that parameter) per activation path: "+
		"two appends to the same base share its spare capacity and the second overwrites the first's element", 1)
	s := aliasSummaries(p)
	for _, f := range funcs {
		fk := funcKey(f)
		var vals []ssa.Value
		for _, par := range f.Params {
			vals = append(vals, par)
		}
		for _, b := range f.Blocks {
			for _, in := range b.Instrs {
				if v, ok := in.(ssa.Value); ok {
					vals = append(vals, v)
				}
			}
		}
		for _, v := range vals {
			if _, isSlice := v.Type().Underlying().(*types.Slice); !isSlice {
				continue
			}
			if _, isCT := v.(*ssa.ChangeType); isCT {
				continue // counted with its operand
			}
			uses := s.appendUses(v)
			if len(uses) == 0 {
				continue
			}
			if k, isConst := v.(*ssa.Const); isConst && k.Value == nil {
				continue
			}
			if isFreshEmpty(v) {
				continue
			}
			problem := ""
			sort.Slice(uses, func(i, j int) bool { return uses[i].Pos() < uses[j].Pos() })
			// a second append conflicts when it can execute after the first without v being defined anew in between
			// (a loop-carried base is a new value in every iteration)
			var defBlock *ssa.BasicBlock
			if in, ok := v.(ssa.Instruction); ok {
				defBlock = in.Block()
			}
			for i := 0; i < len(uses) && problem == ""; i++ {
				a := uses[i]
				reach := blockReachAvoiding(a.Block(), defBlock)
				for j := 0; j < len(uses) && problem == ""; j++ {
					b := uses[j]
					follows := false
					if a.Block() == b.Block() && instrIndex(a) < instrIndex(b) {
						follows = true
					} else if reach[b.Block()] {
						follows = true
					}
					if follows && i == j {
						problem = fmt.Sprintf("%s is appended to at %s in a loop that does not define it anew: every iteration writes into the same spare capacity",
							describeValue(v), p.ipos(a))
					} else if follows {
						problem = fmt.Sprintf("%s is appended to at %s and again at %s on the same path: the two results share the base's spare capacity",
							describeValue(v), p.ipos(a), p.ipos(b))
					}
				}
			}
			pos := p.fpos(f)
			if in, ok := v.(ssa.Instruction); ok {
				pos = p.ipos(in)
			}
			c.Decide(problem == "", "OWN-3", fk, "appendbase="+describeValue(v), pos, problem)
		}
	}
}

func ruleOWN4(p *Program, c *Check, funcs []*ssa.Function) {
	c.Rule("OWN-4", "the address of a variable that is declared outside a loop and assigned inside it (every range/for variable under the module's go 1.12 semantics) "+
		"is not stored into memory inside that loop, neither directly nor through a callee that returns or stores its parameter", 1)
	s := aliasSummaries(p)
	for _, f := range funcs {
		fk := funcKey(f)
		heads := loopHeaders(f)
		if len(heads) == 0 {
			continue
		}
		for _, b := range f.Blocks {
			for _, in := range b.Instrs {
				al, ok := in.(*ssa.Alloc)
				if !ok || al.Referrers() == nil {
					continue
				}
				problem := ""
				relevant := false
				for _, h := range heads {
					loop := loopBlocks(h)
					if loop[al.Block()] {
						continue
					}
					storedInLoop := false
					for _, r := range *al.Referrers() {
						if st, ok := r.(*ssa.Store); ok && st.Addr == al && loop[st.Block()] {
							storedInLoop = true
						}
					}
					if !storedInLoop {
						continue
					}
					relevant = true
					for d := range s.derived(al) {
						if d.Referrers() == nil {
							continue
						}
						for _, r := range *d.Referrers() {
							if !loop[r.Block()] {
								continue
							}
							switch x := r.(type) {
							case *ssa.Store:
								if x.Val == d && problem == "" {
									problem = fmt.Sprintf("the address of %s (declared outside the loop at %s, assigned in every iteration) is stored at %s: every iteration retains the same pointer",
										al.Comment, p.ipos(h.Instrs[0]), p.ipos(x))
								}
							case *ssa.MapUpdate:
								if (x.Value == d || x.Key == d) && problem == "" {
									problem = fmt.Sprintf("the address of %s (declared outside the loop at %s, assigned in every iteration) is stored in a map at %s",
										al.Comment, p.ipos(h.Instrs[0]), p.ipos(x))
								}
							}
						}
					}
				}
				if relevant {
					c.Decide(problem == "", "OWN-4", fk, "loopvar="+al.Comment, p.ipos(al), problem)
				}
			}
		}
	}
}
