package main

import (
	"bufio"
	"encoding/json"
	"fmt"
	"os"
	"path/filepath"
	"sort"
	"strings"
)

type Status string

const (
	OK        Status = "discharged"
	Violated  Status = "violated"
	Undecided Status = "undecided"
)

// Obligation: one rule instance. Key is position independent:
// <rule>|<package.function>|<construct>.
type Obligation struct {
	Rule   string `json:"rule"`
	Key    string `json:"key"`
	Pos    string `json:"pos"`
	Status Status `json:"status"`
	Detail string `json:"detail,omitempty"`
	Known  bool   `json:"known,omitempty"`
}

type RuleInfo struct {
	ID   string `json:"id"`
	Text string `json:"text"`
	Min  int    `json:"min_instances"`
}

type Check struct {
	Property      string
	Tier          string
	Rules         []RuleInfo
	Obs           []Obligation
	Explanation   string
	NotDecided    string
	Assumptions   []string
	Trusted       []string
	Extra         map[string]interface{}
	Broken        []string // checker-health problems (exit 2)
	usedTypes     map[string]bool
	anchoredFuncs map[string]bool
}

func NewCheck(prop, tier string) *Check {
	return &Check{Property: prop, Tier: tier, Extra: map[string]interface{}{}}
}

func (c *Check) Rule(id, text string, min int) {
	for _, r := range c.Rules {
		if r.ID == id {
			return
		}
	}
	c.Rules = append(c.Rules, RuleInfo{id, text, min})
}

func mkKey(rule, fn, construct string) string { return rule + "|" + fn + "|" + construct }

func (c *Check) add(rule, fn, construct, pos string, st Status, detail string) {
	c.Obs = append(c.Obs, Obligation{Rule: rule, Key: mkKey(rule, fn, construct), Pos: pos, Status: st, Detail: detail})
}

func (c *Check) Pass(rule, fn, construct, pos, detail string) {
	c.add(rule, fn, construct, pos, OK, detail)
}
func (c *Check) Fail(rule, fn, construct, pos, detail string) {
	c.add(rule, fn, construct, pos, Violated, detail)
}
func (c *Check) Undecided(rule, fn, construct, pos, detail string) {
	c.add(rule, fn, construct, pos, Undecided, detail)
}
func (c *Check) Brokenf(format string, a ...interface{}) {
	c.Broken = append(c.Broken, fmt.Sprintf(format, a...))
}

// Decide records pass/fail by a boolean.
func (c *Check) Decide(ok bool, rule, fn, construct, pos, detail string) {
	if ok {
		c.Pass(rule, fn, construct, pos, detail)
	} else {
		c.Fail(rule, fn, construct, pos, detail)
	}
}

// ---------------------------------------------------------------------------
// known findings

type Finding struct {
	Kind     string // known | fixed
	Property string
	Key      string // obligation key (known) or commit (fixed)
	Text     string
}

func loadFindings(path string) ([]Finding, error) {
	f, err := os.Open(path)
	if err != nil {
		if os.IsNotExist(err) {
			return nil, nil
		}
		return nil, err
	}
	defer f.Close()
	var out []Finding
	sc := bufio.NewScanner(f)
	sc.Buffer(make([]byte, 1<<20), 1<<20)
	for sc.Scan() {
		line := strings.TrimSpace(sc.Text())
		if line == "" || strings.HasPrefix(line, "#") {
			continue
		}
		// known: property=C03 key=<key> <text>
		// fixed: property=C01 <commit> <text>
		kind, rest, ok := strings.Cut(line, ":")
		if !ok {
			return nil, fmt.Errorf("bad findings line: %s", line)
		}
		kind = strings.TrimSpace(kind)
		fields := strings.Fields(rest)
		if len(fields) < 2 || !strings.HasPrefix(fields[0], "property=") {
			return nil, fmt.Errorf("bad findings line: %s", line)
		}
		fd := Finding{Kind: kind, Property: strings.TrimPrefix(fields[0], "property=")}
		switch kind {
		case "known":
			if !strings.HasPrefix(fields[1], "key=") {
				return nil, fmt.Errorf("known finding without key=: %s", line)
			}
			fd.Key = strings.TrimPrefix(fields[1], "key=")
			fd.Text = strings.Join(fields[2:], " ")
		case "fixed":
			fd.Key = fields[1]
			fd.Text = strings.Join(fields[2:], " ")
		default:
			return nil, fmt.Errorf("bad findings kind: %s", line)
		}
		out = append(out, fd)
	}
	return out, sc.Err()
}

// ---------------------------------------------------------------------------
// finishing: evidence, output lines, exit code

type sample struct {
	Key    string `json:"key"`
	Pos    string `json:"pos"`
	Status Status `json:"status"`
	Detail string `json:"detail,omitempty"`
}

func (c *Check) Finish(verifDir string, seed int64, wall float64, prog *Program) int {
	findings, err := loadFindings(filepath.Join(verifDir, "known_findings.txt"))
	if err != nil {
		c.Brokenf("known_findings.txt: %v", err)
	}
	known := map[string]Finding{}
	for _, f := range findings {
		if f.Kind == "known" && f.Property == c.Property {
			known[f.Key] = f
		}
	}
	// rule instance counts / vacuity
	counts := map[string]int{}
	for _, o := range c.Obs {
		counts[o.Rule]++
	}
	for _, r := range c.Rules {
		if counts[r.ID] < r.Min {
			c.Brokenf("rule %s matched %d instances, fewer than the %d confirmed by hand (vacuous)", r.ID, counts[r.ID], r.Min)
		}
	}
	// duplicate keys make findings ambiguous: disambiguate by ordinal
	seen := map[string]int{}
	for i := range c.Obs {
		k := c.Obs[i].Key
		seen[k]++
		if seen[k] > 1 {
			c.Obs[i].Key = fmt.Sprintf("%s#%d", k, seen[k])
		}
	}
	var viol, knownHit, undec []Obligation
	discharged := 0
	for i := range c.Obs {
		o := &c.Obs[i]
		switch o.Status {
		case OK:
			discharged++
		case Violated:
			if _, ok := known[o.Key]; ok {
				o.Known = true
				knownHit = append(knownHit, *o)
			} else {
				viol = append(viol, *o)
			}
		case Undecided:
			undec = append(undec, *o)
		}
	}
	evDir := filepath.Join(verifDir, "evidence")
	os.MkdirAll(evDir, 0o755)
	violDir := filepath.Join(evDir, c.Property+".violations")
	os.RemoveAll(violDir)
	for _, o := range knownHit {
		fmt.Printf("KNOWN-FINDING: property=%s %s %s (%s)\n", c.Property, o.Key, known[o.Key].Text, o.Pos)
	}
	for i, o := range viol {
		os.MkdirAll(violDir, 0o755)
		path := filepath.Join(violDir, fmt.Sprintf("%03d.json", i+1))
		b, _ := json.MarshalIndent(map[string]interface{}{
			"property": c.Property, "rule": o.Rule, "key": o.Key, "pos": o.Pos, "detail": o.Detail,
			"rule_text": c.ruleText(o.Rule),
		}, "", " ")
		os.WriteFile(path, b, 0o644)
		fmt.Printf("  violated %s at %s: %s\n", o.Key, o.Pos, o.Detail)
		fmt.Printf("VIOLATION property=%s replay=%s\n", c.Property, path)
	}
	for _, o := range undec {
		fmt.Printf("UNDECIDED property=%s %s at %s: %s\n", c.Property, o.Key, o.Pos, o.Detail)
	}
	for _, b := range c.Broken {
		fmt.Printf("CHECKER-BROKEN property=%s %s\n", c.Property, b)
	}
	// samples: all violated/undecided + a spread of discharged ones
	var samples []sample
	for _, o := range append(append(viol, knownHit...), undec...) {
		samples = append(samples, sample{o.Key, o.Pos, o.Status, o.Detail})
	}
	perRule := map[string]int{}
	for _, o := range c.Obs {
		if o.Status == OK && perRule[o.Rule] < 3 {
			perRule[o.Rule]++
			samples = append(samples, sample{o.Key, o.Pos, o.Status, o.Detail})
		}
	}
	ruleCounts := map[string]map[string]int{}
	for _, o := range c.Obs {
		if ruleCounts[o.Rule] == nil {
			ruleCounts[o.Rule] = map[string]int{}
		}
		ruleCounts[o.Rule][string(o.Status)]++
	}
	distinct := map[string]bool{}
	for _, o := range c.Obs {
		distinct[o.Key] = true
	}
	cov := map[string]interface{}{
		"explanation":         c.Explanation,
		"does_not_decide":     c.NotDecided,
		"obligations":         len(c.Obs),
		"discharged":          discharged,
		"known_findings":      len(knownHit),
		"undecided":           len(undec),
		"evaluations":         len(c.Obs),
		"distinct_nontrivial": len(distinct),
		"rule":                "one obligation per rule instance found in the type-checked SSA program of /repo's working tree; distinct = distinct obligation keys (rule|function|construct)",
		"rules":               c.Rules,
		"rule_instances":      ruleCounts,
		"samples":             samples,
		"checker_cmd":         "bin/rdmcheck -property " + c.Property + " -tier " + c.Tier,
		"trusted_base":        append([]string{"go/types, go/ssa (x/tools v0.29.0)", "closed-world call resolution over repository packages (CHA for interface calls)"}, c.Trusted...),
		"exhaustive":          true,
	}
	if prog != nil {
		cov["packages_analysed"] = len(prog.Pkgs)
		cov["functions_analysed"] = len(prog.Funcs)
		cov["functions_on_request_path"] = len(prog.RPHttp)
	}
	for k, v := range c.Extra {
		cov[k] = v
	}
	ev := map[string]interface{}{
		"property_id": c.Property,
		"tier":        c.Tier,
		"seed":        seed,
		"level":       "other",
		"coverage":    cov,
		"assumptions": c.Assumptions,
		"wall_s":      wall,
		"violations":  len(viol),
	}
	b, _ := json.MarshalIndent(ev, "", " ")
	if err := os.WriteFile(filepath.Join(evDir, c.Property+".json"), b, 0o644); err != nil {
		fmt.Printf("CHECKER-BROKEN property=%s cannot write evidence: %v\n", c.Property, err)
		return 2
	}
	fmt.Printf("%s %s: %d obligations, %d discharged, %d known findings, %d violations, %d undecided (%.1fs)\n",
		c.Property, c.Tier, len(c.Obs), discharged, len(knownHit), len(viol), len(undec), wall)
	rules := make([]string, 0, len(ruleCounts))
	for r := range ruleCounts {
		rules = append(rules, r)
	}
	sort.Strings(rules)
	for _, r := range rules {
		fmt.Printf("  %-28s %v\n", r, ruleCounts[r])
	}
	if len(viol) > 0 {
		return 1
	}
	if len(undec) > 0 || len(c.Broken) > 0 {
		return 2
	}
	return 0
}

func (c *Check) ruleText(id string) string {
	for _, r := range c.Rules {
		if r.ID == id {
			return r.Text
		}
	}
	return ""
}
