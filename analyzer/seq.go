package main

// E5 (part 5): canonical form of "build a slice element by element" loops, so that
//   res := make([]T, n); for i := range xs { res[i] = f(xs[i]) }
//   res := make([]T, 0, n); for _, x := range xs { res = append(res, f(x)) }
//   var res []T; for ... { res = append(res, ...) }
// and copies (make+copy vs append(empty, src...)) have the same value graph.

import (
	"fmt"
	"regexp"
	"sort"
	"strings"
)

func canonStr(t *Term) (string, bool) {
	s, need := tryCanon(t, map[string]bool{})
	return s, need == ""
}

// substitute replaces every sub-term for which match returns a replacement.
func substitute(t *Term, match func(*Term) *Term, memo map[*Term]*Term) *Term {
	if t == nil {
		return nil
	}
	if r, ok := memo[t]; ok {
		return r
	}
	if r := match(t); r != nil {
		memo[t] = r
		return r
	}
	changed := false
	args := make([]*Term, len(t.Args))
	for i, a := range t.Args {
		args[i] = substitute(a, match, memo)
		if args[i] != a {
			changed = true
		}
	}
	if !changed {
		memo[t] = t
		return t
	}
	c := *t
	c.Args = args
	memo[t] = &c
	return &c
}

func (s *Summary) mapTerms(match func(*Term) *Term) {
	memo := map[*Term]*Term{}
	f := func(t *Term) *Term { return substitute(t, match, memo) }
	for i := range s.Results {
		s.Results[i] = f(s.Results[i])
	}
	for i := range s.Effects {
		s.Effects[i].Guard = f(s.Effects[i].Guard)
		for j := range s.Effects[i].Args {
			s.Effects[i].Args[j] = f(s.Effects[i].Args[j])
		}
	}
	for _, l := range s.Loops {
		l.Cond, l.Over, l.Entry = f(l.Cond), f(l.Over), f(l.Entry)
		for j := range l.Exits {
			l.Exits[j] = f(l.Exits[j])
		}
		for j := range l.Vars {
			l.Vars[j].Init, l.Vars[j].Step = f(l.Vars[j].Init), f(l.Vars[j].Step)
		}
	}
	for k, v := range s.LocalInit {
		s.LocalInit[k] = f(v)
	}
}

func isEmptySlice(t *Term) bool {
	if t == nil {
		return false
	}
	switch t.Op {
	case "const":
		return t.Val == "nil"
	case "call":
		if strings.HasPrefix(t.Val, "makeslice#") && len(t.Args) == 2 {
			if c, ok := canonStr(t.Args[0]); ok && c == "0" {
				return true
			}
		}
	case "slice":
		// T{} : slice of a zero-length array literal
		if len(t.Args) > 0 && t.Args[0].Op == "struct" && strings.HasPrefix(t.Args[0].Val, "[0]") {
			// make([]T, n, 0) is lowered to new([0]T)[:n]: empty only for n = 0 (it panics otherwise)
			if len(t.Args) >= 3 {
				high := t.Args[2]
				if !(high.Op == "sym" && high.Val == "_") {
					if c, ok := canonStr(high); !ok || c != "0" {
						return false
					}
				}
			}
			return true
		}
	}
	return false
}

// singleAppend: t = append(base, one element) -> (base, element)
func singleAppend(t *Term) (*Term, *Term, bool) {
	if t == nil || t.Op != "call" || t.Val != "builtin:append" || len(t.Args) != 2 {
		return nil, nil, false
	}
	lit := t.Args[1]
	if lit.Op != "slice" || len(lit.Args) == 0 || lit.Args[0].Op != "struct" || !strings.HasPrefix(lit.Args[0].Val, "[1]") {
		return nil, nil, false
	}
	arr := lit.Args[0]
	for i, f := range arr.Fields {
		if f == "[0]" {
			return t.Args[0], arr.Args[i], true
		}
	}
	// zero element
	return t.Args[0], tSym("zero"), true
}

func loopByID(s *Summary, id int) *LoopSum {
	for _, l := range s.Loops {
		if l.ID == id {
			return l
		}
	}
	return nil
}

// seqTerm: the slice built element by element by loop l. Fields[0] carries the canonical trip count (if known)
// so that len(seq) can be reduced to it; it is not part of the comparison otherwise.
func seqTerm(l *LoopSum, elem *Term) *Term {
	t := &Term{Op: "seq", Val: fmt.Sprintf("L%d", l.ID), Args: []*Term{elem}}
	if n := tripCount(l); n != nil {
		t.Args = append(t.Args, n)
	}
	return t
}

// tripCount: N when the loop's continue condition is I < N.
func tripCount(l *LoopSum) *Term {
	c := l.Cond
	if c == nil || c.Op != "cmp" || len(c.Args) != 2 {
		return nil
	}
	iter := fmt.Sprintf("(sym:L%d.I)", l.ID)
	switch c.Val {
	case "<": // I < n
		if s, ok := canonStr(c.Args[0]); ok && s == iter {
			return c.Args[1]
		}
	case ">": // n > I
		if s, ok := canonStr(c.Args[1]); ok && s == iter {
			return c.Args[0]
		}
	}
	return nil
}

// reduceSeqLen: len(seq with known trip count) -> trip count; len(make([]T, n)) -> n
func reduceSeqLen(s *Summary) {
	s.mapTerms(func(t *Term) *Term {
		if t.Op == "call" && t.Val == "builtin:len" && len(t.Args) == 1 && t.Args[0].Op == "call" && strings.HasPrefix(t.Args[0].Val, "makeslice#") && len(t.Args[0].Args) == 2 {
			n := *t.Args[0].Args[0]
			n.Num, n.Int = true, true
			return &n
		}
		if t.Op == "call" && t.Val == "builtin:len" && len(t.Args) == 1 && t.Args[0].Op == "seq" && len(t.Args[0].Args) == 2 {
			n := *t.Args[0].Args[1]
			n.Num, n.Int = true, true
			return &n
		}
		return nil
	})
}

// concatIdiom: res := make([]T, len(a)+len(b)); copy(res, a); copy(res[len(a):], b)  ==  append(append(empty, a...), b...)
func concatIdiom(s *Summary) {
	for i, e := range s.Effects {
		if e.Kind != "call" || len(e.Args) != 1 || e.Args[0].Op != "call" || e.Args[0].Val != "builtin:copy" || !isTrue(e.Guard) || e.Region != -1 {
			continue
		}
		dst, a := e.Args[0].Args[0], e.Args[0].Args[1]
		if dst.Op != "call" || !strings.HasPrefix(dst.Val, "makeslice#") {
			continue
		}
		for j, f := range s.Effects {
			if j == i || f.Kind != "call" || len(f.Args) != 1 || f.Args[0].Op != "call" || f.Args[0].Val != "builtin:copy" || !isTrue(f.Guard) || f.Region != -1 {
				continue
			}
			d2, b := f.Args[0].Args[0], f.Args[0].Args[1]
			if d2.Op != "slice" || len(d2.Args) < 2 || d2.Args[0] != dst && !(d2.Args[0].Op == "call" && d2.Args[0].Val == dst.Val) {
				continue
			}
			lenA := &Term{Op: "call", Val: "builtin:len", Args: []*Term{a}, Num: true, Int: true}
			lenB := &Term{Op: "call", Val: "builtin:len", Args: []*Term{b}, Num: true, Int: true}
			lo, ok1 := canonStr(withInt(d2.Args[1]))
			wantLo, ok2 := canonStr(lenA)
			total, ok3 := canonStr(withInt(dst.Args[0]))
			wantTotal, ok4 := canonStr(&Term{Op: "add", Num: true, Int: true, Args: []*Term{lenA, lenB}})
			if !ok1 || !ok2 || !ok3 || !ok4 || lo != wantLo || total != wantTotal {
				continue
			}
			repl := &Term{Op: "call", Val: "builtin:append", Args: []*Term{{Op: "copyof", Args: []*Term{a}}, b}}
			mk := dst.Val
			var rest []Effect
			for k, g := range s.Effects {
				if k != i && k != j {
					rest = append(rest, g)
				}
			}
			s.Effects = rest
			s.mapTerms(func(t *Term) *Term {
				if t.Op == "call" && t.Val == mk {
					return repl
				}
				return nil
			})
			return
		}
	}
}

// boolSetMaps: a local map[K]bool into which only the constant true is ever stored is a set: m[k] and "_, ok := m[k]"
// are the same test.
func boolSetMaps(s *Summary) {
	allTrue := map[string]bool{}
	for _, e := range s.Effects {
		if e.Kind != "mapupdate" || len(e.Args) != 3 {
			continue
		}
		m := e.Args[0]
		if m.Op != "sym" || !strings.HasPrefix(m.Val, "makemap#") || !strings.HasSuffix(m.Val, "]bool") {
			continue
		}
		isTrue := e.Args[2].Op == "const" && e.Args[2].Val == "true"
		if prev, seen := allTrue[m.Val]; seen {
			allTrue[m.Val] = prev && isTrue
		} else {
			allTrue[m.Val] = isTrue
		}
	}
	any := false
	for _, ok := range allTrue {
		any = any || ok
	}
	if !any {
		return
	}
	s.mapTerms(func(t *Term) *Term {
		if t.Op == "lookup" && len(t.Args) == 2 && t.Args[0].Op == "sym" && allTrue[t.Args[0].Val] {
			return &Term{Op: "has", Args: t.Args, Bool: true}
		}
		return nil
	})
}

func canonicaliseSequences(s *Summary) {
	boolSetMaps(s)
	reduceSeqLen(s)
	reduceSeqLen(s)
	reduceSeqLen(s)
	concatIdiom(s)
	// ---- copies: make(len(src)) + copy(dst, src)  ==  append(empty, src...)
	for changed := true; changed; {
		changed = false
		for i, e := range s.Effects {
			if e.Kind != "call" || len(e.Args) != 1 || e.Args[0].Op != "call" || e.Args[0].Val != "builtin:copy" || !isTrue(e.Guard) || e.Region != -1 {
				continue
			}
			dst, src := e.Args[0].Args[0], e.Args[0].Args[1]
			target := dst
			if dst.Op == "load" || dst.Op == "sym" {
				if init, ok := s.LocalInit[localName(dst)]; ok && init != nil {
					target = init
				}
			}
			if target.Op != "call" || !strings.HasPrefix(target.Val, "makeslice#") {
				continue
			}
			ln, ok1 := canonStr(target.Args[0])
			want, ok2 := canonStr(&Term{Op: "call", Val: "builtin:len", Args: []*Term{src}, Num: true})
			if !ok1 || !ok2 || ln != want {
				continue
			}
			repl := &Term{Op: "copyof", Args: []*Term{src}}
			mk := target.Val
			loc := localName(dst)
			s.Effects = append(s.Effects[:i:i], s.Effects[i+1:]...)
			s.mapTerms(func(t *Term) *Term {
				if t.Op == "call" && t.Val == mk {
					return repl
				}
				if loc != "" && (t.Op == "load" || t.Op == "sym") && localName(t) == loc {
					return repl
				}
				return nil
			})
			changed = true
			break
		}
	}
	s.mapTerms(func(t *Term) *Term {
		if t.Op == "call" && t.Val == "builtin:append" && len(t.Args) == 2 && isEmptySlice(t.Args[0]) && t.Args[1].Op != "slice" {
			return &Term{Op: "copyof", Args: []*Term{t.Args[1]}}
		}
		return nil
	})

	// ---- element-wise construction
	for changed := true; changed; {
		changed = false
		// form B1: loop-carried slice, init empty, step = append(v, e)
		for _, l := range s.Loops {
			if len(l.Exits) > 0 {
				continue
			}
			vi := 0
			for j, v := range l.Vars {
				name := fmt.Sprintf("L%d.v%d", l.ID, vi)
				vi++
				base, elem, ok := singleAppend(v.Step)
				if !ok || !isEmptySlice(v.Init) || base.Op != "sym" || base.Val != name || usesSym(elem, name) {
					continue
				}
				if usedInLoop(s, l, name, j) {
					continue
				}
				l.Vars = append(l.Vars[:j:j], l.Vars[j+1:]...)
				// renumber the later loop-carried values of this loop
				rename := map[string]string{}
				for k := j + 1; k <= len(l.Vars); k++ {
					rename[fmt.Sprintf("L%d.v%d", l.ID, k)] = fmt.Sprintf("L%d.v%d", l.ID, k-1)
				}
				elem = substitute(elem, func(t *Term) *Term {
					if t.Op == "sym" {
						if n, ok := rename[t.Val]; ok {
							c := *t
							c.Val = n
							return &c
						}
					}
					return nil
				}, map[*Term]*Term{})
				repl := seqTerm(l, elem)
				s.mapTerms(func(t *Term) *Term {
					if t.Op == "sym" {
						if t.Val == name {
							return repl
						}
						if n, ok := rename[t.Val]; ok {
							c := *t
							c.Val = n
							return &c
						}
					}
					return nil
				})
				changed = true
				break
			}
			if changed {
				break
			}
		}
		if changed {
			continue
		}
		// forms A / B2: effects inside a loop
		for i, e := range s.Effects {
			if e.Kind != "store" || e.Region < 0 {
				continue
			}
			l := loopByID(s, e.Region)
			if l == nil || len(l.Exits) > 0 {
				continue
			}
			if !isTrue(e.Guard) {
				// happens on every iteration: the guard is just the loop's continue condition
				if ok, _, _ := equivTerms(e.Guard, l.Cond, maxAtoms); !ok {
					continue
				}
			}
			iter := fmt.Sprintf("(sym:L%d.I)", l.ID)
			var obj, elem *Term
			sized := false
			switch {
			case e.Args[0].Op == "index":
				// res[i] = e
				if c, ok := canonStr(e.Args[0].Args[1]); !ok || c != iter {
					continue
				}
				obj, elem, sized = e.Args[0].Args[0], e.Args[1], true
			default:
				// res = append(res, e)
				base, el, ok := singleAppend(e.Args[1])
				if !ok || localName(e.Args[0]) == "" || localName(base) != localName(e.Args[0]) {
					continue
				}
				obj, elem = e.Args[0], el
			}
			mk := ""
			loc := localName(obj)
			init := obj
			if loc != "" {
				init = s.LocalInit[loc]
			}
			if init == nil {
				continue
			}
			if sized {
				if init.Op != "call" || !strings.HasPrefix(init.Val, "makeslice#") {
					continue
				}
				// the slice must be sized by the trip count of the loop
				cond := &Term{Op: "cmp", Val: "<", Bool: true, Args: []*Term{
					{Op: "sym", Val: fmt.Sprintf("L%d.I", l.ID), Num: true, Int: true}, withInt(init.Args[0])}}
				what := init.Val[strings.Index(init.Val, ":")+1:]
				if ok, _, _ := equivTerms(l.Cond, cond, maxAtoms); !ok {
					// a loop that fills only part of the slice while other statements fill the rest (peeled first/last element) is not an instance
					elsewhere := false
					for k, f := range s.Effects {
						if k != i && f.Kind == "store" && writesObject(f.Args[0], init.Val, loc) {
							elsewhere = true
						}
					}
					if n := tripCount(l); n != nil && !elsewhere {
						ls, _ := canonStr(withInt(init.Args[0]))
						ts, _ := canonStr(withInt(n))
						recordLen(s, LenCheck{what, false, fmt.Sprintf("allocated with length %s but filled by index over a loop with trip count %s", ls, ts)})
					}
					continue
				}
				recordLen(s, LenCheck{what, true, "sized by the trip count of the loop that fills it"})
				mk = init.Val
			} else {
				if !isEmptySlice(init) {
					continue
				}
				if init.Op == "call" {
					mk = init.Val
				}
			}
			// no other write to the object
			other := false
			for k, f := range s.Effects {
				if k == i || (f.Kind != "store" && f.Kind != "call") {
					continue
				}
				if f.Kind == "store" && writesObject(f.Args[0], mk, loc) {
					other = true
				}
			}
			if other || usesObject(elem, mk, loc) {
				continue
			}
			repl := seqTerm(l, elem)
			s.Effects = append(s.Effects[:i:i], s.Effects[i+1:]...)
			s.mapTerms(func(t *Term) *Term {
				if mk != "" && t.Op == "call" && t.Val == mk {
					return repl
				}
				if loc != "" && (t.Op == "load" || t.Op == "sym") && localName(t) == loc {
					return repl
				}
				return nil
			})
			changed = true
			break
		}
		if changed {
			reduceSeqLen(s)
		}
	}
	reduceSeqLen(s)
}

func recordLen(s *Summary, lc LenCheck) {
	for _, e := range s.LenChecks {
		if e.What == lc.What && e.OK == lc.OK {
			return
		}
	}
	s.LenChecks = append(s.LenChecks, lc)
}

func withInt(t *Term) *Term {
	c := *t
	c.Num, c.Int = true, true
	return &c
}

// localName: "local#k:T" for sym local#k or load(sym local#k)
func localName(t *Term) string {
	if t == nil {
		return ""
	}
	if t.Op == "load" && len(t.Args) == 1 {
		t = t.Args[0]
	}
	if t.Op == "sym" && strings.HasPrefix(t.Val, "local#") {
		return t.Val
	}
	return ""
}

func usesSym(t *Term, name string) bool {
	found := false
	substitute(t, func(x *Term) *Term {
		if x.Op == "sym" && x.Val == name {
			found = true
		}
		return nil
	}, map[*Term]*Term{})
	return found
}

func usesObject(t *Term, mk, loc string) bool {
	found := false
	substitute(t, func(x *Term) *Term {
		if (mk != "" && x.Op == "call" && x.Val == mk) || (loc != "" && localName(x) == loc) {
			found = true
		}
		return nil
	}, map[*Term]*Term{})
	return found
}

func writesObject(addr *Term, mk, loc string) bool {
	for a := addr; a != nil; {
		if (mk != "" && a.Op == "call" && a.Val == mk) || (loc != "" && localName(a) == loc) {
			return true
		}
		if (a.Op == "index" || a.Op == "field" || a.Op == "load") && len(a.Args) > 0 {
			a = a.Args[0]
			continue
		}
		break
	}
	return false
}

// usedInLoop: the partial sequence (loop-carried value j) is read inside the loop other than by its own step.
func usedInLoop(s *Summary, l *LoopSum, name string, j int) bool {
	for k, v := range l.Vars {
		if k != j && (usesSym(v.Step, name) || usesSym(v.Init, name)) {
			return true
		}
	}
	if usesSym(l.Cond, name) {
		return true
	}
	for _, e := range s.Effects {
		if e.Region == l.ID {
			if usesSym(e.Guard, name) {
				return true
			}
			for _, a := range e.Args {
				if usesSym(a, name) {
					return true
				}
			}
		}
	}
	return false
}

// canonicalLoopOrder renumbers sibling loops by what they iterate over and when they are entered instead of by block
// order, so that swapping two branches (or two independent loops) does not change the numbering.
var loopNameRe = regexp.MustCompile(`^L(\d+)(\..*)?$`)

func canonicalLoopOrder(s *Summary) {
	n := len(s.Loops)
	if n < 2 {
		return
	}
	for i, l := range s.Loops {
		if l.ID != i {
			return // numbering is not positional: leave it alone
		}
	}
	sig := make([]string, n)
	for i, l := range s.Loops {
		own := regexp.MustCompile(fmt.Sprintf(`\bL%d\b`, l.ID))
		sig[i] = own.ReplaceAllString(printTerm(l.Entry)+"|"+printTerm(l.Cond)+"|"+printTerm(l.Over)+"|"+fmt.Sprint(len(l.Vars), len(l.Exits)), "L@")
	}
	children := map[int][]int{}
	for i, l := range s.Loops {
		children[l.Parent] = append(children[l.Parent], i)
	}
	var order []int
	var visit func(parent int)
	visit = func(parent int) {
		kids := children[parent]
		sort.SliceStable(kids, func(a, b int) bool { return sig[kids[a]] < sig[kids[b]] })
		for _, k := range kids {
			order = append(order, k)
			visit(k)
		}
	}
	visit(-1)
	if len(order) != n {
		return
	}
	newID := make(map[int]int, n)
	identity := true
	for pos, k := range order {
		newID[k] = pos
		if pos != k {
			identity = false
		}
	}
	if identity {
		return
	}
	memo := map[*Term]*Term{}
	var ren func(t *Term) *Term
	ren = func(t *Term) *Term {
		if t == nil {
			return nil
		}
		if r, ok := memo[t]; ok {
			return r
		}
		c := *t
		changed := false
		if m := loopNameRe.FindStringSubmatch(t.Val); m != nil && (t.Op == "sym" || t.Op == "next" || t.Op == "seq") {
			var id int
			fmt.Sscanf(m[1], "%d", &id)
			if nid, ok := newID[id]; ok && nid != id {
				c.Val = fmt.Sprintf("L%d%s", nid, m[2])
				changed = true
			}
		}
		if len(t.Args) > 0 {
			args := make([]*Term, len(t.Args))
			for i, a := range t.Args {
				args[i] = ren(a)
				if args[i] != a {
					changed = true
				}
			}
			c.Args = args
		}
		if !changed {
			memo[t] = t
			return t
		}
		memo[t] = &c
		return &c
	}
	for i := range s.Results {
		s.Results[i] = ren(s.Results[i])
	}
	for i := range s.Effects {
		e := &s.Effects[i]
		e.Guard = ren(e.Guard)
		for j := range e.Args {
			e.Args[j] = ren(e.Args[j])
		}
		if nid, ok := newID[e.Region]; ok {
			e.Region = nid
		}
	}
	loops := make([]*LoopSum, n)
	for i, l := range s.Loops {
		l.Entry, l.Cond, l.Over = ren(l.Entry), ren(l.Cond), ren(l.Over)
		for j := range l.Exits {
			l.Exits[j] = ren(l.Exits[j])
		}
		for j := range l.Vars {
			l.Vars[j].Init, l.Vars[j].Step = ren(l.Vars[j].Init), ren(l.Vars[j].Step)
		}
		l.ID = newID[i]
		if l.Parent >= 0 {
			l.Parent = newID[l.Parent]
		}
		loops[l.ID] = l
	}
	s.Loops = loops
	for k, v := range s.LocalInit {
		s.LocalInit[k] = ren(v)
	}
}
