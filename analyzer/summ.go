package main

// E5 (part 2): function summaries. For one function the SSA def-use graph is
// rebuilt as terms: per-result merged return terms, an ordered list of guarded
// effects (stores, map updates, effect calls, panics, returns inside loops) and,
// per loop, the continue condition and (init, step) of every loop-carried value.
// Nothing is executed; loops are not unrolled.

import (
	"fmt"
	"go/constant"
	"go/token"
	"go/types"
	"math/big"
	"sort"
	"strconv"
	"strings"

	"golang.org/x/tools/go/ssa"
)

type Effect struct {
	Kind   string // store mapupdate call panic return unk
	Region int    // loop id, -1 = function level
	Guard  *Term
	Args   []*Term
	Pos    token.Pos
}

type LoopVar struct {
	Name       string
	Init, Step *Term
}

type LoopSum struct {
	ID     int
	Parent int
	Over   *Term   // map range: the map
	Cond   *Term   // condition under which the header continues into the body
	Entry  *Term   // condition (within the enclosing region) under which the loop is reached at all
	Exits  []*Term // conditions (within one iteration) of leaving the loop other than through the header
	Vars   []LoopVar
	Pos    token.Pos
}

type LenCheck struct {
	What   string
	OK     bool
	Detail string
}

type Summary struct {
	LenChecks []LenCheck       // make([]T, n) filled by index in a counting loop: n vs trip count
	LocalInit map[string]*Term // initial value of address-taken locals that are assigned again later
	Fn        *ssa.Function
	Results   []*Term
	Effects   []Effect
	Loops     []*LoopSum
	Closures  []*ssa.Function
	Notes     []string
}

type loopInfo struct {
	id     int
	header *ssa.BasicBlock
	blocks map[*ssa.BasicBlock]bool
	parent *loopInfo
}

type summarizer struct {
	callRegion int   // inlined callee: region of the call site in the caller (-1 for a root)
	callGuard  *Term // inlined callee: path condition of the call site within that region
	p          *Program
	f          *ssa.Function
	loops      []*loopInfo
	loopOf     map[*ssa.BasicBlock]*loopInfo // innermost
	memo       map[ssa.Value]*Term
	pcMemo     map[*ssa.BasicBlock]*Term
	inprog     map[ssa.Value]bool
	ord        *ordinals // shared with inlined callees
	storeIndex map[string][]*ssa.Store
	subst      map[*ssa.Parameter]*Term
	parent     *summarizer
	depth      int
	inlined    map[*ssa.Call]*summarizer
	sum        *Summary
	nameMap    func(string) string // canonical names for callees (spec_ prefix stripping)
}

func Summarize(p *Program, f *ssa.Function) *Summary {
	s := newSummarizer(p, f)
	s.callRegion = -1
	if f.Blocks == nil {
		return s.sum
	}
	s.ord.nextLoop = len(s.loops)
	s.collect()
	return s.sum
}

func newSummarizer(p *Program, f *ssa.Function) *summarizer {
	s := &summarizer{p: p, f: f, loopOf: map[*ssa.BasicBlock]*loopInfo{}, memo: map[ssa.Value]*Term{},
		pcMemo: map[*ssa.BasicBlock]*Term{}, inprog: map[ssa.Value]bool{}, inlined: map[*ssa.Call]*summarizer{},
		ord: &ordinals{alloc: map[*ssa.Alloc]int{}, mk: map[ssa.Value]int{}, dyn: map[ssa.Instruction]int{}, dynCount: map[string]int{}, clos: map[*ssa.Function]int{}}}
	s.sum = &Summary{Fn: f}
	if f.Blocks == nil {
		return s
	}
	s.findLoops()
	s.number()
	return s
}

func (s *summarizer) findLoops() {
	heads := loopHeaders(s.f)
	sort.Slice(heads, func(i, j int) bool { return heads[i].Index < heads[j].Index })
	for i, h := range heads {
		s.loops = append(s.loops, &loopInfo{id: i, header: h, blocks: loopBlocks(h)})
	}
	// nesting: parent = smallest other loop containing the header
	for _, l := range s.loops {
		for _, o := range s.loops {
			if o == l || !o.blocks[l.header] {
				continue
			}
			if l.parent == nil || len(o.blocks) < len(l.parent.blocks) {
				l.parent = o
			}
		}
	}
	for _, b := range s.f.Blocks {
		for _, l := range s.loops {
			if l.blocks[b] {
				if cur := s.loopOf[b]; cur == nil || len(l.blocks) < len(cur.blocks) {
					s.loopOf[b] = l
				}
			}
		}
	}
}

// ordinals are handed out in the order in which the value graph is traversed (shared with inlined callees),
// so that they do not depend on positions or on whether a helper was extracted.
type ordinals struct {
	alloc       map[*ssa.Alloc]int
	mk          map[ssa.Value]int
	dyn         map[ssa.Instruction]int
	dynCount    map[string]int
	clos        map[*ssa.Function]int
	allocByType map[string]int
	mkByType    map[string]int
	nextLoop    int           // next free global loop id (root loops come first)
	subs        []*summarizer // inlined callees that contain loops, in order of their loop ids
	closList    []*ssa.Function
}

func (o *ordinals) allocOrd(a *ssa.Alloc) int {
	if n, ok := o.alloc[a]; ok {
		return n
	}
	// rank among the locals of the same type (in order of first use): a local of another type that is met earlier or
	// later (flipped branches, reordered statements) does not shift the number
	ty := shortType(derefType(a.Type()))
	if o.allocByType == nil {
		o.allocByType = map[string]int{}
	}
	o.alloc[a] = o.allocByType[ty]
	o.allocByType[ty]++
	return o.alloc[a]
}

func (o *ordinals) mkOrd(v ssa.Value) int {
	if n, ok := o.mk[v]; ok {
		return n
	}
	// rank among the make() results of the same type, like locals
	ty := shortType(v.Type())
	if o.mkByType == nil {
		o.mkByType = map[string]int{}
	}
	o.mk[v] = o.mkByType[ty]
	o.mkByType[ty]++
	return o.mk[v]
}

func (o *ordinals) closOrd(fn *ssa.Function) int {
	if n, ok := o.clos[fn]; ok {
		return n
	}
	o.clos[fn] = len(o.clos)
	o.closList = append(o.closList, fn)
	return o.clos[fn]
}

func (o *ordinals) dynOrd(in ssa.Instruction, callee string) int {
	if n, ok := o.dyn[in]; ok {
		return n
	}
	o.dyn[in] = o.dynCount[callee]
	o.dynCount[callee]++
	return o.dyn[in]
}

func (s *summarizer) number() {}

func (s *summarizer) note(format string, a ...interface{}) {
	s.sum.Notes = append(s.sum.Notes, fmt.Sprintf(format, a...))
}

// ---------------------------------------------------------------------------
// path conditions

func edgeCond(s *summarizer, from, to *ssa.BasicBlock) *Term {
	last := from.Instrs[len(from.Instrs)-1]
	if iff, ok := last.(*ssa.If); ok {
		if from.Succs[0] == to && from.Succs[1] == to {
			return tTrue()
		}
		c := s.boolTerm(iff.Cond)
		if from.Succs[0] == to {
			return c
		}
		return tNot(c)
	}
	return tTrue()
}

// pc: condition (relative to the entry of b's region: innermost loop header or function entry)
// under which control reaches b in the current iteration / activation.
func (s *summarizer) pc(b *ssa.BasicBlock) *Term {
	if t, ok := s.pcMemo[b]; ok {
		return t
	}
	s.pcMemo[b] = tTrue() // cycle guard
	region := s.loopOf[b]
	if region != nil && region.header == b {
		region = region.parent // the header's condition is relative to the enclosing region
	}
	var res *Term
	if (region == nil && b == s.f.Blocks[0]) || len(b.Preds) == 0 {
		res = tTrue()
	} else {
		for _, p := range b.Preds {
			if own := s.loopOf[b]; own != nil && own.header == b && own.blocks[p] {
				continue // back edge
			}
			var c *Term
			pl := s.loopOf[p]
			switch {
			case region != nil && region.header == p:
				c = edgeCond(s, p, b)
			case pl == region:
				c = tAnd(s.pc(p), edgeCond(s, p, b))
			default:
				// p lies in a loop nested inside the region: exit edge of that loop
				inner := pl
				for inner != nil && inner.parent != region {
					inner = inner.parent
				}
				if inner == nil {
					c = tAnd(s.pc(p), edgeCond(s, p, b))
				} else {
					exit := edgeCond(s, p, b)
					if p != inner.header {
						exit = tAnd(s.pc(p), exit)
					}
					c = tAnd(s.pc(inner.header), exit)
				}
			}
			if res == nil {
				res = c
			} else {
				res = tOr(res, c)
			}
		}
		if res == nil {
			res = tTrue()
		}
	}
	res = simplifyBool(res)
	s.pcMemo[b] = res
	return res
}

func simplifyBool(t *Term) *Term {
	switch t.Op {
	case "and":
		a, b := simplifyBool(t.Args[0]), simplifyBool(t.Args[1])
		if isTrue(a) {
			return b
		}
		if isTrue(b) {
			return a
		}
		if isFalse(a) || isFalse(b) {
			return tFalse()
		}
		return tAnd(a, b)
	case "or":
		a, b := simplifyBool(t.Args[0]), simplifyBool(t.Args[1])
		if isFalse(a) {
			return b
		}
		if isFalse(b) {
			return a
		}
		if isTrue(a) || isTrue(b) {
			return tTrue()
		}
		return tOr(a, b)
	case "not":
		a := simplifyBool(t.Args[0])
		if isTrue(a) {
			return tFalse()
		}
		if isFalse(a) {
			return tTrue()
		}
		if a.Op == "not" {
			return a.Args[0]
		}
		return tNot(a)
	}
	return t
}

func isTrue(t *Term) bool  { return t.Op == "const" && t.Val == "true" }
func isFalse(t *Term) bool { return t.Op == "const" && t.Val == "false" }

// ---------------------------------------------------------------------------
// value terms

func isNumeric(t types.Type) bool {
	b, ok := t.Underlying().(*types.Basic)
	return ok && b.Info()&types.IsNumeric != 0
}
func isBoolean(t types.Type) bool {
	b, ok := t.Underlying().(*types.Basic)
	return ok && b.Info()&types.IsBoolean != 0
}
func isString(t types.Type) bool {
	b, ok := t.Underlying().(*types.Basic)
	return ok && b.Info()&types.IsString != 0
}
func isFloat(t types.Type) bool {
	b, ok := t.Underlying().(*types.Basic)
	return ok && b.Info()&types.IsFloat != 0
}

func isInteger(t types.Type) bool {
	b, ok := t.Underlying().(*types.Basic)
	return ok && b.Info()&types.IsInteger != 0
}

func typed(t *Term, ty types.Type) *Term {
	switch {
	case isNumeric(ty):
		t.Num = true
		t.Int = isInteger(ty)
	case isBoolean(ty):
		t.Bool = true
	case isString(ty):
		t.Str = true
	}
	return t
}

func (s *summarizer) boolTerm(v ssa.Value) *Term {
	t := s.term(v)
	if !t.Bool {
		c := *t
		c.Bool = true
		return &c
	}
	return t
}

func shortType(t types.Type) string {
	return types.TypeString(t, func(p *types.Package) string { return p.Name() })
}

func (s *summarizer) term(v ssa.Value) *Term {
	if v == nil {
		return tNil()
	}
	if t, ok := s.memo[v]; ok {
		return t
	}
	if s.inprog[v] {
		return typed(tSym("cyclic:"+shortType(v.Type())), v.Type())
	}
	s.inprog[v] = true
	t := s.build(v)
	delete(s.inprog, v)
	s.memo[v] = t
	return t
}

func (s *summarizer) paramIndex(x *ssa.Parameter) int {
	for i, p := range s.f.Params {
		if p == x {
			return i
		}
	}
	return -1
}

func (s *summarizer) build(v ssa.Value) *Term {
	switch x := v.(type) {
	case *ssa.Const:
		return constTerm(x)
	case *ssa.Parameter:
		if s.subst != nil {
			if t, ok := s.subst[x]; ok {
				return t
			}
		}
		return typed(tSym(fmt.Sprintf("P%d", s.paramIndex(x))), x.Type())
	case *ssa.FreeVar:
		// captured variables are named by their type and their rank among the captured variables of that type,
		// so that the order in which a literal captures them does not matter
		ty := shortType(derefType(x.Type()))
		rank := 0
		for _, fv := range s.f.FreeVars {
			if fv == x {
				return typed(tSym(fmt.Sprintf("FV:%s#%d", ty, rank)), derefType(x.Type()))
			}
			if shortType(derefType(fv.Type())) == ty {
				rank++
			}
		}
	case *ssa.Global:
		return tSym("global:" + x.Pkg.Pkg.Name() + "." + x.Name())
	case *ssa.Function:
		if x.Parent() != nil && x.Parent() == s.f && x.Synthetic == "" {
			// a function literal without captured variables: compared like a closure (its body is part of this function)
			return &Term{Op: "call", Val: fmt.Sprintf("closure#%d", s.ord.closOrd(x))}
		}
		return tSym("func:" + s.calleeName(x))
	case *ssa.Builtin:
		return tSym("builtin:" + x.Name())
	case *ssa.Alloc:
		return s.allocTerm(x, false)
	case *ssa.MakeMap:
		return tSym(fmt.Sprintf("makemap#%d:%s", s.ord.mkOrd(x), shortType(x.Type())))
	case *ssa.MakeSlice:
		return &Term{Op: "call", Val: fmt.Sprintf("makeslice#%d:%s", s.ord.mkOrd(x), shortType(x.Type())), Args: []*Term{s.term(x.Len), s.term(x.Cap)}}
	case *ssa.MakeClosure:
		fn, _ := x.Fn.(*ssa.Function)
		var args []*Term
		for i, b := range x.Bindings {
			ty := "?"
			if fn != nil && i < len(fn.FreeVars) {
				ty = shortType(derefType(fn.FreeVars[i].Type()))
			}
			args = append(args, &Term{Op: "bind", Val: ty, Args: []*Term{s.term(b)}})
		}
		sort.SliceStable(args, func(i, j int) bool { return args[i].Val < args[j].Val })
		return &Term{Op: "call", Val: fmt.Sprintf("closure#%d", s.ord.closOrd(fn)), Args: args}
	case *ssa.MakeInterface:
		return s.term(x.X)
	case *ssa.ChangeType:
		return s.term(x.X)
	case *ssa.ChangeInterface:
		return s.term(x.X)
	case *ssa.Convert:
		in := s.term(x.X)
		from, to := x.X.Type(), x.Type()
		if isNumeric(from) && isNumeric(to) {
			if !isInteger(to) || isInteger(from) {
				// widening / int->float / same kind: identity over the reals (overflow not modelled)
				return &Term{Op: "conv", Val: "id", Args: []*Term{in}, Num: true}
			}
			return &Term{Op: "trunc", Args: []*Term{in}, Num: true}
		}
		return typed(&Term{Op: "convert", Val: shortType(to), Args: []*Term{in}}, to)
	case *ssa.FieldAddr:
		return s.fieldTerm(x.X, x.Field, x.Type())
	case *ssa.Field:
		return s.fieldTerm(x.X, x.Field, x.Type())
	case *ssa.IndexAddr:
		return typed(&Term{Op: "index", Args: []*Term{s.term(x.X), s.term(x.Index)}}, derefType(x.Type()))
	case *ssa.Index:
		return typed(&Term{Op: "index", Args: []*Term{s.term(x.X), s.term(x.Index)}}, x.Type())
	case *ssa.Lookup:
		if x.CommaOk {
			return &Term{Op: "lookup2", Args: []*Term{s.term(x.X), s.term(x.Index)}}
		}
		return typed(&Term{Op: "lookup", Args: []*Term{s.term(x.X), s.term(x.Index)}}, x.Type())
	case *ssa.Slice:
		opt := func(v ssa.Value) *Term {
			if v == nil {
				return tSym("_")
			}
			return s.term(v)
		}
		low := opt(x.Low)
		if x.Low == nil {
			low = tConstInt(0)
		}
		return &Term{Op: "slice", Args: []*Term{s.term(x.X), low, opt(x.High), opt(x.Max)}}
	case *ssa.TypeAssert:
		t := &Term{Op: "assert", Val: shortType(x.AssertedType), Args: []*Term{s.term(x.X)}}
		if x.CommaOk {
			t.Op = "assert2"
		}
		return t
	case *ssa.Extract:
		tup := s.term(x.Tuple)
		switch tup.Op {
		case "lookup2":
			if x.Index == 0 {
				return typed(&Term{Op: "lookup", Args: tup.Args}, x.Type())
			}
			return &Term{Op: "has", Args: tup.Args, Bool: true}
		case "assert2":
			if x.Index == 0 {
				return &Term{Op: "assert", Val: tup.Val, Args: tup.Args}
			}
			return &Term{Op: "isa", Val: tup.Val, Args: tup.Args, Bool: true}
		case "tuple":
			if x.Index < len(tup.Args) {
				return tup.Args[x.Index]
			}
		case "next":
			// map range: key / value / ok
			l := tup.Val
			switch x.Index {
			case 0:
				return &Term{Op: "sym", Val: l + ".more", Bool: true}
			case 1:
				return typed(tSym(l+".key"), x.Type())
			default:
				return typed(tSym(l+".val"), x.Type())
			}
		}
		return typed(&Term{Op: "extract", Val: fmt.Sprint(x.Index), Args: []*Term{tup}}, x.Type())
	case *ssa.Next:
		id := -1
		if l := s.loopOf[x.Block()]; l != nil {
			id = l.id
		}
		return &Term{Op: "next", Val: fmt.Sprintf("L%d", id)}
	case *ssa.Range:
		return &Term{Op: "range", Args: []*Term{s.term(x.X)}}
	case *ssa.UnOp:
		switch x.Op {
		case token.MUL:
			return s.loadTerm(x)
		case token.NOT:
			return simplifyBool(tNot(s.boolTerm(x.X)))
		case token.SUB:
			return &Term{Op: "neg", Args: []*Term{s.term(x.X)}, Num: true, Flt: isFloat(x.Type())}
		}
		return typed(&Term{Op: "unop", Val: x.Op.String(), Args: []*Term{s.term(x.X)}}, x.Type())
	case *ssa.BinOp:
		return s.binop(x)
	case *ssa.Phi:
		return s.phiTerm(x)
	case *ssa.Call:
		return s.callTerm(x)
	}
	s.note("unmodelled value %T", v)
	return typed(&Term{Op: "unk", Val: fmt.Sprintf("%T", v)}, v.Type())
}

func derefType(t types.Type) types.Type {
	if p, ok := t.Underlying().(*types.Pointer); ok {
		return p.Elem()
	}
	return t
}

func constTerm(c *ssa.Const) *Term {
	if c.Value == nil {
		// zero value of a non-basic type
		switch c.Type().Underlying().(type) {
		case *types.Pointer, *types.Slice, *types.Map, *types.Interface, *types.Signature, *types.Chan:
			return tNil()
		}
		return tSym("zero:" + shortType(c.Type()))
	}
	switch c.Value.Kind() {
	case constant.Bool:
		return tConstBool(constant.BoolVal(c.Value))
	case constant.String:
		return tConstStr(constant.StringVal(c.Value))
	case constant.Int, constant.Float:
		r := new(big.Rat)
		if c.Value.Kind() == constant.Int {
			if i, ok := constant.Int64Val(c.Value); ok {
				r.SetInt64(i)
			} else {
				r.SetString(c.Value.ExactString())
			}
		} else {
			// a float constant reaches SSA either exactly (1/100) or already rounded to float64
			// (5764607523034235/576460752303423488), depending on how it is written (parentheses, conversions):
			// both denote the float64 0.01. Canonical form: the shortest decimal that round-trips.
			f, _ := constant.Float64Val(c.Value)
			if _, ok := r.SetString(strconv.FormatFloat(f, 'g', -1, 64)); !ok {
				if _, ok := r.SetString(c.Value.ExactString()); !ok {
					r.SetFloat64(f)
				}
			}
		}
		return tConstNum(r)
	}
	return tSym("const:" + c.Value.ExactString())
}

func (s *summarizer) fieldTerm(base ssa.Value, field int, ty types.Type) *Term {
	name := fieldName(base.Type(), field)
	b := s.term(base)
	if b.Op == "struct" {
		for i, f := range b.Fields {
			if f == name {
				return b.Args[i]
			}
		}
		// unset field of a literal: zero
		ft := derefType(ty)
		switch {
		case isNumeric(ft):
			return tConstInt(0)
		case isBoolean(ft):
			return tFalse()
		case isString(ft):
			return tConstStr("")
		}
		return tSym("zero:" + shortType(ft))
	}
	return typed(&Term{Op: "field", Val: name, Args: []*Term{b}}, derefType(ty))
}

// allocTerm: the content of a local variable / literal.
func (s *summarizer) allocTerm(a *ssa.Alloc, ref bool) *Term {
	elem := derefType(a.Type())
	init, late, escapes := s.allocStores(a)
	if len(init) == 0 && len(late) == 1 && late[0].field == "" && s.definesBeforeUse(a, late[0].st) {
		// single whole-value assignment that precedes every use (address-taken range variable / local copy): the variable is its value
		return s.term(late[0].st.Val)
	}
	if ref || escapes || len(late) > 0 {
		if !ref {
			// value use (argument, return, stored value): initial content tagged with identity
			if len(init) > 0 || escapes {
				t := s.structFromStores(a, init, elem)
				if t.Op == "struct" {
					t.Val = fmt.Sprintf("%s@local#%d", t.Val, s.ord.allocOrd(a))
				}
				return t
			}
		}
		name := fmt.Sprintf("local#%d:%s", s.ord.allocOrd(a), shortType(elem))
		if len(init) == 1 && init[0].field == "" {
			root := s
			for root.parent != nil {
				root = root.parent
			}
			if root.sum.LocalInit == nil {
				root.sum.LocalInit = map[string]*Term{}
			}
			if _, ok := root.sum.LocalInit[name]; !ok {
				root.sum.LocalInit[name] = nil // guard against recursion through the initial value
				root.sum.LocalInit[name] = s.term(init[0].st.Val)
			}
		}
		return tSym(name)
	}
	return s.structFromStores(a, init, elem)
}

// definesBeforeUse: the store dominates every other use of the allocation (so no use can see the zero value or a value of
// another iteration).
func (s *summarizer) definesBeforeUse(a *ssa.Alloc, st *ssa.Store) bool {
	if a.Referrers() == nil {
		return true
	}
	pos := func(in ssa.Instruction) int {
		for i, x := range in.Block().Instrs {
			if x == in {
				return i
			}
		}
		return -1
	}
	for _, r := range *a.Referrers() {
		if r == ssa.Instruction(st) {
			continue
		}
		if _, isDbg := r.(*ssa.DebugRef); isDbg {
			continue
		}
		rb, sb := r.Block(), st.Block()
		if rb == sb {
			if pos(r) < pos(st) {
				return false
			}
			continue
		}
		if !sb.Dominates(rb) {
			return false
		}
	}
	return true
}

type allocStore struct {
	st    *ssa.Store
	field string // "" = whole value
}

// allocStores splits the stores into an allocation into the initialising ones (straight-line in
// the allocation's block, before any other use) and late ones; escapes = address passed to a call
// or stored somewhere.
func (s *summarizer) allocStores(a *ssa.Alloc) (init, late []allocStore, escapes bool) {
	if a.Referrers() == nil {
		return
	}
	type use struct {
		in    ssa.Instruction
		store *allocStore
	}
	var uses []use
	// walk the address computations derived from the allocation (nested fields, constant indices)
	var walk func(addr ssa.Value, path string, depth int)
	walk = func(addr ssa.Value, path string, depth int) {
		if addr.Referrers() == nil || depth > 6 {
			return
		}
		for _, r := range *addr.Referrers() {
			switch x := r.(type) {
			case *ssa.Store:
				if x.Addr == addr {
					uses = append(uses, use{r, &allocStore{x, path}})
				} else {
					escapes = true // the address itself is stored somewhere
					uses = append(uses, use{r, nil})
				}
			case *ssa.FieldAddr:
				if x.X == addr {
					sub := fieldName(addr.Type(), x.Field)
					if path != "" {
						sub = path + "." + sub
					}
					walk(x, sub, depth+1)
				}
			case *ssa.IndexAddr:
				if x.X == addr {
					if k, ok := x.Index.(*ssa.Const); ok && k.Value != nil {
						walk(x, path+"["+k.Value.ExactString()+"]", depth+1)
					} else {
						// variable index: stores through it are late stores into an unknown element
						if x.Referrers() != nil {
							for _, rr := range *x.Referrers() {
								if st, ok := rr.(*ssa.Store); ok && st.Addr == x {
									uses = append(uses, use{rr, &allocStore{st, path + "[?]"}})
								} else {
									uses = append(uses, use{rr, nil})
								}
							}
						}
					}
				}
			case ssa.CallInstruction:
				escapes = true
				uses = append(uses, use{r, nil})
			case *ssa.DebugRef:
			case *ssa.UnOp:
				uses = append(uses, use{r, nil}) // load
			default:
				// the address flows on as a value (interface conversion, phi, slice of an array, return, ...):
				// whoever receives it may write through it
				switch r.(type) {
				case *ssa.Return:
				case *ssa.Slice:
					// a[:] of a local array (the backing array of variadic arguments): a view, handled where it is used
				default:
					escapes = true
				}
				uses = append(uses, use{r, nil})
			}
		}
	}
	walk(a, "", 0)
	// program order within the allocation's block
	posIn := func(in ssa.Instruction) int {
		if in.Block() != a.Block() {
			return 1 << 30
		}
		for i, x := range in.Block().Instrs {
			if x == in {
				return i
			}
		}
		return 1 << 30
	}
	sort.SliceStable(uses, func(i, j int) bool { return posIn(uses[i].in) < posIn(uses[j].in) })
	initialising := true
	seenField := map[string]bool{}
	for _, u := range uses {
		if u.store == nil {
			if u.in.Block() == a.Block() {
				if _, isCall := u.in.(ssa.CallInstruction); isCall {
					initialising = false
				}
			}
			continue
		}
		if initialising && u.in.Block() == a.Block() && !seenField[u.store.field] && !strings.Contains(u.store.field, "[?]") {
			init = append(init, *u.store)
			seenField[u.store.field] = true
		} else {
			late = append(late, *u.store)
		}
	}
	return
}

func (s *summarizer) structFromStores(a *ssa.Alloc, init []allocStore, elem types.Type) *Term {
	if len(init) == 1 && init[0].field == "" {
		return s.term(init[0].st.Val)
	}
	name := shortType(elem)
	if len(init) == 0 {
		switch {
		case isNumeric(elem):
			return tConstInt(0)
		case isBoolean(elem):
			return tFalse()
		case isString(elem):
			return tConstStr("")
		}
		if _, ok := elem.Underlying().(*types.Struct); ok {
			return &Term{Op: "struct", Val: name}
		}
		if _, ok := elem.Underlying().(*types.Array); ok {
			return &Term{Op: "struct", Val: name}
		}
		return tSym("zero:" + name)
	}
	t := &Term{Op: "struct", Val: name}
	for _, st := range init {
		if st.field == "" {
			continue
		}
		structInsert(t, splitPath(st.field), s.term(st.st.Val))
	}
	return t
}

// splitPath: "a.b[0].c" -> ["a","b","[0]","c"]
func splitPath(p string) []string {
	var out []string
	cur := ""
	for i := 0; i < len(p); i++ {
		switch p[i] {
		case '.':
			if cur != "" {
				out = append(out, cur)
				cur = ""
			}
		case '[':
			if cur != "" {
				out = append(out, cur)
			}
			cur = "["
		case ']':
			out = append(out, cur+"]")
			cur = ""
		default:
			cur += string(p[i])
		}
	}
	if cur != "" {
		out = append(out, cur)
	}
	return out
}

func structInsert(t *Term, path []string, v *Term) {
	if len(path) == 0 {
		return
	}
	for i, f := range t.Fields {
		if f == path[0] {
			if len(path) == 1 {
				t.Args[i] = v
				return
			}
			if t.Args[i].Op != "struct" {
				t.Args[i] = &Term{Op: "struct", Val: ""}
			}
			structInsert(t.Args[i], path[1:], v)
			return
		}
	}
	t.Fields = append(t.Fields, path[0])
	if len(path) == 1 {
		t.Args = append(t.Args, v)
		return
	}
	sub := &Term{Op: "struct", Val: ""}
	t.Args = append(t.Args, sub)
	structInsert(sub, path[1:], v)
}

// loadTerm: *addr
func (s *summarizer) loadTerm(x *ssa.UnOp) *Term {
	switch a := x.X.(type) {
	case *ssa.Alloc:
		init, late, escapes := s.allocStores(a)
		if len(late) == 0 && !escapes {
			return s.structFromStores(a, init, derefType(a.Type()))
		}
		// single-assignment variable written in a loop body before use (range variable copy)
		if len(init) == 0 && len(late) == 1 && late[0].field == "" && (s.definesBeforeUse(a, late[0].st) || s.storeDominates(late[0].st, x)) {
			return s.term(late[0].st.Val)
		}
		// the same variable declared inside the loop body (v := xs[i]): its only store is the initialising one
		if len(late) == 0 && len(init) == 1 && init[0].field == "" && (s.definesBeforeUse(a, init[0].st) || s.storeDominates(init[0].st, x)) {
			return s.term(init[0].st.Val)
		}
		return typed(&Term{Op: "load", Args: []*Term{s.allocTerm(a, true)}}, x.Type())
	case *ssa.FieldAddr:
		if al, ok := a.X.(*ssa.Alloc); ok {
			init, late, escapes := s.allocStores(al)
			name := fieldName(al.Type(), a.Field)
			lateHit := false
			for _, l := range late {
				if l.field == name || l.field == "" {
					lateHit = true
				}
			}
			if !lateHit && !escapes {
				return s.fieldTerm(al, a.Field, a.Type())
			}
			// range-variable copy: whole-value store each iteration dominating this load
			if len(init) == 0 && len(late) == 1 && late[0].field == "" && s.storeDominates(late[0].st, x) {
				base := s.term(late[0].st.Val)
				return s.fieldOfTerm(base, name, derefType(a.Type()))
			}
			// the same variable declared inside the loop body (v := xs[i]; ... &v.f ...)
			if len(late) == 0 && len(init) == 1 && init[0].field == "" && s.storeDominates(init[0].st, x) {
				base := s.term(init[0].st.Val)
				return s.fieldOfTerm(base, name, derefType(a.Type()))
			}
			return typed(&Term{Op: "field", Val: name, Args: []*Term{s.allocTerm(al, true)}}, x.Type())
		}
	case *ssa.FreeVar:
		return s.term(a)
	case *ssa.Global:
		return s.term(a)
	}
	// a field/element of non-local memory that this function assigned before (s.f = v; ... s.f ...): the load sees the stored value
	if fwd := s.forwardedStore(x); fwd != nil {
		return fwd
	}
	t := s.term(x.X)
	// pointers are identified with the objects they point to
	c := *t
	return typed(&c, x.Type())
}

// forwardedStore: the value of the closest store to the same address expression that dominates the load.
func (s *summarizer) forwardedStore(ld *ssa.UnOp) *Term {
	switch ld.X.(type) {
	case *ssa.FieldAddr, *ssa.IndexAddr:
	default:
		return nil
	}
	if s.storeIndex == nil {
		s.storeIndex = map[string][]*ssa.Store{}
		for _, b := range s.f.Blocks {
			for _, in := range b.Instrs {
				if st, ok := in.(*ssa.Store); ok {
					switch st.Addr.(type) {
					case *ssa.FieldAddr, *ssa.IndexAddr:
						if k := s.addrKey(st.Addr); k != "" {
							s.storeIndex[k] = append(s.storeIndex[k], st)
						}
					}
				}
			}
		}
	}
	k := s.addrKey(ld.X)
	if k == "" {
		return nil
	}
	var best *ssa.Store
	for _, st := range s.storeIndex[k] {
		if !s.storeDominates(st, ld) {
			continue
		}
		if best == nil || s.storeDominates(best, st) {
			best = st
		}
	}
	if best == nil {
		return nil
	}
	return s.term(best.Val)
}

// addrKey: a syntactic key of an address expression over SSA values (same base value, same field/const-index path).
func (s *summarizer) addrKey(v ssa.Value) string {
	switch x := v.(type) {
	case *ssa.FieldAddr:
		if b := s.addrKey(x.X); b != "" {
			return b + "." + fieldName(x.X.Type(), x.Field)
		}
	case *ssa.IndexAddr:
		if k, ok := x.Index.(*ssa.Const); ok && k.Value != nil {
			if b := s.addrKey(x.X); b != "" {
				return b + "[" + k.Value.ExactString() + "]"
			}
		}
		return ""
	case *ssa.Parameter:
		return fmt.Sprintf("P%d", s.paramIndex(x))
	case *ssa.FreeVar:
		return "FV:" + x.Name()
	case *ssa.Global:
		return "G:" + x.Name()
	case *ssa.UnOp:
		if x.Op == token.MUL {
			if b := s.addrKey(x.X); b != "" {
				return "*" + b
			}
		}
	}
	return ""
}

func (s *summarizer) fieldOfTerm(base *Term, name string, ty types.Type) *Term {
	if base.Op == "struct" {
		for i, f := range base.Fields {
			if f == name {
				return base.Args[i]
			}
		}
	}
	return typed(&Term{Op: "field", Val: name, Args: []*Term{base}}, ty)
}

func (s *summarizer) storeDominates(st *ssa.Store, use ssa.Instruction) bool {
	if st.Block() == use.Block() {
		for _, in := range st.Block().Instrs {
			if in == st {
				return true
			}
			if in == use {
				return false
			}
		}
	}
	return st.Block().Dominates(use.Block())
}

func (s *summarizer) binop(x *ssa.BinOp) *Term {
	a, b := s.term(x.X), s.term(x.Y)
	num := isNumeric(x.X.Type())
	switch x.Op {
	case token.ADD:
		if isString(x.Type()) {
			return &Term{Op: "concat", Args: []*Term{a, b}, Str: true}
		}
		return &Term{Op: "add", Args: []*Term{a, b}, Num: true, Flt: isFloat(x.Type())}
	case token.SUB:
		return &Term{Op: "sub", Args: []*Term{a, b}, Num: true, Flt: isFloat(x.Type())}
	case token.MUL:
		return &Term{Op: "mul", Args: []*Term{a, b}, Num: true, Flt: isFloat(x.Type())}
	case token.QUO:
		if isInteger(x.Type()) {
			return &Term{Op: "idiv", Args: []*Term{a, b}, Num: true}
		}
		return &Term{Op: "div", Args: []*Term{a, b}, Num: true, Flt: isFloat(x.Type())}
	case token.REM:
		return &Term{Op: "mod", Args: []*Term{a, b}, Num: true}
	case token.LSS, token.LEQ, token.GTR, token.GEQ, token.EQL, token.NEQ:
		if isBoolean(x.X.Type()) && (x.Op == token.EQL || x.Op == token.NEQ) {
			// boolean equality: xnor / xor
			ba, bb := s.boolTerm(x.X), s.boolTerm(x.Y)
			eq := tOr(tAnd(ba, bb), tAnd(tNot(ba), tNot(bb)))
			if x.Op == token.NEQ {
				return tNot(eq)
			}
			return eq
		}
		if x.Op == token.EQL || x.Op == token.NEQ {
			if str, ok := lenOfString(x.X, x.Y); ok {
				return &Term{Op: "cmp", Val: x.Op.String(), Args: []*Term{s.term(str), tConstStr("")}, Bool: true}
			}
			if str, ok := lenOfString(x.Y, x.X); ok {
				return &Term{Op: "cmp", Val: x.Op.String(), Args: []*Term{s.term(str), tConstStr("")}, Bool: true}
			}
		}
		ca, cb := *a, *b
		ca.Num, cb.Num = num, num
		ca.Int, cb.Int = isInteger(x.X.Type()), isInteger(x.Y.Type())
		return &Term{Op: "cmp", Val: x.Op.String(), Args: []*Term{&ca, &cb}, Bool: true}
	case token.LAND:
		return tAnd(a, b)
	case token.LOR:
		return tOr(a, b)
	}
	return typed(&Term{Op: "binop", Val: x.Op.String(), Args: []*Term{a, b}}, x.Type())
}

// lenOfString: l is len(str) of a string and zero is the constant 0.
func lenOfString(l, zero ssa.Value) (ssa.Value, bool) {
	if !isIntConst(zero, 0) {
		return nil, false
	}
	call, ok := l.(*ssa.Call)
	if !ok {
		return nil, false
	}
	if b, ok := call.Call.Value.(*ssa.Builtin); !ok || b.Name() != "len" || len(call.Call.Args) != 1 || !isString(call.Call.Args[0].Type()) {
		return nil, false
	}
	return call.Call.Args[0], true
}

// loop header phis are symbols; other phis become ite chains over the path conditions of their edges.
func (s *summarizer) phiTerm(x *ssa.Phi) *Term {
	b := x.Block()
	if l := s.loopOf[b]; l != nil && l.header == b {
		if init, step, ok := s.induction(x, l); ok {
			// induction variable: init + step * (number of completed iterations)
			iter := &Term{Op: "sym", Val: fmt.Sprintf("L%d.I", l.id), Num: true}
			return &Term{Op: "add", Num: true, Args: []*Term{s.term(init), {Op: "mul", Num: true, Args: []*Term{tConstInt(step), iter}}}}
		}
		idx := 0
		for _, in := range b.Instrs {
			if in == ssa.Instruction(x) {
				break
			}
			if ph, ok := in.(*ssa.Phi); ok {
				if _, _, ind := s.induction(ph, l); !ind {
					idx++
				}
			}
		}
		return typed(tSym(fmt.Sprintf("L%d.v%d", l.id, idx)), x.Type())
	}
	var res *Term
	for i := len(x.Edges) - 1; i >= 0; i-- {
		v := s.term(x.Edges[i])
		if res == nil {
			res = v
			continue
		}
		c := s.edgePC(b.Preds[i], b)
		res = tIte(c, v, res)
	}
	return typed(res, x.Type())
}

// induction: header phi with a single entry value and back-edge values phi +/- constant.
func (s *summarizer) induction(x *ssa.Phi, l *loopInfo) (ssa.Value, int64, bool) {
	if !isInteger(x.Type()) {
		return nil, 0, false
	}
	var init ssa.Value
	var step int64
	haveStep := false
	for i, e := range x.Edges {
		p := x.Block().Preds[i]
		if l.blocks[p] {
			bin, ok := e.(*ssa.BinOp)
			if !ok || (bin.Op != token.ADD && bin.Op != token.SUB) {
				return nil, 0, false
			}
			var c *ssa.Const
			switch {
			case bin.X == ssa.Value(x):
				c, _ = bin.Y.(*ssa.Const)
			case bin.Y == ssa.Value(x) && bin.Op == token.ADD:
				c, _ = bin.X.(*ssa.Const)
			}
			if c == nil {
				return nil, 0, false
			}
			k, ok := constInt(c)
			if !ok {
				return nil, 0, false
			}
			if bin.Op == token.SUB {
				k = -k
			}
			if haveStep && k != step {
				return nil, 0, false
			}
			step, haveStep = k, true
		} else {
			if init != nil && init != e {
				return nil, 0, false
			}
			init = e
		}
	}
	if init == nil || !haveStep {
		return nil, 0, false
	}
	return init, step, true
}

// edgePC: condition for reaching b through the edge p->b, relative to b's region.
func (s *summarizer) edgePC(p, b *ssa.BasicBlock) *Term {
	region := s.loopOf[b]
	pl := s.loopOf[p]
	switch {
	case region != nil && region.header == p:
		return simplifyBool(edgeCond(s, p, b))
	case pl == region:
		return simplifyBool(tAnd(s.pc(p), edgeCond(s, p, b)))
	}
	inner := pl
	for inner != nil && inner.parent != region {
		inner = inner.parent
	}
	if inner == nil {
		return simplifyBool(tAnd(s.pc(p), edgeCond(s, p, b)))
	}
	exit := edgeCond(s, p, b)
	if p != inner.header {
		exit = tAnd(s.pc(p), exit)
	}
	return simplifyBool(tAnd(s.pc(inner.header), exit))
}

func (s *summarizer) calleeName(fn *ssa.Function) string {
	if fn.Blocks != nil && (s.p.inRepo(fn) || s.p.isSpec(fn)) {
		k := funcKey(fn)
		return normKey(strings.ReplaceAll(k, specPrefix, ""))
	}
	return extPkgPath(fn) + "." + extName(fn)
}

const specPrefix = "Spec_"

// deferredCallTerm: the callee (a function literal is registered for recursive comparison) and the arguments of a
// deferred or spawned call.
func (s *summarizer) deferredCallTerm(cm *ssa.CallCommon) *Term {
	var args []*Term
	name := "dyn"
	switch {
	case cm.IsInvoke():
		name = "invoke:" + cm.Method.Name()
		args = append(args, s.term(cm.Value))
	case cm.StaticCallee() != nil && cm.StaticCallee().Parent() == nil:
		name = s.calleeName(cm.StaticCallee())
	default:
		if b, ok := cm.Value.(*ssa.Builtin); ok {
			name = "builtin:" + b.Name()
		} else {
			args = append(args, s.term(cm.Value))
		}
	}
	for _, a := range cm.Args {
		args = append(args, s.term(a))
	}
	return &Term{Op: "call", Val: name, Args: args}
}

func (s *summarizer) callTerm(x *ssa.Call) *Term {
	cm := x.Common()
	var args []*Term
	name := ""
	switch {
	case cm.IsInvoke():
		name = "invoke:" + cm.Method.Name()
		args = append(args, s.term(cm.Value))
	case cm.StaticCallee() != nil:
		if sub := s.inlineOf(x); sub != nil {
			res := sub.inlineResults()
			switch len(res) {
			case 0:
				return tSym("void")
			case 1:
				return res[0]
			}
			return &Term{Op: "tuple", Args: res}
		}
		name = s.calleeName(cm.StaticCallee())
	default:
		if b, ok := cm.Value.(*ssa.Builtin); ok {
			name = "builtin:" + b.Name()
			if b.Name() == "len" && len(cm.Args) == 1 && isString(cm.Args[0].Type()) {
				name = "builtin:lenstr"
			}
		} else {
			if isValueGeneratorSig(cm.Value.Type()) {
				// every random draw is a different value: number the draws of one generator in traversal order
				name = fmt.Sprintf("draw#%d", s.ord.dynOrd(x, describeValue(cm.Value)))
			} else {
				name = "dyn"
			}
			args = append(args, s.term(cm.Value))
		}
	}
	for _, a := range cm.Args {
		args = append(args, s.term(a))
	}
	t := &Term{Op: "call", Val: name, Args: args}
	// known pure numeric helpers keep their meaning
	switch name {
	case "math.Floor", "math.Round", "math.Abs", "math.Exp", "math.Expm1", "math.Max", "math.Min", "math.Pow", "math.Ceil", "math.Sqrt", "math.Trunc":
		t.Num = true
		if name == "math.Max" || name == "math.Min" {
			// symmetric: order the arguments canonically at evaluation time
			t.Op = "symcall"
		}
		return t
	}
	if sig := x.Type(); sig != nil {
		if tup, ok := sig.(*types.Tuple); ok {
			if tup.Len() > 1 {
				tt := &Term{Op: "tuple"}
				for i := 0; i < tup.Len(); i++ {
					tt.Args = append(tt.Args, typed(&Term{Op: "extract", Val: fmt.Sprint(i), Args: []*Term{t}}, tup.At(i).Type()))
				}
				return tt
			}
		} else {
			return typed(t, sig)
		}
	}
	return t
}

// ---------------------------------------------------------------------------
// inlining: a statically called, loop-free repository function that has no counterpart on the
// other side of the comparison (no reference implementation for it, resp. no repository function
// for a reference helper) is expanded at the call site, so that extracting, inlining or renaming
// a helper does not change the value graph of the anchored function.

const maxInlineDepth = 4

func (s *summarizer) inlineOf(x *ssa.Call) *summarizer {
	if sub, ok := s.inlined[x]; ok {
		return sub
	}
	g := x.Common().StaticCallee()
	var sub *summarizer
	if g != nil && s.shouldInline(g) {
		sub = newSummarizer(s.p, g)
		sub.ord = s.ord
		sub.parent = s
		sub.depth = s.depth + 1
		sub.subst = map[*ssa.Parameter]*Term{}
		for i, prm := range g.Params {
			if i < len(x.Common().Args) {
				sub.subst[prm] = s.term(x.Common().Args[i])
			}
		}
		sub.callRegion = s.regionID(x.Block())
		sub.callGuard = s.pc(x.Block())
		if l := s.loopOf[x.Block()]; l != nil && l.header == x.Block() {
			sub.callGuard = tTrue()
		}
		if s.callGuard != nil && s.loopOf[x.Block()] == nil {
			// a call at the top level of an inlined callee happens under that callee's own call guard
			sub.callGuard = simplifyBool(tAnd(s.callGuard, sub.callGuard))
		}
		if len(sub.loops) > 0 {
			// the callee's loops join the caller's: globally unique ids, summaries appended by the root
			for _, l := range sub.loops {
				l.id += s.ord.nextLoop
			}
			s.ord.nextLoop += len(sub.loops)
			s.ord.subs = append(s.ord.subs, sub)
		}
	}
	s.inlined[x] = sub
	return sub
}

func (s *summarizer) shouldInline(g *ssa.Function) bool {
	if g.Blocks == nil || s.depth >= maxInlineDepth {
		return false
	}
	if heads := loopHeaders(g); len(heads) > 0 {
		// a callee with loops is expanded only when every return lies outside its loops (its results are then plain
		// terms over the loop-carried values); search loops with an early return stay calls
		for _, h := range heads {
			for b := range loopBlocks(h) {
				if _, isRet := b.Instrs[len(b.Instrs)-1].(*ssa.Return); isRet {
					return false
				}
			}
		}
	}
	for q := s; q != nil; q = q.parent {
		if q.f == g {
			return false // recursion
		}
	}
	if g.Parent() != nil || g.Synthetic != "" {
		return false
	}
	switch {
	case s.p.isSpec(g):
		// reference helper whose repository counterpart is gone or changed its interface
		return strings.Contains(funcKey(g), specPrefix) && !s.p.paired(g)
	case s.p.inRepo(g):
		return !s.p.paired(g)
	}
	return false
}

// inlineResults: merged return terms of an inlined callee.
func (s *summarizer) inlineResults() []*Term {
	nres := s.f.Signature.Results().Len()
	out := make([]*Term, nres)
	for bi := len(s.f.Blocks) - 1; bi >= 0; bi-- {
		b := s.f.Blocks[bi]
		ret, ok := b.Instrs[len(b.Instrs)-1].(*ssa.Return)
		if !ok {
			continue
		}
		for i, r := range ret.Results {
			t := s.term(r)
			if out[i] == nil {
				out[i] = t
			} else {
				out[i] = tIte(s.pc(b), t, out[i])
			}
		}
	}
	for i := range out {
		if out[i] == nil {
			out[i] = tSym("noreturn")
		}
	}
	return out
}

// inlineEffects appends the callee's effects (guarded by the call site's guard) to the caller's list.
func (s *summarizer) inlineEffects(region int, guard *Term, emit func(Effect)) {
	for _, b := range s.f.Blocks {
		if l := s.loopOf[b]; l != nil {
			// inside one of the callee's own loops: the effect belongs to that loop, its guard is relative to the iteration
			g := s.pc(b)
			if l.header == b {
				g = tTrue()
			}
			s.blockEffects(b, l.id, g, emit, nil)
			continue
		}
		g := simplifyBool(tAnd(guard, s.pc(b)))
		s.blockEffects(b, region, g, emit, nil)
	}
}

// ---------------------------------------------------------------------------
// collection of results, effects and loops

func (s *summarizer) regionID(b *ssa.BasicBlock) int {
	if l := s.loopOf[b]; l != nil {
		return l.id
	}
	return s.callRegion
}

// blockEffects emits the effects of one block. onReturn (may be nil) receives function-level returns.
func (s *summarizer) blockEffects(b *ssa.BasicBlock, region int, guard *Term, emit func(Effect), onReturn func([]*Term)) {
	for _, in := range b.Instrs {
		switch x := in.(type) {
		case *ssa.Store:
			if s.isInitStore(x) {
				continue
			}
			emit(Effect{"store", region, guard, []*Term{s.addrTerm(x.Addr), s.term(x.Val)}, x.Pos()})
		case *ssa.MapUpdate:
			emit(Effect{"mapupdate", region, guard, []*Term{s.term(x.Map), s.term(x.Key), s.term(x.Value)}, x.Pos()})
		case *ssa.Panic:
			emit(Effect{"panic", region, guard, nil, x.Pos()})
		case *ssa.Return:
			if onReturn == nil {
				continue // inlined callee: its results are part of the call's term
			}
			var vals []*Term
			for _, r := range x.Results {
				vals = append(vals, s.term(r))
			}
			if region == -1 {
				onReturn(vals)
			} else {
				emit(Effect{"return", region, guard, vals, x.Pos()})
			}
		case *ssa.Call:
			if sub := s.inlineOf(x); sub != nil {
				sub.inlineEffects(region, guard, emit)
				continue
			}
			if s.isLogCall(x) {
				continue // diagnostic output is not part of any property
			}
			if s.isEffectCall(x) {
				emit(Effect{"call", region, guard, []*Term{s.term(x)}, x.Pos()})
			} else if region == -1 && s.isCheckCall(x) {
				// outside loops only: inside a loop the call is part of the per-iteration terms
				emit(Effect{"check", region, guard, []*Term{s.term(x)}, x.Pos()})
			}
		case *ssa.Go:
			emit(Effect{"go", region, guard, []*Term{s.deferredCallTerm(&x.Call)}, in.Pos()})
		case *ssa.Defer:
			emit(Effect{"defer", region, guard, []*Term{s.deferredCallTerm(&x.Call)}, in.Pos()})
		case *ssa.Send, *ssa.Select:
			emit(Effect{"unk:" + fmt.Sprintf("%T", in), region, guard, nil, in.Pos()})
		}
	}
}

func (s *summarizer) collect() {
	f := s.f
	nres := f.Signature.Results().Len()
	type retCase struct {
		guard *Term
		vals  []*Term
	}
	var rets []retCase
	emit := func(e Effect) { s.sum.Effects = append(s.sum.Effects, e) }
	for _, b := range f.Blocks {
		region := s.regionID(b)
		guard := s.pc(b)
		if l := s.loopOf[b]; l != nil && l.header == b {
			guard = tTrue() // effects in a header block happen on every iteration
		}
		s.blockEffects(b, region, guard, emit, func(vals []*Term) {
			rets = append(rets, retCase{guard, vals})
		})
	}
	for i := 0; i < nres; i++ {
		var res *Term
		for j := len(rets) - 1; j >= 0; j-- {
			if res == nil {
				res = rets[j].vals[i]
			} else {
				res = tIte(rets[j].guard, rets[j].vals[i], res)
			}
		}
		if res == nil {
			res = tSym("noreturn")
		}
		s.sum.Results = append(s.sum.Results, res)
	}
	for _, l := range s.loops {
		s.sum.Loops = append(s.sum.Loops, s.loopSummary(l))
	}
	// loops of inlined callees (the list may grow while their summaries are built)
	for i := 0; i < len(s.ord.subs); i++ {
		sub := s.ord.subs[i]
		for _, l := range sub.loops {
			s.sum.Loops = append(s.sum.Loops, sub.loopSummary(l))
		}
	}
	s.sum.Closures = append([]*ssa.Function{}, s.ord.closList...)
	canonicalLoopOrder(s.sum)
	canonicaliseSequences(s.sum)
}

// loopSummary: condition, entry, range operand, loop-carried values and early exits of one loop.
func (s *summarizer) loopSummary(l *loopInfo) *LoopSum {
	{
		ls := &LoopSum{ID: l.id, Parent: s.callRegion, Pos: l.header.Instrs[0].Pos()}
		if l.parent != nil {
			ls.Parent = l.parent.id
		}
		h := l.header
		if iff, ok := h.Instrs[len(h.Instrs)-1].(*ssa.If); ok {
			c := s.boolTerm(iff.Cond)
			if !l.blocks[h.Succs[0]] {
				c = simplifyBool(tNot(c))
			}
			ls.Cond = c
		} else {
			ls.Cond = tTrue()
		}
		ls.Entry = simplifyBool(s.pc(h))
		if s.callGuard != nil && l.parent == nil {
			ls.Entry = simplifyBool(tAnd(s.callGuard, ls.Entry))
		}
		for _, in := range h.Instrs {
			switch x := in.(type) {
			case *ssa.Next:
				if r, ok := x.Iter.(*ssa.Range); ok {
					ls.Over = s.term(r.X)
				}
			case *ssa.Phi:
				if _, _, ok := s.induction(x, l); ok {
					continue
				}
				lv := LoopVar{Name: x.Comment}
				var init, step *Term
				for i, e := range x.Edges {
					p := h.Preds[i]
					t := s.term(e)
					if l.blocks[p] {
						if step == nil {
							step = t
						} else {
							step = tIte(s.backEdgePC(p, l), t, step)
						}
					} else {
						if init == nil {
							init = t
						} else {
							init = tIte(s.edgePC(p, h), t, init)
						}
					}
				}
				lv.Init, lv.Step = init, step
				ls.Vars = append(ls.Vars, lv)
			}
		}
		// early exits (break / return / panic edges leaving the loop from a non-header block)
		var inLoop []*ssa.BasicBlock
		for b := range l.blocks {
			if b != h && s.loopOf[b] == l {
				inLoop = append(inLoop, b)
			}
		}
		sort.Slice(inLoop, func(i, j int) bool { return inLoop[i].Index < inLoop[j].Index })
		for _, b := range inLoop {
			for _, succ := range b.Succs {
				if !l.blocks[succ] {
					ls.Exits = append(ls.Exits, simplifyBool(tAnd(s.pc(b), edgeCond(s, b, succ))))
				}
			}
		}
		// exits of nested loops that leave this loop as well are attributed to the nested loop's blocks (loopOf != l): covered there
		return ls
	}
}

func (s *summarizer) backEdgePC(p *ssa.BasicBlock, l *loopInfo) *Term {
	return s.edgePC(p, l.header)
}

// isInitStore: initialising store of a local (part of its struct/value term).
func (s *summarizer) isInitStore(st *ssa.Store) bool {
	var a *ssa.Alloc
	for v, depth := st.Addr, 0; v != nil && depth < 8; depth++ {
		switch x := v.(type) {
		case *ssa.Alloc:
			a = x
			v = nil
		case *ssa.FieldAddr:
			v = x.X
		case *ssa.IndexAddr:
			v = x.X
		default:
			v = nil
		}
	}
	if a == nil {
		return false
	}
	init, late, _ := s.allocStores(a)
	for _, i := range init {
		if i.st == st {
			return true
		}
	}
	// a single per-iteration copy into an otherwise unwritten local (range variable): part of the value flow
	if len(init) == 0 && len(late) == 1 && late[0].st == st && late[0].field == "" && s.definesBeforeUse(a, st) {
		return true
	}
	return false
}

func (s *summarizer) addrTerm(v ssa.Value) *Term {
	switch x := v.(type) {
	case *ssa.Alloc:
		return s.allocTerm(x, true)
	case *ssa.FieldAddr:
		return &Term{Op: "field", Val: fieldName(x.X.Type(), x.Field), Args: []*Term{s.addrTerm(x.X)}}
	case *ssa.IndexAddr:
		return &Term{Op: "index", Args: []*Term{s.addrTerm(x.X), s.term(x.Index)}}
	}
	return s.term(v)
}

// isEffectCall: calls recorded as effects: result unused, no result, or a random draw.
func (s *summarizer) isEffectCall(x *ssa.Call) bool {
	cm := x.Common()
	if b, ok := cm.Value.(*ssa.Builtin); ok {
		switch b.Name() {
		case "copy", "delete", "print", "println", "panic":
			return true
		}
		return false
	}
	if x.Referrers() == nil || len(*x.Referrers()) == 0 {
		return true
	}
	if tup, ok := x.Type().(*types.Tuple); ok && tup.Len() == 0 {
		return true
	}
	if !cm.IsInvoke() && cm.StaticCallee() == nil && isValueGeneratorSig(cm.Value.Type()) {
		return true
	}
	return false
}

// isLogCall: log.Print*/fmt.Print* (diagnostic output).
func (s *summarizer) isLogCall(x *ssa.Call) bool {
	g := x.Common().StaticCallee()
	if g == nil || g.Blocks != nil {
		return false
	}
	cls, _ := classifyExternal(g)
	return cls == extLog
}

// isCheckCall: a call whose result is used but which can reject its input (validators, parsers, lookups that panic): it
// matters on every path on which it is executed, also where its result ends up unused.
func (s *summarizer) isCheckCall(x *ssa.Call) bool {
	if g := x.Common().StaticCallee(); g != nil && s.p.mayPanic(g) {
		return true
	}
	return false
}
