package main

import (
	"flag"
	"fmt"
	"os"
	"path/filepath"
	"sort"
	"strconv"
	"time"
)

type propFunc func(p *Program, c *Check)

var registry = map[string]propFunc{}

func register(id string, f propFunc) { registry[id] = f }

var verifRoot = "/verif"

func main() {
	prop := flag.String("property", "", "property id (C01..C20) or 'all'")
	tier := flag.String("tier", "quick", "quick|thorough")
	repo := flag.String("repo", "/repo", "repository root")
	verif := flag.String("verif", "", "verif dir (default: parent of the binary's dir)")
	dump := flag.String("dump", "", "debug: funcs|reach|ssa:<funcKey>")
	fixtures := flag.Bool("fixtures", true, "run positive controls first")
	selftest := flag.String("selftest", "", "mutants: mutation self-test of the rules (in memory; not a check)")
	shard := flag.String("shard", "0/1", "selftest: i/n")
	kinds := flag.String("kinds", "", "selftest: comma-separated mutation kinds (default all)")
	outPath := flag.String("out", "", "selftest: result file")
	mutFuncs := flag.String("funcs", "", "selftest: regular expression over function keys (default all)")
	flag.Parse()
	if *verif == "" {
		exe, _ := os.Executable()
		*verif = filepath.Dir(filepath.Dir(exe))
	}
	if t := os.Getenv("VERIF_TIER"); t != "" && *tier == "" {
		*tier = t
	}
	seed := int64(0)
	if s := os.Getenv("VERIF_SEED"); s != "" {
		seed, _ = strconv.ParseInt(s, 10, 64)
	}
	start := time.Now()
	overlay, err := specOverlay(*repo, filepath.Join(*verif, "spec"))
	if err != nil {
		fmt.Printf("CHECKER-BROKEN cannot read spec files: %v\n", err)
		os.Exit(2)
	}
	prog, _, err := LoadWithSpecs(*repo, filepath.Join(*verif, "work"), overlay)
	if err != nil {
		fmt.Printf("CHECKER-BROKEN cannot load %s: %v\n", *repo, err)
		os.Exit(2)
	}
	verifRoot = *verif
	if *dump == "consts" {
		dumpConstants(prog)
		return
	}
	if *dump == "typedefs" {
		dumpTypeDefs(prog)
		return
	}
	if *dump != "" {
		doDump(prog, *dump)
		return
	}
	if *selftest == "mutants" {
		var i, n int
		fmt.Sscanf(*shard, "%d/%d", &i, &n)
		if *outPath == "" {
			*outPath = filepath.Join(*verif, "selftest", fmt.Sprintf("mutants_%d_of_%d.json", i, n))
		}
		os.Exit(selftestMutants(prog, *repo, *verif, i, n, *kinds, *mutFuncs, *outPath))
	}
	var ids []string
	if *prop == "all" {
		for id := range registry {
			ids = append(ids, id)
		}
		sort.Strings(ids)
	} else {
		ids = []string{*prop}
	}
	exit := 0
	if *fixtures {
		if msgs := runFixtures(*verif); len(msgs) > 0 {
			for _, m := range msgs {
				fmt.Printf("CHECKER-BROKEN positive control: %s\n", m)
			}
			exit = 2
		}
	}
	for _, id := range ids {
		f, ok := registry[id]
		if !ok {
			fmt.Printf("CHECKER-BROKEN unknown property %q\n", id)
			os.Exit(2)
		}
		t0 := time.Now()
		c := NewCheck(id, *tier)
		func() {
			defer func() {
				if r := recover(); r != nil {
					c.Brokenf("analyzer panic: %v", r)
				}
			}()
			f(prog, c)
		}()
		c.Extra["positive_controls"] = fixtureStats
		if *tier == "thorough" {
			thoroughExtras(prog, c, *repo, *verif)
		}
		wall := time.Since(t0).Seconds()
		if len(ids) == 1 {
			wall = time.Since(start).Seconds()
		}
		code := c.Finish(*verif, seed, wall, prog)
		if code == 1 || (code == 2 && exit == 0) {
			exit = code
		}
	}
	os.Exit(exit)
}

// thoroughExtras: sensitivity of the check to the seeded-change catalogue (only meaningful when the tree itself is clean).
func thoroughExtras(prog *Program, c *Check, repo, verif string) {
	findings, _ := loadFindings(filepath.Join(verif, "known_findings.txt"))
	known := map[string]bool{}
	for _, f := range findings {
		if f.Kind == "known" && f.Property == c.Property {
			known[f.Key] = true
		}
	}
	for _, o := range c.Obs {
		if o.Status == Violated && !known[o.Key] {
			c.Extra["sensitivity"] = "skipped: the analysed tree already has violations"
			return
		}
	}
	res := runSensitivity(repo, verif, c.Property, known)
	applicable, detected := 0, 0
	for _, r := range res {
		if r.Applies && r.Note == "" {
			applicable++
			if r.Detected {
				detected++
			}
		}
	}
	c.Extra["sensitivity"] = res
	c.Extra["sensitivity_summary"] = fmt.Sprintf("%d of %d applicable seeded changes of this property are reported when applied in memory", detected, applicable)
	fmt.Printf("%s thorough: sensitivity %d/%d seeded changes reported\n", c.Property, detected, applicable)
	if applicable > 0 && detected == 0 {
		c.Brokenf("none of the %d applicable seeded changes of this property is reported any more", applicable)
	}
	// mutation sensitivity: up to 4 type-preserving mutants per anchored function, applied in memory, one per function
	// per load; a mutant counts when a rule of THIS property reports a violation in the mutated function
	if len(c.anchoredFuncs) > 0 {
		gen, rep, inv := mutationSensitivity(prog, repo, verif, c.Property, c.anchoredFuncs, known, 4)
		c.Extra["mutation_sensitivity"] = map[string]int{"mutants_applied": gen, "reported_in_the_mutated_function": rep, "discarded_not_type_correct": inv}
		fmt.Printf("%s thorough: mutation sensitivity %d/%d mutants of anchored functions reported (%d discarded)\n", c.Property, rep, gen, inv)
		// attribution is by function key and batches carry one mutant per function; a mutant reported only at a caller is
		// not counted. The check is broken only when the rules report (next to) nothing any more.
		if gen >= 20 && rep*5 < gen {
			c.Brokenf("only %d of %d mutants of the anchored functions are reported", rep, gen)
		}
	}
}
