package main

import (
	"go/token"
	"go/types"

	"golang.org/x/tools/go/ssa"
)

// natural loop with the given header: all blocks that can reach a back edge
// source without passing through the header.
func loopBlocks(header *ssa.BasicBlock) map[*ssa.BasicBlock]bool {
	loop := map[*ssa.BasicBlock]bool{header: true}
	var stack []*ssa.BasicBlock
	for _, pred := range header.Preds {
		if header.Dominates(pred) { // back edge
			if !loop[pred] {
				loop[pred] = true
				stack = append(stack, pred)
			}
		}
	}
	for len(stack) > 0 {
		b := stack[len(stack)-1]
		stack = stack[:len(stack)-1]
		for _, pred := range b.Preds {
			if !loop[pred] {
				loop[pred] = true
				stack = append(stack, pred)
			}
		}
	}
	return loop
}

// loopHeaders: blocks that are targets of back edges.
func loopHeaders(f *ssa.Function) []*ssa.BasicBlock {
	var out []*ssa.BasicBlock
	for _, b := range f.Blocks {
		for _, pred := range b.Preds {
			if b.Dominates(pred) {
				out = append(out, b)
				break
			}
		}
	}
	return out
}

// mapRange describes one `for k, v := range m` over a map.
type mapRange struct {
	Fn     *ssa.Function
	Range  *ssa.Range
	Next   *ssa.Next
	Header *ssa.BasicBlock
	Loop   map[*ssa.BasicBlock]bool
	Key    ssa.Value // Extract #1 (may be nil)
	Val    ssa.Value // Extract #2 (may be nil)
}

func findMapRanges(f *ssa.Function) []*mapRange {
	var out []*mapRange
	for _, b := range f.Blocks {
		for _, in := range b.Instrs {
			r, ok := in.(*ssa.Range)
			if !ok {
				continue
			}
			if _, isMap := r.X.Type().Underlying().(*types.Map); !isMap {
				continue
			}
			for _, ref := range *r.Referrers() {
				nx, ok := ref.(*ssa.Next)
				if !ok {
					continue
				}
				mr := &mapRange{Fn: f, Range: r, Next: nx, Header: nx.Block(), Loop: loopBlocks(nx.Block())}
				for _, e := range *nx.Referrers() {
					if ex, ok := e.(*ssa.Extract); ok {
						switch ex.Index {
						case 1:
							mr.Key = ex
						case 2:
							mr.Val = ex
						}
					}
				}
				out = append(out, mr)
			}
		}
	}
	return out
}

func isConst(v ssa.Value) bool { _, ok := v.(*ssa.Const); return ok }

func isIntConst(v ssa.Value, n int64) bool {
	c, ok := v.(*ssa.Const)
	if !ok || c.Value == nil {
		return false
	}
	i, ok := constInt(c)
	return ok && i == n
}

func constInt(c *ssa.Const) (int64, bool) {
	if c.Value == nil {
		return 0, false
	}
	if b, ok := c.Type().Underlying().(*types.Basic); ok && b.Info()&types.IsInteger != 0 {
		return c.Int64(), true
	}
	return 0, false
}

// isCounterPhi: phi(const, phi + 1) of integer type inside the loop.
func isCounterPhi(phi *ssa.Phi, loop map[*ssa.BasicBlock]bool) bool {
	b, ok := phi.Type().Underlying().(*types.Basic)
	if !ok || b.Info()&types.IsInteger == 0 {
		return false
	}
	okAll := true
	for i, e := range phi.Edges {
		pred := phi.Block().Preds[i]
		if loop[pred] {
			bin, ok := e.(*ssa.BinOp)
			if !ok || bin.Op != token.ADD || !((bin.X == phi && isIntConst(bin.Y, 1)) || (bin.Y == phi && isIntConst(bin.X, 1))) {
				okAll = false
			}
		} else if !isConst(e) {
			okAll = false
		}
	}
	return okAll
}

// isCollectorPhi: slice-typed phi whose in-loop edge is append(phi, ...) (possibly through inner phis of the same chain).
func isCollectorPhi(phi *ssa.Phi, loop map[*ssa.BasicBlock]bool) bool {
	if _, ok := phi.Type().Underlying().(*types.Slice); !ok {
		return false
	}
	var derived func(v ssa.Value, seen map[ssa.Value]bool) bool
	derived = func(v ssa.Value, seen map[ssa.Value]bool) bool {
		if v == phi {
			return true
		}
		if seen[v] {
			return true
		}
		seen[v] = true
		switch x := v.(type) {
		case *ssa.Call:
			if b, ok := x.Call.Value.(*ssa.Builtin); ok && b.Name() == "append" {
				return derived(x.Call.Args[0], seen)
			}
		case *ssa.Phi:
			for _, e := range x.Edges {
				if !derived(e, seen) {
					return false
				}
			}
			return true
		}
		return false
	}
	for i, e := range phi.Edges {
		if loop[phi.Block().Preds[i]] {
			if !derived(e, map[ssa.Value]bool{}) {
				return false
			}
		}
	}
	return true
}

// endsInPanic: every path from b (bounded) ends in a panic.
func endsInPanic(b *ssa.BasicBlock) bool {
	return allPathsPanic(b, 0, map[*ssa.BasicBlock]bool{})
}

func allPathsPanic(b *ssa.BasicBlock, depth int, seen map[*ssa.BasicBlock]bool) bool {
	if b == nil || depth > 12 {
		return false
	}
	if seen[b] {
		return true // loop inside an error path (building the message)
	}
	seen[b] = true
	switch b.Instrs[len(b.Instrs)-1].(type) {
	case *ssa.Panic:
		return true
	case *ssa.Return:
		return false
	}
	if len(b.Succs) == 0 {
		return false
	}
	for _, s := range b.Succs {
		if !allPathsPanic(s, depth+1, seen) {
			return false
		}
	}
	return true
}

// returnsOnlyConsts: following jumps from b the function returns constant results.
func returnsOnlyConsts(b *ssa.BasicBlock) bool {
	for i := 0; i < 8 && b != nil; i++ {
		last := b.Instrs[len(b.Instrs)-1]
		switch x := last.(type) {
		case *ssa.Return:
			for _, r := range x.Results {
				if !isConst(r) {
					return false
				}
			}
			return true
		case *ssa.Jump:
			b = b.Succs[0]
			continue
		}
		return false
	}
	return false
}
