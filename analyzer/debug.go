package main

import (
	"fmt"
	"os"
	"sort"
	"strings"
)

func doDump(p *Program, what string) {
	switch {
	case what == "funcs":
		for _, f := range p.Funcs {
			fmt.Printf("%-90s lib=%v http=%v init=%v %s\n", funcKey(f), p.RPLib[f], p.RPHttp[f], p.Inits[f], p.fpos(f))
		}
		fmt.Printf("%d funcs, RPLib=%d RPHttp=%d Inits=%d pkgs=%d\n", len(p.Funcs), len(p.RPLib), len(p.RPHttp), len(p.Inits), len(p.Pkgs))
	case strings.HasPrefix(what, "sum:"):
		key := strings.TrimPrefix(what, "sum:")
		f := p.Func(key)
		if f == nil {
			for _, sf := range p.SpecFuncs {
				if funcKey(sf) == key {
					f = sf
				}
			}
		}
		if f == nil {
			fmt.Println("not found")
			return
		}
		dumpSummary(p, Summarize(p, f))
	case what == "rewrite-specs":
		rewriteSpecs(p, "/verif/spec")
	case what == "specs":
		pairs, missing := p.specPairs()
		for _, m := range missing {
			fmt.Println("MISSING anchor for spec:", m)
		}
		for _, sp := range pairs {
			res := compareSummaries(p, Summarize(p, sp.Code), Summarize(p, sp.Spec))
			fmt.Printf("%-70s ok=%v labels=%d cases=%d\n", sp.Key, res.OK, res.Labels, res.Cases)
			for _, d := range res.Details {
				fmt.Println("     ", d)
			}
		}
	case strings.HasPrefix(what, "ssa:"):
		f := p.Func(strings.TrimPrefix(what, "ssa:"))
		if f == nil {
			fmt.Println("not found")
			return
		}
		f.WriteTo(os.Stdout)
		for _, a := range f.AnonFuncs {
			a.WriteTo(os.Stdout)
		}
	}
}

func sortStrings(s []string) { sort.Strings(s) }
