package main

import (
	"sort"
	"fmt"
	"os"
	"strings"
)

func doDump(p *Program, what string) {
	switch {
	case what == "funcs":
		for _, f := range p.Funcs {
			fmt.Printf("%-90s lib=%v http=%v init=%v %s\n", funcKey(f), p.RPLib[f], p.RPHttp[f], p.Inits[f], p.fpos(f))
		}
		fmt.Printf("%d funcs, RPLib=%d RPHttp=%d Inits=%d pkgs=%d\n", len(p.Funcs), len(p.RPLib), len(p.RPHttp), len(p.Inits), len(p.Pkgs))
	case strings.HasPrefix(what, "ssa:"):
		f := p.Func(strings.TrimPrefix(what, "ssa:"))
		if f == nil {
			fmt.Println("not found")
			return
		}
		f.WriteTo(os.Stdout)
		for _, a := range f.AnonFuncs {
			a.WriteTo(os.Stdout)
		}
	}
}

func runFixtures(verif string) []string { return nil }

func sortStrings(s []string) { sort.Strings(s) }
