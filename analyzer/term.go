package main

// E5 (part 1): the term language of the value-graph matcher.
//
// Terms are built from SSA def-use chains (summ.go). Numeric terms are
// normalised as polynomials over the reals; boolean structure is compared by
// case analysis over the atomic comparisons; everything else is uninterpreted.

import (
	"fmt"
	"math/big"
	"sort"
	"strings"
)

type Term struct {
	Op   string // const sym add mul neg div call field index lookup has slice cmp not and or ite struct conv unk tuple extract
	Val  string
	Args []*Term
	// for struct: Val = type name, Fields[i] names Args[i]
	Fields []string
	Num    bool // numeric-typed (participates in polynomial normalisation)
	Int    bool // integer-typed
	Flt    bool // floating-point operation (its evaluation order matters in fpShapeMode)
	Bool   bool
	Str    bool
}

func tConstNum(r *big.Rat) *Term { return &Term{Op: "const", Val: r.RatString(), Num: true} }
func tConstInt(i int64) *Term    { return tConstNum(new(big.Rat).SetInt64(i)) }
func tConstStr(s string) *Term   { return &Term{Op: "const", Val: fmt.Sprintf("%q", s), Str: true} }
func tConstBool(b bool) *Term    { return &Term{Op: "const", Val: fmt.Sprint(b), Bool: true} }
func tNil() *Term                { return &Term{Op: "const", Val: "nil"} }
func tSym(name string) *Term     { return &Term{Op: "sym", Val: name} }
func tCall(name string, args ...*Term) *Term {
	return &Term{Op: "call", Val: name, Args: args}
}
func tNot(a *Term) *Term    { return &Term{Op: "not", Args: []*Term{a}, Bool: true} }
func tAnd(a, b *Term) *Term { return &Term{Op: "and", Args: []*Term{a, b}, Bool: true} }
func tOr(a, b *Term) *Term  { return &Term{Op: "or", Args: []*Term{a, b}, Bool: true} }
func tIte(c, a, b *Term) *Term {
	return &Term{Op: "ite", Args: []*Term{c, a, b}, Num: a.Num || b.Num, Bool: a.Bool && b.Bool, Str: a.Str && b.Str}
}
func tTrue() *Term  { return tConstBool(true) }
func tFalse() *Term { return tConstBool(false) }

// ---------------------------------------------------------------------------
// polynomials

type mono struct {
	atoms []string // sorted, with repetition for powers
}

func (m mono) key() string { return strings.Join(m.atoms, "*") }

type Poly map[string]*polyTerm

type polyTerm struct {
	m mono
	c *big.Rat
}

func polyConst(r *big.Rat) Poly {
	p := Poly{}
	if r.Sign() != 0 {
		p[""] = &polyTerm{mono{}, new(big.Rat).Set(r)}
	}
	return p
}

func polyAtom(a string) Poly {
	return Poly{a: &polyTerm{mono{[]string{a}}, big.NewRat(1, 1)}}
}

func (p Poly) add(q Poly, sign int64) Poly {
	out := Poly{}
	for k, t := range p {
		out[k] = &polyTerm{t.m, new(big.Rat).Set(t.c)}
	}
	s := big.NewRat(sign, 1)
	for k, t := range q {
		c := new(big.Rat).Mul(t.c, s)
		if e, ok := out[k]; ok {
			e.c.Add(e.c, c)
			if e.c.Sign() == 0 {
				delete(out, k)
			}
		} else {
			out[k] = &polyTerm{t.m, c}
		}
	}
	return out
}

func (p Poly) mul(q Poly) Poly {
	out := Poly{}
	for _, a := range p {
		for _, b := range q {
			atoms := append(append([]string{}, a.m.atoms...), b.m.atoms...)
			sort.Strings(atoms)
			m := mono{atoms}
			c := new(big.Rat).Mul(a.c, b.c)
			k := m.key()
			if e, ok := out[k]; ok {
				e.c.Add(e.c, c)
				if e.c.Sign() == 0 {
					delete(out, k)
				}
			} else {
				out[k] = &polyTerm{m, c}
			}
		}
	}
	return out
}

func (p Poly) isConst() (*big.Rat, bool) {
	if len(p) == 0 {
		return new(big.Rat), true
	}
	if len(p) == 1 {
		if t, ok := p[""]; ok {
			return t.c, true
		}
	}
	return nil, false
}

func (p Poly) keys() []string {
	ks := make([]string, 0, len(p))
	for k := range p {
		ks = append(ks, k)
	}
	sort.Strings(ks)
	return ks
}

func (p Poly) String() string {
	if len(p) == 0 {
		return "0"
	}
	var parts []string
	for _, k := range p.keys() {
		t := p[k]
		if k == "" {
			parts = append(parts, t.c.RatString())
		} else if t.c.Cmp(big.NewRat(1, 1)) == 0 {
			parts = append(parts, k)
		} else {
			parts = append(parts, t.c.RatString()+"*"+k)
		}
	}
	return "(" + strings.Join(parts, " + ") + ")"
}

// normalised: divide by the coefficient of the first non-constant monomial (sign kept separately).
// returns the scaled polynomial string and the scalar that was factored out.
func (p Poly) normalised() (Poly, *big.Rat) {
	ks := p.keys()
	var lead *big.Rat
	for _, k := range ks {
		if k != "" {
			lead = p[k].c
			break
		}
	}
	if lead == nil {
		return p, big.NewRat(1, 1)
	}
	inv := new(big.Rat).Inv(lead)
	out := Poly{}
	for k, t := range p {
		out[k] = &polyTerm{t.m, new(big.Rat).Mul(t.c, inv)}
	}
	return out, new(big.Rat).Set(lead)
}

// ---------------------------------------------------------------------------
// evaluation under a (partial) truth assignment of boolean atoms

type needAtom struct{ atom string }

func (n needAtom) Error() string { return "need " + n.atom }

type evalCtx struct {
	asg    map[string]bool
	rename map[string]string // symbol renaming (loop-carried values matched up to permutation)
}

func (e *evalCtx) sym(name string) string {
	if e.rename != nil {
		if n, ok := e.rename[name]; ok {
			return n
		}
	}
	return name
}

// canon returns the canonical string of t under the assignment; panics with needAtom when an
// undecided atom is required.
func (e *evalCtx) canon(t *Term) string {
	if t == nil {
		return "<nil>"
	}
	if t.Bool {
		if e.truth(t) {
			return "true"
		}
		return "false"
	}
	if t.Num {
		return e.poly(t).String()
	}
	switch t.Op {
	case "ite":
		if e.truth(t.Args[0]) {
			return e.canon(t.Args[1])
		}
		return e.canon(t.Args[2])
	case "const":
		return t.Val
	case "sym":
		return e.sym(t.Val)
	case "struct":
		type fv struct{ f, v string }
		var fs []fv
		var flat func(prefix string, st *Term)
		flat = func(prefix string, st *Term) {
			for i, a := range st.Args {
				name := st.Fields[i]
				if prefix != "" {
					if strings.HasPrefix(name, "[") {
						name = prefix + name
					} else {
						name = prefix + "." + name
					}
				}
				inner := a
				for inner.Op == "ite" {
					if e.truth(inner.Args[0]) {
						inner = inner.Args[1]
					} else {
						inner = inner.Args[2]
					}
				}
				if inner.Op == "struct" {
					flat(name, inner)
					continue
				}
				v := e.canon(inner)
				if isZeroCanon(v) {
					continue
				}
				fs = append(fs, fv{name, v})
			}
		}
		flat("", t)
		sort.Slice(fs, func(i, j int) bool { return fs[i].f < fs[j].f })
		var parts []string
		for _, x := range fs {
			parts = append(parts, x.f+":"+x.v)
		}
		return t.Val + "{" + strings.Join(parts, ",") + "}"
	default:
		var parts []string
		for _, a := range t.Args {
			parts = append(parts, e.canon(a))
		}
		return t.Op + ":" + t.Val + "(" + strings.Join(parts, ",") + ")"
	}
}

func isZeroCanon(v string) bool {
	return v == "0" || v == "false" || v == `""` || v == "nil"
}

// singleTerm strips the parentheses Poly.String puts around a polynomial that consists of one term.
func singleTerm(s string) string {
	if len(s) < 2 || s[0] != '(' || s[len(s)-1] != ')' {
		return s
	}
	inner := s[1 : len(s)-1]
	if !balanced(inner) {
		return s
	}
	depth := 0
	for i := 0; i+2 < len(inner); i++ {
		switch inner[i] {
		case '(':
			depth++
		case ')':
			depth--
		}
		if depth == 0 && inner[i:i+3] == " + " {
			return s
		}
	}
	return inner
}

func balanced(s string) bool {
	depth := 0
	for _, c := range s {
		switch c {
		case '(':
			depth++
		case ')':
			depth--
			if depth < 0 {
				return false
			}
		}
	}
	return depth == 0
}

// fpShapeMode: floating-point operations are not normalised as polynomials over the reals; they keep the shape of the
// expression (commutative operands sorted), so that two terms are equal only if they round in the same way.
var fpShapeMode bool

func (e *evalCtx) poly(t *Term) Poly {
	if fpShapeMode && t.Flt {
		// IEEE identities kept: x+y = y+x, x*y = y*x, x-y = x+(-y), -(-x) = x
		// fpNeg takes the (parenthesised) string of a term and returns the bare string of its negation
		fpNeg := func(s string) string {
			inner := singleTerm(s)
			if strings.HasPrefix(inner, "fpneg(") && strings.HasSuffix(inner, ")") && balanced(inner[len("fpneg("):len(inner)-1]) {
				return singleTerm(inner[len("fpneg(") : len(inner)-1])
			}
			if r, ok := new(big.Rat).SetString(inner); ok {
				return r.Neg(r).RatString()
			}
			return "fpneg(" + s + ")"
		}
		// isNeg: the (parenthesised) term is a negation; returns the parenthesised operand
		isNeg := func(s string) (string, bool) {
			inner := singleTerm(s)
			if strings.HasPrefix(inner, "fpneg(") && strings.HasSuffix(inner, ")") && balanced(inner[len("fpneg("):len(inner)-1]) {
				return inner[len("fpneg(") : len(inner)-1], true
			}
			return s, false
		}
		switch t.Op {
		case "add", "sub":
			a, b := e.poly(t.Args[0]).String(), e.poly(t.Args[1]).String()
			if t.Op == "sub" {
				b = "(" + fpNeg(b) + ")"
			}
			parts := []string{a, b}
			sort.Strings(parts)
			return polyAtom("fpadd(" + parts[0] + "," + parts[1] + ")")
		case "mul", "div":
			// (-x)*y = -(x*y), (-x)/y = -(x/y): rounding is symmetric in the sign
			a, na := isNeg(e.poly(t.Args[0]).String())
			b, nb := isNeg(e.poly(t.Args[1]).String())
			var s string
			if t.Op == "mul" {
				parts := []string{a, b}
				sort.Strings(parts)
				s = "fpmul(" + parts[0] + "," + parts[1] + ")"
			} else {
				s = "fpdiv(" + a + "," + b + ")"
			}
			if na != nb {
				s = fpNeg("(" + s + ")")
			}
			return polyAtom(s)
		case "neg":
			return polyAtom(fpNeg(e.poly(t.Args[0]).String()))
		}
	}
	switch t.Op {
	case "const":
		r, ok := new(big.Rat).SetString(t.Val)
		if !ok {
			return polyAtom("const:" + t.Val)
		}
		return polyConst(r)
	case "add":
		return e.poly(t.Args[0]).add(e.poly(t.Args[1]), 1)
	case "sub":
		return e.poly(t.Args[0]).add(e.poly(t.Args[1]), -1)
	case "neg":
		return Poly{}.add(e.poly(t.Args[0]), -1)
	case "mul":
		return e.poly(t.Args[0]).mul(e.poly(t.Args[1]))
	case "div":
		a, b := e.poly(t.Args[0]), e.poly(t.Args[1])
		if c, ok := b.isConst(); ok && c.Sign() != 0 {
			return a.mul(polyConst(new(big.Rat).Inv(c)))
		}
		nb, scalar := b.normalised()
		return a.mul(polyConst(new(big.Rat).Inv(scalar))).mul(polyAtom("inv" + nb.String()))
	case "ite":
		if e.truth(t.Args[0]) {
			return e.poly(t.Args[1])
		}
		return e.poly(t.Args[2])
	case "conv": // numeric conversion that is the identity over the reals
		return e.poly(t.Args[0])
	}
	// opaque numeric atom
	var parts []string
	for _, a := range t.Args {
		parts = append(parts, e.canon(a))
	}
	if t.Op == "symcall" {
		sort.Strings(parts)
	}
	s := t.Op + ":" + t.Val
	if t.Op == "sym" {
		s = t.Op + ":" + e.sym(t.Val)
	}
	if len(parts) > 0 {
		s += "(" + strings.Join(parts, ",") + ")"
	}
	return polyAtom(s)
}

// atomOf returns the canonical atom string and whether the term equals the negation of that atom.
func (e *evalCtx) cmpAtom(t *Term) (string, bool) {
	a, b := t.Args[0], t.Args[1]
	op := t.Val
	if a.Num && b.Num {
		p := e.poly(a).add(e.poly(b), -1)
		if c, ok := p.isConst(); ok {
			s := c.Sign()
			var v bool
			switch op {
			case "<":
				v = s < 0
			case "<=":
				v = s <= 0
			case ">":
				v = s > 0
			case ">=":
				v = s >= 0
			case "==":
				v = s == 0
			case "!=":
				v = s != 0
			}
			if v {
				return "TRUE", false
			}
			return "TRUE", true
		}
		np, scalar := p.normalised()
		if scalar.Sign() < 0 {
			switch op {
			case "<":
				op = ">"
			case "<=":
				op = ">="
			case ">":
				op = "<"
			case ">=":
				op = "<="
			}
		}
		// integer-valued polynomials: p < 0  <=>  p + 1 <= 0
		if a.Int && b.Int && polyIntegral(np) {
			switch op {
			case "<":
				np, op = np.add(polyConst(big.NewRat(1, 1)), 1), "<="
			case ">=":
				np, op = np.add(polyConst(big.NewRat(1, 1)), 1), ">"
			}
		}
		// a length or an iteration count is never negative: x <= 0  <=>  x == 0
		if nonNegativeAtom(np) {
			switch op {
			case "<=":
				op = "=="
			case ">":
				op = "!="
			}
		}
		ps := np.String()
		// the length of a string is zero iff the string is empty
		if (op == "==" || op == "!=") && strings.HasPrefix(ps, "(call:builtin:lenstr(") && strings.HasSuffix(ps, "))") && len(np) == 1 {
			inner := strings.TrimSuffix(strings.TrimPrefix(ps, "(call:builtin:lenstr("), "))")
			return "eq(\"\"," + inner + ")", op == "!="
		}
		switch op {
		case "<":
			return ps + "<0", false
		case "<=":
			return ps + "<=0", false
		case ">":
			return ps + "<=0", true
		case ">=":
			return ps + "<0", true
		case "==":
			return ps + "==0", false
		default:
			return ps + "==0", true
		}
	}
	ca, cb := e.canon(a), e.canon(b)
	switch op {
	case "==", "!=":
		if ca > cb {
			ca, cb = cb, ca
		}
		if ca == cb {
			return "TRUE", op == "!="
		}
		return "eq(" + ca + "," + cb + ")", op == "!="
	case "<":
		return "lt(" + ca + "," + cb + ")", false
	case ">":
		return "lt(" + cb + "," + ca + ")", false
	case "<=":
		return "lt(" + cb + "," + ca + ")", true
	default: // >=
		return "lt(" + ca + "," + cb + ")", true
	}
}

func (e *evalCtx) truth(t *Term) bool {
	switch t.Op {
	case "const":
		return t.Val == "true"
	case "not":
		return !e.truth(t.Args[0])
	case "and":
		return e.truth(t.Args[0]) && e.truth(t.Args[1])
	case "or":
		return e.truth(t.Args[0]) || e.truth(t.Args[1])
	case "ite":
		if e.truth(t.Args[0]) {
			return e.truth(t.Args[1])
		}
		return e.truth(t.Args[2])
	case "cmp":
		atom, neg := e.cmpAtom(t)
		if atom == "TRUE" {
			return !neg
		}
		v, ok := e.asg[atom]
		if !ok {
			panic(needAtom{atom})
		}
		return v != neg
	}
	// opaque boolean atom
	var parts []string
	for _, a := range t.Args {
		parts = append(parts, e.canon(a))
	}
	atom := t.Op + ":" + t.Val + "(" + strings.Join(parts, ",") + ")"
	if t.Op == "sym" {
		atom = t.Op + ":" + e.sym(t.Val) + "()"
	}
	v, ok := e.asg[atom]
	if !ok {
		panic(needAtom{atom})
	}
	return v
}

// tryCanon evaluates t; returns ("", atom) when an atom must be decided first.
func tryCanon(t *Term, asg map[string]bool) (s string, need string) {
	return tryCanonR(t, asg, nil)
}

func tryCanonR(t *Term, asg map[string]bool, rename map[string]string) (s string, need string) {
	defer func() {
		if r := recover(); r != nil {
			if n, ok := r.(needAtom); ok {
				s, need = "", n.atom
				return
			}
			panic(r)
		}
	}()
	e := &evalCtx{asg, rename}
	return e.canon(t), ""
}

type mismatch struct {
	Asg  map[string]bool
	A, B string
}

// equivTerms: are a and b equal under every assignment of the boolean atoms they depend on?
func equivTerms(a, b *Term, maxAtoms int) (bool, *mismatch, int) {
	return equivTermsR(a, b, maxAtoms, nil)
}

// equivTermsR: as equivTerms, with the symbols of b renamed.
func equivTermsR(a, b *Term, maxAtoms int, renameB map[string]string) (bool, *mismatch, int) {
	cases := 0
	var rec func(asg map[string]bool) *mismatch
	rec = func(asg map[string]bool) *mismatch {
		sa, need := tryCanon(a, asg)
		if need == "" {
			var sb string
			sb, need = tryCanonR(b, asg, renameB)
			if need == "" {
				cases++
				if sa != sb {
					cp := map[string]bool{}
					for k, v := range asg {
						cp[k] = v
					}
					return &mismatch{cp, sa, sb}
				}
				return nil
			}
		}
		if len(asg) >= maxAtoms {
			return &mismatch{asg, "too many boolean atoms", need}
		}
		for _, v := range []bool{true, false} {
			asg[need] = v
			if !consistentAtoms(asg, need) {
				continue // arithmetically impossible combination of comparisons of one polynomial
			}
			if m := rec(asg); m != nil {
				return m
			}
		}
		delete(asg, need)
		return nil
	}
	m := rec(map[string]bool{})
	return m == nil, m, cases
}

func (m *mismatch) String() string {
	var ks []string
	for k := range m.Asg {
		ks = append(ks, k)
	}
	sort.Strings(ks)
	var parts []string
	for _, k := range ks {
		parts = append(parts, fmt.Sprintf("%s=%v", k, m.Asg[k]))
	}
	return fmt.Sprintf("code: %s  ||  spec: %s  ||  when {%s}", trunc(m.A, 400), trunc(m.B, 400), trunc(strings.Join(parts, ", "), 500))
}

func trunc(s string, n int) string {
	if len(s) > n {
		return s[:n] + "…"
	}
	return s
}

// consistentAtoms: the comparison atoms "<poly><0", "<poly><=0", "<poly>==0" of one polynomial must be
// satisfiable by some sign of the polynomial.
func consistentAtoms(asg map[string]bool, changed string) bool {
	var poly string
	for _, suf := range []string{"<=0", "==0", "<0"} {
		if strings.HasSuffix(changed, suf) && strings.HasPrefix(changed, "(") {
			poly = strings.TrimSuffix(changed, suf)
			break
		}
	}
	if poly == "" {
		return true
	}
	lt, hasLt := asg[poly+"<0"]
	le, hasLe := asg[poly+"<=0"]
	eq, hasEq := asg[poly+"==0"]
	for _, sign := range []int{-1, 0, 1} {
		ok := true
		if hasLt && lt != (sign < 0) {
			ok = false
		}
		if hasLe && le != (sign <= 0) {
			ok = false
		}
		if hasEq && eq != (sign == 0) {
			ok = false
		}
		if ok {
			return true
		}
	}
	return false
}

// polyIntegral: all coefficients are integers.
func polyIntegral(p Poly) bool {
	for _, t := range p {
		if !t.c.IsInt() {
			return false
		}
	}
	return true
}

// nonNegativeAtom: the polynomial is exactly one atom (coefficient 1, no constant) that denotes a length or an iteration counter.
func nonNegativeAtom(p Poly) bool {
	if len(p) != 1 {
		return false
	}
	for k, t := range p {
		if k == "" || len(t.m.atoms) != 1 || t.c.Cmp(big.NewRat(1, 1)) != 0 {
			return false
		}
		a := t.m.atoms[0]
		return strings.HasPrefix(a, "call:builtin:len(") || strings.HasPrefix(a, "call:builtin:lenstr(") || (strings.HasPrefix(a, "sym:L") && strings.HasSuffix(a, ".I"))
	}
	return false
}
