package main

import (
	"sort"

	"golang.org/x/tools/go/ssa"
)

func init() {
	for _, id := range []string{"C01", "C03", "C04", "C05", "C07", "C08", "C09", "C11", "C12", "C13", "C14", "C15", "C16", "C17", "C18", "C19", "C20"} {
		id := id
		register(id, func(p *Program, c *Check) { checkFormulaProperty(p, c, id) })
	}
}

var e5Explanation = map[string]string{}
var e5NotDecided = map[string]string{}

func checkFormulaProperty(p *Program, c *Check, id string) {
	c.Explanation = "E5 value-graph matching: for every function anchored in this property the SSA def-use graph is rebuilt as terms (merged return values, guarded effects in order, " +
		"per-loop continue condition / early exits / (init, step) of every loop-carried value, function literals) and compared with the value graph of a reference implementation written from the property statement " +
		"(/verif/spec, loaded as an in-memory overlay; never compiled into or run with the repository). Numeric terms are normalised as polynomials over the reals, guards by case analysis over their atomic comparisons, " +
		"so re-association, renamed locals, reordered commutative operands, if/else vs early return and equivalent comparison forms are accepted while a changed operator, operand, field, constant, guard direction or strictness, " +
		"call argument role, loop bound or effect order is a mismatch. " + e5Explanation[id] +
		" Aliasing, which the value graph abstracts from, is decided separately by two reference-free SSA rules with interprocedural summaries: OWN-3 (a slice value is the base of at most one append - builtin or appending callee - per activation path) and OWN-4 (the address of a variable declared outside a loop and assigned inside it is not stored inside that loop, directly or through a callee that returns or stores its parameter)."
	c.NotDecided = e5NotDecided[id] + "; numeric accuracy (terms are compared over the reals); the emergent behaviour of value-dependent loops beyond their per-iteration transfer functions; anything the reference implementations in /verif/spec state wrongly"
	c.Assumptions = append(c.Assumptions,
		"real arithmetic: floating-point rounding, overflow and NaN propagation are not modelled",
		"the reference implementations in /verif/spec state the property's formulas correctly (reviewed by hand against properties.jsonl)",
		"callees are compared by identity: each anchored callee has its own obligation",
		"OWN-3/OWN-4: functions outside the repository neither append to nor retain their arguments")
	ruleE5(p, c, 1)
	if id != "C09" {
		// aliasing rules on the functions anchored in this property (C09 runs them on the whole request path)
		var af []*ssa.Function
		for k := range c.anchoredFuncs {
			if f := p.Func(k); f != nil && !p.isSpec(f) {
				af = append(af, f)
				af = append(af, f.AnonFuncs...)
			}
		}
		sort.Slice(af, func(i, j int) bool { return funcKey(af[i]) < funcKey(af[j]) })
		ruleOWN3(p, c, af)
		ruleOWN4(p, c, af)
	}
	if extra, ok := extraRules[id]; ok {
		extra(p, c)
	}
	switch id {
	case "C09":
		// runs the shared-state rules as part of its own claim (extraRules)
	case "C20":
		// "any sequence of requests against one server process": nothing reachable from a handler writes memory that
		// outlives the request
		sh := NewSharedInfo(p)
		ruleSHR1(p, c, sh, p.requestPath(true))
		ruleSHR4(p, c)
	default:
		// every property is stated for every request: the handler layer must hand the library a request value that
		// carries nothing over from an earlier request (no pooled or package-level request objects in package main).
		// Shared state inside the library is the subject of C02, C09, C10 and C20.
		sh := NewSharedInfo(p)
		var handlerLayer []*ssa.Function
		for _, f := range p.requestPath(true) {
			if pkgNameOf(f) == "main" {
				handlerLayer = append(handlerLayer, f)
			}
		}
		ruleSHR1Handlers(p, c, sh, handlerLayer)
	}
}

var extraRules = map[string]func(p *Program, c *Check){
	"C09": func(p *Program, c *Check) {
		funcs := p.requestPath(false)
		sh := NewSharedInfo(p)
		ruleOWN1(p, c, sh, funcs)
		ruleOWN2(p, c, funcs)
		ruleOWN3(p, c, funcs)
		ruleOWN4(p, c, funcs)
		// "no history": nothing reachable from a handler writes memory that outlives the request
		ruleSHR1(p, c, sh, p.requestPath(true))
		ruleSHR4(p, c)
	},
	"C01": func(p *Program, c *Check) { ruleOWN2(p, c, p.requestPath(false)) },
	"C07": func(p *Program, c *Check) {
		ruleTCH(p, c)
		ruleLIT(p, c)
		ruleLEN(p, c, p.requestPath(false))
	},
	"C15": func(p *Program, c *Check) { ruleLEN(p, c, p.requestPath(false)) },
	"C18": func(p *Program, c *Check) { ruleTCH(p, c) },
	"C11": func(p *Program, c *Check) { ruleLIT(p, c) },
	"C20": func(p *Program, c *Check) {
		rulePanicType(p, c, p.requestPath(false))
		ruleREC(p, c, p.requestPath(false))
		ruleVAL1(p, c, p.requestPath(false))
		// a panic raised in a spawned goroutine bypasses the handler's recover and ends the process: no goroutines,
		// channels or process-control calls on the request path
		ruleND1(p, c, p.requestPath(true))
	},
	"C05": func(p *Program, c *Check) { ruleREC(p, c, p.requestPath(false)) },
}
