#!/usr/bin/env python3
"""Generates MANIFEST.json from the table below (kept in one place so that it stays valid)."""
import json, sys

E5 = ("E5 value-graph matching of anchored functions against reference implementations (SSA terms, polynomial normalisation, case analysis over guards)",
      "Static translation-validation style check: for every function anchored in this property, results, ordered guarded effects, loop conditions/exits and loop-carried (init, step) values, package-level initialisers and function literals are rebuilt from SSA as terms and must equal those of a reference implementation written from the property statement, over the reals and under every truth assignment of the atomic comparisons. Decides that the anchored formulas, guards, argument roles, protocols and validators are the statement's; does not decide emergent behaviour of value-dependent loops beyond the per-iteration transfer functions.")
CHECKS = {
 "C02": ("E3 nondeterminism-source exclusion + shared-state write analysis over SSA (plus E5 on the generator constructors and handlers)",
         "Static exclusion argument: on the SSA form of every function reachable from the handlers and MakeDecision, no nondeterminism source exists (clock, global PRNG, os/runtime, goroutines/channels, unclassified externals), every generator is seeded from a request *Seed field, every map range is order-insensitive (classified P/E/S), comparators are pure, no struct is decoded by a decoder that resolves keys in map order unless case-ambiguous objects are refused first (ND-5: the one mapstructure.Decode site is dominated by the repository's ambiguity check), and nothing writes memory that outlives the request. Decides the structural necessary-and-(under the stated assumptions)-sufficient conditions of repeatability; not the byte encoding.",
         "2"),
 "C10": ("E3 may-point-to-shared write analysis (SHR-1..4) over SSA + call graph (plus E5 on factories and handlers)",
         "Race freedom by construction: every write reachable from a handler is shown to target request-local memory (interprocedural may-point-to-shared analysis with singleton types taken from the initialisers), factories return fresh objects, decode targets are request-local, globals are init-only, no goroutines/channels/shared PRNG; and (ND-3..5) no result depends on map iteration order, so that a request has one response for the concurrent run to be equal to. Holds for every interleaving because it shows the absence of shared writes rather than sampling schedules.",
         "2"),
}
SHORT = {"C01": "OWN-2 (forked append)", "C05": "REC (recursion table)", "C07": "TCH (type channels), LIT (literal completeness), LEN (make/fill agreement)",
 "C09": "OWN-1 (no in-place write to borrowed state), OWN-2, SHR-1/SHR-4 (no write to shared state)", "C11": "LIT", "C15": "LEN", "C18": "TCH",
 "C20": "PANIC-type, REC, VAL-1 (validation not behind a random draw), ND-1 (no goroutines/process control on the request path)"}
EXTRA = {
 "C01": " Plus OWN-2 (no forked append: a loop never appends repeatedly to one base defined outside it), decided on SSA without a reference.",
 "C03": " Plus E5-fp on the rounding of utilities (the floating-point operations are evaluated in the reference's order, not only equal over the reals).",
 "C04": " Plus E5-fp on the rounding of utilities (the floating-point operations are evaluated in the reference's order, not only equal over the reals).",
 "C14": " Plus E5-fp on the level generators (the floating-point operations are evaluated in the reference's order: a level computed as min+(max-min) instead of being clamped differs only in rounding).",
 "C16": " Plus E5-fp on the reversal (the mirror is evaluated in the reference's floating-point order - from the nearer end of the range - so that the end points are exact).",
 "C05": " Plus REC (every recursion cycle on the request path is tabled with its termination argument).",
 "C07": " Plus, without references: TCH (type channels: dynamic types produced for MethodParameters/additions vs the consumers' type assertions, per method id), LIT (literal completeness of working-state and parameter structs), LEN (make/fill agreement).",
 "C09": " Plus, without references: OWN-1 (no in-place write to memory borrowed from the request or the working state, resolved interprocedurally), OWN-2 (no forked append), SHR-1/SHR-4 (no request-path write to memory that outlives the request); E5-fp on the inline anchoring applier (reported difference = new - old in the reference's floating-point order).",
 "C11": " Plus LIT (literal completeness of the heuristic's parameter struct in the listener).",
 "C15": " Plus LEN (make/fill agreement, the SortByWeights class of defects).",
 "C18": " Plus TCH (type channels between OnCriterionAdded and Merge of every listener) and E5-fp on the mixing formula (evaluated in the reference's floating-point order, so that a mixed value stays between its components).",
 "C19": " Plus E5-fp on the inline applier (the reported difference is new - old in the reference's floating-point order).",
 "C20": " Plus PANIC-type (every request-path panic carries an error or string), REC (recursion cycles tabled), VAL-1 (the call that validates a bias's props is not control dependent on a random draw: violated in processBiases, recorded as a known finding), ND-1 (a panic in a spawned goroutine bypasses the handler's recover: no goroutines, channels or process control on the request path).",
}
for _p in ["C01","C03","C04","C05","C07","C08","C09","C11","C12","C13","C14","C15","C16","C17","C18","C19","C20"]:
    CHECKS[_p] = (E5[0] + ("; plus reference-free SSA rules " + SHORT[_p] + ", OWN-3/OWN-4" if _p in SHORT else "; plus reference-free SSA rules OWN-3/OWN-4 (append forks, retained addresses of per-iteration variables)") + ("" if _p == "C09" else ("; plus SHR-1/SHR-4 (no request-path write to memory that outlives the request)" if _p == "C20" else "; plus SHR-H (the handler layer keeps nothing from an earlier request)")),
                  E5[1] + " The anchor set is closed under static callees, and the struct types those functions use are compared field by field (names, types, tags, codec methods) with reference declarations (E5-types)." + EXTRA.get(_p, "") + " Plus, without references, on the " + ("whole request path" if _p == "C09" else "anchored functions") + ": OWN-3 (one slice value is the base of at most one append - the builtin or a call whose callee appends to that parameter, by summary - per activation path) and OWN-4 (the address of a variable declared outside a loop and assigned inside it - every range variable under the module's go 1.12 semantics - is not stored inside that loop, directly or through a callee that returns or stores its parameter)." +
                  ("" if _p == "C09" else (" As the property is stated for any sequence of requests, SHR-1/SHR-4 (nothing reachable from a handler writes memory that outlives the request) are part of the check." if _p == "C20" else " As the property is stated for every request, SHR-H (the functions of package main write nothing that outlives the request, so the value handed to the library carries nothing over from an earlier one) is part of the check.")) +
                  " Thorough tier: the same obligations, plus a self-test that applies this property's seeded breaking changes and up to four type-preserving mutants per anchored function in memory and records how many the rules report.", "2")

NA = {"C06": "all four clauses are relations between two alternatives or two runs (dominance, equality, permutation and scaling invariance of a nested recursion); no structural necessary condition short of the algorithm's functional correctness implies them. The structural facts they rest on (symmetric qualification, retention of ex-aequo candidates, non-strict intersection guard, ratio form of the concordance) are checked under C05 and reported there, not claimed as a decision of C06."}



def main():
    props = [json.loads(l) for l in open('/verif/properties.jsonl')]
    env = "GOFLAGS=-mod=mod GOPROXY=off GOSUMDB=off GOTOOLCHAIN=local GOWORK=off"
    checks = []
    na = []
    for p in props:
        pid = p['id']
        if pid in CHECKS:
            tech, text, ref = CHECKS[pid]
            checks.append({
                "property_id": pid,
                "quick_cmd": "bin/rdmcheck -property %s -tier quick" % pid,
                "thorough_cmd": "bin/rdmcheck -property %s -tier thorough" % pid,
                "evidence_file": "/verif/evidence/%s.json" % pid,
                "replay_cmd_template": "cat {path}",
                "engine": "rdmcheck",
                "level_claimed": {"category": "other", "text": text, "design_ref": "DESIGN.md section " + ref + " (" + pid + ")"},
                "level_note": "Trusted: go/types, go/ssa (x/tools v0.29.0), the closed-world call resolution over repository packages, the frozen classification table of external callees, and the assumptions listed in the evidence file. Decides structural necessary conditions on the current source; does not execute repository code.",
                "technique": "static analysis: " + tech,
            })
        else:
            na.append({"property_id": pid, "reason": NA.get(pid, "no static check built yet for this property (see DESIGN.md); not claimed")})
    m = {
        "version": 1,
        "setup_cmd": "cd /verif/analyzer && " + env + " go build -o /verif/bin/rdmcheck . && /verif/bin/rdmcheck -dump funcs >/dev/null",
        "hooks": {"guard": "verif", "enable": "none needed: static analysis instruments nothing; the checker loads /repo's working tree with go/packages", 
                  "baseline_off_cmd": "cd /repo/lib && GOFLAGS=-mod=mod GOPROXY=off GOSUMDB=off go test -vet=off -count=1 ./...",
                  "source_commits": [], "add_only": True},
        "engines": [{"name": "rdmcheck", "path": "/verif/analyzer", "serves_properties": sorted(CHECKS.keys()),
                     "kind_free_text": "repository-specific static analyzer (go/packages + go/ssa): dataflow, ownership, shared-state, protocol and value-graph formula rules; never runs repository code"}],
        "checks": checks,
        "not_applicable": na,
        "notes": "All checks are static (family: static analysis). Exit 0 = all obligations discharged (known findings printed as KNOWN-FINDING), exit 1 = VIOLATION lines, exit 2 = checker cannot decide (load/type error, unresolved anchor, vacuous rule).",
    }
    json.dump(m, open('/verif/MANIFEST.json', 'w'), indent=1)
    print("checks:", len(checks), "not_applicable:", len(na))

if __name__ == '__main__':
    main()
