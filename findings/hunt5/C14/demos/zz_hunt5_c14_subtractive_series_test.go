package main

// Hunt 5 / C14 finding 4: idealSubtractiveCoefficient (satisfaction) accumulates r = r - coefficient in float64:
// 1, 0.9, 0.8, 0.7000000000000001, 0.6000000000000001, ..., 0.20000000000000015, 0.10000000000000014.
// NOTE: lib/logic/limited-rationality/satisfaction/satisfaction_test.go TestSatisfaction_Evaluate pins exactly these
// artefacts (10 levels for coefficient 0.1 / minValue 0.1 / maxValue 1, and b={6,5,4} missing the level r=0.4).
// Copy to <tree>/httpClient/ together with zz_hunt5_c14_helpers_test.go (-run 'TestHunt5C14Subtractive').

import "testing"

// coefficient 0.1, maxValue 1, minValue 0.2: documented series r = 1, 0.9, ..., 0.3 (0.2 is not > 0.2): 8 levels; nobody
// reaches 0.3, all fall through to the worst end (index 8) in search order.
// float64: 0.20000000000000015 > 0.2: a ninth level is generated, y (0.25) is satisfied there, z (0.2) is not.
func TestHunt5C14SubtractiveStopBound(t *testing.T) {
	got, _ := h5c14Decide(t, `{"preferenceFunction":"satisfactionHeuristic",
 "criteria":[{"id":"q","type":"gain","valuesRange":{"min":0,"max":1}}],
 "knownAlternatives":[{"id":"x","criteria":{"q":0.1}},{"id":"y","criteria":{"q":0.25}},{"id":"z","criteria":{"q":0.2}}],
 "choseToMake":["x","y","z"],
 "methodParameters":{"function":"idealSubtractiveCoefficient","params":{"coefficient":0.1,"minValue":0.2,"maxValue":1}}}`)
	h5c14Expect(t, got, "x@8", "y@8", "z@8")
}

// coefficient 0.1, maxValue 1, minValue 0.05: level 3 is r = 0.7, threshold 0.7, met by y (0.7) alone; x (0.65) follows on
// level 4. float64: threshold 0.7000000000000001, y misses it; on level 4 both are satisfied and x, searched first, wins.
func TestHunt5C14SubtractiveLevelValue(t *testing.T) {
	got, _ := h5c14Decide(t, `{"preferenceFunction":"satisfactionHeuristic",
 "criteria":[{"id":"q","type":"gain","valuesRange":{"min":0,"max":1}}],
 "knownAlternatives":[{"id":"x","criteria":{"q":0.65}},{"id":"y","criteria":{"q":0.7}}],
 "choseToMake":["x","y"],
 "methodParameters":{"function":"idealSubtractiveCoefficient","params":{"coefficient":0.1,"minValue":0.05,"maxValue":1}}}`)
	h5c14Expect(t, got, "y@3", "x@4")
}
