package main

// Hunt 5 / C14 finding 2: idealMultipliedCoefficient (aspect elimination) computes (1+r)*(1+c)-1; the subtraction of
// the leading 1 cancels and leaves an error of several ulps already on the first step.
// Copy to <tree>/httpClient/ together with zz_hunt5_c14_helpers_test.go (-run 'TestHunt5C14IncMul').

import "testing"

// coefficient 0.2, minValue 0, maxValue 0.2: documented series r = 0 only ((1+0)(1+0.2)-1 = 0.2 is not < 0.2).
// float64: 1.2 - 1 = 0.19999999999999996 < 0.2: a second level eliminates x (0.1).
func TestHunt5C14IncMulStopBound(t *testing.T) {
	got, _ := h5c14Decide(t, `{"preferenceFunction":"aspectEliminationHeuristic",
 "criteria":[{"id":"q","type":"gain","valuesRange":{"min":0,"max":1}}],
 "knownAlternatives":[{"id":"x","criteria":{"q":0.1}},{"id":"y","criteria":{"q":0.5}}],
 "choseToMake":["x","y"],
 "methodParameters":{"function":"idealMultipliedCoefficient","params":{"coefficient":0.2,"minValue":0,"maxValue":0.2},"weights":{"q":1}}}`)
	h5c14Expect(t, got, "x@1", "y@1")
}

// coefficient 0.1, minValue 0, maxValue 0.15: level 1 is r = (1+0)(1+0.1)-1 = 0.1, threshold 0.1. x (0.1) is not below it,
// y (0.05) is. float64: 1.1 - 1 = 0.10000000000000009: x is eliminated, the worse y wins.
func TestHunt5C14IncMulLevelValue(t *testing.T) {
	got, _ := h5c14Decide(t, `{"preferenceFunction":"aspectEliminationHeuristic",
 "criteria":[{"id":"q","type":"gain","valuesRange":{"min":0,"max":1}}],
 "knownAlternatives":[{"id":"x","criteria":{"q":0.1}},{"id":"y","criteria":{"q":0.05}}],
 "choseToMake":["x","y"],
 "methodParameters":{"function":"idealMultipliedCoefficient","params":{"coefficient":0.1,"minValue":0,"maxValue":0.15},"weights":{"q":1}}}`)
	h5c14Expect(t, got, "x@2", "y@1")
}
