package main

// Hunt 5 / C14 finding 1: idealAdditiveCoefficient (aspect elimination) accumulates r = r + coefficient in float64.
// Copy to <tree>/httpClient/ together with zz_hunt5_c14_helpers_test.go; command in the helpers file
// (-run 'TestHunt5C14Additive').

import "testing"

// coefficient 0.1, minValue 0, maxValue 0.8: the documented series is r = 0, 0.1, ..., 0.7 (0.8 is not < 0.8): 8 levels.
// float64: 0.7 + 0.1 = 0.7999999999999999 < 0.8, a ninth level is generated and eliminates x (0.75).
func TestHunt5C14AdditiveStopBound(t *testing.T) {
	got, _ := h5c14Decide(t, `{"preferenceFunction":"aspectEliminationHeuristic",
 "criteria":[{"id":"q","type":"gain","valuesRange":{"min":0,"max":1}}],
 "knownAlternatives":[{"id":"x","criteria":{"q":0.75}},{"id":"y","criteria":{"q":0.9}},{"id":"z","criteria":{"q":0.1}}],
 "choseToMake":["x","y","z"],
 "methodParameters":{"function":"idealAdditiveCoefficient","params":{"coefficient":0.1,"minValue":0,"maxValue":0.8},"weights":{"q":1}}}`)
	h5c14Expect(t, got, "x@8", "y@8", "z@2")
}

// coefficient 0.1, minValue 0, maxValue 0.35: level 3 is r = 0.3, threshold 0 + 0.3 x 1 = 0.3. x (0.3) is not below it,
// y (0.25) is. float64: 0.1+0.1+0.1 = 0.30000000000000004, x is eliminated and the worse y wins.
func TestHunt5C14AdditiveLevelValue(t *testing.T) {
	got, res := h5c14Decide(t, `{"preferenceFunction":"aspectEliminationHeuristic",
 "criteria":[{"id":"q","type":"gain","valuesRange":{"min":0,"max":1}}],
 "knownAlternatives":[{"id":"x","criteria":{"q":0.3}},{"id":"y","criteria":{"q":0.25}},{"id":"z","criteria":{"q":0.1}}],
 "choseToMake":["x","y","z"],
 "methodParameters":{"function":"idealAdditiveCoefficient","params":{"coefficient":0.1,"minValue":0,"maxValue":0.35},"weights":{"q":1}}}`)
	h5c14Expect(t, got, "x@4", "y@3", "z@2")
	for _, e := range res {
		if v, ok := e.Evaluation.NotSatisfiedThreshold["q"]; ok && e.Evaluation.ThresholdsIndex == 3 && v != 0.3 {
			t.Errorf("level 3 threshold is %v, min + r x range = 0 + 0.3 x 1 = 0.3", v)
		}
	}
}
