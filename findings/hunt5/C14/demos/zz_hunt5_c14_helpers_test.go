package main

// Helpers shared by the zz_hunt5_c14_*_test.go demos (hunt 5, property C14, floating-point rounding).
// Copy ALL zz_hunt5_c14_*_test.go files to <tree>/httpClient/ and run, e.g. for the tree /tmp/wth5/C14:
//
//	export GOFLAGS=-mod=mod GOPROXY=off GOSUMDB=off GOTOOLCHAIN=local
//	cd /tmp/wth5/C14/httpClient && go test -modfile=/tmp/hunt5_out/C14/mod/go.mod -vet=off -count=1 -run 'TestHunt5C14' -v .
//
// (the modfile is httpClient/go.mod + `replace github.com/Azbesciak/RealDecisionMaker/lib => <tree>/lib`)

import (
	"bytes"
	"encoding/json"
	"fmt"
	"io"
	"log"
	"net/http"
	"net/http/httptest"
	"testing"

	"github.com/gin-gonic/gin"
)

type h5c14Entry struct {
	Alternative struct {
		Id string `json:"id"`
	} `json:"alternative"`
	Evaluation struct {
		NotSatisfiedThreshold map[string]float64 `json:"notSatisfiedThreshold"`
		SatisfiedThresholds   map[string]float64 `json:"satisfiedThresholds"`
		ThresholdsIndex       int                `json:"thresholdsIndex"`
	} `json:"evaluation"`
}

// h5c14Decide posts the request to the service's /api/decide handler and returns the ranking as "id@index" strings
// (best first) together with the decoded entries.
func h5c14Decide(t *testing.T, body string) ([]string, []h5c14Entry) {
	t.Helper()
	gin.SetMode(gin.ReleaseMode)
	log.SetOutput(io.Discard)
	r := gin.New()
	r.POST("/api/decide", decideHandler)
	w := httptest.NewRecorder()
	req, _ := http.NewRequest("POST", "/api/decide", bytes.NewBufferString(body))
	req.Header.Set("Content-Type", "application/json")
	r.ServeHTTP(w, req)
	if w.Code != 200 {
		t.Fatalf("status %d: %s", w.Code, w.Body.String())
	}
	var resp struct {
		Result []h5c14Entry `json:"result"`
	}
	if err := json.Unmarshal(w.Body.Bytes(), &resp); err != nil {
		t.Fatal(err)
	}
	var out []string
	for _, e := range resp.Result {
		out = append(out, fmt.Sprintf("%s@%d", e.Alternative.Id, e.Evaluation.ThresholdsIndex))
	}
	t.Logf("response: %s", w.Body.String())
	return out, resp.Result
}

func h5c14Expect(t *testing.T, got []string, want ...string) {
	t.Helper()
	if fmt.Sprint(got) != fmt.Sprint(want) {
		t.Errorf("ranking (id@thresholdsIndex, best first): got %v, the documented series gives %v", got, want)
	}
}
