package main

// Hunt 5 / C14 finding 5: IdealCoefficientSatisfactionLevels.Next computes min + (max-min)*r (gain) and max - (max-min)*r
// (cost) in float64. Even when r is exact (0.5), the result misses the decimal value by one ulp to the harmful side:
// 0.2 + 0.2*0.5 = 0.30000000000000004, 0.7 - 0.6*0.5 = 0.39999999999999997.
// Copy to <tree>/httpClient/ together with zz_hunt5_c14_helpers_test.go (-run 'TestHunt5C14Formula').

import "testing"

// Observed range [0.2, 0.4], additive series 0, 0.5 (coefficient 0.5, maxValue 0.9). Level 1 lies at 0.2 + 0.5 x 0.2 = 0.3:
// only "low" (0.2) is below it, "mid" (0.3) and "top" (0.4) survive. float64: threshold 0.30000000000000004 eliminates
// the alternative in the middle of the range as well.
func TestHunt5C14FormulaGainMidpoint(t *testing.T) {
	got, _ := h5c14Decide(t, `{"preferenceFunction":"aspectEliminationHeuristic",
 "criteria":[{"id":"q","type":"gain"}],
 "knownAlternatives":[{"id":"mid","criteria":{"q":0.3}},{"id":"top","criteria":{"q":0.4}},{"id":"low","criteria":{"q":0.2}}],
 "choseToMake":["mid","top","low"],
 "methodParameters":{"function":"idealAdditiveCoefficient","params":{"coefficient":0.5,"minValue":0,"maxValue":0.9},"weights":{"q":1}}}`)
	h5c14Expect(t, got, "mid@2", "top@2", "low@1")
}

// Cost criterion with the declared range [0.1, 0.7]: level 1 lies at 0.7 - 0.5 x 0.6 = 0.4. p (0.4) is not worse than it,
// q (0.5) is. float64: threshold 0.39999999999999997, p is eliminated first and the worse q wins.
func TestHunt5C14FormulaCostMidpoint(t *testing.T) {
	got, _ := h5c14Decide(t, `{"preferenceFunction":"aspectEliminationHeuristic",
 "criteria":[{"id":"q","type":"cost","valuesRange":{"min":0.1,"max":0.7}}],
 "knownAlternatives":[{"id":"p","criteria":{"q":0.4}},{"id":"q","criteria":{"q":0.5}}],
 "choseToMake":["p","q"],
 "methodParameters":{"function":"idealAdditiveCoefficient","params":{"coefficient":0.5,"minValue":0,"maxValue":0.9},"weights":{"q":1}}}`)
	h5c14Expect(t, got, "p@2", "q@1")
}

// Satisfaction, subtractive series 1, 0.5 (coefficient 0.5, minValue 0.4), observed range [0.2, 0.4]: "top" meets level 0
// (0.4), "mid" meets level 1 (0.3), "low" falls through. float64: level 1 is 0.30000000000000004 and "mid" falls through too.
func TestHunt5C14FormulaSatisfactionMidpoint(t *testing.T) {
	got, _ := h5c14Decide(t, `{"preferenceFunction":"satisfactionHeuristic",
 "criteria":[{"id":"q","type":"gain"}],
 "knownAlternatives":[{"id":"low","criteria":{"q":0.2}},{"id":"mid","criteria":{"q":0.3}},{"id":"top","criteria":{"q":0.4}}],
 "choseToMake":["low","mid","top"],
 "methodParameters":{"function":"idealSubtractiveCoefficient","params":{"coefficient":0.5,"minValue":0.4,"maxValue":1}}}`)
	h5c14Expect(t, got, "top@0", "mid@1", "low@2")
}
