package main

// Hunt 5 / C14 finding 3: idealMultipliedCoefficient (satisfaction) multiplies r by the coefficient in float64:
// 0.1 * 0.1 = 0.010000000000000002.
// Copy to <tree>/httpClient/ together with zz_hunt5_c14_helpers_test.go (-run 'TestHunt5C14DecMul').

import "testing"

// coefficient 0.1, maxValue 1, minValue 0.01: documented series r = 1, 0.1 (0.01 is not > 0.01): 2 levels, nobody
// reaches 0.1, both alternatives fall through to the worst end (index 2) in search order.
// float64: 0.010000000000000002 > 0.01: a third level is generated and y is "satisfied" there.
func TestHunt5C14DecMulStopBound(t *testing.T) {
	got, _ := h5c14Decide(t, `{"preferenceFunction":"satisfactionHeuristic",
 "criteria":[{"id":"q","type":"gain","valuesRange":{"min":0,"max":1}}],
 "knownAlternatives":[{"id":"x","criteria":{"q":0.005}},{"id":"y","criteria":{"q":0.05}}],
 "choseToMake":["x","y"],
 "methodParameters":{"function":"idealMultipliedCoefficient","params":{"coefficient":0.1,"minValue":0.01,"maxValue":1}}}`)
	h5c14Expect(t, got, "x@2", "y@2")
}

// coefficient 0.1, maxValue 1, minValue 0.005: level 2 is r = 0.01, threshold 0.01, met by y (0.01).
// float64: threshold 0.010000000000000002, y misses it and nobody is placed on a level.
func TestHunt5C14DecMulLevelValue(t *testing.T) {
	got, _ := h5c14Decide(t, `{"preferenceFunction":"satisfactionHeuristic",
 "criteria":[{"id":"q","type":"gain","valuesRange":{"min":0,"max":1}}],
 "knownAlternatives":[{"id":"x","criteria":{"q":0.005}},{"id":"y","criteria":{"q":0.01}}],
 "choseToMake":["x","y"],
 "methodParameters":{"function":"idealMultipliedCoefficient","params":{"coefficient":0.1,"minValue":0.005,"maxValue":1}}}`)
	h5c14Expect(t, got, "y@2", "x@3")
}
