package client

// hunt5 / C17 - floating-point rounding of the clipping interval of the fatigue bias.
//
// Copy to:  lib/client/   (package client)
// Run:      cd lib && GOFLAGS=-mod=mod GOPROXY=off GOSUMDB=off GOTOOLCHAIN=local \
//           go test -vet=off -count=1 -run 'TestHunt5C17' ./client/
//
// Statement (C17): "With bounding configured the moved value is first raised to 0 when negatives are disallowed and
// then clipped into the criterion's value range scaled about its centre by `allowedValuesRangeScaling`".
//
// utils.ValueRange.ScaleEqually computes  Min + dif - dif*scale  /  Max - dif + dif*scale  (dif = (Max-Min)/2): three
// roundings per bound. For ordinary decimal inputs the bounds land beside the correctly rounded ones:
//   [1.8, 3]   x 0.5  -> Max' = 2.6999999999999997 (exact: 2.7; the value that should sit ON the upper bound misses a threshold of 2.7)
//   [0.3, 0.9] x 2    -> Max' = 1.2000000000000002 (exact: 1.2; the handed-on value lies OUTSIDE the scaled range [0, 1.2])
// The oracle below evaluates centre -/+ half*scale exactly (math/big) on the float64 inputs and rounds once.

import (
	"encoding/json"
	"fmt"
	"math"
	"math/big"
	"testing"

	"github.com/Azbesciak/RealDecisionMaker/lib/logic/biases/fatigue"
	"github.com/Azbesciak/RealDecisionMaker/lib/logic/limited-rationality/satisfaction"
	"github.com/Azbesciak/RealDecisionMaker/lib/logic/limited-rationality/satisfaction-levels"
	"github.com/Azbesciak/RealDecisionMaker/lib/model"
	"github.com/Azbesciak/RealDecisionMaker/lib/model/criteria-bounding"
	"github.com/Azbesciak/RealDecisionMaker/lib/utils"
)

// the wiring of httpClient/main.go, reduced to the satisfaction heuristic and the fatigue bias
func hunt5C17Decide(t *testing.T, req string) *model.DecisionMakerChoice {
	var dm model.DecisionMaker
	if err := json.Unmarshal([]byte(req), &dm); err != nil {
		t.Fatal(err)
	}
	levels := []satisfaction_levels.SatisfactionLevelsSource{
		&satisfaction_levels.IdealDecreasingMulCoefficientSatisfaction,
		&satisfaction_levels.IdealSubtrCoefficientSatisfaction,
		&satisfaction_levels.DecreasingThresholds,
	}
	funcs := model.PreferenceFunctions{Functions: []model.PreferenceFunction{
		satisfaction.NewSatisfaction(utils.RandomBasedSeedValueGenerator, levels),
	}}
	listeners := model.BiasListeners{Listeners: []model.BiasListener{
		satisfaction.NewSatisfactionBiasListener(satisfaction_levels.SatisfactionLevelsUpdateListeners{
			Listeners: satisfaction_levels.ListenersMap{satisfaction_levels.Thresholds: &satisfaction_levels.DecreasingThresholds},
		}),
	}}
	biases := model.BiasMap{
		fatigue.BiasName: fatigue.NewFatigue(utils.RandomBasedSeedValueGenerator, utils.RandomBasedSeedValueGenerator,
			[]fatigue.FatigueFunction{&fatigue.ExponentialFromZeroFatigue{}, &fatigue.ConstFatigueFunction{}}),
	}
	return dm.MakeDecision(funcs, listeners, &biases, utils.RandomBasedSeedValueGenerator)
}

// exact centre -/+ half*scale of the float64 inputs, rounded once to float64
func hunt5C17ExactScaledRange(min, max, scale float64) (float64, float64) {
	a, b, s := new(big.Rat).SetFloat64(min), new(big.Rat).SetFloat64(max), new(big.Rat).SetFloat64(scale)
	half := new(big.Rat).Sub(b, a)
	half.Quo(half, big.NewRat(2, 1))
	centre := new(big.Rat).Add(a, half)
	half.Mul(half, s)
	lo, _ := new(big.Rat).Sub(centre, half).Float64()
	hi, _ := new(big.Rat).Add(centre, half).Float64()
	return lo, hi
}

// Decision level: values 1.8 and 3, fatigue 5 % (3 stays above 2.85 for every seed), allowed range = value range
// scaled by 0.5 = [2.1, 2.7]. Alternative a must be clipped to 2.7, reach the satisfaction threshold 2.7 at level 0
// and win. Observed: a is handed on as 2.6999999999999997, misses the threshold, and b (listed first) wins.
func TestHunt5C17_ScaledUpperBoundMissesThreshold(t *testing.T) {
	for seed := 0; seed < 20; seed++ {
		req := fmt.Sprintf(`{
 "preferenceFunction": "satisfactionHeuristic",
 "knownAlternatives": [
   {"id": "b", "criteria": {"c1": 1.8}},
   {"id": "a", "criteria": {"c1": 3}}
 ],
 "choseToMake": ["b", "a"],
 "criteria": [{"id": "c1", "type": "gain"}],
 "methodParameters": {"function": "thresholds", "params": {"thresholds": [{"c1": 2.7}]}},
 "biases": [{"name": "fatigue", "applyProbability": 1,
   "props": {"function": "const", "params": {"value": 0.05}, "randomSeed": %d, "allowedValuesRangeScaling": 0.5}}]
}`, seed)
		res := hunt5C17Decide(t, req)
		best := res.Result[0]
		out, _ := json.Marshal(res.Result)
		if best.Alternative.Id != "a" {
			t.Errorf("seed %d: winner %q, expected a (clipped to the upper end 2.7 of [1.8,3] scaled by 0.5, threshold 2.7 met): %s",
				seed, best.Alternative.Id, out)
		}
		for _, r := range res.Result {
			if r.Alternative.Id == "a" && r.Alternative.Criteria["c1"] != 2.7 {
				t.Errorf("seed %d: a.c1 handed on as %v, expected the upper bound 2.7", seed, r.Alternative.Criteria["c1"])
			}
		}
		if t.Failed() {
			return
		}
	}
}

// Membership: values 0.3 and 0.9, fatigue ratio 1, allowed range = [0.3, 0.9] scaled by 2 = [0, 1.2].
// Every value handed on (report and result) must lie in [0, 1.2]; observed for the seeds that push a above the bound:
// 1.2000000000000002.
func TestHunt5C17_ScaledRangeIsLeft(t *testing.T) {
	lo, hi := hunt5C17ExactScaledRange(0.3, 0.9, 2)
	// (the lower end of the float64 inputs 0.3 and 0.9 is -2.8e-17, not 0: 0.9 is stored slightly above 3 x 0.3)
	if math.Abs(lo) > 1e-16 || hi != 1.2 {
		t.Fatalf("oracle: [%v, %v]", lo, hi)
	}
	clippedSeen := false
	for seed := 0; seed < 40; seed++ {
		req := fmt.Sprintf(`{
 "preferenceFunction": "satisfactionHeuristic",
 "knownAlternatives": [
   {"id": "a", "criteria": {"c1": 0.9}},
   {"id": "b", "criteria": {"c1": 0.3}}
 ],
 "choseToMake": ["a", "b"],
 "criteria": [{"id": "c1", "type": "gain"}],
 "methodParameters": {"function": "thresholds", "params": {"thresholds": [{"c1": 0.5}]}},
 "biases": [{"name": "fatigue", "applyProbability": 1,
   "props": {"function": "const", "params": {"value": 1}, "randomSeed": %d, "allowedValuesRangeScaling": 2}}]
}`, seed)
		res := hunt5C17Decide(t, req)
		report := res.Biases[0].(model.BiasParams).Props.(fatigue.FatigueResult)
		var handedOn []model.AlternativeWithCriteria
		handedOn = append(handedOn, report.ConsideredAlternatives...)
		handedOn = append(handedOn, report.NotConsideredAlternatives...)
		for _, r := range res.Result {
			handedOn = append(handedOn, r.Alternative)
		}
		for _, a := range handedOn {
			v := a.Criteria["c1"]
			if v >= hi {
				clippedSeen = true
			}
			if v < lo || v > hi {
				t.Errorf("seed %d: %s.c1 = %v is outside the value range [0.3, 0.9] scaled by 2 = [%v, %v]", seed, a.Id, v, lo, hi)
			}
		}
	}
	if !clippedSeen {
		t.Fatalf("no seed moved a value up to the bound - the test does not exercise the clipping")
	}
}

// Mechanism level (CriteriaBounding.WithRange(..).BoundValue, the function fatigue clips with): all ranges with
// one-decimal ends in [0, 3] and ordinary scales. A value far below / above must be clipped to the correctly
// rounded lower / upper end of the scaled range.
func TestHunt5C17_ScaledBoundsSweep(t *testing.T) {
	scales := []float64{0.1, 0.2, 0.25, 0.3, 0.4, 0.5, 0.6, 0.7, 0.75, 0.8, 0.9, 1.1, 1.2, 1.25, 1.5, 2, 3, 4, 5, 10}
	total, wrong, outside := 0, 0, 0
	var examples []string
	for i := 0; i <= 30; i++ {
		for j := i + 1; j <= 30; j++ {
			min, max := float64(i)/10, float64(j)/10 // correctly rounded one-decimal values
			for _, s := range scales {
				b := (&criteria_bounding.CriteriaBounding{AllowedValuesRangeScaling: s}).WithRange(&utils.ValueRange{Min: min, Max: max})
				gotLo, gotHi := b.BoundValue(-math.MaxFloat64), b.BoundValue(math.MaxFloat64)
				lo, hi := hunt5C17ExactScaledRange(min, max, s)
				total++
				if gotLo != lo || gotHi != hi {
					wrong++
					if gotLo < lo || gotHi > hi {
						outside++
					}
					if len(examples) < 8 {
						examples = append(examples, fmt.Sprintf("[%v, %v] x %v: clipped to [%v, %v], exact [%v, %v]", min, max, s, gotLo, gotHi, lo, hi))
					}
				}
			}
		}
	}
	if wrong > 0 {
		t.Errorf("%d of %d ordinary (range, scale) pairs clip to a bound that is not the scaled range's (%d of them outside it), e.g.:", wrong, total, outside)
		for _, e := range examples {
			t.Log(e)
		}
	}
}
