// Demo for finding 1 (C13, floating-point rounding): min + (max-min)*level is rounded up to three times.
//
// Copy to:  lib/zzhunt5demo/   (any new directory below lib/ works; package name zzhunt5demo)
//
//	Run:      cd lib && GOFLAGS=-mod=mod GOPROXY=off GOSUMDB=off GOTOOLCHAIN=local \
//	          go test -vet=off -count=1 -run TestHunt5C13ThresholdFormula ./zzhunt5demo/
//
// It FAILS on the current tree.
package zzhunt5demo

import (
	"encoding/json"
	"math"
	"testing"

	"github.com/Azbesciak/RealDecisionMaker/lib/logic/limited-rationality/satisfaction"
	"github.com/Azbesciak/RealDecisionMaker/lib/logic/limited-rationality/satisfaction-levels"
	"github.com/Azbesciak/RealDecisionMaker/lib/model"
	"github.com/Azbesciak/RealDecisionMaker/lib/utils"
)

type f1Entry struct {
	id         string
	index      int
	thresholds map[string]float64
}

func f1Decide(t *testing.T, request string) []f1Entry {
	t.Helper()
	var dm model.DecisionMaker
	if err := json.Unmarshal([]byte(request), &dm); err != nil {
		t.Fatal(err)
	}
	funcs := model.PreferenceFunctions{Functions: []model.PreferenceFunction{
		satisfaction.NewSatisfaction(utils.RandomBasedSeedValueGenerator, []satisfaction_levels.SatisfactionLevelsSource{
			&satisfaction_levels.IdealDecreasingMulCoefficientSatisfaction,
			&satisfaction_levels.IdealSubtrCoefficientSatisfaction,
			&satisfaction_levels.DecreasingThresholds,
		}),
	}}
	choice := dm.MakeDecision(funcs, model.BiasListeners{}, &model.BiasMap{}, utils.RandomBasedSeedValueGenerator)
	var res []f1Entry
	for _, r := range choice.Result {
		e := r.Evaluation.(satisfaction.SatisfactionEvaluation)
		res = append(res, f1Entry{r.Alternative.Id, e.ThresholdsIndex, e.SatisfiedThresholds})
	}
	return res
}

// One gain criterion; the known alternatives span [0, 6]. The first aspiration level is 0.8 of that range, i.e. 4.8.
// The current choice "mine" has exactly 4.8 and is examined first, "other" has 5: both meet level 0, "mine" first.
// The code computes 0 + (6-0)*0.8 = 4.800000000000001, so "mine" fails level 0 and is ranked behind "other" at level 1.
func TestHunt5C13ThresholdFormula_gain(t *testing.T) {
	res := f1Decide(t, `{
	 "preferenceFunction": "satisfactionHeuristic",
	 "criteria": [{"id": "quality", "type": "gain"}],
	 "knownAlternatives": [
	  {"id": "mine",  "criteria": {"quality": 4.8}},
	  {"id": "other", "criteria": {"quality": 5}},
	  {"id": "worst", "criteria": {"quality": 0}},
	  {"id": "best",  "criteria": {"quality": 6}}
	 ],
	 "choseToMake": ["other", "mine"],
	 "methodParameters": {
	  "function": "idealMultipliedCoefficient",
	  "params": {"maxValue": 0.8, "coefficient": 0.5, "minValue": 0.1},
	  "currentChoice": "mine"
	 }
	}`)
	t.Logf("%+v", res)
	if res[0].id != "mine" || res[0].index != 0 {
		t.Errorf("the current choice (quality 4.8) meets level 0 (0.8 of [0,6] = 4.8) and is examined first: expected first with index 0, got %+v", res)
	}
	for _, r := range res {
		if r.id == "mine" && r.index != 0 {
			t.Errorf("'mine' reports level %d with thresholds %v although it satisfies level 0 (threshold 4.8)", r.index, r.thresholds)
		}
		if r.index == 0 && math.Abs(r.thresholds["quality"]-4.8) > 1e-9 {
			t.Errorf("level 0 is reported as %v, 0.8 of [0,6] is 4.8", r.thresholds["quality"])
		}
	}
}

// One cost criterion with the declared range [-0.2, 0.3]; the only level is 0.2 of the range: 0.3 - 0.5*0.2 = 0.2.
// "a" costs exactly 0.2 and meets it. The code computes 0.3 - 0.1 = 0.19999999999999998 and reports "a" as
// having met no level (index 1, worst values).
func TestHunt5C13ThresholdFormula_cost(t *testing.T) {
	res := f1Decide(t, `{
	 "preferenceFunction": "satisfactionHeuristic",
	 "criteria": [{"id": "price", "type": "cost", "valuesRange": {"min": -0.2, "max": 0.3}}],
	 "knownAlternatives": [
	  {"id": "a", "criteria": {"price": 0.2}},
	  {"id": "b", "criteria": {"price": 0.3}}
	 ],
	 "choseToMake": ["b", "a"],
	 "methodParameters": {
	  "function": "idealSubtractiveCoefficient",
	  "params": {"maxValue": 0.2, "coefficient": 0.1, "minValue": 0.1}
	 }
	}`)
	t.Logf("%+v", res)
	if res[0].id != "a" || res[0].index != 0 {
		t.Errorf("'a' (price 0.2) meets the only level (0.3 - 0.5*0.2 = 0.2), 'b' (0.3) does not: expected a (index 0), b (index 1); got %+v", res)
	}
}
