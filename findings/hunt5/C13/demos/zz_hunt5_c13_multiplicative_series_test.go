// Demo for finding 2 (C13, floating-point rounding): the multiplicative series is iterated in float64
// (1 * 0.1 * 0.1 = 0.010000000000000002), so a level is one ulp too high and one level too many is generated.
//
// Copy to:  lib/zzhunt5demo/   (package zzhunt5demo)
//
//	Run:      cd lib && GOFLAGS=-mod=mod GOPROXY=off GOSUMDB=off GOTOOLCHAIN=local \
//	          go test -vet=off -count=1 -run TestHunt5C13MultiplicativeSeries ./zzhunt5demo/
//
// It FAILS on the current tree.
package zzhunt5demo

import (
	"encoding/json"
	"math"
	"testing"

	"github.com/Azbesciak/RealDecisionMaker/lib/logic/limited-rationality/satisfaction"
	"github.com/Azbesciak/RealDecisionMaker/lib/logic/limited-rationality/satisfaction-levels"
	"github.com/Azbesciak/RealDecisionMaker/lib/model"
	"github.com/Azbesciak/RealDecisionMaker/lib/utils"
)

type f2Entry struct {
	id         string
	index      int
	thresholds map[string]float64
}

func f2Decide(t *testing.T, request string) []f2Entry {
	t.Helper()
	var dm model.DecisionMaker
	if err := json.Unmarshal([]byte(request), &dm); err != nil {
		t.Fatal(err)
	}
	funcs := model.PreferenceFunctions{Functions: []model.PreferenceFunction{
		satisfaction.NewSatisfaction(utils.RandomBasedSeedValueGenerator, []satisfaction_levels.SatisfactionLevelsSource{
			&satisfaction_levels.IdealDecreasingMulCoefficientSatisfaction,
			&satisfaction_levels.IdealSubtrCoefficientSatisfaction,
			&satisfaction_levels.DecreasingThresholds,
		}),
	}}
	choice := dm.MakeDecision(funcs, model.BiasListeners{}, &model.BiasMap{}, utils.RandomBasedSeedValueGenerator)
	var res []f2Entry
	for _, r := range choice.Result {
		e := r.Evaluation.(satisfaction.SatisfactionEvaluation)
		res = append(res, f2Entry{r.Alternative.Id, e.ThresholdsIndex, e.SatisfiedThresholds})
	}
	return res
}

// Range [0, 100], levels maxValue*coefficient^i = 1, 0.1, 0.01 (0.001 is not above minValue 0.001): thresholds 100, 10, 1.
// The current choice "mine" has 1, "other" has 5: both are accepted at level 2, "mine" first (search order).
// The code's level 2 is 0.010000000000000002 -> threshold 1.0000000000000002: "mine" fails it, "other" wins, and "mine"
// is accepted at a level 3 (0.0010000000000000002 > 0.001) that the series does not have.
func TestHunt5C13MultiplicativeSeries_levelMissed(t *testing.T) {
	res := f2Decide(t, `{
	 "preferenceFunction": "satisfactionHeuristic",
	 "criteria": [{"id": "q", "type": "gain"}],
	 "knownAlternatives": [
	  {"id": "mine",  "criteria": {"q": 1}},
	  {"id": "other", "criteria": {"q": 5}},
	  {"id": "worst", "criteria": {"q": 0}},
	  {"id": "best",  "criteria": {"q": 100}}
	 ],
	 "choseToMake": ["other", "mine"],
	 "methodParameters": {
	  "function": "idealMultipliedCoefficient",
	  "params": {"maxValue": 1, "coefficient": 0.1, "minValue": 0.001},
	  "currentChoice": "mine"
	 }
	}`)
	t.Logf("%+v", res)
	if len(res) != 2 || res[0].id != "mine" || res[0].index != 2 || res[1].id != "other" || res[1].index != 2 {
		t.Errorf("expected mine (index 2), other (index 2); got %+v", res)
	}
	for _, r := range res {
		if r.index == 2 && math.Abs(r.thresholds["q"]-1) > 1e-9 {
			t.Errorf("level 2 (1 * 0.1^2 of [0,100]) is reported as %v, expected 1", r.thresholds["q"])
		}
	}
}

// Range [0, 100], maxValue 1, coefficient 0.1, minValue 0.01: the levels above minValue are 1 and 0.1 (thresholds 100, 10).
// "x" (0.5) and "y" (2) meet neither: both report index 2 and the worst value 0, in search order x, y.
// The code generates a third level 0.010000000000000002 > 0.01 and accepts "y" there: y is ranked before x and
// reports thresholds 1.0000000000000002.
func TestHunt5C13MultiplicativeSeries_extraLevel(t *testing.T) {
	res := f2Decide(t, `{
	 "preferenceFunction": "satisfactionHeuristic",
	 "criteria": [{"id": "q", "type": "gain"}],
	 "knownAlternatives": [
	  {"id": "x", "criteria": {"q": 0.5}},
	  {"id": "y", "criteria": {"q": 2}},
	  {"id": "worst", "criteria": {"q": 0}},
	  {"id": "best",  "criteria": {"q": 100}}
	 ],
	 "choseToMake": ["x", "y"],
	 "methodParameters": {
	  "function": "idealMultipliedCoefficient",
	  "params": {"maxValue": 1, "coefficient": 0.1, "minValue": 0.01}
	 }
	}`)
	t.Logf("%+v", res)
	if len(res) != 2 || res[0].id != "x" || res[1].id != "y" {
		t.Errorf("neither meets a level (100, 10): expected the search order x, y; got %+v", res)
	}
	for _, r := range res {
		if r.index != 2 || math.Abs(r.thresholds["q"]-0) > 1e-9 {
			t.Errorf("'%s' met no level: expected index 2 and the worst value 0, got index %d thresholds %v", r.id, r.index, r.thresholds)
		}
	}
}
