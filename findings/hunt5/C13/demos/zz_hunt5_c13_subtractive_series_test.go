// Demo for finding 3 (C13, floating-point rounding): the subtractive series is iterated in float64
// (1 - 0.1 - 0.1 - 0.1 = 0.7000000000000001, ... , 0.10000000000000014 > 0.1).
//
// Copy to:  lib/zzhunt5demo/   (package zzhunt5demo)
//
//	Run:      cd lib && GOFLAGS=-mod=mod GOPROXY=off GOSUMDB=off GOTOOLCHAIN=local \
//	          go test -vet=off -count=1 -run TestHunt5C13SubtractiveSeries ./zzhunt5demo/
//
// It FAILS on the current tree. NOTE: the pinned test TestSatisfaction_Evaluate
// (lib/logic/limited-rationality/satisfaction/satisfaction_test.go) expects exactly this drift (see findings.json).
package zzhunt5demo

import (
	"encoding/json"
	"math"
	"testing"

	"github.com/Azbesciak/RealDecisionMaker/lib/logic/limited-rationality/satisfaction"
	"github.com/Azbesciak/RealDecisionMaker/lib/logic/limited-rationality/satisfaction-levels"
	"github.com/Azbesciak/RealDecisionMaker/lib/model"
	"github.com/Azbesciak/RealDecisionMaker/lib/utils"
)

type f3Entry struct {
	id         string
	index      int
	thresholds map[string]float64
}

func f3Decide(t *testing.T, request string) []f3Entry {
	t.Helper()
	var dm model.DecisionMaker
	if err := json.Unmarshal([]byte(request), &dm); err != nil {
		t.Fatal(err)
	}
	funcs := model.PreferenceFunctions{Functions: []model.PreferenceFunction{
		satisfaction.NewSatisfaction(utils.RandomBasedSeedValueGenerator, []satisfaction_levels.SatisfactionLevelsSource{
			&satisfaction_levels.IdealDecreasingMulCoefficientSatisfaction,
			&satisfaction_levels.IdealSubtrCoefficientSatisfaction,
			&satisfaction_levels.DecreasingThresholds,
		}),
	}}
	choice := dm.MakeDecision(funcs, model.BiasListeners{}, &model.BiasMap{}, utils.RandomBasedSeedValueGenerator)
	var res []f3Entry
	for _, r := range choice.Result {
		e := r.Evaluation.(satisfaction.SatisfactionEvaluation)
		res = append(res, f3Entry{r.Alternative.Id, e.ThresholdsIndex, e.SatisfiedThresholds})
	}
	return res
}

// Range [0, 10]; levels max(maxValue - coefficient*i, 0) = 1, 0.9, 0.8, 0.7, ... : thresholds 10, 9, 8, 7, ...
// The current choice "mine" has 7, "other" has 7.5: both are accepted at level 3 (threshold 7), "mine" first.
// The code's level 3 is 0.7000000000000001 -> threshold 7.000000000000001: "mine" fails it and is ranked second at level 4.
func TestHunt5C13SubtractiveSeries_levelMissed(t *testing.T) {
	res := f3Decide(t, `{
	 "preferenceFunction": "satisfactionHeuristic",
	 "criteria": [{"id": "q", "type": "gain"}],
	 "knownAlternatives": [
	  {"id": "mine",  "criteria": {"q": 7}},
	  {"id": "other", "criteria": {"q": 7.5}},
	  {"id": "worst", "criteria": {"q": 0}},
	  {"id": "best",  "criteria": {"q": 10}}
	 ],
	 "choseToMake": ["other", "mine"],
	 "methodParameters": {
	  "function": "idealSubtractiveCoefficient",
	  "params": {"maxValue": 1, "coefficient": 0.1, "minValue": 0.1},
	  "currentChoice": "mine"
	 }
	}`)
	t.Logf("%+v", res)
	if len(res) != 2 || res[0].id != "mine" || res[0].index != 3 || res[1].id != "other" || res[1].index != 3 {
		t.Errorf("expected mine (index 3), other (index 3); got %+v", res)
	}
	for _, r := range res {
		if r.index == 3 && math.Abs(r.thresholds["q"]-7) > 1e-9 {
			t.Errorf("level 3 (1 - 3*0.1 of [0,10]) is reported as %v, expected 7", r.thresholds["q"])
		}
	}
}

// Same series: the levels above minValue 0.1 are 1, 0.9, ..., 0.2 (nine levels, thresholds 10 ... 2).
// "x" (0.5) and "y" (1.5) meet none of them: both report index 9 and the worst value 0, in search order x, y.
// The code generates a tenth level 0.10000000000000014 > 0.1 and accepts "y" there: y is ranked before x with
// thresholds 1.0000000000000013, x reports index 10.
// (With maxValue 0.9, coefficient 0.2 the drift goes the other way, 0.09999999999999992, and the level at minValue is
// not generated - pinned by TestSubstrScaling; whether the level equal to minValue exists depends on the rounding.)
func TestHunt5C13SubtractiveSeries_extraLevel(t *testing.T) {
	res := f3Decide(t, `{
	 "preferenceFunction": "satisfactionHeuristic",
	 "criteria": [{"id": "q", "type": "gain"}],
	 "knownAlternatives": [
	  {"id": "x", "criteria": {"q": 0.5}},
	  {"id": "y", "criteria": {"q": 1.5}},
	  {"id": "worst", "criteria": {"q": 0}},
	  {"id": "best",  "criteria": {"q": 10}}
	 ],
	 "choseToMake": ["x", "y"],
	 "methodParameters": {
	  "function": "idealSubtractiveCoefficient",
	  "params": {"maxValue": 1, "coefficient": 0.1, "minValue": 0.1}
	 }
	}`)
	t.Logf("%+v", res)
	if len(res) != 2 || res[0].id != "x" || res[1].id != "y" {
		t.Errorf("neither meets a level (10 ... 2): expected the search order x, y; got %+v", res)
	}
	for _, r := range res {
		if r.index != 9 || math.Abs(r.thresholds["q"]-0) > 1e-9 {
			t.Errorf("'%s' met no level: expected index 9 and the worst value 0, got index %d thresholds %v", r.id, r.index, r.thresholds)
		}
	}
}
