package main

// hunt5 / C18 / floating-point rounding: a criterion "rescaled to [0, T]" misses T by one ulp or exceeds it.
//
// Copy to:  <worktree>/httpClient/   (package main, uses the real wiring: funcs, biasListeners, biases)
// Run with: cd <worktree>/httpClient && cp go.mod /tmp/c18.mod && cp go.sum /tmp/c18.sum &&
//           echo 'replace github.com/Azbesciak/RealDecisionMaker/lib => <worktree>/lib' >> /tmp/c18.mod &&
//           GOFLAGS=-mod=mod GOPROXY=off GOSUMDB=off GOTOOLCHAIN=local \
//           go test -modfile=/tmp/c18.mod -vet=off -count=1 -run TestHunt5C18Rescale .
//
// normalization.go: scale := T/(max-min); scaled := (value-min)*scale. For value == max this is (max-min)*(T/(max-min)),
// rounded twice: c1 in [0.1, 0.3] and T = 1   gives 0.9999999999999999 (top missed),
//                c1 in [0.1, 0.3] and T = 0.9 gives 0.9000000000000001 (component and mixed value leave [0, T],
//                                                 the valuesRange declared for the new criterion).

import (
	"encoding/json"
	"fmt"
	"testing"

	"github.com/Azbesciak/RealDecisionMaker/lib/model"
	"github.com/Azbesciak/RealDecisionMaker/lib/utils"
)

func hunt5C18RescaleDecide(t *testing.T, body string) map[string]interface{} {
	var dm model.DecisionMaker
	if e := json.Unmarshal([]byte(body), &dm); e != nil {
		t.Fatal(e)
	}
	var res map[string]interface{}
	func() {
		defer func() {
			if e := recover(); e != nil {
				t.Fatalf("request refused: %v", e)
			}
		}()
		d := dm.MakeDecision(funcs, biasListeners, &biases, utils.RandomBasedSeedValueGenerator)
		b, _ := json.Marshal(d)
		_ = json.Unmarshal(b, &res)
	}()
	return res
}

func hunt5C18RescaleValue(res map[string]interface{}, component, alt string) (string, float64) {
	props := res["biases"].([]interface{})[0].(map[string]interface{})["props"].(map[string]interface{})
	c := props[component].(map[string]interface{})
	return c["id"].(string), c["scaledValues"].(map[string]interface{})[alt].(float64)
}

// the top of the range is missed: the alternative that is best on every criterion misses the ideal level
func TestHunt5C18RescaleTopMissed(t *testing.T) {
	request := func(biases string) string {
		return fmt.Sprintf(`{"preferenceFunction":"satisfactionHeuristic",
"knownAlternatives":[
 {"id":"a","criteria":{"c1":0.25,"c2":0.75}},
 {"id":"b","criteria":{"c1":0.3,"c2":1}},
 {"id":"z","criteria":{"c1":0.1,"c2":0}}],
"choseToMake":["a","b"],
"criteria":[{"id":"c1","type":"gain"},{"id":"c2","type":"gain"}],
"methodParameters":{"function":"idealSubtractiveCoefficient","params":{"coefficient":0.5,"maxValue":1,"minValue":0.1}},
"biases":%s}`, biases)
	}
	winner := func(res map[string]interface{}) string {
		return res["result"].([]interface{})[0].(map[string]interface{})["alternative"].(map[string]interface{})["id"].(string)
	}
	if w := winner(hunt5C18RescaleDecide(t, request(`[]`))); w != "b" {
		t.Fatalf("baseline: expected b to win, got %s", w)
	}
	// reference criterion = the most important one = c2, observed range [0, 1] => T = 1
	res := hunt5C18RescaleDecide(t, request(`[{"name":"criteriaMixing","props":{"mixingRatio":0,"randomSeed":1,"newCriterionImportance":1}}]`))
	const T = 1.0
	for _, component := range []string{"component1", "component2", "newCriterion"} {
		id, v := hunt5C18RescaleValue(res, component, "b")
		if v != T {
			t.Errorf("%s (%s): b has the largest value of the criterion, rescaled to [0, %v] it must be %v, got %v", component, id, T, T, v)
		}
	}
	if w := winner(res); w != "b" {
		t.Errorf("b is the best on c1 and c2, hence on the mixed criterion, and meets the ideal level 0: expected b to win, got %s", w)
	}
}

// the top of the range is exceeded: component and mixed value leave [0, T]
func TestHunt5C18RescaleAboveRange(t *testing.T) {
	// majority weights c1 > c2: reference criterion (importance ratio 0) = c2, observed range [0, 0.9] => T = 0.9
	res := hunt5C18RescaleDecide(t, `{"preferenceFunction":"majorityHeuristic",
"knownAlternatives":[
 {"id":"a","criteria":{"c1":0.1,"c2":0}},
 {"id":"b","criteria":{"c1":0.3,"c2":0.9}}],
"choseToMake":["a","b"],
"criteria":[{"id":"c1","type":"gain"},{"id":"c2","type":"gain"}],
"methodParameters":{"weights":{"c1":2,"c2":1}},
"biases":[{"name":"criteriaMixing","props":{"mixingRatio":0,"randomSeed":1}}]}`)
	const T = 0.9
	for _, component := range []string{"component1", "component2", "newCriterion"} {
		for _, alt := range []string{"a", "b"} {
			id, v := hunt5C18RescaleValue(res, component, alt)
			if v < 0 || v > T {
				t.Errorf("%s (%s): value %v of alternative %s is outside [0, %v]", component, id, v, alt, T)
			}
		}
	}
}
