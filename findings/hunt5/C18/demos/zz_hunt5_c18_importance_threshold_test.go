package main

// hunt5 / C18 / floating-point rounding: the importanceRatio reference criterion misses a threshold that is met exactly.
//
// Copy to:  <worktree>/httpClient/   (package main, uses the real wiring: funcs, biasListeners, biases)
// Run with: cd <worktree>/httpClient && cp go.mod /tmp/c18.mod && cp go.sum /tmp/c18.sum &&
//           echo 'replace github.com/Azbesciak/RealDecisionMaker/lib => <worktree>/lib' >> /tmp/c18.mod &&
//           GOFLAGS=-mod=mod GOPROXY=off GOSUMDB=off GOTOOLCHAIN=local \
//           go test -modfile=/tmp/c18.mod -vet=off -count=1 -run TestHunt5C18ImportanceThreshold .
//
// importance-reference-criterion.go: expected := newCriterionImportance * total; reference-criterion.go
// FindCriterionInRange: first criterion (ascending) with cumulated weight >= expected.
// Weights c1 0.6, c2 0.9, newCriterionImportance 0.4: exactly 0.4 * 1.5 = 0.6 <= 0.6 => c1.
// float64: 0.4 * 1.5 = 0.6000000000000001 > 0.6 => c2. The same request with the weights written as 6 and 9 picks c1.

import (
	"encoding/json"
	"fmt"
	"testing"

	"github.com/Azbesciak/RealDecisionMaker/lib/model"
	"github.com/Azbesciak/RealDecisionMaker/lib/utils"
)

func hunt5C18ImportanceDecide(t *testing.T, body string) map[string]interface{} {
	var dm model.DecisionMaker
	if e := json.Unmarshal([]byte(body), &dm); e != nil {
		t.Fatal(e)
	}
	var res map[string]interface{}
	func() {
		defer func() {
			if e := recover(); e != nil {
				t.Fatalf("request refused: %v", e)
			}
		}()
		d := dm.MakeDecision(funcs, biasListeners, &biases, utils.RandomBasedSeedValueGenerator)
		b, _ := json.Marshal(d)
		_ = json.Unmarshal(b, &res)
	}()
	return res
}

func TestHunt5C18ImportanceThreshold(t *testing.T) {
	// c1 lives in [0, 1], c2 in [10, 20]: the valuesRange of the concealed criterion tells which one was the reference
	added := func(weights string) (min, max, weight float64) {
		res := hunt5C18ImportanceDecide(t, fmt.Sprintf(`{"preferenceFunction":"majorityHeuristic",
"knownAlternatives":[
 {"id":"a","criteria":{"c1":0,"c2":10}},
 {"id":"b","criteria":{"c1":1,"c2":20}}],
"choseToMake":["a","b"],
"criteria":[{"id":"c1","type":"gain"},{"id":"c2","type":"gain"}],
"methodParameters":{"weights":%s},
"biases":[{"name":"criteriaConcealment","props":{"randomSeed":3,"referenceCriterionType":"importanceRatio","newCriterionImportance":0.4}}]}`, weights))
		props := res["biases"].([]interface{})[0].(map[string]interface{})["props"].(map[string]interface{})
		c := props["addedCriteria"].([]interface{})[0].(map[string]interface{})
		r := c["valuesRange"].(map[string]interface{})
		w := c["methodParameters"].(map[string]interface{})["weights"].(map[string]interface{})[c["id"].(string)].(float64)
		return r["min"].(float64), r["max"].(float64), w
	}
	min10, max10, _ := added(`{"c1":6,"c2":9}`)
	if min10 != 0 || max10 != 1 {
		t.Fatalf("weights 6/9: expected c1 (range [0,1]) as the reference criterion, got range [%v,%v]", min10, max10)
	}
	min, max, w := added(`{"c1":0.6,"c2":0.9}`)
	if min != 0 || max != 1 {
		t.Errorf("weights 0.6/0.9, newCriterionImportance 0.4: c1 reaches 0.6 = 0.4 x 1.5 of the total importance and is the reference "+
			"criterion (as for the weights 6/9): expected the range [0,1] of c1, got [%v,%v] (c2)", min, max)
	}
	if !(w >= 0 && w < 0.6) {
		t.Errorf("the new weight must be a fraction in [0,1) of the reference criterion's weight 0.6, got %v", w)
	}
}
