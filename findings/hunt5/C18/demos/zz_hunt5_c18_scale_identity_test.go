package main

// hunt5 / C18 / floating-point rounding: scaling the reference range about its centre by 1 (the default) is not the identity.
//
// Copy to:  <worktree>/httpClient/   (package main, uses the real wiring: funcs, biasListeners, biases)
// Run with: cd <worktree>/httpClient && cp go.mod /tmp/c18.mod && cp go.sum /tmp/c18.sum &&
//           echo 'replace github.com/Azbesciak/RealDecisionMaker/lib => <worktree>/lib' >> /tmp/c18.mod &&
//           GOFLAGS=-mod=mod GOPROXY=off GOSUMDB=off GOTOOLCHAIN=local \
//           go test -modfile=/tmp/c18.mod -vet=off -count=1 -run TestHunt5C18ScaleIdentity .
//
// utils.go ValueRange.ScaleEqually: Min: r.Min + dif - dif*scale, Max: r.Max - dif + dif*scale with dif = (max-min)/2.
// [0.1, 0.4], scale 1: dif = 0.15000000000000002, 0.1 + dif = 0.25, 0.25 - dif = 0.09999999999999998: the concealed criterion's range is WIDER than the
// reference range (values may be drawn below 0.1); [0.1, 0.7] gives [0.10000000000000003, 0.7].

import (
	"encoding/json"
	"fmt"
	"testing"

	"github.com/Azbesciak/RealDecisionMaker/lib/model"
	"github.com/Azbesciak/RealDecisionMaker/lib/utils"
)

func TestHunt5C18ScaleIdentity(t *testing.T) {
	for _, r := range [][2]float64{{0.1, 0.4}, {0.1, 0.7}, {0.1, 0.6}, {0.2, 0.4}} {
		body := fmt.Sprintf(`{"preferenceFunction":"majorityHeuristic",
"knownAlternatives":[
 {"id":"a","criteria":{"c1":%v}},
 {"id":"b","criteria":{"c1":%v}}],
"choseToMake":["a","b"],
"criteria":[{"id":"c1","type":"gain","valuesRange":{"min":%v,"max":%v}}],
"methodParameters":{"weights":{"c1":1}},
"biases":[{"name":"criteriaConcealment","props":{"randomSeed":1,"newCriterionScaling":1}}]}`, r[0], r[1], r[0], r[1])
		var dm model.DecisionMaker
		if e := json.Unmarshal([]byte(body), &dm); e != nil {
			t.Fatal(e)
		}
		d := dm.MakeDecision(funcs, biasListeners, &biases, utils.RandomBasedSeedValueGenerator)
		b, _ := json.Marshal(d)
		var res map[string]interface{}
		_ = json.Unmarshal(b, &res)
		props := res["biases"].([]interface{})[0].(map[string]interface{})["props"].(map[string]interface{})
		vr := props["addedCriteria"].([]interface{})[0].(map[string]interface{})["valuesRange"].(map[string]interface{})
		if vr["min"].(float64) != r[0] || vr["max"].(float64) != r[1] {
			t.Errorf("reference range [%v, %v] scaled about its centre by 1: expected the same range, got [%v, %v]",
				r[0], r[1], vr["min"], vr["max"])
		}
	}
}
