package main

// hunt5 / C18 / floating-point rounding: the mixed value is NOT between its two rescaled components.
//
// Copy to:  <worktree>/httpClient/   (package main, uses the real wiring: funcs, biasListeners, biases)
// Run with: cd <worktree>/httpClient && cp go.mod /tmp/c18.mod && cp go.sum /tmp/c18.sum &&
//           echo 'replace github.com/Azbesciak/RealDecisionMaker/lib => <worktree>/lib' >> /tmp/c18.mod &&
//           GOFLAGS=-mod=mod GOPROXY=off GOSUMDB=off GOTOOLCHAIN=local \
//           go test -modfile=/tmp/c18.mod -vet=off -count=1 -run TestHunt5C18MixNotBetween .
//
// criteria-mixing.go mix(): value := c1Value*ratio + c2Value*(1-ratio).
// For c1Value == c2Value == 0.8 and mixingRatio 0.3: 0.8*0.3 + 0.8*0.7 = 0.7999999999999999, below BOTH components
// and below the top T = 0.8 of the new criterion's range although alternative b is the best on both criteria.
// With the satisfaction heuristic (level 0 = the ideal point) b no longer meets level 0, and a - listed first -
// wins at level 1. Without the bias, or with mixingRatio 0.5 (exact), b wins.

import (
	"encoding/json"
	"fmt"
	"testing"

	"github.com/Azbesciak/RealDecisionMaker/lib/model"
	"github.com/Azbesciak/RealDecisionMaker/lib/utils"
)

func hunt5C18MixDecide(t *testing.T, body string) map[string]interface{} {
	var dm model.DecisionMaker
	if e := json.Unmarshal([]byte(body), &dm); e != nil {
		t.Fatal(e)
	}
	var res map[string]interface{}
	func() {
		defer func() {
			if e := recover(); e != nil {
				t.Fatalf("request refused: %v", e)
			}
		}()
		d := dm.MakeDecision(funcs, biasListeners, &biases, utils.RandomBasedSeedValueGenerator)
		b, _ := json.Marshal(d)
		_ = json.Unmarshal(b, &res)
	}()
	return res
}

func TestHunt5C18MixNotBetween(t *testing.T) {
	request := func(biases string) string {
		return fmt.Sprintf(`{"preferenceFunction":"satisfactionHeuristic",
"knownAlternatives":[
 {"id":"a","criteria":{"c1":0.6,"c2":0.6}},
 {"id":"b","criteria":{"c1":0.8,"c2":0.8}},
 {"id":"z","criteria":{"c1":0,"c2":0}}],
"choseToMake":["a","b"],
"criteria":[{"id":"c1","type":"gain"},{"id":"c2","type":"gain"}],
"methodParameters":{"function":"idealSubtractiveCoefficient","params":{"coefficient":0.5,"maxValue":1,"minValue":0.1}},
"biases":%s}`, biases)
	}
	winner := func(res map[string]interface{}) string {
		return res["result"].([]interface{})[0].(map[string]interface{})["alternative"].(map[string]interface{})["id"].(string)
	}
	if w := winner(hunt5C18MixDecide(t, request(`[]`))); w != "b" {
		t.Fatalf("baseline: expected b to win, got %s", w)
	}
	if w := winner(hunt5C18MixDecide(t, request(`[{"name":"criteriaMixing","props":{"mixingRatio":0.5,"randomSeed":1}}]`))); w != "b" {
		t.Fatalf("mixingRatio 0.5: expected b to win, got %s", w)
	}
	res := hunt5C18MixDecide(t, request(`[{"name":"criteriaMixing","props":{"mixingRatio":0.3,"randomSeed":1}}]`))
	props := res["biases"].([]interface{})[0].(map[string]interface{})["props"].(map[string]interface{})
	value := func(component, alt string) float64 {
		return props[component].(map[string]interface{})["scaledValues"].(map[string]interface{})[alt].(float64)
	}
	for _, alt := range []string{"a", "b", "z"} {
		v1, v2, m := value("component1", alt), value("component2", alt), value("newCriterion", alt)
		lo, hi := v1, v2
		if lo > hi {
			lo, hi = hi, lo
		}
		if m < lo || m > hi {
			t.Errorf("alternative %s: mixed value %v is not between its rescaled components %v and %v", alt, m, v1, v2)
		}
	}
	if w := winner(res); w != "b" {
		t.Errorf("mixingRatio 0.3: b is the best on c1, c2 and therefore on their mix and meets the ideal level 0; "+
			"expected b to win as with no bias / mixingRatio 0.5, got %s", w)
	}
}
