package weighted_sum_test

// Copy to lib/logic/preference-func/weighted-sum/ and run
//   cd lib && GOFLAGS=-mod=mod GOPROXY=off GOSUMDB=off GOTOOLCHAIN=local \
//     go test -vet=off -count=1 -run TestHunt5C03WeightedSum ./logic/preference-func/weighted-sum/
//
// Property C03: the weighted-sum value is "the sum of weight x value (value negated for cost criteria)". A sum does
// not depend on the order of its terms; WeightedSum adds them in the order the request lists the criteria. All
// weights are 1 here, so the known defect (weights are ignored) plays no part.
// x = (a 50000000, b 0.2, c 0.2) and y = (a 50000000.4, b 0, c 0) both sum to 50000000.4.
// criteria listed a,b,c: x = (5e7+0.2)+0.2 = 50000000.40000001 -> x strictly better than y
// criteria listed b,c,a: x = (0.2+0.2)+5e7 = 50000000.4        -> x and y tied

import (
	"encoding/json"
	"fmt"
	"math/big"
	"testing"

	ws "github.com/Azbesciak/RealDecisionMaker/lib/logic/preference-func/weighted-sum"
	"github.com/Azbesciak/RealDecisionMaker/lib/model"
	"github.com/Azbesciak/RealDecisionMaker/lib/utils"
)

func hunt5C03WsDecide(t *testing.T, criteriaListing string) *model.DecisionMakerChoice {
	body := fmt.Sprintf(`{"preferenceFunction":"weightedSum",
 "knownAlternatives":[{"id":"x","criteria":{"a":50000000,"b":0.2,"c":0.2}},{"id":"y","criteria":{"a":50000000.4,"b":0,"c":0}}],
 "choseToMake":["x","y"],
 "criteria":[%s],
 "methodParameters":{"weights":{"a":1,"b":1,"c":1}}}`, criteriaListing)
	var dm model.DecisionMaker
	if err := json.Unmarshal([]byte(body), &dm); err != nil {
		t.Fatal(err)
	}
	funcs := model.PreferenceFunctions{Functions: []model.PreferenceFunction{&ws.WeightedSumPreferenceFunc{}}}
	listeners := model.BiasListeners{Listeners: []model.BiasListener{&ws.WeightedSumBiasListener{}}}
	return dm.MakeDecision(funcs, listeners, &model.BiasMap{}, utils.RandomBasedSeedValueGenerator)
}

func TestHunt5C03WeightedSumListingOrder(t *testing.T) {
	abc := hunt5C03WsDecide(t, `{"id":"a","type":"gain"},{"id":"b","type":"gain"},{"id":"c","type":"gain"}`)
	bca := hunt5C03WsDecide(t, `{"id":"b","type":"gain"},{"id":"c","type":"gain"},{"id":"a","type":"gain"}`)
	o1, _ := json.Marshal(abc.Result)
	o2, _ := json.Marshal(bca.Result)
	if string(o1) != string(o2) {
		t.Errorf("the ranking depends on the order the criteria are listed in:\n a,b,c: %s\n b,c,a: %s", o1, o2)
	}
	// exact sum of the float64 values x is evaluated on, rounded to 1e-8 (the nearest float64 of the decimal)
	sum := new(big.Rat)
	for _, v := range []float64{50000000, 0.2, 0.2} {
		sum.Add(sum, new(big.Rat).SetFloat64(v))
	}
	r8, _ := new(big.Rat).SetString(sum.FloatString(8))
	want, _ := r8.Float64()
	for _, r := range abc.Result {
		if r.Alternative.Id == "x" && r.Value() != want {
			t.Errorf("criteria listed a,b,c: x is worth %v, the sum of its values rounded to 1e-8 is %v", r.Value(), want)
		}
	}
	for _, r := range abc.Result {
		if len(r.BetterThanOrSameAs) != 1 {
			t.Errorf("criteria listed a,b,c: x and y have the same sum but %s has betterThanOrSameAs %v", r.Alternative.Id, r.BetterThanOrSameAs)
		}
	}
}
