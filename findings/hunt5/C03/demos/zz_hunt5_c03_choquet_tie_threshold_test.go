package choquet_test

// Copy to lib/logic/preference-func/choquet/ and run
//   cd lib && GOFLAGS=-mod=mod GOPROXY=off GOSUMDB=off GOTOOLCHAIN=local \
//     go test -vet=off -count=1 -run TestHunt5C03ChoquetTie ./logic/preference-func/choquet/
//
// Property C03: "values equal within 1e-5 are treated as tied by the Choquet implementation and must be by the
// oracle". computeTotalWeight tests the tie with math.Abs(v1-v2) <= 0.00001 (utils.FloatsAreEqual). For the request
// values 0.3 and 0.30001 the decimal difference is exactly 0.00001 (tied, like 0.1 / 0.10001), but the float64
// difference is 1.0000000000010001e-05 > 1.0000000000000001e-05: the tie is broken, the evaluation is 0.30001 instead
// of 0.3 (1e-5 off, far outside the 1e-8 rounding) and the winner changes.

import (
	"encoding/json"
	"fmt"
	"math/big"
	"testing"

	"github.com/Azbesciak/RealDecisionMaker/lib/logic/preference-func/choquet"
	"github.com/Azbesciak/RealDecisionMaker/lib/model"
	"github.com/Azbesciak/RealDecisionMaker/lib/utils"
)

func hunt5C03Decide(t *testing.T, body string) *model.DecisionMakerChoice {
	var dm model.DecisionMaker
	if err := json.Unmarshal([]byte(body), &dm); err != nil {
		t.Fatal(err)
	}
	funcs := model.PreferenceFunctions{Functions: []model.PreferenceFunction{&choquet.ChoquetIntegralPreferenceFunc{}}}
	listeners := model.BiasListeners{Listeners: []model.BiasListener{&choquet.ChoquetIntegralBiasListener{}}}
	return dm.MakeDecision(funcs, listeners, &model.BiasMap{}, utils.RandomBasedSeedValueGenerator)
}

func hunt5C03Rat(s string) *big.Rat {
	r, ok := new(big.Rat).SetString(s)
	if !ok {
		panic(s)
	}
	return r
}

// capacities mu(a)=0, mu(b)=1, mu(a,b)=1; oracle on the decimal strings of the request:
// va <= vb: value = va*mu(ab) + (vb-va)*mu(b) if vb-va > 1e-5, else va*mu(ab) (tied, the group takes the lower value)
func hunt5C03Oracle(va, vb string) float64 {
	a, b := hunt5C03Rat(va), hunt5C03Rat(vb)
	exp := a
	if new(big.Rat).Sub(b, a).Cmp(hunt5C03Rat("0.00001")) > 0 {
		exp = b
	}
	f, _ := exp.Float64()
	return f
}

const hunt5C03Request = `{"preferenceFunction":"choquetIntegral",
 "knownAlternatives":[%s],"choseToMake":[%s],
 "criteria":[{"id":"a","type":"gain"},{"id":"b","type":"gain"}],
 "methodParameters":{"weights":{"a":0,"b":1,"a,b":1}}}`

// the same request, shifted by 0.2: 0.1/0.10001 is tied, 0.3/0.30001 is not
func TestHunt5C03ChoquetTieValue(t *testing.T) {
	for _, p := range [][2]string{{"0.1", "0.10001"}, {"0.3", "0.30001"}, {"0.25", "0.25001"}, {"2.4", "2.40001"}, {"7.8", "7.80001"}} {
		body := fmt.Sprintf(hunt5C03Request, fmt.Sprintf(`{"id":"x","criteria":{"a":%s,"b":%s}}`, p[0], p[1]), `"x"`)
		got := hunt5C03Decide(t, body).Result[0].Evaluation.(model.EvaluationSingleValue).Value
		want := hunt5C03Oracle(p[0], p[1])
		if got != want {
			t.Errorf("a=%s b=%s (b-a = 0.00001, tied): evaluation.value = %v, the Choquet integral with the tie rule is %v", p[0], p[1], got, want)
		}
	}
}

// all two-decimal values in [0,10] paired with value+0.00001
func TestHunt5C03ChoquetTieEnumeration(t *testing.T) {
	bad := 0
	for k := 0; k <= 1000; k++ {
		a := fmt.Sprintf("%d.%02d", k/100, k%100)
		b := a + "001"
		body := fmt.Sprintf(hunt5C03Request, fmt.Sprintf(`{"id":"x","criteria":{"a":%s,"b":%s}}`, a, b), `"x"`)
		got := hunt5C03Decide(t, body).Result[0].Evaluation.(model.EvaluationSingleValue).Value
		if got != hunt5C03Oracle(a, b) {
			bad++
		}
	}
	if bad > 0 {
		t.Errorf("%d of 1001 pairs (v, v+0.00001) with a two-decimal v in [0,10] are not treated as tied", bad)
	}
}

// the decision: x = (0.3, 0.30001) is worth 0.3 (tied), y = (0.300005, 0.300005) is worth 0.300005: y wins.
func TestHunt5C03ChoquetTieWinner(t *testing.T) {
	body := fmt.Sprintf(hunt5C03Request,
		`{"id":"x","criteria":{"a":0.3,"b":0.30001}},{"id":"y","criteria":{"a":0.300005,"b":0.300005}}`, `"x","y"`)
	res := hunt5C03Decide(t, body)
	out, _ := json.Marshal(res.Result)
	if res.Result[0].Alternative.Id != "y" {
		t.Errorf("best alternative is %s, expected y (x: 0.3, y: 0.300005): %s", res.Result[0].Alternative.Id, out)
	}
}
