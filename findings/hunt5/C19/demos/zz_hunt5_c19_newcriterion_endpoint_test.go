package anchoring_test

// hunt5 / C19 / finding 1: newCriterion applier, mid-range + half-range x mean misses the end points of the range.
//
// Copy to:  lib/logic/biases/anchoring/
// Run:      cd lib && GOFLAGS=-mod=mod GOPROXY=off GOSUMDB=off GOTOOLCHAIN=local \
//           go test -vet=off -count=1 -run TestHunt5C19NewCriterionEndpoint ./logic/biases/anchoring/
//
// Clause: "the `newCriterion` applier instead appends one criterion per reference point whose value is the reference
// criterion's mid-range plus half-range x the importance-weighted mean of the mapped differences".
// With a mean of exactly 1 that value is the maximum of the reference criterion's range (which is also the declared
// valuesRange of the appended criterion). addAnchoringCriteriaToAlternatives computes Min + (Max-Min)/2 + (Max-Min)/2*1,
// rounded three times: 0.9999999999999999 for [0.3, 1] (end point missed), 0.30000000000000004 for [-0.1, 0.3]
// (value outside the declared range of its own criterion).

import (
	"encoding/json"
	"fmt"
	"math/big"
	"testing"

	"github.com/Azbesciak/RealDecisionMaker/lib/logic/biases/anchoring"
	"github.com/Azbesciak/RealDecisionMaker/lib/logic/limited-rationality/satisfaction"
	"github.com/Azbesciak/RealDecisionMaker/lib/logic/limited-rationality/satisfaction-levels"
	"github.com/Azbesciak/RealDecisionMaker/lib/model"
	"github.com/Azbesciak/RealDecisionMaker/lib/model/reference-criterion"
	"github.com/Azbesciak/RealDecisionMaker/lib/utils"
)

func h5epDecide(t *testing.T, body string) map[string]interface{} {
	t.Helper()
	var dm model.DecisionMaker
	if err := json.Unmarshal([]byte(body), &dm); err != nil {
		t.Fatal(err)
	}
	levels := []satisfaction_levels.SatisfactionLevelsSource{
		&satisfaction_levels.IdealDecreasingMulCoefficientSatisfaction,
		&satisfaction_levels.IdealSubtrCoefficientSatisfaction,
		&satisfaction_levels.DecreasingThresholds,
	}
	updates := satisfaction_levels.SatisfactionLevelsUpdateListeners{Listeners: satisfaction_levels.ListenersMap{
		satisfaction_levels.Thresholds:         &satisfaction_levels.DecreasingThresholds,
		satisfaction_levels.IdealDecreasingMul: &satisfaction_levels.IdealDecreasingMulCoefficientSatisfaction,
		satisfaction_levels.IdealSubtractive:   &satisfaction_levels.IdealSubtrCoefficientSatisfaction,
	}}
	funcs := model.PreferenceFunctions{Functions: []model.PreferenceFunction{
		satisfaction.NewSatisfaction(utils.RandomBasedSeedValueGenerator, levels),
	}}
	listeners := model.BiasListeners{Listeners: []model.BiasListener{satisfaction.NewSatisfactionBiasListener(updates)}}
	refManager := *reference_criterion.NewReferenceCriteriaManager([]reference_criterion.ReferenceCriterionFactory{
		&reference_criterion.ImportanceRatioReferenceCriterionManager{},
	})
	biases := model.BiasMap{anchoring.BiasName: anchoring.NewAnchoring(
		[]anchoring.AnchoringEvaluator{&anchoring.LinearAnchoringEvaluator{}, &anchoring.ExpFromZeroAnchoringEvaluator{}},
		[]anchoring.ReferencePointsEvaluator{&anchoring.IdealReferenceAlternativeEvaluator{}, &anchoring.NadirReferenceAlternativeEvaluator{}},
		[]anchoring.AnchoringApplier{&anchoring.InlineAnchoringApplier{},
			anchoring.NewNewCriterionAnchoringApplier(utils.RandomBasedSeedValueGenerator, refManager)},
	)}
	choice := dm.MakeDecision(funcs, listeners, &biases, utils.RandomBasedSeedValueGenerator)
	raw, err := json.Marshal(choice)
	if err != nil {
		t.Fatal(err)
	}
	var out map[string]interface{}
	if err := json.Unmarshal(raw, &out); err != nil {
		t.Fatal(err)
	}
	return out
}

func h5epPath(v interface{}, path ...interface{}) interface{} {
	for _, p := range path {
		switch k := p.(type) {
		case string:
			v = v.(map[string]interface{})[k]
		case int:
			v = v.([]interface{})[k]
		}
	}
	return v
}

// one gain criterion with a declared range; "best" sits on its maximum, "worst" (the anchoring alternative, hence the
// nadir reference point) on its minimum; gain and loss are the identity. The mapped difference of "best" is
// (max-min)/(max-min) = 1, so its value on the appended criterion is mid-range + half-range = max.
func h5epRequest(min, max, mid string) string {
	return fmt.Sprintf(`{
 "preferenceFunction":"satisfactionHeuristic",
 "knownAlternatives":[
  {"id":"best","criteria":{"c1":%s}},
  {"id":"mid","criteria":{"c1":%s}},
  {"id":"worst","criteria":{"c1":%s}}],
 "criteria":[{"id":"c1","type":"gain","valuesRange":{"min":%s,"max":%s}}],
 "choseToMake":["mid","best","worst"],
 "methodParameters":{"function":"idealSubtractiveCoefficient","params":{"maxValue":1,"minValue":0.1,"coefficient":0.5}},
 "biases":[{"name":"anchoring","props":{
   "anchoringAlternatives":[{"alternative":"worst","coefficient":1}],
   "referencePoints":{"function":"nadir"},
   "gain":{"function":"linear","params":{"a":1,"b":0}},
   "loss":{"function":"linear","params":{"a":1,"b":0}},
   "applier":{"function":"newCriterion","params":{}}}}]}`, max, mid, min, min, max)
}

func TestHunt5C19NewCriterionEndpoint(t *testing.T) {
	for _, tc := range []struct{ min, max, mid string }{
		{"0.3", "1", "0.7"},    // observed 0.9999999999999999: the end point is missed, "best" fails satisfaction level 0
		{"-0.1", "0.3", "0.1"}, // observed 0.30000000000000004: outside the declared range of the appended criterion
		{"0.5", "0.9", "0.7"},  // observed 0.8999999999999999
	} {
		out := h5epDecide(t, h5epRequest(tc.min, tc.max, tc.mid))
		diff := h5epPath(out, "biases", 0, "props", "perReferencePointsDifferences", 1, "referencePointsDifference", 0, "coefficients", "c1").(float64)
		if diff != 1 {
			t.Fatalf("[%s,%s]: precondition: mapped difference of 'best' is %v, not 1", tc.min, tc.max, diff)
		}
		// oracle on the decimal strings: mid-range + half-range x 1
		lo, _ := new(big.Rat).SetString(tc.min)
		hi, _ := new(big.Rat).SetString(tc.max)
		half := new(big.Rat).Quo(new(big.Rat).Sub(hi, lo), big.NewRat(2, 1))
		exact := new(big.Rat).Add(new(big.Rat).Add(lo, half), half)
		want, _ := exact.Float64() // == the declared maximum
		got := h5epPath(out, "biases", 0, "props", "applierResult", "addedCriteria", 0, "alternativesValues", "best").(float64)
		if got != want {
			t.Errorf("[%s,%s]: value of 'best' on the appended criterion = %v, want mid-range + half-range x 1 = %v (declared range of that criterion: [%s,%s])",
				tc.min, tc.max, got, want, tc.min, tc.max)
		}
		// decision: "best" is on the ideal of every criterion, so it satisfies level 0 and is ranked first;
		// with the missed end point it fails level 0 and "mid" (searched first) takes the first place at level 1
		first := h5epPath(out, "result", 0, "alternative", "id").(string)
		level := h5epPath(out, "result", 0, "evaluation", "thresholdsIndex").(float64)
		if got < want && (first != "best" || level != 0) {
			t.Errorf("[%s,%s]: ranking starts with %q at satisfaction level %v, want \"best\" at level 0", tc.min, tc.max, first, level)
		}
	}
}
