package anchoring_test

// hunt5 / C19 / finding 4: the importance weights of the newCriterion applier are normalised one by one (w_i / total)
// and do not add up to 1; the weighted mean of the mapped differences (1, 1, 1) is 0.9999999999999999.
//
// Copy to:  lib/logic/biases/anchoring/
// Run:      cd lib && GOFLAGS=-mod=mod GOPROXY=off GOSUMDB=off GOTOOLCHAIN=local \
//           go test -vet=off -count=1 -run TestHunt5C19NormalisedWeightsMean ./logic/biases/anchoring/
//
// Clause: "whose value is the reference criterion's mid-range plus half-range x the importance-weighted mean of the
// mapped differences". The mean of three differences that are all exactly 1 is 1, whatever the weights.
// normalizeCriteriaByTotalValue divides every importance by the total, addAnchoringCriteriaToAlternatives adds
// value x weight: for the importances (0.6, 0.8, 1) - also (0.7, 1, 1), (1, 10, 10), (6, 7, 7), (8, 9, 10) - the
// quotients add up to 0.9999999999999999. On the range [-1, 1] (mid-range 0, half-range 1: no further rounding) the
// alternative that is on the maximum of every criterion gets 0.9999999999999999 instead of 1 on the appended criterion
// and fails satisfaction level 0.

import (
	"encoding/json"
	"fmt"
	"testing"

	"github.com/Azbesciak/RealDecisionMaker/lib/logic/biases/anchoring"
	"github.com/Azbesciak/RealDecisionMaker/lib/logic/limited-rationality/satisfaction"
	"github.com/Azbesciak/RealDecisionMaker/lib/logic/limited-rationality/satisfaction-levels"
	"github.com/Azbesciak/RealDecisionMaker/lib/model"
	"github.com/Azbesciak/RealDecisionMaker/lib/model/reference-criterion"
	"github.com/Azbesciak/RealDecisionMaker/lib/utils"
)

func h5nwDecide(t *testing.T, body string) map[string]interface{} {
	t.Helper()
	var dm model.DecisionMaker
	if err := json.Unmarshal([]byte(body), &dm); err != nil {
		t.Fatal(err)
	}
	levels := []satisfaction_levels.SatisfactionLevelsSource{
		&satisfaction_levels.IdealDecreasingMulCoefficientSatisfaction,
		&satisfaction_levels.IdealSubtrCoefficientSatisfaction,
		&satisfaction_levels.DecreasingThresholds,
	}
	updates := satisfaction_levels.SatisfactionLevelsUpdateListeners{Listeners: satisfaction_levels.ListenersMap{
		satisfaction_levels.Thresholds:         &satisfaction_levels.DecreasingThresholds,
		satisfaction_levels.IdealDecreasingMul: &satisfaction_levels.IdealDecreasingMulCoefficientSatisfaction,
		satisfaction_levels.IdealSubtractive:   &satisfaction_levels.IdealSubtrCoefficientSatisfaction,
	}}
	funcs := model.PreferenceFunctions{Functions: []model.PreferenceFunction{
		satisfaction.NewSatisfaction(utils.RandomBasedSeedValueGenerator, levels),
	}}
	listeners := model.BiasListeners{Listeners: []model.BiasListener{satisfaction.NewSatisfactionBiasListener(updates)}}
	refManager := *reference_criterion.NewReferenceCriteriaManager([]reference_criterion.ReferenceCriterionFactory{
		&reference_criterion.ImportanceRatioReferenceCriterionManager{},
	})
	biases := model.BiasMap{anchoring.BiasName: anchoring.NewAnchoring(
		[]anchoring.AnchoringEvaluator{&anchoring.LinearAnchoringEvaluator{}, &anchoring.ExpFromZeroAnchoringEvaluator{}},
		[]anchoring.ReferencePointsEvaluator{&anchoring.IdealReferenceAlternativeEvaluator{}, &anchoring.NadirReferenceAlternativeEvaluator{}},
		[]anchoring.AnchoringApplier{&anchoring.InlineAnchoringApplier{},
			anchoring.NewNewCriterionAnchoringApplier(utils.RandomBasedSeedValueGenerator, refManager)},
	)}
	choice := dm.MakeDecision(funcs, listeners, &biases, utils.RandomBasedSeedValueGenerator)
	raw, err := json.Marshal(choice)
	if err != nil {
		t.Fatal(err)
	}
	var out map[string]interface{}
	if err := json.Unmarshal(raw, &out); err != nil {
		t.Fatal(err)
	}
	return out
}

func h5nwPath(v interface{}, path ...interface{}) interface{} {
	for _, p := range path {
		switch k := p.(type) {
		case string:
			v = v.(map[string]interface{})[k]
		case int:
			v = v.([]interface{})[k]
		}
	}
	return v
}

// three gain criteria on [-1, 1]; "best" is on the maximum of each, "worst" (the anchoring alternative = nadir reference
// point) on the minimum of each; gain = identity: the mapped differences of "best" are (1, 1, 1).
// The satisfaction heuristic's importance of a criterion is the sum of its values over the considered alternatives:
// 1 + mid_i - 1 = mid_i.
func h5nwRequest(mid [3]string) string {
	return fmt.Sprintf(`{
 "preferenceFunction":"satisfactionHeuristic",
 "knownAlternatives":[
  {"id":"best","criteria":{"c1":1,"c2":1,"c3":1}},
  {"id":"mid","criteria":{"c1":%s,"c2":%s,"c3":%s}},
  {"id":"worst","criteria":{"c1":-1,"c2":-1,"c3":-1}}],
 "criteria":[
  {"id":"c1","type":"gain","valuesRange":{"min":-1,"max":1}},
  {"id":"c2","type":"gain","valuesRange":{"min":-1,"max":1}},
  {"id":"c3","type":"gain","valuesRange":{"min":-1,"max":1}}],
 "choseToMake":["mid","best","worst"],
 "methodParameters":{"function":"idealSubtractiveCoefficient","params":{"maxValue":1,"minValue":0.1,"coefficient":0.5}},
 "biases":[{"name":"anchoring","props":{
   "anchoringAlternatives":[{"alternative":"worst","coefficient":1}],
   "referencePoints":{"function":"nadir"},
   "gain":{"function":"linear","params":{"a":1,"b":0}},
   "loss":{"function":"linear","params":{"a":1,"b":0}},
   "applier":{"function":"newCriterion","params":{}}}}]}`, mid[0], mid[1], mid[2])
}

func TestHunt5C19NormalisedWeightsMean(t *testing.T) {
	for _, mid := range [][3]string{{"0.6", "0.8", "1"}, {"0.7", "1", "1"}, {"0.5", "0.5", "1"} /* control: passes */} {
		out := h5nwDecide(t, h5nwRequest(mid))
		d := h5nwPath(out, "biases", 0, "props", "perReferencePointsDifferences", 1, "referencePointsDifference", 0, "coefficients").(map[string]interface{})
		if d["c1"] != 1.0 || d["c2"] != 1.0 || d["c3"] != 1.0 {
			t.Fatalf("precondition: mapped differences of 'best' are %v, not (1,1,1)", d)
		}
		got := h5nwPath(out, "biases", 0, "props", "applierResult", "addedCriteria", 0, "alternativesValues", "best").(float64)
		if got != 1 {
			t.Errorf("mid %v: value of 'best' on the appended criterion = %v, want 0 + 1 x mean(1,1,1) = 1 (the maximum of its range [-1,1])", mid, got)
		}
		first := h5nwPath(out, "result", 0, "alternative", "id").(string)
		level := h5nwPath(out, "result", 0, "evaluation", "thresholdsIndex").(float64)
		if first != "best" || level != 0 {
			t.Errorf("mid %v: ranking starts with %q at satisfaction level %v, want \"best\" (on the ideal of every criterion) at level 0", mid, first, level)
		}
	}
}
