package anchoring_test

// hunt5 / C19 / finding 3: the scaled difference is computed as difference x (1 / range); for an alternative on the
// maximum against a reference point on the minimum it is 0.9999999999999999 instead of 1.
//
// Copy to:  lib/logic/biases/anchoring/
// Run:      cd lib && GOFLAGS=-mod=mod GOPROXY=off GOSUMDB=off GOTOOLCHAIN=local \
//           go test -vet=off -count=1 -run TestHunt5C19ScaledDifferenceReciprocal ./logic/biases/anchoring/
//
// Clause: "measures every known alternative's signed preference difference to it scaled by the criterion's value range".
// (max - min) scaled by the range (max - min) is 1. evaluatePerCriterionNormalizationScaleRatio stores scale = 1/(max-min)
// and calculateReferencePointDiffs multiplies: d x (1/d) is 1 - 2^-53 for d = 0.7-(-0.1), 0.3-0.1, 0.6-0.2, 0.7-0.3,
// 1.2-0.4, 49, 98 ... (591 of the 7260 one-decimal ranges in [-2,10]). With the identity as gain function the value of
// the appended criterion is then 0.6999999999999998 instead of 0.7 on [-0.1, 0.7], a range for which
// Min + half + half x 1 is exact - the alternative on the ideal of every criterion fails satisfaction level 0.

import (
	"encoding/json"
	"fmt"
	"testing"

	"github.com/Azbesciak/RealDecisionMaker/lib/logic/biases/anchoring"
	"github.com/Azbesciak/RealDecisionMaker/lib/logic/limited-rationality/satisfaction"
	"github.com/Azbesciak/RealDecisionMaker/lib/logic/limited-rationality/satisfaction-levels"
	"github.com/Azbesciak/RealDecisionMaker/lib/model"
	"github.com/Azbesciak/RealDecisionMaker/lib/model/reference-criterion"
	"github.com/Azbesciak/RealDecisionMaker/lib/utils"
)

func h5srDecide(t *testing.T, body string) map[string]interface{} {
	t.Helper()
	var dm model.DecisionMaker
	if err := json.Unmarshal([]byte(body), &dm); err != nil {
		t.Fatal(err)
	}
	levels := []satisfaction_levels.SatisfactionLevelsSource{
		&satisfaction_levels.IdealDecreasingMulCoefficientSatisfaction,
		&satisfaction_levels.IdealSubtrCoefficientSatisfaction,
		&satisfaction_levels.DecreasingThresholds,
	}
	updates := satisfaction_levels.SatisfactionLevelsUpdateListeners{Listeners: satisfaction_levels.ListenersMap{
		satisfaction_levels.Thresholds:         &satisfaction_levels.DecreasingThresholds,
		satisfaction_levels.IdealDecreasingMul: &satisfaction_levels.IdealDecreasingMulCoefficientSatisfaction,
		satisfaction_levels.IdealSubtractive:   &satisfaction_levels.IdealSubtrCoefficientSatisfaction,
	}}
	funcs := model.PreferenceFunctions{Functions: []model.PreferenceFunction{
		satisfaction.NewSatisfaction(utils.RandomBasedSeedValueGenerator, levels),
	}}
	listeners := model.BiasListeners{Listeners: []model.BiasListener{satisfaction.NewSatisfactionBiasListener(updates)}}
	refManager := *reference_criterion.NewReferenceCriteriaManager([]reference_criterion.ReferenceCriterionFactory{
		&reference_criterion.ImportanceRatioReferenceCriterionManager{},
	})
	biases := model.BiasMap{anchoring.BiasName: anchoring.NewAnchoring(
		[]anchoring.AnchoringEvaluator{&anchoring.LinearAnchoringEvaluator{}, &anchoring.ExpFromZeroAnchoringEvaluator{}},
		[]anchoring.ReferencePointsEvaluator{&anchoring.IdealReferenceAlternativeEvaluator{}, &anchoring.NadirReferenceAlternativeEvaluator{}},
		[]anchoring.AnchoringApplier{&anchoring.InlineAnchoringApplier{},
			anchoring.NewNewCriterionAnchoringApplier(utils.RandomBasedSeedValueGenerator, refManager)},
	)}
	choice := dm.MakeDecision(funcs, listeners, &biases, utils.RandomBasedSeedValueGenerator)
	raw, err := json.Marshal(choice)
	if err != nil {
		t.Fatal(err)
	}
	var out map[string]interface{}
	if err := json.Unmarshal(raw, &out); err != nil {
		t.Fatal(err)
	}
	return out
}

func h5srPath(v interface{}, path ...interface{}) interface{} {
	for _, p := range path {
		switch k := p.(type) {
		case string:
			v = v.(map[string]interface{})[k]
		case int:
			v = v.([]interface{})[k]
		}
	}
	return v
}

// one gain criterion with a declared range; "best" sits on its maximum, "worst" (the anchoring alternative, hence the
// nadir reference point) on its minimum; gain and loss are the identity. The mapped difference of "best" is
// (max-min)/(max-min) = 1, so its value on the appended criterion is mid-range + half-range = max.
func h5srRequest(min, max, mid string) string {
	return fmt.Sprintf(`{
 "preferenceFunction":"satisfactionHeuristic",
 "knownAlternatives":[
  {"id":"best","criteria":{"c1":%s}},
  {"id":"mid","criteria":{"c1":%s}},
  {"id":"worst","criteria":{"c1":%s}}],
 "criteria":[{"id":"c1","type":"gain","valuesRange":{"min":%s,"max":%s}}],
 "choseToMake":["mid","best","worst"],
 "methodParameters":{"function":"idealSubtractiveCoefficient","params":{"maxValue":1,"minValue":0.1,"coefficient":0.5}},
 "biases":[{"name":"anchoring","props":{
   "anchoringAlternatives":[{"alternative":"worst","coefficient":1}],
   "referencePoints":{"function":"nadir"},
   "gain":{"function":"linear","params":{"a":1,"b":0}},
   "loss":{"function":"linear","params":{"a":1,"b":0}},
   "applier":{"function":"newCriterion","params":{}}}}]}`, max, mid, min, min, max)
}

func TestHunt5C19ScaledDifferenceReciprocal(t *testing.T) {
	out := h5srDecide(t, h5srRequest("-0.1", "0.7", "0.5"))
	// "best" is on the maximum 0.7, the nadir reference point on the minimum -0.1: (0.7 - -0.1) / (0.7 - -0.1) = 1
	diff := h5srPath(out, "biases", 0, "props", "perReferencePointsDifferences", 1, "referencePointsDifference", 0, "coefficients", "c1").(float64)
	if diff != 1 {
		t.Errorf("scaled difference of 'best' (0.7) to the nadir reference point (-0.1) on the range [-0.1,0.7] = %v, want 1", diff)
	}
	// control: for this range the end point formula of the applier is exact
	lo, hi := -0.1, 0.7
	if half := (hi - lo) / 2; lo+half+half*1 != hi {
		t.Fatalf("precondition: Min + half + half x 1 = %v", lo+half+half*1)
	}
	got := h5srPath(out, "biases", 0, "props", "applierResult", "addedCriteria", 0, "alternativesValues", "best").(float64)
	if got != 0.7 {
		t.Errorf("value of 'best' on the appended criterion = %v, want mid-range + half-range x 1 = 0.7", got)
	}
	first := h5srPath(out, "result", 0, "alternative", "id").(string)
	level := h5srPath(out, "result", 0, "evaluation", "thresholdsIndex").(float64)
	if first != "best" || level != 0 {
		t.Errorf("ranking starts with %q at satisfaction level %v, want \"best\" (on the ideal of every criterion) at level 0", first, level)
	}
}
