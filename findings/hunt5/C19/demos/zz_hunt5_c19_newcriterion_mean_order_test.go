package anchoring_test

// hunt5 / C19 / finding 2: the importance-weighted mean of the newCriterion applier is summed in the listing order of
// the criteria; two alternatives with the same mean get different values, and the ranking follows the listing order.
//
// Copy to:  lib/logic/biases/anchoring/
// Run:      cd lib && GOFLAGS=-mod=mod GOPROXY=off GOSUMDB=off GOTOOLCHAIN=local \
//           go test -vet=off -count=1 -run TestHunt5C19NewCriterionMeanOrder ./logic/biases/anchoring/
//
// Clause: "appends one criterion per reference point whose value is the reference criterion's mid-range plus half-range
// x the importance-weighted mean of the mapped differences". A mean does not depend on the order of its terms.
// All inputs are integers: three gain criteria on [0,10] with equal ELECTRE weights, A = (0,1,5), B = (5,1,0), the
// anchoring alternative top = (10,10,10), loss = identity. Mapped differences: A (-1,-0.9,-0.5), B (-0.5,-0.9,-1);
// both means are -0.8, both values 5 + 5 x (-0.8) = 1. SortByWeights keeps criteria of equal importance in the order
// the request lists them, addAnchoringCriteriaToAlternatives adds value x weight in that order:
// ((-1/3)+(-0.9/3))+(-0.5/3) != ((-0.5/3)+(-0.9/3))+(-1/3).

import (
	"encoding/json"
	"fmt"
	"strings"
	"testing"

	"github.com/Azbesciak/RealDecisionMaker/lib/logic/biases/anchoring"
	"github.com/Azbesciak/RealDecisionMaker/lib/logic/preference-func/electreIII"
	"github.com/Azbesciak/RealDecisionMaker/lib/model"
	"github.com/Azbesciak/RealDecisionMaker/lib/model/reference-criterion"
	"github.com/Azbesciak/RealDecisionMaker/lib/utils"
)

func h5moDecide(t *testing.T, body string) map[string]interface{} {
	t.Helper()
	var dm model.DecisionMaker
	if err := json.Unmarshal([]byte(body), &dm); err != nil {
		t.Fatal(err)
	}
	funcs := model.PreferenceFunctions{Functions: []model.PreferenceFunction{&electreIII.ElectreIIIPreferenceFunc{}}}
	listeners := model.BiasListeners{Listeners: []model.BiasListener{&electreIII.ElectreIIIBiasLIstener{}}}
	refManager := *reference_criterion.NewReferenceCriteriaManager([]reference_criterion.ReferenceCriterionFactory{
		&reference_criterion.ImportanceRatioReferenceCriterionManager{},
	})
	biases := model.BiasMap{anchoring.BiasName: anchoring.NewAnchoring(
		[]anchoring.AnchoringEvaluator{&anchoring.LinearAnchoringEvaluator{}, &anchoring.ExpFromZeroAnchoringEvaluator{}},
		[]anchoring.ReferencePointsEvaluator{&anchoring.IdealReferenceAlternativeEvaluator{}, &anchoring.NadirReferenceAlternativeEvaluator{}},
		[]anchoring.AnchoringApplier{&anchoring.InlineAnchoringApplier{},
			anchoring.NewNewCriterionAnchoringApplier(utils.RandomBasedSeedValueGenerator, refManager)},
	)}
	choice := dm.MakeDecision(funcs, listeners, &biases, utils.RandomBasedSeedValueGenerator)
	raw, err := json.Marshal(choice)
	if err != nil {
		t.Fatal(err)
	}
	var out map[string]interface{}
	if err := json.Unmarshal(raw, &out); err != nil {
		t.Fatal(err)
	}
	return out
}

func h5moPath(v interface{}, path ...interface{}) interface{} {
	for _, p := range path {
		switch k := p.(type) {
		case string:
			v = v.(map[string]interface{})[k]
		case int:
			v = v.([]interface{})[k]
		}
	}
	return v
}

func h5moRequest(criteriaOrder []string) string {
	criteria := make([]string, len(criteriaOrder))
	for i, c := range criteriaOrder {
		criteria[i] = fmt.Sprintf(`{"id":"%s","type":"gain","valuesRange":{"min":0,"max":10}}`, c)
	}
	return fmt.Sprintf(`{
 "preferenceFunction":"electreIII",
 "knownAlternatives":[
  {"id":"A","criteria":{"c1":0,"c2":1,"c3":5}},
  {"id":"B","criteria":{"c1":5,"c2":1,"c3":0}},
  {"id":"top","criteria":{"c1":10,"c2":10,"c3":10}}],
 "criteria":[%s],
 "choseToMake":["A","B"],
 "methodParameters":{"electreCriteria":{"c1":{"k":1},"c2":{"k":1},"c3":{"k":1}},"electreDistillation":{"a":-0.15,"b":0.3}},
 "biases":[{"name":"anchoring","props":{
   "anchoringAlternatives":[{"alternative":"top","coefficient":1}],
   "referencePoints":{"function":"ideal"},
   "gain":{"function":"linear","params":{"a":1,"b":0}},
   "loss":{"function":"linear","params":{"a":1,"b":0}},
   "applier":{"function":"newCriterion","params":{}}}}]}`, strings.Join(criteria, ","))
}

func h5moRanking(out map[string]interface{}) string {
	parts := []string{}
	for _, r := range out["result"].([]interface{}) {
		parts = append(parts, fmt.Sprintf("%v>=%v", h5moPath(r, "alternative", "id"), h5moPath(r, "betterThanOrSameAs")))
	}
	return strings.Join(parts, " ")
}

func TestHunt5C19NewCriterionMeanOrder(t *testing.T) {
	// the same request, the three equally important criteria listed forwards and backwards
	fwd := h5moDecide(t, h5moRequest([]string{"c1", "c2", "c3"}))
	bwd := h5moDecide(t, h5moRequest([]string{"c3", "c2", "c1"}))
	for _, alt := range []int{0, 1} { // preconditions: the mapped differences are exact
		d := h5moPath(fwd, "biases", 0, "props", "perReferencePointsDifferences", alt, "referencePointsDifference", 0, "coefficients").(map[string]interface{})
		sum := 0.0
		for _, c := range []string{"c1", "c2", "c3"} {
			sum += d[c].(float64) * 10 // -10, -9, -5: integers, added exactly
		}
		if sum != -24 {
			t.Fatalf("precondition: mapped differences of alternative %d are %v", alt, d)
		}
	}
	valuesFwd := h5moPath(fwd, "biases", 0, "props", "applierResult", "addedCriteria", 0, "alternativesValues").(map[string]interface{})
	valuesBwd := h5moPath(bwd, "biases", 0, "props", "applierResult", "addedCriteria", 0, "alternativesValues").(map[string]interface{})
	// exact: mean = -(10+9+5)/10/3 = -0.8 for both, value = 0 + 5 + 5 x (-0.8) = 1
	if valuesFwd["A"] != valuesFwd["B"] {
		t.Errorf("criteria listed c1,c2,c3: A and B have the same weighted mean (-0.8) but the appended criterion gives A = %v, B = %v (exact value 1)",
			valuesFwd["A"], valuesFwd["B"])
	}
	if valuesFwd["A"] != valuesBwd["A"] || valuesFwd["B"] != valuesBwd["B"] {
		t.Errorf("the appended criterion depends on the order the criteria are listed in: c1,c2,c3 -> %v; c3,c2,c1 -> %v", valuesFwd, valuesBwd)
	}
	// A and B are mirror images of each other: they are indifferent, whatever the listing order
	rf, rb := h5moRanking(fwd), h5moRanking(bwd)
	if rf != rb {
		t.Errorf("ranking with criteria listed c1,c2,c3: %s; listed c3,c2,c1: %s", rf, rb)
	}
	if rf != "A>=[B] B>=[A]" && rf != "B>=[A] A>=[B]" {
		t.Errorf("ranking %q, want A and B indifferent (they tie on the appended criterion and mirror each other on c1..c3)", rf)
	}
}
