package client

// hunt5 / C05 finding 4 - sigma(a,b) > sigma(b,a) + s(sigma(a,b)) is evaluated with a rounded right-hand side
//
// Copy to:  lib/client/
// Run:      cd lib && go test -vet=off -count=1 -run TestHunt5C05OutrankingTest ./client/
//
// getDistillateMatrix keeps the arc a->b when  v > matrix.At(col,row) + (A*v + B).  When the two sides are equal
// over the reals (no strict preference) the float64 sum on the right can come out one ulp low:
//   s = 0.1:      0.7 + 0.1                    = 0.7999999999999999 < 0.8
//   default:      0.735 + (-0.15*0.9 + 0.3)    = 0.8999999999999999 < 0.9
// so a is taken to outrank b strictly and the two are put in different classes.

import (
	"encoding/json"
	"testing"

	"github.com/Azbesciak/RealDecisionMaker/lib/logic/preference-func/electreIII"
	"github.com/Azbesciak/RealDecisionMaker/lib/model"
	"github.com/Azbesciak/RealDecisionMaker/lib/utils"
)

func hunt5c05f4Decide(t *testing.T, request string) map[string][2]int {
	t.Helper()
	var dm model.DecisionMaker
	if err := json.Unmarshal([]byte(request), &dm); err != nil {
		t.Fatalf("request does not parse: %v", err)
	}
	funcs := model.PreferenceFunctions{Functions: []model.PreferenceFunction{&electreIII.ElectreIIIPreferenceFunc{}}}
	choice := dm.MakeDecision(funcs, model.BiasListeners{}, &model.BiasMap{}, utils.RandomBasedSeedValueGenerator)
	res := map[string][2]int{}
	for _, e := range choice.Result {
		ev := e.Evaluation.(electreIII.ElectreIIIEvaluation)
		res[e.Alternative.Id] = [2]int{ev.AscendingIndex, ev.DescendingIndex}
	}
	return res
}

// weights 5, 3, 2; a and b equal on c1, a better on c2, b better on c3: sigma(a,b) = 8/10, sigma(b,a) = 7/10.
// s = 0.1 (constant, in the domain): 0.8 > 0.7 + 0.1 is false, 0.7 > 0.8 + 0.1 is false: no arc at any cut level,
// a and b are ex aequo: class 1 in both distillations.
func TestHunt5C05OutrankingTestConstantFunction(t *testing.T) {
	got := hunt5c05f4Decide(t, `{
  "preferenceFunction": "electreIII",
  "knownAlternatives": [
    {"id": "a", "criteria": {"c1": 0, "c2": 1, "c3": 0}},
    {"id": "b", "criteria": {"c1": 0, "c2": 0, "c3": 1}}
  ],
  "choseToMake": ["a", "b"],
  "criteria": [{"id": "c1", "type": "gain"}, {"id": "c2", "type": "gain"}, {"id": "c3", "type": "gain"}],
  "methodParameters": {
    "electreCriteria": {"c1": {"k": 5}, "c2": {"k": 3}, "c3": {"k": 2}},
    "electreDistillation": {"a": 0, "b": 0.1}
  }
}`)
	want := [2]int{1, 1}
	if got["a"] != want || got["b"] != want {
		t.Errorf("0.8 > 0.7 + 0.1 is false: a and b must be ex aequo (class 1, 1); got a=%v b=%v", got["a"], got["b"])
	}
}

// default distillation function, weights 127, 53, 20 (sum 200): sigma(a,b) = 180/200 = 0.9, sigma(b,a) = 147/200 =
// 0.735; s(0.9) = 0.3 - 0.135 = 0.165 and 0.735 + 0.165 = 0.9: not strictly preferred, ex aequo.
func TestHunt5C05OutrankingTestDefaultFunction(t *testing.T) {
	got := hunt5c05f4Decide(t, `{
  "preferenceFunction": "electreIII",
  "knownAlternatives": [
    {"id": "a", "criteria": {"c1": 0, "c2": 1, "c3": 0}},
    {"id": "b", "criteria": {"c1": 0, "c2": 0, "c3": 1}}
  ],
  "choseToMake": ["a", "b"],
  "criteria": [{"id": "c1", "type": "gain"}, {"id": "c2", "type": "gain"}, {"id": "c3", "type": "gain"}],
  "methodParameters": {
    "electreCriteria": {"c1": {"k": 127}, "c2": {"k": 53}, "c3": {"k": 20}}
  }
}`)
	want := [2]int{1, 1}
	if got["a"] != want || got["b"] != want {
		t.Errorf("0.9 > 0.735 + s(0.9) = 0.735 + 0.165 is false: a and b must be ex aequo (class 1, 1); got a=%v b=%v", got["a"], got["b"])
	}
}
