package client

// hunt5 / C05 finding 3 - the cut level lambda - s(lambda) is rounded upwards, a credibility equal to it counts as below
//
// Copy to:  lib/client/
// Run:      cd lib && go test -vet=off -count=1 -run TestHunt5C05CutLevel ./client/
//
// getDistillateMatrix computes  minCredThreshold := maxCred - (A*maxCred + B)  and takes as the next cut level the
// largest credibility with  new < minCredThreshold.  Default function, lambda = 0.8: s = -0.15*0.8 + 0.3 = 0.18,
// 0.8 - 0.18 = 0.6200000000000001 in float64, so a credibility of exactly 0.62 (= 62/100) is taken as the next cut
// level although it is not strictly below lambda - s(lambda) = 0.62; all arcs with credibility 0.62 are then dropped
// (they must be strictly above the cut level) and another alternative is distilled first.

import (
	"encoding/json"
	"testing"

	"github.com/Azbesciak/RealDecisionMaker/lib/logic/preference-func/electreIII"
	"github.com/Azbesciak/RealDecisionMaker/lib/model"
	"github.com/Azbesciak/RealDecisionMaker/lib/utils"
)

func hunt5c05f3Decide(t *testing.T, request string) map[string][2]int {
	t.Helper()
	var dm model.DecisionMaker
	if err := json.Unmarshal([]byte(request), &dm); err != nil {
		t.Fatalf("request does not parse: %v", err)
	}
	funcs := model.PreferenceFunctions{Functions: []model.PreferenceFunction{&electreIII.ElectreIIIPreferenceFunc{}}}
	choice := dm.MakeDecision(funcs, model.BiasListeners{}, &model.BiasMap{}, utils.RandomBasedSeedValueGenerator)
	res := map[string][2]int{}
	for _, e := range choice.Result {
		ev := e.Evaluation.(electreIII.ElectreIIIEvaluation)
		res[e.Alternative.Id] = [2]int{ev.AscendingIndex, ev.DescendingIndex}
	}
	return res
}

// integer weights 18, 20, 62 (sum 100), no thresholds, default distillation function.
// credibilities (all exact quotients n/100):
//        a     b     c
//   a    -    0.8   0.62
//   b   0.38   -    0.62
//   c   0.38  0.38   -
// lambda0 = 0.8, s = 0.18, lambda0 - s = 0.62; the largest credibility strictly below is 0.38 = lambda1.
// arcs (sigma > 0.38 and sigma(x,y) > sigma(y,x) + s(sigma(x,y))): a->b (0.8 > 0.56), a->c (0.62 > 0.587),
// b->c (0.62 > 0.587); qualifications a +2, b 0, c -2.
// first distillation: a, b, c = 1, 2, 3; second (worst first, reversed): c is worst, then b: a, b, c = 1, 2, 3.
// observed: the second distillation gives a, b, c = 1, 3, 2 because lambda1 is taken as 0.62, only a->b remains
// and b (-1) is distilled as the worst instead of c.
func TestHunt5C05CutLevelDefaultFunction(t *testing.T) {
	got := hunt5c05f3Decide(t, `{
  "preferenceFunction": "electreIII",
  "knownAlternatives": [
    {"id": "a", "criteria": {"c1": 0, "c2": 0, "c3": 2}},
    {"id": "b", "criteria": {"c1": 0, "c2": 1, "c3": 1}},
    {"id": "c", "criteria": {"c1": 1, "c2": 2, "c3": 0}}
  ],
  "choseToMake": ["a", "b", "c"],
  "criteria": [{"id": "c1", "type": "gain"}, {"id": "c2", "type": "gain"}, {"id": "c3", "type": "gain"}],
  "methodParameters": {"electreCriteria": {"c1": {"k": 18}, "c2": {"k": 20}, "c3": {"k": 62}}}
}`)
	want := map[string][2]int{"a": {1, 1}, "b": {2, 2}, "c": {3, 3}}
	for _, id := range []string{"a", "b", "c"} {
		if got[id] != want[id] {
			t.Errorf("alternative %s: (ascendingIndex, descendingIndex) = %v, want %v (all: %v)", id, got[id], want[id], got)
		}
	}
}

// the same with the constant distillation function s = 0.1 and weights 1, 2, 7:
//        a     b     c
//   a    -    0.7   0.8
//   b   0.3    -    1
//   c   0.3   0.9    -
// lambda0 = 1: cut 0.9, lambda1 = 0.8, no arc (1 > 0.9 + 0.1 is false): all tied, go on with lambda1 = 0.8:
// 0.8 - 0.1 = 0.7, the largest credibility strictly below 0.7 is 0.3 = lambda2; arcs a->b (0.7 > 0.4),
// a->c (0.8 > 0.4): a +2, b -1, c -1: second distillation takes {b, c} as worst; they stay tied at lambda 0:
// a, b, c = 1, 2, 2 in both.  observed: 0.8 - 0.1 = 0.7000000000000001, lambda2 = 0.7, the arc a->b is lost,
// b (0) and c (-1) are separated: descendingIndex 1, 2, 3.
func TestHunt5C05CutLevelConstantFunction(t *testing.T) {
	got := hunt5c05f3Decide(t, `{
  "preferenceFunction": "electreIII",
  "knownAlternatives": [
    {"id": "a", "criteria": {"c1": 0, "c2": 0, "c3": 1}},
    {"id": "b", "criteria": {"c1": 1, "c2": 1, "c3": 0}},
    {"id": "c", "criteria": {"c1": 0, "c2": 1, "c3": 0}}
  ],
  "choseToMake": ["a", "b", "c"],
  "criteria": [{"id": "c1", "type": "gain"}, {"id": "c2", "type": "gain"}, {"id": "c3", "type": "gain"}],
  "methodParameters": {
    "electreCriteria": {"c1": {"k": 1}, "c2": {"k": 2}, "c3": {"k": 7}},
    "electreDistillation": {"a": 0, "b": 0.1}
  }
}`)
	want := map[string][2]int{"a": {1, 1}, "b": {2, 2}, "c": {2, 2}}
	for _, id := range []string{"a", "b", "c"} {
		if got[id] != want[id] {
			t.Errorf("alternative %s: (ascendingIndex, descendingIndex) = %v, want %v (all: %v)", id, got[id], want[id], got)
		}
	}
}
