package client

// hunt5 / C05 finding 6 - the partial concordance 1 - (diff - q)/(p - q) inherits the rounding of diff = c2Val - c1Val
//
// Copy to:  lib/client/
// Run:      cd lib && go test -vet=off -count=1 -run TestHunt5C05PartialConcordance ./client/
//
// values 1 and 1.03, preference threshold p = 0.2 (no q): the concordance of the lower alternative is
// 1 - 0.03/0.2 = 0.85 exactly.  calculateElectreResult gets diff = 1.03 - 1 = 0.030000000000000027 and
// C = 0.8499999999999999.  0.85 is the tie value 1 - s(1) of the default distillation function (cut level, and
// 1 > 0.85 + 0.15 is false), so the one-ulp error turns "ex aequo" into "b strictly better".  With the values 0 and
// 0.03 (same difference, computed exactly) the answer is the right one.

import (
	"encoding/json"
	"fmt"
	"testing"

	"github.com/Azbesciak/RealDecisionMaker/lib/logic/preference-func/electreIII"
	"github.com/Azbesciak/RealDecisionMaker/lib/model"
	"github.com/Azbesciak/RealDecisionMaker/lib/utils"
)

func hunt5c05f6Decide(t *testing.T, request string) map[string][2]int {
	t.Helper()
	var dm model.DecisionMaker
	if err := json.Unmarshal([]byte(request), &dm); err != nil {
		t.Fatalf("request does not parse: %v", err)
	}
	funcs := model.PreferenceFunctions{Functions: []model.PreferenceFunction{&electreIII.ElectreIIIPreferenceFunc{}}}
	choice := dm.MakeDecision(funcs, model.BiasListeners{}, &model.BiasMap{}, utils.RandomBasedSeedValueGenerator)
	res := map[string][2]int{}
	for _, e := range choice.Result {
		ev := e.Evaluation.(electreIII.ElectreIIIEvaluation)
		res[e.Alternative.Id] = [2]int{ev.AscendingIndex, ev.DescendingIndex}
	}
	return res
}

func TestHunt5C05PartialConcordance(t *testing.T) {
	cases := []struct{ a, b, q, p string }{
		{"0", "0.03", "0", "0.2"}, // control: same difference, passes
		{"1", "1.03", "0", "0.2"},
		{"0.5", "0.53", "0", "0.2"},
		{"1", "1.06", "0", "0.4"},
		{"1", "1.12", "0", "0.8"},
		{"1", "1.35", "0.2", "1.2"},
	}
	for _, c := range cases {
		got := hunt5c05f6Decide(t, fmt.Sprintf(`{
  "preferenceFunction": "electreIII",
  "knownAlternatives": [
    {"id": "a", "criteria": {"c": %s}},
    {"id": "b", "criteria": {"c": %s}}
  ],
  "choseToMake": ["a", "b"],
  "criteria": [{"id": "c", "type": "gain"}],
  "methodParameters": {"electreCriteria": {"c": {"k": 1, "q": {"b": %s}, "p": {"b": %s}}}}
}`, c.a, c.b, c.q, c.p))
		want := [2]int{1, 1}
		if got["a"] != want || got["b"] != want {
			t.Errorf("a=%s b=%s q=%s p=%s: sigma(b,a) = 1, sigma(a,b) = 1 - (b-a-q)/(p-q) = 0.85 = 1 - s(1), default function: "+
				"a and b must be ex aequo (class 1, 1); got a=%v b=%v", c.a, c.b, c.q, c.p, got["a"], got["b"])
		}
	}
}
