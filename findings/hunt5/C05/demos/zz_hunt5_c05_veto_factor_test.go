package client

// hunt5 / C05 finding 5 - the veto factor (1 - d)/(1 - C) is rounded: a credibility that is exactly 0.85 (0.6) becomes
// 0.8499999999999999 (0.5999999999999999)
//
// Copy to:  lib/client/
// Run:      cd lib && go test -vet=off -count=1 -run TestHunt5C05VetoFactor ./client/
//
// calculateCredibility multiplies C by (1 - res.result.D) / (1 - C) for every criterion with d > C.
// 1 - 0.9 = 0.09999999999999998 and 1 - 0.8 = 0.19999999999999996 in float64, so
//   C = 17/19, d = 0.9 :  sigma = 17/19 * 0.1 / (2/19) = 0.85 exactly, computed 0.8499999999999999
//   C = 0.75,  d = 0.8 :  sigma = 0.75 * 0.2 / 0.25   = 0.6  exactly, computed 0.5999999999999999
// The first is the tie value 1 - s(1) of the default distillation function, the second the tie value
// 0.75 - s(0.75) of s = -0.2 x + 0.3: the strict test sigma(a,b) > sigma(b,a) + s(sigma(a,b)) becomes true.

import (
	"encoding/json"
	"testing"

	"github.com/Azbesciak/RealDecisionMaker/lib/logic/preference-func/electreIII"
	"github.com/Azbesciak/RealDecisionMaker/lib/model"
	"github.com/Azbesciak/RealDecisionMaker/lib/utils"
)

func hunt5c05f5Decide(t *testing.T, request string) map[string][2]int {
	t.Helper()
	var dm model.DecisionMaker
	if err := json.Unmarshal([]byte(request), &dm); err != nil {
		t.Fatalf("request does not parse: %v", err)
	}
	funcs := model.PreferenceFunctions{Functions: []model.PreferenceFunction{&electreIII.ElectreIIIPreferenceFunc{}}}
	choice := dm.MakeDecision(funcs, model.BiasListeners{}, &model.BiasMap{}, utils.RandomBasedSeedValueGenerator)
	res := map[string][2]int{}
	for _, e := range choice.Result {
		ev := e.Evaluation.(electreIII.ElectreIIIEvaluation)
		res[e.Alternative.Id] = [2]int{ev.AscendingIndex, ev.DescendingIndex}
	}
	return res
}

// default distillation function. c1 (k = 2, p = 1, v = 11), c2 (k = 17). a = (10, 0), b = (0, 0).
// sigma(a,b) = 1.  b against a: c1 discordant with d = (10-1)/(11-1) = 0.9, C = 17/19 < 0.9,
// sigma(b,a) = 17/19 * (1-0.9)/(1-17/19) = 0.85.  s(1) = 0.15: 1 > 0.85 + 0.15 is false and 0.85 is not strictly
// below the cut level 1 - 0.15: no arc, a and b are ex aequo in class 1.
func TestHunt5C05VetoFactorDefaultFunction(t *testing.T) {
	got := hunt5c05f5Decide(t, `{
  "preferenceFunction": "electreIII",
  "knownAlternatives": [
    {"id": "a", "criteria": {"c1": 10, "c2": 0}},
    {"id": "b", "criteria": {"c1": 0, "c2": 0}}
  ],
  "choseToMake": ["a", "b"],
  "criteria": [{"id": "c1", "type": "gain"}, {"id": "c2", "type": "gain"}],
  "methodParameters": {
    "electreCriteria": {"c1": {"k": 2, "p": {"b": 1}, "v": {"b": 11}}, "c2": {"k": 17}}
  }
}`)
	want := [2]int{1, 1}
	if got["a"] != want || got["b"] != want {
		t.Errorf("sigma(b,a) = 0.85 = 1 - s(1): a and b must be ex aequo (class 1, 1); got a=%v b=%v", got["a"], got["b"])
	}
}

// four criteria of weight 1 with p = 1, v = 11; a = (0, 9, 0, 0), b = (3, 0, 0, 0); s(x) = -0.2 x + 0.3.
// a against b: c1 d = (3-1)/10 = 0.2 < C = 0.75: sigma(a,b) = 0.75.
// b against a: c2 d = (9-1)/10 = 0.8 > C = 0.75: sigma(b,a) = 0.75 * 0.2/0.25 = 0.6.
// s(0.75) = 0.15: 0.75 > 0.6 + 0.15 is false: ex aequo.
func TestHunt5C05VetoFactorCustomFunction(t *testing.T) {
	got := hunt5c05f5Decide(t, `{
  "preferenceFunction": "electreIII",
  "knownAlternatives": [
    {"id": "a", "criteria": {"c1": 0, "c2": 9, "c3": 0, "c4": 0}},
    {"id": "b", "criteria": {"c1": 3, "c2": 0, "c3": 0, "c4": 0}}
  ],
  "choseToMake": ["a", "b"],
  "criteria": [{"id": "c1", "type": "gain"}, {"id": "c2", "type": "gain"}, {"id": "c3", "type": "gain"}, {"id": "c4", "type": "gain"}],
  "methodParameters": {
    "electreCriteria": {
      "c1": {"k": 1, "p": {"b": 1}, "v": {"b": 11}}, "c2": {"k": 1, "p": {"b": 1}, "v": {"b": 11}},
      "c3": {"k": 1, "p": {"b": 1}, "v": {"b": 11}}, "c4": {"k": 1, "p": {"b": 1}, "v": {"b": 11}}
    },
    "electreDistillation": {"a": -0.2, "b": 0.3}
  }
}`)
	want := [2]int{1, 1}
	if got["a"] != want || got["b"] != want {
		t.Errorf("sigma(a,b) = 0.75, sigma(b,a) = 0.6, s(0.75) = 0.15: a and b must be ex aequo (class 1, 1); got a=%v b=%v", got["a"], got["b"])
	}
}
