package client

// hunt5 / C05 finding 2 - the weighted concordance is a float64 sum in the listing order of the criteria
//
// Copy to:  lib/client/
// Run:      cd lib && go test -vet=off -count=1 -run TestHunt5C05ConcordanceSum ./client/
//
// calculateTotalC accumulates  totalC += k*c  and  weightSum += k  over the criteria in the order in which the
// request lists them and divides.  With weights 0.15, 0.3, 0.35, 0.2 (sum exactly 1) the coalition
// {0.3, 0.35, 0.2} has concordance exactly 0.85 = 1 - s(1) for the default distillation function, but the code
// obtains 0.8499999999999999 (0.3 + 0.35 = 0.6499999999999999, + 0.2 = 0.8499999999999999, / 1), which is strictly below the cut
// level 0.85 and makes 1 > 0.8499999999999999 + 0.15 true.  The same request with the criteria listed in another
// order gives 0.85 and the other answer.

import (
	"encoding/json"
	"fmt"
	"strings"
	"testing"

	"github.com/Azbesciak/RealDecisionMaker/lib/logic/preference-func/electreIII"
	"github.com/Azbesciak/RealDecisionMaker/lib/model"
	"github.com/Azbesciak/RealDecisionMaker/lib/utils"
)

func hunt5c05f2Decide(t *testing.T, request string) map[string][2]int {
	t.Helper()
	var dm model.DecisionMaker
	if err := json.Unmarshal([]byte(request), &dm); err != nil {
		t.Fatalf("request does not parse: %v", err)
	}
	funcs := model.PreferenceFunctions{Functions: []model.PreferenceFunction{&electreIII.ElectreIIIPreferenceFunc{}}}
	choice := dm.MakeDecision(funcs, model.BiasListeners{}, &model.BiasMap{}, utils.RandomBasedSeedValueGenerator)
	res := map[string][2]int{}
	for _, e := range choice.Result {
		ev := e.Evaluation.(electreIII.ElectreIIIEvaluation)
		res[e.Alternative.Id] = [2]int{ev.AscendingIndex, ev.DescendingIndex}
	}
	return res
}

// a = (1,1,1,1), b = (0,1,1,1) on the criteria w,x,y,z with weights 0.15, 0.3, 0.35, 0.2.
// sigma(a,b) = 1, sigma(b,a) = 0.85 exactly.  Default function: s(1) = 0.15, cut level 1 - 0.15 = 0.85;
// 0.85 is not strictly below 0.85, so the next cut level is 0 and a S b needs 1 > 0.85 + 0.15, which is false:
// nobody outranks strictly, a and b are ex aequo in class 1 of both distillations.
func hunt5c05f2Request(order []string, distillation string) string {
	k := map[string]string{"w": "0.15", "x": "0.3", "y": "0.35", "z": "0.2"}
	crit := []string{}
	for _, id := range order {
		crit = append(crit, fmt.Sprintf(`{"id": "%s", "type": "gain"}`, id))
	}
	ele := []string{}
	for _, id := range []string{"w", "x", "y", "z"} {
		ele = append(ele, fmt.Sprintf(`"%s": {"k": %s}`, id, k[id]))
	}
	return fmt.Sprintf(`{
  "preferenceFunction": "electreIII",
  "knownAlternatives": [
    {"id": "a", "criteria": {"w": 1, "x": 1, "y": 1, "z": 1}},
    {"id": "b", "criteria": {"w": 0, "x": 1, "y": 1, "z": 1}}
  ],
  "choseToMake": ["a", "b"],
  "criteria": [%s],
  "methodParameters": {"electreCriteria": {%s}%s}
}`, strings.Join(crit, ", "), strings.Join(ele, ", "), distillation)
}

func TestHunt5C05ConcordanceSumDefaultFunction(t *testing.T) {
	got := hunt5c05f2Decide(t, hunt5c05f2Request([]string{"w", "x", "y", "z"}, ""))
	want := [2]int{1, 1}
	if got["a"] != want || got["b"] != want {
		t.Errorf("sigma(b,a) is exactly 0.85 = 1 - s(1): a and b must be ex aequo (class 1, 1); got a=%v b=%v", got["a"], got["b"])
	}
}

// the answer must not depend on the order in which the request lists the criteria
func TestHunt5C05ConcordanceSumListingOrder(t *testing.T) {
	first := hunt5c05f2Decide(t, hunt5c05f2Request([]string{"w", "x", "y", "z"}, ""))
	for _, order := range [][]string{{"z", "y", "x", "w"}, {"x", "w", "z", "y"}, {"w", "z", "x", "y"}, {"y", "x", "z", "w"}} {
		other := hunt5c05f2Decide(t, hunt5c05f2Request(order, ""))
		if other["a"] != first["a"] || other["b"] != first["b"] {
			t.Errorf("criteria listed as [w x y z]: a=%v b=%v; listed as %v: a=%v b=%v", first["a"], first["b"], order, other["a"], other["b"])
		}
	}
}

// weights 0.1, 0.2, 0.3 and the distillation function s = 0 (in the domain: non-negative, slope 0).
// a is better on c1 and c2 (0.1 + 0.2), b on c3 (0.3): sigma(a,b) = sigma(b,a) = 0.5 exactly, nobody outranks.
// observed: sigma(a,b) = 0.30000000000000004/0.6000000000000001 = 0.5, sigma(b,a) = 0.3/0.6000000000000001 =
// 0.4999999999999999, so a outranks b.
func TestHunt5C05ConcordanceSumZeroFunction(t *testing.T) {
	got := hunt5c05f2Decide(t, `{
  "preferenceFunction": "electreIII",
  "knownAlternatives": [
    {"id": "a", "criteria": {"c1": 2, "c2": 2, "c3": 0}},
    {"id": "b", "criteria": {"c1": 1, "c2": 1, "c3": 1}}
  ],
  "choseToMake": ["a", "b"],
  "criteria": [{"id": "c1", "type": "gain"}, {"id": "c2", "type": "gain"}, {"id": "c3", "type": "gain"}],
  "methodParameters": {
    "electreCriteria": {"c1": {"k": 0.1}, "c2": {"k": 0.2}, "c3": {"k": 0.3}},
    "electreDistillation": {"a": 0, "b": 0}
  }
}`)
	want := [2]int{1, 1}
	if got["a"] != want || got["b"] != want {
		t.Errorf("sigma(a,b) = sigma(b,a) = 1/2: a and b must be ex aequo (class 1, 1); got a=%v b=%v", got["a"], got["b"])
	}
}
