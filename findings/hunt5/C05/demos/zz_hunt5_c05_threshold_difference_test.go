package client

// hunt5 / C05 finding 1 - the difference of two criterion values is rounded before it is compared with q (p, v)
//
// Copy to:  lib/client/
// Run:      cd lib && go test -vet=off -count=1 -run TestHunt5C05ThresholdDifference ./client/
//
// calculateElectreResult computes  criteriaValueDifference := c2Val - c1Val  in float64 and tests
// q >= criteriaValueDifference.  For ordinary decimal inputs the difference that is exactly q comes out one ulp
// above q (0.4-0.3 = 0.10000000000000003, 2.5-2.4 = 0.10000000000000009, 7.9-7.8 = 0.10000000000000053 > 0.1), the
// alternative is no longer "within the indifference threshold", the credibility drops from 1 to 0 and the final
// indices change.

import (
	"encoding/json"
	"fmt"
	"testing"

	"github.com/Azbesciak/RealDecisionMaker/lib/logic/preference-func/electreIII"
	"github.com/Azbesciak/RealDecisionMaker/lib/model"
	"github.com/Azbesciak/RealDecisionMaker/lib/utils"
)

func hunt5c05f1Decide(t *testing.T, request string) map[string][2]int {
	t.Helper()
	var dm model.DecisionMaker
	if err := json.Unmarshal([]byte(request), &dm); err != nil {
		t.Fatalf("request does not parse: %v", err)
	}
	funcs := model.PreferenceFunctions{Functions: []model.PreferenceFunction{&electreIII.ElectreIIIPreferenceFunc{}}}
	choice := dm.MakeDecision(funcs, model.BiasListeners{}, &model.BiasMap{}, utils.RandomBasedSeedValueGenerator)
	res := map[string][2]int{}
	for _, e := range choice.Result {
		ev := e.Evaluation.(electreIII.ElectreIIIEvaluation)
		res[e.Alternative.Id] = [2]int{ev.AscendingIndex, ev.DescendingIndex}
	}
	return res
}

func hunt5c05f1Request(ctype string, low, high, q string) string {
	return fmt.Sprintf(`{
  "preferenceFunction": "electreIII",
  "knownAlternatives": [
    {"id": "a", "criteria": {"rating": %s}},
    {"id": "b", "criteria": {"rating": %s}}
  ],
  "choseToMake": ["a", "b"],
  "criteria": [{"id": "rating", "type": "%s"}],
  "methodParameters": {"electreCriteria": {"rating": {"k": 1, "q": {"b": %s}}}}
}`, low, high, ctype, q)
}

// the two alternatives differ by exactly the indifference threshold -> both outrank each other with credibility 1,
// nobody is strictly preferred, both distillations put them in class 1.
func TestHunt5C05ThresholdDifference(t *testing.T) {
	cases := []struct{ ctype, a, b, q string }{
		{"gain", "0.1", "0.2", "0.1"}, // control: 0.2-0.1 == 0.1 in float64, passes
		{"gain", "0.3", "0.4", "0.1"},
		{"gain", "2.4", "2.5", "0.1"},
		{"gain", "7.8", "7.9", "0.1"},
		{"cost", "0.8", "0.7", "0.1"},
		{"gain", "0.6", "0.9", "0.3"},
	}
	for _, c := range cases {
		got := hunt5c05f1Decide(t, hunt5c05f1Request(c.ctype, c.a, c.b, c.q))
		want := map[string][2]int{"a": {1, 1}, "b": {1, 1}}
		if got["a"] != want["a"] || got["b"] != want["b"] {
			t.Errorf("%s criterion, a=%s b=%s, q=%s: |a-b| equals q, so a and b are indifferent and must share class 1 "+
				"in both distillations; got (ascendingIndex, descendingIndex) a=%v b=%v", c.ctype, c.a, c.b, c.q, got["a"], got["b"])
		}
	}
}

// three alternatives, default distillation function: 0, 0.3, 0.4 with q = 0.1.
// exact: b and c indifferent (class 1), a class 2. observed: c 1, b 2, a 3.
func TestHunt5C05ThresholdDifferenceThree(t *testing.T) {
	got := hunt5c05f1Decide(t, `{
  "preferenceFunction": "electreIII",
  "knownAlternatives": [
    {"id": "a", "criteria": {"rating": 0}},
    {"id": "b", "criteria": {"rating": 0.3}},
    {"id": "c", "criteria": {"rating": 0.4}}
  ],
  "choseToMake": ["a", "b", "c"],
  "criteria": [{"id": "rating", "type": "gain"}],
  "methodParameters": {"electreCriteria": {"rating": {"k": 1, "q": {"b": 0.1}}}}
}`)
	want := map[string][2]int{"a": {2, 2}, "b": {1, 1}, "c": {1, 1}}
	for id, w := range want {
		if got[id] != w {
			t.Errorf("alternative %s: (ascendingIndex, descendingIndex) = %v, want %v (all: %v)", id, got[id], w, got)
		}
	}
}
