package client

// hunt5 / C16 - preference reversal: the new value is not max + min - v for ordinary decimal data
//
// Copy to:  lib/client/   TOGETHER WITH zz_hunt5_c16_interior_mirror_test.go (it uses hunt5C16Decide / hunt5C16Reversed from there)
// Run:      cd lib && GOFLAGS=-mod=mod GOPROXY=off GOSUMDB=off GOTOOLCHAIN=local \
//           go test -vet=off -count=1 -run TestHunt5C16Decimal ./client/
//
// Oracle: exact rational arithmetic on the decimal strings of the request (math/big.Rat), rounded once to float64.
// declared range [0, 1]:  0.9 -> 0.09999999999999998 (0.1),  0.7 -> 0.30000000000000004 (0.3),  0.8 -> 0.19999999999999996 (0.2)
// Half of all (range, value) triples with one decimal in [-2, 10] are affected (explore/compare).
// The threshold 0.1 that the mirror image of 0.9 should meet exactly is missed and another alternative wins.
// Passes with explore/suggested_fix_decimal.patch (mirror evaluated over the shortest decimal representations).

import (
	"math/big"
	"testing"
)

func hunt5C16DecimalOracle(t *testing.T, v, min, max string) float64 {
	t.Helper()
	r := func(s string) *big.Rat {
		x, ok := new(big.Rat).SetString(s)
		if !ok {
			t.Fatalf("bad decimal %q", s)
		}
		return x
	}
	sum := r(max)
	sum.Add(sum, r(min)).Sub(sum, r(v))
	f, _ := sum.Float64()
	return f
}

// q is the weaker criterion (sum of its considered values 1.6 against 10 for p): the only one reversed.
// declared range [0, 1]; a.q = 0.9 must become 0.1 and meet level 0 {p:5, q:0.1}; b.q = 0.95 becomes 0.05 and only meets level 1.
const hunt5C16DecimalRequest = `{
  "preferenceFunction": "satisfactionHeuristic",
  "knownAlternatives": [
    {"id": "a", "criteria": {"p": 5, "q": 0.9}},
    {"id": "b", "criteria": {"p": 5, "q": 0.95}},
    {"id": "c", "criteria": {"p": 5, "q": 0.7}},
    {"id": "d", "criteria": {"p": 5, "q": 0.8}}
  ],
  "criteria": [{"id": "p", "type": "gain"}, {"id": "q", "type": "gain", "valuesRange": {"min": 0, "max": 1}}],
  "choseToMake": ["b", "a"],
  "methodParameters": {
    "function": "thresholds",
    "params": {"thresholds": [{"p": 5, "q": 0.1}, {"p": 5, "q": 0}]},
    "currentChoice": "b"
  },
  "biases": [{"name": "preferenceReversal", "props": {"ordering": "weakest", "ratio": 0.5}}]
}`

func TestHunt5C16Decimal_NewValueIsMaxPlusMinMinusV(t *testing.T) {
	rev := hunt5C16Reversed(t, hunt5C16Decide(t, hunt5C16DecimalRequest))
	if rev.Id != "q" || rev.ValuesRange.Min != 0 || rev.ValuesRange.Max != 1 {
		t.Fatalf("expected q reversed in [0, 1], got %v in %v", rev.Id, rev.ValuesRange)
	}
	for id, v := range map[string]string{"a": "0.9", "b": "0.95", "c": "0.7", "d": "0.8"} {
		want := hunt5C16DecimalOracle(t, v, "0", "1")
		if got := rev.AlternativesValues[id]; got != want {
			t.Errorf("%s.q = %s in declared [0, 1] must be replaced by 1 + 0 - %s = %v, report says %v", id, v, v, want, got)
		}
	}
}

func TestHunt5C16Decimal_ThresholdAtTheMirroredValueIsMet(t *testing.T) {
	choice := hunt5C16Decide(t, hunt5C16DecimalRequest)
	if first := choice.Result[0].Alternative.Id; first != "a" {
		t.Errorf("winner must be a (q = 0.9 mirrored in [0, 1] is 0.1 and meets the threshold 0.1), got %v; a.q = %v",
			first, hunt5C16Reversed(t, choice).AlternativesValues["a"])
	}
}
