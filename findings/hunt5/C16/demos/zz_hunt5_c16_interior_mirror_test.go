package client

// hunt5 / C16 - preference reversal: an interior value is not mirrored to max + min - v
//
// Copy to:  lib/client/
// Run:      cd lib && GOFLAGS=-mod=mod GOPROXY=off GOSUMDB=off GOTOOLCHAIN=local \
//           go test -vet=off -count=1 -run TestHunt5C16 ./client/
//
// mirrorInRange (fix 9ed318e) measures the value from the nearer end of the range:
// max - (v - min)  or  min + (max - v). Both are rounded twice. For ordinary one-decimal data the
// result misses max + min - v although that number is a float64 and is the correctly rounded value of
// the exact sum of the three float64 operands (math/big oracle below):
//   observed range [0.1, 2],   v = 0.8  ->  1.2999999999999998   (1.3 expected; the pre-fix formula max - v + min gave 1.3)
//   observed range [0.2, 3],   v = 1.1  ->  2.0999999999999996   (2.1)
//   declared range [-2, 2],    v = -0.3 ->  0.30000000000000004  (0.3)
// A satisfaction threshold that the mirrored value should meet exactly is missed: another alternative wins.
// Passes with explore/suggested_fix_decimal.patch and with explore/alternative_fix_correctly_rounded_binary.patch.

import (
	"encoding/json"
	"math/big"
	"testing"

	preference_reversal "github.com/Azbesciak/RealDecisionMaker/lib/logic/biases/preference-reversal"
	"github.com/Azbesciak/RealDecisionMaker/lib/logic/limited-rationality/satisfaction"
	satisfaction_levels "github.com/Azbesciak/RealDecisionMaker/lib/logic/limited-rationality/satisfaction-levels"
	"github.com/Azbesciak/RealDecisionMaker/lib/model"
	criteria_ordering "github.com/Azbesciak/RealDecisionMaker/lib/model/criteria-ordering"
	"github.com/Azbesciak/RealDecisionMaker/lib/utils"
)

func hunt5C16Decide(t *testing.T, request string) *model.DecisionMakerChoice {
	t.Helper()
	var dm model.DecisionMaker
	if err := json.Unmarshal([]byte(request), &dm); err != nil {
		t.Fatal(err)
	}
	levels := []satisfaction_levels.SatisfactionLevelsSource{
		&satisfaction_levels.IdealDecreasingMulCoefficientSatisfaction,
		&satisfaction_levels.IdealSubtrCoefficientSatisfaction,
		&satisfaction_levels.DecreasingThresholds,
	}
	updates := satisfaction_levels.SatisfactionLevelsUpdateListeners{
		Listeners: satisfaction_levels.ListenersMap{
			satisfaction_levels.Thresholds:         &satisfaction_levels.DecreasingThresholds,
			satisfaction_levels.IdealDecreasingMul: &satisfaction_levels.IdealDecreasingMulCoefficientSatisfaction,
			satisfaction_levels.IdealSubtractive:   &satisfaction_levels.IdealSubtrCoefficientSatisfaction,
		},
	}
	funcs := model.PreferenceFunctions{Functions: []model.PreferenceFunction{
		satisfaction.NewSatisfaction(utils.RandomBasedSeedValueGenerator, levels),
	}}
	listeners := model.BiasListeners{Listeners: []model.BiasListener{
		satisfaction.NewSatisfactionBiasListener(updates),
	}}
	biases := model.BiasMap{
		preference_reversal.BiasName: preference_reversal.NewPreferenceReversal([]criteria_ordering.CriteriaOrderingResolver{
			&criteria_ordering.WeakestCriteriaOrderingResolver{},
			&criteria_ordering.StrongestCriteriaOrderingResolver{},
		}),
	}
	return dm.MakeDecision(funcs, listeners, &biases, utils.RandomBasedSeedValueGenerator)
}

// correctly rounded max + min - v over the float64 operands
func hunt5C16Oracle(v, min, max float64) float64 {
	s := new(big.Float).SetPrec(2200).SetFloat64(max)
	s.Add(s, new(big.Float).SetPrec(2200).SetFloat64(min))
	s.Sub(s, new(big.Float).SetPrec(2200).SetFloat64(v))
	f, _ := s.Float64()
	return f
}

func hunt5C16Reversed(t *testing.T, choice *model.DecisionMakerChoice) preference_reversal.ReversedPreferenceCriterion {
	t.Helper()
	if len(choice.Biases) != 1 {
		t.Fatalf("expected one applied bias, got %v", choice.Biases)
	}
	applied, ok := choice.Biases[0].(model.BiasParams)
	if !ok {
		t.Fatalf("unexpected report entry %#v", choice.Biases[0])
	}
	res, ok := applied.Props.(preference_reversal.PreferenceReversalResult)
	if !ok || len(res.ReversedPreferenceCriteria) != 1 {
		t.Fatalf("unexpected report %#v", applied.Props)
	}
	return res.ReversedPreferenceCriteria[0]
}

// q is the weaker criterion (its values over the considered alternatives sum to 2.8, those of p to 10) and the only
// one reversed (floor(2 * 0.5) = 1).
// Observed range of q over all known alternatives (c is known, not considered): [0.1, 2].
// a.q = 0.8 must become 2 + 0.1 - 0.8 = 1.3, which meets the first satisfaction level {p:5, q:1.3}: a wins.
const hunt5C16ObservedRange = `{
  "preferenceFunction": "satisfactionHeuristic",
  "knownAlternatives": [
    {"id": "a", "criteria": {"p": 5, "q": 0.8}},
    {"id": "b", "criteria": {"p": 5, "q": 2}},
    {"id": "c", "criteria": {"p": 5, "q": 0.1}}
  ],
  "criteria": [{"id": "p", "type": "gain"}, {"id": "q", "type": "gain"}],
  "choseToMake": ["b", "a"],
  "methodParameters": {
        "function": "thresholds",
    "params": {"thresholds": [{"p": 5, "q": 1.3}, {"p": 5, "q": 0.1}]},
    "currentChoice": "b"
  },
  "biases": [{"name": "preferenceReversal", "props": {"ordering": "weakest", "ratio": 0.5}}]
}`

func TestHunt5C16_InteriorValueIsMirroredToMaxPlusMinMinusV(t *testing.T) {
	choice := hunt5C16Decide(t, hunt5C16ObservedRange)
	rev := hunt5C16Reversed(t, choice)
	if rev.Id != "q" || rev.ValuesRange.Min != 0.1 || rev.ValuesRange.Max != 2 {
		t.Fatalf("expected q reversed in [0.1, 2], got %v in %v", rev.Id, rev.ValuesRange)
	}
	want := hunt5C16Oracle(0.8, 0.1, 2) // 1.3 - also what decimal arithmetic gives
	if want != 1.3 {
		t.Fatalf("oracle: %v", want)
	}
	if got := rev.AlternativesValues["a"]; got != want {
		t.Errorf("a.q = 0.8 in [0.1, 2] must be replaced by max + min - v = %v, report says %v", want, got)
	}
	// the end points are fine (fix 9ed318e)
	if rev.AlternativesValues["b"] != 0.1 || rev.AlternativesValues["c"] != 2 {
		t.Errorf("end points: %v", rev.AlternativesValues)
	}
}

func TestHunt5C16_ThresholdAtTheMirroredValueIsMet(t *testing.T) {
	choice := hunt5C16Decide(t, hunt5C16ObservedRange)
	// a.q -> 1.3 meets level 0 {p:5, q:1.3}; b.q -> 0.1 only meets level 1: a must be first
	if first := choice.Result[0].Alternative.Id; first != "a" {
		t.Errorf("winner must be a (q mirrored to 1.3 meets the threshold 1.3), got %v; a.q = %v",
			first, hunt5C16Reversed(t, choice).AlternativesValues["a"])
	}
}

// declared range [-2, 2]: the mirror is plain negation; -0.3 must become 0.3, the code answers 0.30000000000000004
// (and 0.2 becomes -0.19999999999999996, 0.1 becomes -0.10000000000000009)
const hunt5C16DeclaredRange = `{
  "preferenceFunction": "satisfactionHeuristic",
  "knownAlternatives": [
    {"id": "a", "criteria": {"p": 1, "q": -0.3}},
    {"id": "b", "criteria": {"p": 1, "q": 0.2}},
    {"id": "c", "criteria": {"p": 1, "q": 0.1}}
  ],
  "criteria": [{"id": "p", "type": "gain"}, {"id": "q", "type": "gain", "valuesRange": {"min": -2, "max": 2}}],
  "choseToMake": ["a", "b", "c"],
  "methodParameters": {
    "function": "thresholds",
    "params": {"thresholds": [{"p": 1, "q": -2}]}
  },
  "biases": [{"name": "preferenceReversal", "props": {"ordering": "weakest", "ratio": 0.5}}]
}`

func TestHunt5C16_DeclaredSymmetricRangeNegates(t *testing.T) {
	rev := hunt5C16Reversed(t, hunt5C16Decide(t, hunt5C16DeclaredRange))
	for id, v := range map[string]float64{"a": -0.3, "b": 0.2, "c": 0.1} {
		want := hunt5C16Oracle(v, -2, 2)
		if want != -v {
			t.Fatalf("oracle: %v for %v", want, v)
		}
		if got := rev.AlternativesValues[id]; got != want {
			t.Errorf("%s.q = %v in declared [-2, 2] must be replaced by %v, report says %v", id, v, want, got)
		}
	}
}
