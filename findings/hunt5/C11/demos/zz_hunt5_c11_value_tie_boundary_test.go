package majority

// hunt5 / C11 demo: criterion values that differ by EXACTLY the stated tie tolerance 1e-6
// ("value ties within 1e-6 count as equal") are treated as a tie or as a strict difference
// depending on the float64 rounding of the two decimal inputs.
//
// Copy to:  lib/logic/limited-rationality/majority/
// Run:      cd lib && GOFLAGS=-mod=mod GOPROXY=off GOSUMDB=off GOTOOLCHAIN=local \
//           go test -vet=off -count=1 -run TestHunt5C11 -v ./logic/limited-rationality/majority/
//
// The oracle works on the decimal strings of the request with math/big, not with float64.

import (
	"encoding/json"
	"fmt"
	"math/big"
	"testing"

	"github.com/Azbesciak/RealDecisionMaker/lib/model"
	"github.com/Azbesciak/RealDecisionMaker/lib/utils"
)

var hunt5Funcs = model.PreferenceFunctions{Functions: []model.PreferenceFunction{
	NewMajority(utils.RandomBasedSeedValueGenerator, []DrawResolver{
		&DrawAllowedResolver{}, &CurrentIsWinnerDrawResolver{}, &NewerIsWinnerResolver{}, &RandomWinnerResolver{},
	}),
}}

func hunt5Rat(s string) *big.Rat {
	r, ok := new(big.Rat).SetString(s)
	if !ok {
		panic(s)
	}
	return r
}

// request: two alternatives, criterion "quality" (gain, weight 2) on which a = lo + 0.000001 and b = lo,
// criterion "comfort" (gain, weight 1) on which b is better by a full unit. Search order a, b.
func hunt5Request(hi, lo, policy string) string {
	return fmt.Sprintf(`{
 "preferenceFunction": "majorityHeuristic",
 "knownAlternatives": [
  {"id": "a", "criteria": {"quality": %s, "comfort": 1}},
  {"id": "b", "criteria": {"quality": %s, "comfort": 2}}
 ],
 "choseToMake": ["a", "b"],
 "criteria": [{"id": "quality", "type": "gain"}, {"id": "comfort", "type": "gain"}],
 "methodParameters": {"weights": {"quality": 2, "comfort": 1}, "drawResolution": "%s"}
}`, hi, lo, policy)
}

func hunt5Decide(t *testing.T, body string) model.AlternativesRanking {
	var dm model.DecisionMaker
	if err := json.Unmarshal([]byte(body), &dm); err != nil {
		t.Fatal(err)
	}
	biases := model.BiasMap{}
	res := dm.MakeDecision(hunt5Funcs, model.BiasListeners{}, &biases, utils.RandomBasedSeedValueGenerator)
	return res.Result
}

// the decisive example: 0.020001 vs 0.02 on the heavy criterion is a tie (difference exactly 1e-6), so only
// "comfort" counts: b scores 1, a scores 0, b must be first. The twin request 0.010001 vs 0.01 is answered that way.
func TestHunt5C11_ValueTieAtTolerance_WinnerFlips(t *testing.T) {
	for _, pair := range [][2]string{{"0.010001", "0.01"}, {"0.020001", "0.02"}, {"0.100001", "0.1"}, {"0.300001", "0.3"}, {"2.400001", "2.4"}} {
		hi, lo := pair[0], pair[1]
		d := new(big.Rat).Sub(hunt5Rat(hi), hunt5Rat(lo))
		if d.Cmp(hunt5Rat("0.000001")) != 0 {
			t.Fatalf("bad test data %s %s", hi, lo)
		}
		ranking := hunt5Decide(t, hunt5Request(hi, lo, "allow"))
		first := ranking[0]
		last := ranking[1].Evaluation.(MajorityEvaluation)
		if first.Alternative.Id != "b" || last.Value != 0 || last.ComparedAlternativeValue != 1 {
			t.Errorf("quality %s vs %s (difference exactly 1e-6 = tie): want winner b, loser a with scores 0 : 1; got winner %s, loser %s with scores %v : %v",
				hi, lo, first.Alternative.Id, ranking[1].Alternative.Id, last.Value, last.ComparedAlternativeValue)
		}
	}
}

// systematic: every two-decimal value 0.00 .. 9.99 against the same value + 0.000001
func TestHunt5C11_ValueTieAtTolerance_Enumeration(t *testing.T) {
	bad, total := 0, 0
	for i := 0; i < 1000; i++ {
		lo := fmt.Sprintf("%d.%02d", i/100, i%100)
		hi := lo + "0001"
		ranking := hunt5Decide(t, hunt5Request(hi, lo, "current"))
		total++
		if ranking[0].Alternative.Id != "b" {
			bad++
			if bad <= 10 {
				t.Logf("quality %s vs %s: tie within 1e-6 expected (winner b 1:0), got winner %s, loser evaluation %+v",
					hi, lo, ranking[0].Alternative.Id, ranking[1].Evaluation)
			}
		}
	}
	if bad > 0 {
		t.Errorf("%d of %d pairs that differ by exactly 1e-6 were scored as a strict difference (the other %d as a tie)", bad, total, total-bad)
	}
}
