package client

// hunt5 / C15 demo 1: the number of omitted criteria is floor(n x ratio) computed in float64; for 50 criteria and
// ratio 0.58 the product is 28.999999999999996 and 28 criteria are omitted instead of 29 (= 50 x 0.58 exactly).
//
// Copy to:  lib/client/zz_hunt5_c15_pivot_floor_test.go
// Run:      cd lib && go test -vet=off -count=1 -run TestHunt5C15 ./client/

import (
	"encoding/json"
	"fmt"
	"math/big"
	"testing"

	criteria_omission "github.com/Azbesciak/RealDecisionMaker/lib/logic/biases/criteria-omission"
	weighted_sum "github.com/Azbesciak/RealDecisionMaker/lib/logic/preference-func/weighted-sum"
	"github.com/Azbesciak/RealDecisionMaker/lib/model"
	criteria_ordering "github.com/Azbesciak/RealDecisionMaker/lib/model/criteria-ordering"
	criteria_splitting "github.com/Azbesciak/RealDecisionMaker/lib/model/criteria-splitting"
	"github.com/Azbesciak/RealDecisionMaker/lib/utils"
)

// exact floor(n * ratio) for a ratio written as a decimal string
func hunt5ExactCount(n int, ratio string) int {
	r, ok := new(big.Rat).SetString(ratio)
	if !ok {
		panic(ratio)
	}
	p := new(big.Rat).Mul(r, big.NewRat(int64(n), 1))
	return int(new(big.Int).Div(p.Num(), p.Denom()).Int64())
}

func hunt5Decide(t *testing.T, request string) *model.DecisionMakerChoice {
	var dm model.DecisionMaker
	if err := json.Unmarshal([]byte(request), &dm); err != nil {
		t.Fatal(err)
	}
	funcs := model.PreferenceFunctions{Functions: []model.PreferenceFunction{&weighted_sum.WeightedSumPreferenceFunc{}}}
	listeners := model.BiasListeners{Listeners: []model.BiasListener{&weighted_sum.WeightedSumBiasListener{}}}
	ordering := []criteria_ordering.CriteriaOrderingResolver{
		&criteria_ordering.WeakestCriteriaOrderingResolver{},
		&criteria_ordering.StrongestCriteriaOrderingResolver{},
	}
	biases := model.BiasMap{criteria_omission.BiasName: criteria_omission.NewCriteriaOmission(ordering)}
	return dm.MakeDecision(funcs, listeners, &biases, utils.RandomBasedSeedValueGenerator)
}

func hunt5Request(n int, ratio string) string {
	criteria, weights, a, b := "", "", "", ""
	for i := 1; i <= n; i++ {
		sep := ","
		if i == 1 {
			sep = ""
		}
		id := fmt.Sprintf("c%02d", i)
		criteria += fmt.Sprintf(`%s{"id":"%s","type":"gain"}`, sep, id)
		weights += fmt.Sprintf(`%s"%s":%d`, sep, id, i)
		a += fmt.Sprintf(`%s"%s":%d`, sep, id, 1)
		b += fmt.Sprintf(`%s"%s":%d`, sep, id, 2)
	}
	return fmt.Sprintf(`{
 "preferenceFunction":"weightedSum",
 "knownAlternatives":[{"id":"a","criteria":{%s}},{"id":"b","criteria":{%s}}],
 "choseToMake":["a","b"],
 "criteria":[%s],
 "methodParameters":{"weights":{%s}},
 "biases":[{"name":"criteriaOmission","props":{"ratio":%s}}]
}`, a, b, criteria, weights, ratio)
}

// through MakeDecision: request as a client would post it (ratio is the JSON number 0.58)
func TestHunt5C15_OmittedCountIsFloorOfNTimesRatio_MakeDecision(t *testing.T) {
	for _, c := range []struct {
		n     int
		ratio string
	}{{50, "0.58"}, {90, "0.7"}, {100, "0.29"}, {100, "0.57"}, {100, "0.58"}} {
		res := hunt5Decide(t, hunt5Request(c.n, c.ratio))
		props := res.Biases[0].(model.BiasParams).Props.(criteria_omission.CriteriaOmissionResult)
		got, want := len(props.OmittedCriteria), hunt5ExactCount(c.n, c.ratio)
		if got != want {
			t.Errorf("n=%d ratio=%s: %d criteria omitted, floor(n x ratio) = %d (weakest kept: %s)",
				c.n, c.ratio, got, want, props.OmittedCriteria[len(props.OmittedCriteria)-1].Id)
		}
	}
}

// the split itself, all ratios with two decimals and up to 100 criteria, against exact rational arithmetic
func TestHunt5C15_SplitCountAgainstExactArithmetic(t *testing.T) {
	bad := 0
	for n := 1; n <= 100; n++ {
		criteria := make(model.Criteria, n)
		for i := range criteria {
			criteria[i] = model.Criterion{Id: fmt.Sprintf("c%d", i)}
		}
		for r := 0; r <= 100; r++ {
			ratio := fmt.Sprintf("%d.%02d", r/100, r%100)
			var props interface{} = utils.Map{}
			if err := json.Unmarshal([]byte(`{"ratio":`+ratio+`}`), &props); err != nil {
				t.Fatal(err)
			}
			split := criteria_splitting.Parse(&props).SplitCriteriaByOrdering(&criteria)
			if got, want := len(*split.Left), hunt5ExactCount(n, ratio); got != want {
				bad++
				t.Errorf("n=%d ratio=%s: split takes %d criteria, floor(n x ratio) = %d", n, ratio, got, want)
			}
		}
	}
	t.Logf("%d of 10100 (n, ratio) pairs wrong", bad)
}
