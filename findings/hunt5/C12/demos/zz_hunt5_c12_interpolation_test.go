package main

// hunt5 / C12 demo 1: the generated level threshold min + (max-min)*ratio (cost: max - (max-min)*ratio) is rounded three times;
// for ordinary decimals it lands one or more ulps on the wrong side of the exact level, and the alternative that sits exactly ON the
// level is eliminated although it is not worse than the level's threshold.
//
// copy to:  httpClient/   (package main)
// run:      cd httpClient && GOFLAGS=-mod=mod GOPROXY=off GOSUMDB=off GOTOOLCHAIN=local \
//           go test -modfile=/tmp/hunt5_out/C12/mod/go.mod -vet=off -count=1 -run TestHunt5C12Interpolation -v .
// (the modfile is httpClient/go.mod + `replace github.com/Azbesciak/RealDecisionMaker/lib => <this tree>/lib`)

import (
	"encoding/json"
	"fmt"
	"math/big"
	"net/http"
	"net/http/httptest"
	"strings"
	"testing"

	"github.com/gin-gonic/gin"
)

type h5aAlt struct{ id, val string }
type h5aRes struct {
	id    string
	level int
	thr   string // "" for a survivor
}

func h5aRat(s string) *big.Rat {
	r, ok := new(big.Rat).SetString(s)
	if !ok {
		panic(s)
	}
	return r
}

// exact (rational) execution of the statement for ONE criterion: levels ratio_0 = minValue, ratio_{i+1} = min(ratio_i + c, 1) resp.
// min((1+ratio_i)(1+c)-1, 1) while ratio_i < maxValue; threshold = min + (max-min)*ratio (gain) or max - (max-min)*ratio (cost)
func h5aOracle(fn string, cost bool, alts []h5aAlt, minV, coef, maxV string) []h5aRes {
	lo, hi := h5aRat(alts[0].val), h5aRat(alts[0].val)
	for _, a := range alts {
		v := h5aRat(a.val)
		if v.Cmp(lo) < 0 {
			lo = v
		}
		if v.Cmp(hi) > 0 {
			hi = v
		}
	}
	diff := new(big.Rat).Sub(hi, lo)
	one := big.NewRat(1, 1)
	r, c, mx := h5aRat(minV), h5aRat(coef), h5aRat(maxV)
	left := append([]h5aAlt{}, alts...)
	res := make([]h5aRes, len(alts))
	ins := len(alts) - 1
	idx := -1
levels:
	for len(left) > 1 && r.Cmp(mx) < 0 {
		idx++
		thr := new(big.Rat).Add(lo, new(big.Rat).Mul(diff, r))
		if cost {
			thr = new(big.Rat).Sub(hi, new(big.Rat).Mul(diff, r))
		}
		snapshot := append([]h5aAlt{}, left...)
		for _, a := range snapshot {
			v := h5aRat(a.val)
			worse := v.Cmp(thr) < 0
			if cost {
				worse = v.Cmp(thr) > 0
			}
			if worse {
				for i := range left {
					if left[i].id == a.id {
						left = append(append([]h5aAlt{}, left[:i]...), left[i+1:]...)
						break
					}
				}
				res[ins] = h5aRes{a.id, idx, thr.FloatString(18)}
				ins--
			}
			if len(left) <= 1 {
				break levels
			}
		}
		var nr *big.Rat
		if fn == "idealAdditiveCoefficient" {
			nr = new(big.Rat).Add(r, c)
		} else {
			nr = new(big.Rat).Sub(new(big.Rat).Mul(new(big.Rat).Add(one, r), new(big.Rat).Add(one, c)), one)
		}
		if nr.Cmp(one) > 0 {
			nr = one
		}
		r = nr
	}
	if len(alts) > 1 {
		idx++
	} else {
		idx = 0
	}
	for i, a := range left {
		res[i] = h5aRes{a.id, idx, ""}
	}
	return res
}

func h5aPost(t *testing.T, fn string, cost bool, alts []h5aAlt, minV, coef, maxV string) []h5aRes {
	gin.SetMode(gin.TestMode)
	var known, chosen []string
	for _, a := range alts {
		known = append(known, fmt.Sprintf(`{"id":%q,"criteria":{"c":%s}}`, a.id, a.val))
		chosen = append(chosen, fmt.Sprintf("%q", a.id))
	}
	tp := "gain"
	if cost {
		tp = "cost"
	}
	body := fmt.Sprintf(`{"preferenceFunction":"aspectEliminationHeuristic","knownAlternatives":[%s],"choseToMake":[%s],
 "criteria":[{"id":"c","type":%q}],
 "methodParameters":{"weights":{"c":1},"function":%q,"params":{"minValue":%s,"coefficient":%s,"maxValue":%s}}}`,
		strings.Join(known, ","), strings.Join(chosen, ","), tp, fn, minV, coef, maxV)
	w := httptest.NewRecorder()
	c, _ := gin.CreateTestContext(w)
	c.Request = httptest.NewRequest(http.MethodPost, "/api/decide", strings.NewReader(body))
	c.Request.Header.Set("Content-Type", "application/json")
	decideHandler(c)
	if w.Code != http.StatusOK {
		t.Fatalf("status %d: %s", w.Code, w.Body.String())
	}
	var resp struct {
		Result []struct {
			Alternative struct {
				Id string `json:"id"`
			} `json:"alternative"`
			Evaluation struct {
				NotSatisfiedThreshold map[string]json.Number `json:"notSatisfiedThreshold"`
				ThresholdsIndex       int                    `json:"thresholdsIndex"`
			} `json:"evaluation"`
		} `json:"result"`
	}
	dec := json.NewDecoder(strings.NewReader(w.Body.String()))
	dec.UseNumber()
	if err := dec.Decode(&resp); err != nil {
		t.Fatal(err)
	}
	var out []h5aRes
	for _, r := range resp.Result {
		thr := ""
		if n, ok := r.Evaluation.NotSatisfiedThreshold["c"]; ok {
			thr = n.String()
		}
		out = append(out, h5aRes{r.Alternative.Id, r.Evaluation.ThresholdsIndex, thr})
	}
	t.Logf("request: %s", body)
	return out
}

func h5aCheck(t *testing.T, name, fn string, cost bool, alts []h5aAlt, minV, coef, maxV string) {
	t.Run(name, func(t *testing.T) {
		exp := h5aOracle(fn, cost, alts, minV, coef, maxV)
		got := h5aPost(t, fn, cost, alts, minV, coef, maxV)
		t.Logf("exact arithmetic : %v", exp)
		t.Logf("POST /api/decide : %v", got)
		if len(exp) != len(got) {
			t.Fatalf("length")
		}
		for i := range exp {
			if exp[i].id != got[i].id || exp[i].level != got[i].level || (exp[i].thr == "") != (got[i].thr == "") {
				t.Errorf("rank %d: expected %s (level %d, failed threshold %q), got %s (level %d, failed threshold %q)",
					i+1, exp[i].id, exp[i].level, exp[i].thr, got[i].id, got[i].level, got[i].thr)
			}
		}
	})
}

func TestHunt5C12Interpolation(t *testing.T) {
	// gain criterion, values 0.02 / 0.2 / 0: the only level is 10% of the range [0, 0.2] = 0.02. 'm' is exactly on it and survives
	// together with 'b' (ranked first, it is listed first); the code computes 0.2*0.1 = 0.020000000000000004 and eliminates 'm' first of all
	h5aCheck(t, "gain_0.02_on_level_0.1_of_[0,0.2]", "idealAdditiveCoefficient", false,
		[]h5aAlt{{"m", "0.02"}, {"b", "0.2"}, {"w", "0"}}, "0.1", "0.5", "0.2")
	// same with the multiplied series (level 0 is minValue itself in both series)
	h5aCheck(t, "gain_multiplied_series", "idealMultipliedCoefficient", false,
		[]h5aAlt{{"m", "0.02"}, {"b", "0.2"}, {"w", "0"}}, "0.1", "0.5", "0.2")
	// cost criterion, values 0.06 / 0 / 0.6: level 0.9 of [0, 0.6] is 0.6 - 0.54 = 0.06; the code gets 0.05999999999999994
	h5aCheck(t, "cost_0.06_on_level_0.9_of_[0,0.6]", "idealAdditiveCoefficient", true,
		[]h5aAlt{{"m", "0.06"}, {"b", "0"}, {"w", "0.6"}}, "0.9", "0.5", "1")
	// range that does not start at 0: values 0.1 .. 0.8, level 0.3 is 0.1 + 0.7*0.3 = 0.31
	h5aCheck(t, "gain_0.31_on_level_0.3_of_[0.1,0.8]", "idealAdditiveCoefficient", false,
		[]h5aAlt{{"m", "0.31"}, {"b", "0.8"}, {"w", "0.1"}}, "0.3", "0.5", "0.4")
}
