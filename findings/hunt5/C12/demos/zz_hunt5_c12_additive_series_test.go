package main

// hunt5 / C12 demo 2: the additive series keeps its level ratio as a running float sum (current + coefficient). For coefficient 0.1 the
// sum is 0.30000000000000004 at level 3 (the level is above 30% of the range: the alternative that is exactly on the level is eliminated)
// and 0.7999999999999999 at level 8 (still "< maxValue" 0.8, so a level is walked that the series min(minValue + coefficient*i, 1),
// limited by maxValue, does not contain - with maxValue 0.3 the same series does stop before the level that equals maxValue).
//
// copy to:  httpClient/   (package main)
// run:      cd httpClient && GOFLAGS=-mod=mod GOPROXY=off GOSUMDB=off GOTOOLCHAIN=local \
//           go test -modfile=/tmp/hunt5_out/C12/mod/go.mod -vet=off -count=1 -run TestHunt5C12AdditiveSeries -v .
// (the modfile is httpClient/go.mod + `replace github.com/Azbesciak/RealDecisionMaker/lib => <this tree>/lib`)

import (
	"encoding/json"
	"fmt"
	"math/big"
	"net/http"
	"net/http/httptest"
	"strings"
	"testing"

	"github.com/gin-gonic/gin"
)

type h5bAlt struct{ id, val string }
type h5bRes struct {
	id    string
	level int
	thr   string // "" for a survivor
}

func h5bRat(s string) *big.Rat {
	r, ok := new(big.Rat).SetString(s)
	if !ok {
		panic(s)
	}
	return r
}

// exact (rational) execution of the statement for ONE criterion: levels ratio_0 = minValue, ratio_{i+1} = min(ratio_i + c, 1) resp.
// min((1+ratio_i)(1+c)-1, 1) while ratio_i < maxValue; threshold = min + (max-min)*ratio (gain) or max - (max-min)*ratio (cost)
func h5bOracle(fn string, cost bool, alts []h5bAlt, minV, coef, maxV string) []h5bRes {
	lo, hi := h5bRat(alts[0].val), h5bRat(alts[0].val)
	for _, a := range alts {
		v := h5bRat(a.val)
		if v.Cmp(lo) < 0 {
			lo = v
		}
		if v.Cmp(hi) > 0 {
			hi = v
		}
	}
	diff := new(big.Rat).Sub(hi, lo)
	one := big.NewRat(1, 1)
	r, c, mx := h5bRat(minV), h5bRat(coef), h5bRat(maxV)
	left := append([]h5bAlt{}, alts...)
	res := make([]h5bRes, len(alts))
	ins := len(alts) - 1
	idx := -1
levels:
	for len(left) > 1 && r.Cmp(mx) < 0 {
		idx++
		thr := new(big.Rat).Add(lo, new(big.Rat).Mul(diff, r))
		if cost {
			thr = new(big.Rat).Sub(hi, new(big.Rat).Mul(diff, r))
		}
		snapshot := append([]h5bAlt{}, left...)
		for _, a := range snapshot {
			v := h5bRat(a.val)
			worse := v.Cmp(thr) < 0
			if cost {
				worse = v.Cmp(thr) > 0
			}
			if worse {
				for i := range left {
					if left[i].id == a.id {
						left = append(append([]h5bAlt{}, left[:i]...), left[i+1:]...)
						break
					}
				}
				res[ins] = h5bRes{a.id, idx, thr.FloatString(18)}
				ins--
			}
			if len(left) <= 1 {
				break levels
			}
		}
		var nr *big.Rat
		if fn == "idealAdditiveCoefficient" {
			nr = new(big.Rat).Add(r, c)
		} else {
			nr = new(big.Rat).Sub(new(big.Rat).Mul(new(big.Rat).Add(one, r), new(big.Rat).Add(one, c)), one)
		}
		if nr.Cmp(one) > 0 {
			nr = one
		}
		r = nr
	}
	if len(alts) > 1 {
		idx++
	} else {
		idx = 0
	}
	for i, a := range left {
		res[i] = h5bRes{a.id, idx, ""}
	}
	return res
}

func h5bPost(t *testing.T, fn string, cost bool, alts []h5bAlt, minV, coef, maxV string) []h5bRes {
	gin.SetMode(gin.TestMode)
	var known, chosen []string
	for _, a := range alts {
		known = append(known, fmt.Sprintf(`{"id":%q,"criteria":{"c":%s}}`, a.id, a.val))
		chosen = append(chosen, fmt.Sprintf("%q", a.id))
	}
	tp := "gain"
	if cost {
		tp = "cost"
	}
	body := fmt.Sprintf(`{"preferenceFunction":"aspectEliminationHeuristic","knownAlternatives":[%s],"choseToMake":[%s],
 "criteria":[{"id":"c","type":%q}],
 "methodParameters":{"weights":{"c":1},"function":%q,"params":{"minValue":%s,"coefficient":%s,"maxValue":%s}}}`,
		strings.Join(known, ","), strings.Join(chosen, ","), tp, fn, minV, coef, maxV)
	w := httptest.NewRecorder()
	c, _ := gin.CreateTestContext(w)
	c.Request = httptest.NewRequest(http.MethodPost, "/api/decide", strings.NewReader(body))
	c.Request.Header.Set("Content-Type", "application/json")
	decideHandler(c)
	if w.Code != http.StatusOK {
		t.Fatalf("status %d: %s", w.Code, w.Body.String())
	}
	var resp struct {
		Result []struct {
			Alternative struct {
				Id string `json:"id"`
			} `json:"alternative"`
			Evaluation struct {
				NotSatisfiedThreshold map[string]json.Number `json:"notSatisfiedThreshold"`
				ThresholdsIndex       int                    `json:"thresholdsIndex"`
			} `json:"evaluation"`
		} `json:"result"`
	}
	dec := json.NewDecoder(strings.NewReader(w.Body.String()))
	dec.UseNumber()
	if err := dec.Decode(&resp); err != nil {
		t.Fatal(err)
	}
	var out []h5bRes
	for _, r := range resp.Result {
		thr := ""
		if n, ok := r.Evaluation.NotSatisfiedThreshold["c"]; ok {
			thr = n.String()
		}
		out = append(out, h5bRes{r.Alternative.Id, r.Evaluation.ThresholdsIndex, thr})
	}
	t.Logf("request: %s", body)
	return out
}

func h5bCheck(t *testing.T, name, fn string, cost bool, alts []h5bAlt, minV, coef, maxV string) {
	t.Run(name, func(t *testing.T) {
		exp := h5bOracle(fn, cost, alts, minV, coef, maxV)
		got := h5bPost(t, fn, cost, alts, minV, coef, maxV)
		t.Logf("exact arithmetic : %v", exp)
		t.Logf("POST /api/decide : %v", got)
		if len(exp) != len(got) {
			t.Fatalf("length")
		}
		for i := range exp {
			if exp[i].id != got[i].id || exp[i].level != got[i].level || (exp[i].thr == "") != (got[i].thr == "") {
				t.Errorf("rank %d: expected %s (level %d, failed threshold %q), got %s (level %d, failed threshold %q)",
					i+1, exp[i].id, exp[i].level, exp[i].thr, got[i].id, got[i].level, got[i].thr)
			}
		}
	})
}

func TestHunt5C12AdditiveSeries(t *testing.T) {
	// the most ordinary parameters: minValue 0, coefficient 0.1, maxValue 1. The levels below maxValue are 0, 0.1 .. 0.9 (indices 0..9);
	// 'm' (9.5 of [0, 10]) passes the last threshold 9 and survives with 'b'. The running sum reaches 0.9999999999999999 < 1, an eleventh
	// level with threshold 9.999999999999998 is walked and everything that is not at the very top of the range is eliminated
	h5bCheck(t, "extra_level_below_maxValue_1", "idealAdditiveCoefficient", false,
		[]h5bAlt{{"m", "9.5"}, {"b", "10"}, {"w", "0"}}, "0", "0.1", "1")
	// values 3 / 10 / 0, levels 0, 0.1, 0.2, 0.3 of [0, 10] = thresholds 0, 1, 2, 3: 'm' (3) passes all four and survives with 'b'.
	// the code's level 3 is 10*0.30000000000000004 = 3.0000000000000004: 'm' is reported as eliminated there
	h5bCheck(t, "drift_level_0.3", "idealAdditiveCoefficient", false,
		[]h5bAlt{{"m", "3"}, {"b", "10"}, {"w", "0"}}, "0", "0.1", "0.4")
	// cost criterion, values 4 / 0 / 10, coefficient 0.2: level 3 is 0.6, threshold 10 - 6 = 4. The running sum is 0.6000000000000001,
	// the threshold 3.999999999999999, and 'm' (cost 4) is eliminated
	h5bCheck(t, "drift_level_0.6_cost", "idealAdditiveCoefficient", true,
		[]h5bAlt{{"m", "4"}, {"b", "0"}, {"w", "10"}}, "0", "0.2", "0.7")
	// maxValue 0.8: the levels below maxValue are 0 .. 0.7 (indices 0..7); 'm' (7.5) passes them all and survives with 'b', index 8.
	// the code walks a ninth level 0.7999999999999999 < 0.8 and eliminates 'm' at index 8 with threshold 7.999999999999999
	h5bCheck(t, "extra_level_below_maxValue_0.8", "idealAdditiveCoefficient", false,
		[]h5bAlt{{"m", "7.5"}, {"b", "10"}, {"w", "0"}}, "0", "0.1", "0.8")
	// control: with maxValue 0.3 the running sum is 0.30000000000000004, not below 0.3, and the series stops as the exact one does
	h5bCheck(t, "control_maxValue_0.3", "idealAdditiveCoefficient", false,
		[]h5bAlt{{"m", "2.5"}, {"b", "10"}, {"w", "0"}}, "0", "0.1", "0.3")
}
