package main

// hunt5 / C12 demo 3: the multiplied series advances with (1+current)*(1+coefficient)-1. Adding 1 and taking it away again costs the
// low digits of the ratio: from minValue 0 the second level should be the coefficient itself, (1+0)*(1+0.1)-1 is 0.10000000000000009
// (the alternative exactly on 10% of the range is eliminated), and (1+0)*(1+0.2)-1 is 0.19999999999999996 < maxValue 0.2 (a level is
// walked that the series limited by maxValue does not contain).
//
// copy to:  httpClient/   (package main)
// run:      cd httpClient && GOFLAGS=-mod=mod GOPROXY=off GOSUMDB=off GOTOOLCHAIN=local \
//           go test -modfile=/tmp/hunt5_out/C12/mod/go.mod -vet=off -count=1 -run TestHunt5C12MultipliedSeries -v .
// (the modfile is httpClient/go.mod + `replace github.com/Azbesciak/RealDecisionMaker/lib => <this tree>/lib`)

import (
	"encoding/json"
	"fmt"
	"math/big"
	"net/http"
	"net/http/httptest"
	"strings"
	"testing"

	"github.com/gin-gonic/gin"
)

type h5cAlt struct{ id, val string }
type h5cRes struct {
	id    string
	level int
	thr   string // "" for a survivor
}

func h5cRat(s string) *big.Rat {
	r, ok := new(big.Rat).SetString(s)
	if !ok {
		panic(s)
	}
	return r
}

// exact (rational) execution of the statement for ONE criterion: levels ratio_0 = minValue, ratio_{i+1} = min(ratio_i + c, 1) resp.
// min((1+ratio_i)(1+c)-1, 1) while ratio_i < maxValue; threshold = min + (max-min)*ratio (gain) or max - (max-min)*ratio (cost)
func h5cOracle(fn string, cost bool, alts []h5cAlt, minV, coef, maxV string) []h5cRes {
	lo, hi := h5cRat(alts[0].val), h5cRat(alts[0].val)
	for _, a := range alts {
		v := h5cRat(a.val)
		if v.Cmp(lo) < 0 {
			lo = v
		}
		if v.Cmp(hi) > 0 {
			hi = v
		}
	}
	diff := new(big.Rat).Sub(hi, lo)
	one := big.NewRat(1, 1)
	r, c, mx := h5cRat(minV), h5cRat(coef), h5cRat(maxV)
	left := append([]h5cAlt{}, alts...)
	res := make([]h5cRes, len(alts))
	ins := len(alts) - 1
	idx := -1
levels:
	for len(left) > 1 && r.Cmp(mx) < 0 {
		idx++
		thr := new(big.Rat).Add(lo, new(big.Rat).Mul(diff, r))
		if cost {
			thr = new(big.Rat).Sub(hi, new(big.Rat).Mul(diff, r))
		}
		snapshot := append([]h5cAlt{}, left...)
		for _, a := range snapshot {
			v := h5cRat(a.val)
			worse := v.Cmp(thr) < 0
			if cost {
				worse = v.Cmp(thr) > 0
			}
			if worse {
				for i := range left {
					if left[i].id == a.id {
						left = append(append([]h5cAlt{}, left[:i]...), left[i+1:]...)
						break
					}
				}
				res[ins] = h5cRes{a.id, idx, thr.FloatString(18)}
				ins--
			}
			if len(left) <= 1 {
				break levels
			}
		}
		var nr *big.Rat
		if fn == "idealAdditiveCoefficient" {
			nr = new(big.Rat).Add(r, c)
		} else {
			nr = new(big.Rat).Sub(new(big.Rat).Mul(new(big.Rat).Add(one, r), new(big.Rat).Add(one, c)), one)
		}
		if nr.Cmp(one) > 0 {
			nr = one
		}
		r = nr
	}
	if len(alts) > 1 {
		idx++
	} else {
		idx = 0
	}
	for i, a := range left {
		res[i] = h5cRes{a.id, idx, ""}
	}
	return res
}

func h5cPost(t *testing.T, fn string, cost bool, alts []h5cAlt, minV, coef, maxV string) []h5cRes {
	gin.SetMode(gin.TestMode)
	var known, chosen []string
	for _, a := range alts {
		known = append(known, fmt.Sprintf(`{"id":%q,"criteria":{"c":%s}}`, a.id, a.val))
		chosen = append(chosen, fmt.Sprintf("%q", a.id))
	}
	tp := "gain"
	if cost {
		tp = "cost"
	}
	body := fmt.Sprintf(`{"preferenceFunction":"aspectEliminationHeuristic","knownAlternatives":[%s],"choseToMake":[%s],
 "criteria":[{"id":"c","type":%q}],
 "methodParameters":{"weights":{"c":1},"function":%q,"params":{"minValue":%s,"coefficient":%s,"maxValue":%s}}}`,
		strings.Join(known, ","), strings.Join(chosen, ","), tp, fn, minV, coef, maxV)
	w := httptest.NewRecorder()
	c, _ := gin.CreateTestContext(w)
	c.Request = httptest.NewRequest(http.MethodPost, "/api/decide", strings.NewReader(body))
	c.Request.Header.Set("Content-Type", "application/json")
	decideHandler(c)
	if w.Code != http.StatusOK {
		t.Fatalf("status %d: %s", w.Code, w.Body.String())
	}
	var resp struct {
		Result []struct {
			Alternative struct {
				Id string `json:"id"`
			} `json:"alternative"`
			Evaluation struct {
				NotSatisfiedThreshold map[string]json.Number `json:"notSatisfiedThreshold"`
				ThresholdsIndex       int                    `json:"thresholdsIndex"`
			} `json:"evaluation"`
		} `json:"result"`
	}
	dec := json.NewDecoder(strings.NewReader(w.Body.String()))
	dec.UseNumber()
	if err := dec.Decode(&resp); err != nil {
		t.Fatal(err)
	}
	var out []h5cRes
	for _, r := range resp.Result {
		thr := ""
		if n, ok := r.Evaluation.NotSatisfiedThreshold["c"]; ok {
			thr = n.String()
		}
		out = append(out, h5cRes{r.Alternative.Id, r.Evaluation.ThresholdsIndex, thr})
	}
	t.Logf("request: %s", body)
	return out
}

func h5cCheck(t *testing.T, name, fn string, cost bool, alts []h5cAlt, minV, coef, maxV string) {
	t.Run(name, func(t *testing.T) {
		exp := h5cOracle(fn, cost, alts, minV, coef, maxV)
		got := h5cPost(t, fn, cost, alts, minV, coef, maxV)
		t.Logf("exact arithmetic : %v", exp)
		t.Logf("POST /api/decide : %v", got)
		if len(exp) != len(got) {
			t.Fatalf("length")
		}
		for i := range exp {
			if exp[i].id != got[i].id || exp[i].level != got[i].level || (exp[i].thr == "") != (got[i].thr == "") {
				t.Errorf("rank %d: expected %s (level %d, failed threshold %q), got %s (level %d, failed threshold %q)",
					i+1, exp[i].id, exp[i].level, exp[i].thr, got[i].id, got[i].level, got[i].thr)
			}
		}
	})
}

func TestHunt5C12MultipliedSeries(t *testing.T) {
	// values 1 / 10 / 0; levels 0 and 0.1 (the next, 0.21, is not below maxValue 0.2): thresholds 0 and 1. 'm' (1) passes both
	h5cCheck(t, "drift_level_0.1", "idealMultipliedCoefficient", false,
		[]h5cAlt{{"m", "1"}, {"b", "10"}, {"w", "0"}}, "0", "0.1", "0.2")
	// minValue 0.1, coefficient 0.5: level 1 is 1.1*1.5-1 = 0.65, threshold 6.5; the code has ratio 0.6500000000000001, threshold 6.500000000000002
	h5cCheck(t, "drift_level_0.65", "idealMultipliedCoefficient", false,
		[]h5cAlt{{"m", "6.5"}, {"b", "10"}, {"w", "0"}}, "0.1", "0.5", "0.7")
	// minValue 0.5, coefficient 0.2, maxValue 0.8: level 1 would be 1.5*1.2-1 = 0.8, not below maxValue; the code has 0.7999999999999998 and
	// walks it: 'm' (7.5), which passed the only level 0.5, is eliminated with threshold 7.999999999999998
	h5cCheck(t, "extra_level_below_maxValue_0.8", "idealMultipliedCoefficient", false,
		[]h5cAlt{{"m", "7.5"}, {"b", "10"}, {"w", "0"}}, "0.5", "0.2", "0.8")
	// coefficient 0.2, maxValue 0.2: the only level below maxValue is 0 (nobody is worse than the minimum): all three survive in the
	// listed order. The code's second ratio is 0.19999999999999996 < 0.2: a level with threshold 1.9999999999999996 eliminates 'm' and 'w'
	h5cCheck(t, "extra_level_below_maxValue_0.2", "idealMultipliedCoefficient", false,
		[]h5cAlt{{"m", "1"}, {"b", "10"}, {"w", "0"}}, "0", "0.2", "0.2")
}
