package main

// C20 demo 8/9 - GET /api/preferenceFunctions: the entries of aspectEliminationHeuristic and electreIII are
// not parameter schemas of these methods.
//
// Copy to: httpClient/   (package main, next to main.go)
// Run (from httpClient/, with a modfile that replaces .../lib by this tree's lib):
//   go test -modfile=<modfile> -vet=off -count=1 -run 'TestHuntC20_Schema' .
//
//  - AspectEliminationHeuristic.MethodParameters() returns AspectEliminationHeuristic{} (the heuristic itself,
//    only unexported fields) instead of AspectEliminationHeuristicParams{}: the schema is
//    {"properties":{},"additionalProperties":false} - it allows nothing, although the method needs
//    function, params, weights (and accepts randomSeed, randomAlternativesOrdering).
//  - ElectreIIIInputParams is tagged json:"criteria" / json:"distillationFun", but ParseParams reads
//    methodParameters["electreCriteria"] / ["electreDistillation"]: a request written after the schema gets
//    400 "Criteria for electre not found in methodParameters".

import (
	"bytes"
	"encoding/json"
	"io/ioutil"
	"log"
	"net/http"
	"net/http/httptest"
	"testing"
	"time"

	"github.com/gin-gonic/gin"
)

func huntC20SchRouter() *gin.Engine {
	gin.SetMode(gin.ReleaseMode)
	gin.DefaultWriter = ioutil.Discard
	log.SetOutput(ioutil.Discard)
	r := gin.Default()
	api := r.Group("/api")
	api.POST("/decide", decideHandler)
	api.GET("/preferenceFunctions", functionsHandler)
	return r
}

// posts body to /api/decide; ok=false when no response arrived within the timeout
func huntC20SchPost(body string, timeout time.Duration) (code int, parsed map[string]interface{}, ok bool) {
	r := huntC20SchRouter()
	type res struct {
		code int
		body []byte
	}
	done := make(chan res, 1)
	go func() {
		w := httptest.NewRecorder()
		req, _ := http.NewRequest("POST", "/api/decide", bytes.NewReader([]byte(body)))
		req.Header.Set("Content-Type", "application/json")
		r.ServeHTTP(w, req)
		done <- res{w.Code, w.Body.Bytes()}
	}()
	select {
	case x := <-done:
		json.Unmarshal(x.body, &parsed)
		return x.code, parsed, true
	case <-time.After(timeout):
		return 0, nil, false
	}
}

func huntC20SchSchemas(t *testing.T) map[string]interface{} {
	r := huntC20SchRouter()
	w := httptest.NewRecorder()
	req, _ := http.NewRequest("GET", "/api/preferenceFunctions", nil)
	r.ServeHTTP(w, req)
	if w.Code != 200 {
		t.Fatalf("GET /api/preferenceFunctions: %d", w.Code)
	}
	var m map[string]interface{}
	if err := json.Unmarshal(w.Body.Bytes(), &m); err != nil {
		t.Fatal(err)
	}
	return m
}

func TestHuntC20_SchemaAspectEliminationIsEmpty(t *testing.T) {
	schemas := huntC20SchSchemas(t)
	if len(schemas) != 7 {
		t.Errorf("expected 7 methods, got %d", len(schemas))
	}
	s, _ := schemas["aspectEliminationHeuristic"].(map[string]interface{})
	props, _ := s["properties"].(map[string]interface{})
	for _, p := range []string{"function", "params", "weights"} {
		if _, ok := props[p]; !ok {
			t.Errorf("schema of aspectEliminationHeuristic does not list parameter %q; schema: %v", p, s)
		}
	}
	// every other method lists at least one parameter
	for name, raw := range schemas {
		s, _ := raw.(map[string]interface{})
		if props, _ := s["properties"].(map[string]interface{}); len(props) == 0 {
			t.Errorf("schema of %s has no properties", name)
		}
	}
}

func TestHuntC20_SchemaElectreNamesAreNotAccepted(t *testing.T) {
	schemas := huntC20SchSchemas(t)
	s, _ := schemas["electreIII"].(map[string]interface{})
	props, _ := s["properties"].(map[string]interface{})
	var names []string
	for k := range props {
		names = append(names, k)
	}
	// build methodParameters with the names the schema lists
	crit := `{"c1":{"k":1,"q":{"a":0,"b":1},"p":{"a":0,"b":2},"v":{"a":0,"b":3}},"c2":{"k":1,"q":{"a":0,"b":1},"p":{"a":0,"b":2},"v":{"a":0,"b":3}}}`
	mp := map[string]json.RawMessage{}
	for _, n := range names {
		if n == "criteria" || n == "electreCriteria" {
			mp[n] = json.RawMessage(crit)
		} else {
			mp[n] = json.RawMessage(`{"a":-0.15,"b":0.3}`)
		}
	}
	mpb, _ := json.Marshal(mp)
	body := `{"preferenceFunction":"electreIII","knownAlternatives":[{"id":"a","criteria":{"c1":1,"c2":5}},{"id":"b","criteria":{"c1":3,"c2":2}}],"choseToMake":["a","b"],` +
		`"criteria":[{"id":"c1","type":"gain"},{"id":"c2","type":"gain"}],"methodParameters":` + string(mpb) + `}`
	code, parsed, _ := huntC20SchPost(body, 5*time.Second)
	if code != 200 {
		t.Errorf("request built from the property names of the electreIII schema %v: expected 200, got %d: %v", names, code, parsed["error"])
	}
}
