package main

// C20 demo 3 - requests that never receive a response (endless loop in the satisfaction-level iteration).
//
// Copy to: httpClient/   (package main, next to main.go)
// Run (from httpClient/, with a modfile that replaces .../lib by this tree's lib):
//   go test -modfile=<modfile> -vet=off -count=1 -run TestHuntC20_TinyCoefficientNeverAnswered .
//
// The documented range of `coefficient` is (0, 1). With a coefficient below half an ulp of the current
// level (e.g. 1e-17) IdealCoefficientSatisfactionLevels.Next() does not change currentValue
// (0.9 - 1e-17 == 0.9, (1+x)*(1+1e-17)-1 == x), HasNext() stays true forever and the loops
// `for satisfactionLevels.HasNext()` in satisfaction.checkWithinSatisfactionLevels /
// aspect_elimination.checkWithinSatisfactionLevels never end (alternatives that do not meet the
// stuck threshold stay in leftToChoice). The handler goroutine spins at 100% CPU forever, the client
// never gets an answer; recover() cannot help. (coefficient 1e-9 or 0.9999999999999999 for the
// multiplied variant are "finite" but take years - same effect.)
// NOTE: on the current tree the test leaves spinning goroutines behind; they die with the test process.

import (
	"bytes"
	"encoding/json"
	"io/ioutil"
	"log"
	"net/http"
	"net/http/httptest"
	"testing"
	"time"

	"github.com/gin-gonic/gin"
)

func huntC20HangRouter() *gin.Engine {
	gin.SetMode(gin.ReleaseMode)
	gin.DefaultWriter = ioutil.Discard
	log.SetOutput(ioutil.Discard)
	r := gin.Default()
	api := r.Group("/api")
	api.POST("/decide", decideHandler)
	api.GET("/preferenceFunctions", functionsHandler)
	return r
}

// posts body to /api/decide; ok=false when no response arrived within the timeout
func huntC20HangPost(body string, timeout time.Duration) (code int, parsed map[string]interface{}, ok bool) {
	r := huntC20HangRouter()
	type res struct {
		code int
		body []byte
	}
	done := make(chan res, 1)
	go func() {
		w := httptest.NewRecorder()
		req, _ := http.NewRequest("POST", "/api/decide", bytes.NewReader([]byte(body)))
		req.Header.Set("Content-Type", "application/json")
		r.ServeHTTP(w, req)
		done <- res{w.Code, w.Body.Bytes()}
	}()
	select {
	case x := <-done:
		json.Unmarshal(x.body, &parsed)
		return x.code, parsed, true
	case <-time.After(timeout):
		return 0, nil, false
	}
}

const huntC20HangAlts = `"knownAlternatives":[{"id":"a","criteria":{"c1":1,"c2":5}},{"id":"b","criteria":{"c1":3,"c2":2}},{"id":"c","criteria":{"c1":2,"c2":9}}],"choseToMake":["a","b","c"],"criteria":[{"id":"c1","type":"gain"},{"id":"c2","type":"gain"}]`

func TestHuntC20_TinyCoefficientNeverAnswered(t *testing.T) {
	cases := map[string]string{
		"satisfactionHeuristic/idealSubtractiveCoefficient": `{"preferenceFunction":"satisfactionHeuristic",` + huntC20HangAlts +
			`,"methodParameters":{"function":"idealSubtractiveCoefficient","params":{"maxValue":0.9,"minValue":0.1,"coefficient":1e-17}}}`,
		"aspectEliminationHeuristic/idealMultipliedCoefficient": `{"preferenceFunction":"aspectEliminationHeuristic",` + huntC20HangAlts +
			`,"methodParameters":{"weights":{"c1":1,"c2":2},"function":"idealMultipliedCoefficient","params":{"maxValue":0.9,"minValue":0,"coefficient":1e-17}}}`,
		// a and b are eliminated by the first thresholds, c and d pass them; the level is stuck at 0.5
		"aspectEliminationHeuristic/idealAdditiveCoefficient": `{"preferenceFunction":"aspectEliminationHeuristic",` +
			`"knownAlternatives":[{"id":"a","criteria":{"c1":1,"c2":5}},{"id":"b","criteria":{"c1":3,"c2":2}},{"id":"c","criteria":{"c1":2,"c2":9}},{"id":"d","criteria":{"c1":3,"c2":9}}],` +
			`"choseToMake":["a","b","c","d"],"criteria":[{"id":"c1","type":"gain"},{"id":"c2","type":"gain"}]` +
			`,"methodParameters":{"weights":{"c1":1,"c2":2},"function":"idealAdditiveCoefficient","params":{"maxValue":0.9,"minValue":0.5,"coefficient":1e-17}}}`,
	}
	for name, body := range cases {
		code, _, ok := huntC20HangPost(body, 5*time.Second)
		if !ok {
			t.Errorf("%s with coefficient 1e-17 (inside the documented range (0,1)): no response within 5s - the handler loops forever", name)
		} else if code != 200 && code != 400 {
			t.Errorf("%s: unexpected status %d", name, code)
		}
	}
}
