package main

// C20 demo 1 - a single ~5 KB request makes the server process EXIT ("fatal error: out of memory").
//
// Copy to: httpClient/   (package main, next to main.go)
// Run (from httpClient/, with a modfile that replaces .../lib by this tree's lib):
//   go test -modfile=<modfile> -vet=off -count=1 -run TestHuntC20_ChoquetOmissionKillsProcess .
//
// The request: choquetIntegral with 64 gain criteria, ONE weight (for the union of all criteria), two
// alternatives whose values are all equal, and a criteriaOmission bias with ratio 0.44 (28 criteria are
// omitted, 36 are left).
//   - choquet.PowerSetSize(64) = int(math.Pow(2,64)) overflows (amd64: MinInt64), so EachSubSet does not
//     iterate and the "all weights available" validation is skipped;
//   - ChoquetIntegralBiasListener.OnCriteriaRemoved calls PowerSet(36 names), which starts with
//     make([][]string, 0, 2^36) = 1.6 TB  ->  runtime: out of memory  -> the process dies. This is a fatal
//     error, not a panic: the deferred recover() in decideHandler cannot catch it.
// The test starts the real router (decideHandler/functionsHandler) in a CHILD process (re-exec of the test
// binary) so that the crash does not take the test runner down. As a safety net only, the child limits its
// address space to 16 GB (on hosts with vm.overcommit_memory=1 the 1.6 TB allocation would succeed and the
// loop would then really fill the memory). On the 62 GB host used for the hunt the plain server binary died
// the same way WITHOUT any limit.

import (
	"bufio"
	"bytes"
	"fmt"
	"io/ioutil"
	"log"
	"net/http"
	"net/http/httptest"
	"os"
	"os/exec"
	"strings"
	"syscall"
	"testing"
	"time"

	"github.com/gin-gonic/gin"
)

func huntC20OomRouter() *gin.Engine {
	gin.SetMode(gin.ReleaseMode)
	gin.DefaultWriter = ioutil.Discard
	log.SetOutput(ioutil.Discard)
	r := gin.Default()
	api := r.Group("/api")
	api.POST("/decide", decideHandler)
	api.GET("/preferenceFunctions", functionsHandler)
	return r
}

func huntC20OomKillerBody() string {
	const n = 64
	var crit, vals, ids []string
	for i := 0; i < n; i++ {
		id := fmt.Sprintf("k%02d", i)
		ids = append(ids, id)
		crit = append(crit, fmt.Sprintf(`{"id":"%s","type":"gain"}`, id))
		vals = append(vals, fmt.Sprintf(`"%s":1`, id))
	}
	v := strings.Join(vals, ",")
	return fmt.Sprintf(`{"preferenceFunction":"choquetIntegral",`+
		`"knownAlternatives":[{"id":"a","criteria":{%s}},{"id":"b","criteria":{%s}}],"choseToMake":["a","b"],`+
		`"criteria":[%s],"methodParameters":{"weights":{"%s":1}},`+
		`"biases":[{"name":"criteriaOmission","props":{"ratio":0.44}}]}`,
		v, v, strings.Join(crit, ","), strings.Join(ids, ","))
}

const huntC20OomOkBody = `{"preferenceFunction":"weightedSum","knownAlternatives":[{"id":"a","criteria":{"c1":1}},{"id":"b","criteria":{"c1":3}}],"choseToMake":["a","b"],"criteria":[{"id":"c1","type":"gain"}],"methodParameters":{"weights":{"c1":1}}}`

func TestHuntC20_ChoquetOmissionKillsProcess(t *testing.T) {
	if os.Getenv("HUNT_C20_OOM_CHILD") == "1" {
		lim := syscall.Rlimit{Cur: 16 << 30, Max: 16 << 30}
		_ = syscall.Setrlimit(syscall.RLIMIT_AS, &lim)
		srv := httptest.NewServer(huntC20OomRouter())
		fmt.Printf("ADDR %s\n", srv.URL)
		os.Stdout.Sync()
		time.Sleep(90 * time.Second) // self destruct
		os.Exit(0)
	}
	cmd := exec.Command(os.Args[0], "-test.run=^TestHuntC20_ChoquetOmissionKillsProcess$")
	cmd.Env = append(os.Environ(), "HUNT_C20_OOM_CHILD=1")
	var stderr bytes.Buffer
	cmd.Stderr = &stderr
	out, err := cmd.StdoutPipe()
	if err != nil {
		t.Fatal(err)
	}
	if err := cmd.Start(); err != nil {
		t.Fatal(err)
	}
	exited := make(chan error, 1)
	addrCh := make(chan string, 1)
	go func() {
		sc := bufio.NewScanner(out)
		for sc.Scan() {
			if strings.HasPrefix(sc.Text(), "ADDR ") {
				addrCh <- strings.TrimPrefix(sc.Text(), "ADDR ")
			}
		}
		exited <- cmd.Wait()
	}()
	defer cmd.Process.Kill()
	var addr string
	select {
	case addr = <-addrCh:
	case <-time.After(20 * time.Second):
		t.Fatal("server child did not start")
	}
	post := func(body string, timeout time.Duration) (int, error) {
		c := http.Client{Timeout: timeout}
		resp, err := c.Post(addr+"/api/decide", "application/json", strings.NewReader(body))
		if err != nil {
			return 0, err
		}
		defer resp.Body.Close()
		ioutil.ReadAll(resp.Body)
		return resp.StatusCode, nil
	}
	if code, err := post(huntC20OomOkBody, 5*time.Second); err != nil || code != 200 {
		t.Fatalf("warm-up request failed: %v %v", code, err)
	}
	code, err := post(huntC20OomKillerBody(), 30*time.Second)
	if err != nil {
		t.Errorf("the Choquet/omission request received no response: %v", err)
	} else if code != 200 && code != 400 {
		t.Errorf("the Choquet/omission request was answered with %d", code)
	}
	select {
	case <-exited:
		tail := stderr.String()
		if i := strings.Index(tail, "goroutine "); i > 0 {
			tail = tail[:i]
		}
		t.Fatalf("the server process EXITED after one request; its stderr starts with:\n%s", tail)
	case <-time.After(500 * time.Millisecond):
	}
	if code, err := post(huntC20OomOkBody, 5*time.Second); err != nil || code != 200 {
		t.Errorf("server does not answer later requests: code=%v err=%v", code, err)
	}
}
