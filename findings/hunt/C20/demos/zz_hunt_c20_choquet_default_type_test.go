package main

// C20 demo 7 - a valid Choquet request whose criteria rely on the documented default type (gain) is rejected.
//
// Copy to: httpClient/   (package main, next to main.go)
// Run (from httpClient/, with a modfile that replaces .../lib by this tree's lib):
//   go test -modfile=<modfile> -vet=off -count=1 -run TestHuntC20_ChoquetRejectsDefaultGainType .
//
// README: "Criteria - ... name and the type (`gain` [default] or `cost`...)"; Criterion.IsGain()/Multiplier()
// treat every type but "cost" as gain and every other method accepts criteria without "type".
// choquet.validateAllCriteriaAreGain compares c.Type != model.Gain, so Type "" is refused with
// "c1: only Gain criteria acceptable for Choquet integral".

import (
	"bytes"
	"encoding/json"
	"io/ioutil"
	"log"
	"net/http"
	"net/http/httptest"
	"testing"
	"time"

	"github.com/gin-gonic/gin"
)

func huntC20CdtRouter() *gin.Engine {
	gin.SetMode(gin.ReleaseMode)
	gin.DefaultWriter = ioutil.Discard
	log.SetOutput(ioutil.Discard)
	r := gin.Default()
	api := r.Group("/api")
	api.POST("/decide", decideHandler)
	api.GET("/preferenceFunctions", functionsHandler)
	return r
}

// posts body to /api/decide; ok=false when no response arrived within the timeout
func huntC20CdtPost(body string, timeout time.Duration) (code int, parsed map[string]interface{}, ok bool) {
	r := huntC20CdtRouter()
	type res struct {
		code int
		body []byte
	}
	done := make(chan res, 1)
	go func() {
		w := httptest.NewRecorder()
		req, _ := http.NewRequest("POST", "/api/decide", bytes.NewReader([]byte(body)))
		req.Header.Set("Content-Type", "application/json")
		r.ServeHTTP(w, req)
		done <- res{w.Code, w.Body.Bytes()}
	}()
	select {
	case x := <-done:
		json.Unmarshal(x.body, &parsed)
		return x.code, parsed, true
	case <-time.After(timeout):
		return 0, nil, false
	}
}

func TestHuntC20_ChoquetRejectsDefaultGainType(t *testing.T) {
	alts := `"knownAlternatives":[{"id":"a","criteria":{"c1":1,"c2":5}},{"id":"b","criteria":{"c1":3,"c2":2}}],"choseToMake":["a","b"],`
	params := `"methodParameters":{"weights":{"c1":0.3,"c2":0.4,"c1,c2":1}}}`
	explicit := `{"preferenceFunction":"choquetIntegral",` + alts + `"criteria":[{"id":"c1","type":"gain"},{"id":"c2","type":"gain"}],` + params
	defaulted := `{"preferenceFunction":"choquetIntegral",` + alts + `"criteria":[{"id":"c1"},{"id":"c2"}],` + params
	if code, _, _ := huntC20CdtPost(explicit, 5*time.Second); code != 200 {
		t.Fatalf("control with explicit type gain: expected 200, got %d", code)
	}
	code, parsed, _ := huntC20CdtPost(defaulted, 5*time.Second)
	if code != 200 {
		t.Errorf("criteria without \"type\" (documented default: gain): expected 200, got %d, error: %v", code, parsed["error"])
	}
	// the same criteria are accepted without type by the other weight-only methods
	ws := `{"preferenceFunction":"owa",` + alts + `"criteria":[{"id":"c1"},{"id":"c2"}],"methodParameters":{"weights":{"c1":0.3,"c2":0.4}}}`
	if code, _, _ := huntC20CdtPost(ws, 5*time.Second); code != 200 {
		t.Errorf("owa without type: %d", code)
	}
}
