package main

// C20 demo 4 - constraint violations inside bias props are only detected when the bias happens to be applied.
//
// Copy to: httpClient/   (package main, next to main.go)
// Run (from httpClient/, with a modfile that replaces .../lib by this tree's lib):
//   go test -modfile=<modfile> -vet=off -count=1 -run TestHuntC20_BiasPropsNotValidatedWhenNotApplied .
//
// DecisionMaker.processBiases only calls Bias.Apply (where ratio / ordering / function names / anchoring
// alternatives are parsed and validated) when applyProbability > generator(). With applyProbability 0
// (or < 1 and an unlucky biasApplyRandomSeed) the very same invalid request is answered 200 with a ranking.
// With applyProbability 0.5 the outcome flips with biasApplyRandomSeed (seed 2 -> 400, seeds 0,1,3 -> 200).

import (
	"bytes"
	"encoding/json"
	"io/ioutil"
	"log"
	"net/http"
	"net/http/httptest"
	"testing"
	"time"

	"github.com/gin-gonic/gin"
)

func huntC20LazyRouter() *gin.Engine {
	gin.SetMode(gin.ReleaseMode)
	gin.DefaultWriter = ioutil.Discard
	log.SetOutput(ioutil.Discard)
	r := gin.Default()
	api := r.Group("/api")
	api.POST("/decide", decideHandler)
	api.GET("/preferenceFunctions", functionsHandler)
	return r
}

// posts body to /api/decide; ok=false when no response arrived within the timeout
func huntC20LazyPost(body string, timeout time.Duration) (code int, parsed map[string]interface{}, ok bool) {
	r := huntC20LazyRouter()
	type res struct {
		code int
		body []byte
	}
	done := make(chan res, 1)
	go func() {
		w := httptest.NewRecorder()
		req, _ := http.NewRequest("POST", "/api/decide", bytes.NewReader([]byte(body)))
		req.Header.Set("Content-Type", "application/json")
		r.ServeHTTP(w, req)
		done <- res{w.Code, w.Body.Bytes()}
	}()
	select {
	case x := <-done:
		json.Unmarshal(x.body, &parsed)
		return x.code, parsed, true
	case <-time.After(timeout):
		return 0, nil, false
	}
}

func TestHuntC20_BiasPropsNotValidatedWhenNotApplied(t *testing.T) {
	base := `{"preferenceFunction":"weightedSum","knownAlternatives":[{"id":"a","criteria":{"c1":1,"c2":5}},{"id":"b","criteria":{"c1":3,"c2":2}}],"choseToMake":["a","b"],` +
		`"criteria":[{"id":"c1","type":"gain"},{"id":"c2","type":"gain"}],"methodParameters":{"weights":{"c1":1,"c2":1}},`
	cases := map[string]string{
		"out-of-range ratio 7":               `{"name":"criteriaOmission","props":{"ratio":7}}`,
		"unknown ordering":                   `{"name":"preferenceReversal","props":{"ordering":"bogus","ratio":0.5}}`,
		"unknown fatigue function":           `{"name":"fatigue","props":{"function":"bogus"}}`,
		"unknown anchoring alternative":      `{"name":"anchoring","props":{"anchoringAlternatives":[{"alternative":"nope","coefficient":1}],"referencePoints":{"function":"ideal"},"loss":{"function":"linear","params":{"a":1}},"gain":{"function":"linear","params":{"a":1}},"applier":{"function":"inline"}}}`,
		"out-of-range mixingRatio":           `{"name":"criteriaMixing","props":{"mixingRatio":5}}`,
		"unknown reference criterion type":   `{"name":"criteriaConcealment","props":{"referenceCriterionType":"bogus"}}`,
		"max lower than min":                 `{"name":"criteriaOmission","props":{"ratio":0.5,"min":2,"max":1}}`,
	}
	for name, bias := range cases {
		// control: applied for sure -> rejected
		code, _, ok := huntC20LazyPost(base+`"biases":[`+bias+`]}`, 5*time.Second)
		if !ok || code != 400 {
			t.Errorf("control %s, applyProbability 1: expected 400, got %d", name, code)
		}
		withP := `{"applyProbability":0,` + bias[1:]
		code, parsed, ok := huntC20LazyPost(base+`"biases":[`+withP+`]}`, 5*time.Second)
		if _, ranked := parsed["result"]; !ok || code != 400 || ranked {
			t.Errorf("%s with applyProbability 0: expected 400, got %d (ranking returned: %v)", name, code, ranked)
		}
	}
	// same invalid request, different seeds of the apply-probability generator
	codes := map[int]int{}
	for seed := 0; seed < 4; seed++ {
		body := base + `"biasApplyRandomSeed":` + string(rune('0'+seed)) + `,"biases":[{"name":"criteriaOmission","applyProbability":0.5,"props":{"ratio":7}}]}`
		code, _, _ := huntC20LazyPost(body, 5*time.Second)
		codes[seed] = code
		if code != 400 {
			t.Errorf("ratio 7, applyProbability 0.5, biasApplyRandomSeed %d: expected 400, got %d", seed, code)
		}
	}
	t.Logf("status per biasApplyRandomSeed for the same invalid props: %v", codes)
}
