package main

// C20 demo 2 - Choquet with 63 or more criteria: missing weights are NOT rejected, a ranking is returned.
//
// Copy to: httpClient/   (package main, next to main.go)
// Run (from httpClient/, with a modfile that replaces .../lib by this tree's lib):
//   go test -modfile=<modfile> -vet=off -count=1 -run TestHuntC20_ChoquetMissingWeightsAnsweredWithRanking .
//
// choquet.PowerSetSize(n) = int(math.Pow(2, n)) overflows for n >= 63 (amd64: MinInt64), so
// EachSubSet(...) in validateAllWeightsAvailable does not iterate at all and no weight is required.
// With all criterion values of an alternative equal, the evaluation only needs the weight of the union
// of all criteria, so the request below (1 weight given, 2^63-2 missing) is answered 200 with a ranking.
// The same request with 62 criteria is (correctly) answered 400 "weight for criteria union 'k00' not found".

import (
	"bytes"
	"encoding/json"
	"io/ioutil"
	"log"
	"net/http"
	"net/http/httptest"
	"testing"
	"time"

	"github.com/gin-gonic/gin"
)

func huntC20CmwRouter() *gin.Engine {
	gin.SetMode(gin.ReleaseMode)
	gin.DefaultWriter = ioutil.Discard
	log.SetOutput(ioutil.Discard)
	r := gin.Default()
	api := r.Group("/api")
	api.POST("/decide", decideHandler)
	api.GET("/preferenceFunctions", functionsHandler)
	return r
}

// posts body to /api/decide; ok=false when no response arrived within the timeout
func huntC20CmwPost(body string, timeout time.Duration) (code int, parsed map[string]interface{}, ok bool) {
	r := huntC20CmwRouter()
	type res struct {
		code int
		body []byte
	}
	done := make(chan res, 1)
	go func() {
		w := httptest.NewRecorder()
		req, _ := http.NewRequest("POST", "/api/decide", bytes.NewReader([]byte(body)))
		req.Header.Set("Content-Type", "application/json")
		r.ServeHTTP(w, req)
		done <- res{w.Code, w.Body.Bytes()}
	}()
	select {
	case x := <-done:
		json.Unmarshal(x.body, &parsed)
		return x.code, parsed, true
	case <-time.After(timeout):
		return 0, nil, false
	}
}

func huntC20CmwBody(n int) string {
	crit, vals, ids := "", "", ""
	for i := 0; i < n; i++ {
		id := "k" + string(rune('0'+i/10)) + string(rune('0'+i%10))
		if i > 0 {
			crit, vals, ids = crit+",", vals+",", ids+","
		}
		crit += `{"id":"` + id + `","type":"gain"}`
		vals += `"` + id + `":1`
		ids += id
	}
	return `{"preferenceFunction":"choquetIntegral","knownAlternatives":[{"id":"a","criteria":{` + vals + `}},{"id":"b","criteria":{` + vals + `}}],` +
		`"choseToMake":["a","b"],"criteria":[` + crit + `],"methodParameters":{"weights":{"` + ids + `":1}}}`
}

func TestHuntC20_ChoquetMissingWeightsAnsweredWithRanking(t *testing.T) {
	for _, n := range []int{3, 62, 63, 64} {
		code, parsed, ok := huntC20CmwPost(huntC20CmwBody(n), 10*time.Second)
		if !ok {
			t.Fatalf("%d criteria: no response", n)
		}
		if _, ranked := parsed["result"]; code != 400 || ranked {
			t.Errorf("%d criteria, only the weight of the full union given: expected 400 (missing weights), got %d, ranking returned: %v", n, code, ranked)
		}
	}
}
