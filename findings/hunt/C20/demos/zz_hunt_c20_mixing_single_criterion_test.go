package main

// C20 demo 5 - criteriaMixing returns before parsing its props when there are fewer than 2 criteria,
// so an out-of-range mixingRatio / unknown referenceCriterionType is answered with a ranking.
//
// Copy to: httpClient/   (package main, next to main.go)
// Run (from httpClient/, with a modfile that replaces .../lib by this tree's lib):
//   go test -modfile=<modfile> -vet=off -count=1 -run TestHuntC20_MixingPropsNotValidatedWithSingleCriterion .

import (
	"bytes"
	"encoding/json"
	"io/ioutil"
	"log"
	"net/http"
	"net/http/httptest"
	"testing"
	"time"

	"github.com/gin-gonic/gin"
)

func huntC20MixRouter() *gin.Engine {
	gin.SetMode(gin.ReleaseMode)
	gin.DefaultWriter = ioutil.Discard
	log.SetOutput(ioutil.Discard)
	r := gin.Default()
	api := r.Group("/api")
	api.POST("/decide", decideHandler)
	api.GET("/preferenceFunctions", functionsHandler)
	return r
}

// posts body to /api/decide; ok=false when no response arrived within the timeout
func huntC20MixPost(body string, timeout time.Duration) (code int, parsed map[string]interface{}, ok bool) {
	r := huntC20MixRouter()
	type res struct {
		code int
		body []byte
	}
	done := make(chan res, 1)
	go func() {
		w := httptest.NewRecorder()
		req, _ := http.NewRequest("POST", "/api/decide", bytes.NewReader([]byte(body)))
		req.Header.Set("Content-Type", "application/json")
		r.ServeHTTP(w, req)
		done <- res{w.Code, w.Body.Bytes()}
	}()
	select {
	case x := <-done:
		json.Unmarshal(x.body, &parsed)
		return x.code, parsed, true
	case <-time.After(timeout):
		return 0, nil, false
	}
}

func TestHuntC20_MixingPropsNotValidatedWithSingleCriterion(t *testing.T) {
	one := `{"preferenceFunction":"weightedSum","knownAlternatives":[{"id":"a","criteria":{"c1":1}},{"id":"b","criteria":{"c1":3}}],"choseToMake":["a","b"],"criteria":[{"id":"c1","type":"gain"}],"methodParameters":{"weights":{"c1":1}},`
	two := `{"preferenceFunction":"weightedSum","knownAlternatives":[{"id":"a","criteria":{"c1":1,"c2":2}},{"id":"b","criteria":{"c1":3,"c2":1}}],"choseToMake":["a","b"],"criteria":[{"id":"c1","type":"gain"},{"id":"c2","type":"gain"}],"methodParameters":{"weights":{"c1":1,"c2":1}},`
	for name, bias := range map[string]string{
		"mixingRatio 5":                  `"biases":[{"name":"criteriaMixing","props":{"mixingRatio":5}}]}`,
		"referenceCriterionType 'bogus'": `"biases":[{"name":"criteriaMixing","props":{"referenceCriterionType":"bogus"}}]}`,
	} {
		if code, _, _ := huntC20MixPost(two+bias, 5*time.Second); code != 400 {
			t.Errorf("control, two criteria, %s: expected 400, got %d", name, code)
		}
		code, parsed, _ := huntC20MixPost(one+bias, 5*time.Second)
		if _, ranked := parsed["result"]; code != 400 || ranked {
			t.Errorf("one criterion, %s: expected 400, got %d (ranking returned: %v)", name, code, ranked)
		}
	}
}
