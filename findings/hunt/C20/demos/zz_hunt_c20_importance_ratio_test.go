package main

// C20 demo 6 - newCriterionImportance (documented: "take a value [0, 1]") is not range checked.
//
// Copy to: httpClient/   (package main, next to main.go)
// Run (from httpClient/, with a modfile that replaces .../lib by this tree's lib):
//   go test -modfile=<modfile> -vet=off -count=1 -run TestHuntC20_NewCriterionImportanceOutOfRange .
//
// ImportanceRatioReferenceCriterionProvider.Provide silently clamps: any value < 0 behaves like 0, any
// value > 1 like 1; the request is answered 200 with a ranking for criteriaConcealment, criteriaMixing
// and the anchoring "newCriterion" applier.

import (
	"bytes"
	"encoding/json"
	"io/ioutil"
	"log"
	"net/http"
	"net/http/httptest"
	"testing"
	"time"

	"github.com/gin-gonic/gin"
)

func huntC20ImpRouter() *gin.Engine {
	gin.SetMode(gin.ReleaseMode)
	gin.DefaultWriter = ioutil.Discard
	log.SetOutput(ioutil.Discard)
	r := gin.Default()
	api := r.Group("/api")
	api.POST("/decide", decideHandler)
	api.GET("/preferenceFunctions", functionsHandler)
	return r
}

// posts body to /api/decide; ok=false when no response arrived within the timeout
func huntC20ImpPost(body string, timeout time.Duration) (code int, parsed map[string]interface{}, ok bool) {
	r := huntC20ImpRouter()
	type res struct {
		code int
		body []byte
	}
	done := make(chan res, 1)
	go func() {
		w := httptest.NewRecorder()
		req, _ := http.NewRequest("POST", "/api/decide", bytes.NewReader([]byte(body)))
		req.Header.Set("Content-Type", "application/json")
		r.ServeHTTP(w, req)
		done <- res{w.Code, w.Body.Bytes()}
	}()
	select {
	case x := <-done:
		json.Unmarshal(x.body, &parsed)
		return x.code, parsed, true
	case <-time.After(timeout):
		return 0, nil, false
	}
}

func TestHuntC20_NewCriterionImportanceOutOfRange(t *testing.T) {
	base := `{"preferenceFunction":"weightedSum","knownAlternatives":[{"id":"a","criteria":{"c1":1,"c2":5}},{"id":"b","criteria":{"c1":3,"c2":2}}],"choseToMake":["a","b"],` +
		`"criteria":[{"id":"c1","type":"gain"},{"id":"c2","type":"gain"}],"methodParameters":{"weights":{"c1":1,"c2":1}},`
	for _, v := range []string{"2", "-3", "1.0000001"} {
		for _, bias := range []string{"criteriaConcealment", "criteriaMixing"} {
			body := base + `"biases":[{"name":"` + bias + `","props":{"referenceCriterionType":"importanceRatio","newCriterionImportance":` + v + `}}]}`
			code, parsed, _ := huntC20ImpPost(body, 5*time.Second)
			if _, ranked := parsed["result"]; code != 400 || ranked {
				t.Errorf("%s with newCriterionImportance=%s (documented range [0,1]): expected 400, got %d (ranking returned: %v)", bias, v, code, ranked)
			}
		}
	}
}
