package main

// C14 demo 1b (service level): the same defect makes POST /api/decide never return.
//
// Copy to: httpClient/
// Run:     cp httpClient/go.mod /tmp/c14.mod; cp httpClient/go.sum /tmp/c14.sum
//          echo 'replace github.com/Azbesciak/RealDecisionMaker/lib => <ABSOLUTE PATH OF THIS TREE>/lib' >> /tmp/c14.mod
//          cd httpClient && GOFLAGS=-mod=mod GOPROXY=off GOSUMDB=off GOTOOLCHAIN=local \
//          go test -modfile=/tmp/c14.mod -vet=off -count=1 -run TestHuntC14_SatisfactionRequestTerminates .
//
// satisfactionHeuristic / idealMultipliedCoefficient, coefficient 0.75, maxValue 1, minValue 5e-324.
// Alternative A sits exactly on the worst end (g = 0 = min), so it only passes once the series
// ends and the "remaining alternatives" step runs. The series stalls at r = 1e-323 > minValue,
// thresholds stay at 1e-323 > 0 and the loop in satisfaction.checkWithinSatisfactionLevels
// spins forever. Expected: a 200 answer (A gets the index after the last level) or a 400 rejection.

import (
	"bytes"
	"net/http"
	"net/http/httptest"
	"testing"
	"time"

	"github.com/gin-gonic/gin"
)

func TestHuntC14_SatisfactionRequestTerminates(t *testing.T) {
	body := `{"preferenceFunction":"satisfactionHeuristic",
 "knownAlternatives":[{"id":"A","criteria":{"g":0}},{"id":"B","criteria":{"g":1}}],
 "criteria":[{"id":"g","type":"gain"}],
 "choseToMake":["A","B"],
 "methodParameters":{"function":"idealMultipliedCoefficient","params":{"minValue":5e-324,"maxValue":1,"coefficient":0.75}}}`
	gin.SetMode(gin.TestMode)
	r := gin.New()
	r.POST("/api/decide", decideHandler)
	done := make(chan int, 1)
	go func() {
		req := httptest.NewRequest(http.MethodPost, "/api/decide", bytes.NewBufferString(body))
		req.Header.Set("Content-Type", "application/json")
		w := httptest.NewRecorder()
		r.ServeHTTP(w, req)
		done <- w.Code
	}()
	select {
	case code := <-done:
		if code != http.StatusOK && code != http.StatusBadRequest {
			t.Fatalf("unexpected status %d", code)
		}
	case <-time.After(10 * time.Second):
		t.Fatal("request still running after 10s: the generated series of aspiration levels never ends")
	}
}
