package satisfaction_levels

// C14 demo 2 (library level): NaN parameters are not rejected.
//
// Copy to: lib/logic/limited-rationality/satisfaction-levels/
// Run:     cd lib && GOFLAGS=-mod=mod GOPROXY=off GOSUMDB=off GOTOOLCHAIN=local \
//          go test -vet=off -count=1 -run TestHuntC14_NaNParametersAreRejected ./logic/limited-rationality/satisfaction-levels/
//
// Validate() of both managers is written as "x <= lo || x >= hi" / "x < lo || x > hi"; every
// comparison with NaN is false, so NaN passes all three checks. Not reachable through the JSON
// service (encoding/json has no NaN literal) - this is a Go API level hole only.

import (
	"math"
	"testing"

	"github.com/Azbesciak/RealDecisionMaker/lib/model"
)

func TestHuntC14_NaNParametersAreRejected(t *testing.T) {
	dmp := &model.DecisionMakingParams{
		Criteria:               model.Criteria{{Id: "g", Type: model.Gain}},
		ConsideredAlternatives: []model.AlternativeWithCriteria{{Id: "A", Criteria: model.Weights{"g": 1}}},
	}
	nan := math.NaN()
	sources := map[string]*IdealCoefficientSatisfactionLevelsSource{
		"increasing multiplicative": &IdealIncreasingMulCoefficientSatisfaction,
		"increasing additive":       &IdealAdditiveCoefficientSatisfaction,
		"decreasing multiplicative": &IdealDecreasingMulCoefficientSatisfaction,
		"decreasing subtractive":    &IdealSubtrCoefficientSatisfaction,
	}
	for name, src := range sources {
		for _, tc := range []struct {
			what                string
			coefficient, lo, hi float64
		}{
			{"coefficient", nan, 0.1, 0.9},
			{"minValue", 0.5, nan, 0.9},
			{"maxValue", 0.5, 0.1, nan},
		} {
			p := src.BlankParams().(*IdealCoefficientSatisfactionLevels)
			p.Coefficient, p.MinValue, p.MaxValue = tc.coefficient, tc.lo, tc.hi
			rejected := func() (rejected bool) {
				defer func() { rejected = recover() != nil }()
				p.Initialize(dmp)
				return
			}()
			if !rejected {
				t.Errorf("%s: %s = NaN was accepted by Initialize (out-of-range parameters must be rejected)", name, tc.what)
			}
		}
	}
}
