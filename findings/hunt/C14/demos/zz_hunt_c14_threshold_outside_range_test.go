package satisfaction_levels

// C14 demo 3: at r = 1 the generated threshold lies OUTSIDE the criterion's value range.
//
// Copy to: lib/logic/limited-rationality/satisfaction-levels/
// Run:     cd lib && GOFLAGS=-mod=mod GOPROXY=off GOSUMDB=off GOTOOLCHAIN=local \
//          go test -vet=off -count=1 -run TestHuntC14_ThresholdStaysInsideValueRange ./logic/limited-rationality/satisfaction-levels/
//
// Satisfaction heuristic sources start at r = maxValue; maxValue = 1 is allowed and is the natural
// "ideal" start. A fraction r in [0,1] of the range measured from the worst end must lie in
// [min, max] and r = 1 is the best end itself. Next() computes min + (max-min)*r (gain) and
// max - (max-min)*r (cost); for e.g. min = -0.1, max = 0.3 the gain threshold becomes
// 0.30000000000000004 > max and the cost threshold -0.10000000000000003 < min, so an alternative
// that is ideal on every criterion does NOT meet level 0 (through the service it gets
// thresholdsIndex 1 instead of 0). About 23% of random one-decimal ranges behave like this.

import (
	"testing"

	"github.com/Azbesciak/RealDecisionMaker/lib/model"
	"github.com/Azbesciak/RealDecisionMaker/lib/utils"
)

func TestHuntC14_ThresholdStaysInsideValueRange(t *testing.T) {
	type rng struct{ min, max float64 }
	for _, r := range []rng{{-0.1, 0.3}, {-36.6, 34.7}, {-49.8, 26.2}, {9.3, 48.3}, {-6.7, 33.6}} {
		for _, declared := range []bool{false, true} {
			criteria := model.Criteria{{Id: "g", Type: model.Gain}, {Id: "c", Type: model.Cost}}
			alts := []model.AlternativeWithCriteria{
				{Id: "worst", Criteria: model.Weights{"g": r.min, "c": r.max}},
				{Id: "ideal", Criteria: model.Weights{"g": r.max, "c": r.min}},
			}
			if declared {
				for i := range criteria {
					criteria[i].ValuesRange = &utils.ValueRange{Min: r.min, Max: r.max}
				}
				alts = alts[:1]
			}
			dmp := &model.DecisionMakingParams{Criteria: criteria, ConsideredAlternatives: alts}
			for name, src := range map[string]*IdealCoefficientSatisfactionLevelsSource{
				"multiplicative": &IdealDecreasingMulCoefficientSatisfaction,
				"subtractive":    &IdealSubtrCoefficientSatisfaction,
			} {
				p := src.BlankParams().(*IdealCoefficientSatisfactionLevels)
				p.Coefficient, p.MinValue, p.MaxValue = 0.5, 0.2, 1
				p.Initialize(dmp)
				if !p.HasNext() {
					t.Fatalf("no first level")
				}
				first := p.Next() // r = maxValue = 1: the best end of every criterion
				if first["g"] != r.max || first["c"] != r.min {
					t.Errorf("%s, range [%v, %v], declared=%v: level r=1 is g=%v c=%v, expected the best end g=%v c=%v (threshold outside the value range)",
						name, r.min, r.max, declared, first["g"], first["c"], r.max, r.min)
				}
				for p.HasNext() {
					w := p.Next()
					for id, v := range w {
						if v < r.min || v > r.max {
							t.Errorf("%s, range [%v, %v]: threshold %s=%v outside the range", name, r.min, r.max, id, v)
						}
					}
				}
			}
		}
	}
}
