package satisfaction_levels

// C14 demo 1 (library level): the decreasing multiplicative series is neither finite nor
// strictly monotone for an in-range minValue.
//
// Copy to: lib/logic/limited-rationality/satisfaction-levels/
// Run:     cd lib && GOFLAGS=-mod=mod GOPROXY=off GOSUMDB=off GOTOOLCHAIN=local \
//          go test -vet=off -count=1 -run TestHuntC14_DecreasingMulSeriesIsFiniteAndStrict ./logic/limited-rationality/satisfaction-levels/
//
// Parameters: coefficient 0.75 (inside [0.001, 0.999]), maxValue 1, minValue 5e-324 (the smallest
// positive float64, inside the documented (0, 1]; Validate accepts it, and encoding/json parses the
// literal 5e-324 to exactly this value).
// r -> r*0.75 reaches 1e-323 (two denormal units) after ~2590 steps; 1e-323*0.75 rounds back to
// 1e-323, so r never changes again while r > minValue stays true: HasNext() is true forever and
// the "strictly decreasing" series repeats the same level.
// The test accepts either repair: rejecting the parameters in Initialize, or a finite strictly
// decreasing series.

import (
	"testing"

	"github.com/Azbesciak/RealDecisionMaker/lib/model"
)

func TestHuntC14_DecreasingMulSeriesIsFiniteAndStrict(t *testing.T) {
	dmp := &model.DecisionMakingParams{
		Criteria: model.Criteria{{Id: "g", Type: model.Gain}},
		ConsideredAlternatives: []model.AlternativeWithCriteria{
			{Id: "A", Criteria: model.Weights{"g": 0}},
			{Id: "B", Criteria: model.Weights{"g": 1}},
		},
	}
	for _, tc := range []struct{ coefficient, minValue float64 }{
		{0.75, 5e-324},
		{0.9, 5e-324},
		{0.999, 1e-322},
	} {
		p := IdealDecreasingMulCoefficientSatisfaction.BlankParams().(*IdealCoefficientSatisfactionLevels)
		p.Coefficient, p.MinValue, p.MaxValue = tc.coefficient, tc.minValue, 1
		rejected := func() (rejected bool) {
			defer func() { rejected = recover() != nil }()
			p.Initialize(dmp)
			return
		}()
		if rejected {
			continue // rejecting such parameters is an acceptable way to keep the series finite
		}
		const limit = 2000000 // 0.999^n falls below 1e-322 after ~742000 steps
		levels := 0
		prev := p.currentValue + 1
		for p.HasNext() {
			cur := p.currentValue
			if !(cur < prev) {
				t.Errorf("coefficient=%v minValue=%v: series not strictly decreasing at level %d: r=%v after r=%v",
					tc.coefficient, tc.minValue, levels, cur, prev)
				break
			}
			prev = cur
			p.Next()
			levels++
			if levels > limit {
				t.Errorf("coefficient=%v minValue=%v: series did not end after %d levels", tc.coefficient, tc.minValue, limit)
				break
			}
		}
	}
}
