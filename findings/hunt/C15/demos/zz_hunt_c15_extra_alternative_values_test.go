// Demo for property C15 (criteria omission), finding 1.
//
// Copy to:   lib/client/            (external test package client_test)
// Run with:  cd lib && GOFLAGS=-mod=mod GOPROXY=off GOSUMDB=off GOTOOLCHAIN=local \
//            go test -vet=off -count=1 ./client -run TestHuntC15_ExtraAlternativeValue
//
// A weightedSum request whose alternatives carry a value for a criterion that is not declared
// ("note") passes all validation and is decided normally without biases. As soon as criteriaOmission
// is added (any ordering that ranks criteria: default/weakest/strongest/weakestByProbability/
// strongestByProbability) the request dies with
//   "criterion 'note' not found in weights [...]"
// instead of omitting floor(3*0.34)=1 criterion (the weakest one, "a") and deciding like the reduced request.
package client_test

import (
	"encoding/json"
	"fmt"
	"testing"

	"github.com/Azbesciak/RealDecisionMaker/lib/logic/biases/criteria-omission"
	"github.com/Azbesciak/RealDecisionMaker/lib/logic/preference-func/weighted-sum"
	"github.com/Azbesciak/RealDecisionMaker/lib/model"
	"github.com/Azbesciak/RealDecisionMaker/lib/model/criteria-ordering"
	"github.com/Azbesciak/RealDecisionMaker/lib/utils"
)

func c15Decide(reqJson string) (choice *model.DecisionMakerChoice, err interface{}) {
	var dm model.DecisionMaker
	if e := json.Unmarshal([]byte(reqJson), &dm); e != nil {
		return nil, e
	}
	funcs := model.PreferenceFunctions{Functions: []model.PreferenceFunction{&weighted_sum.WeightedSumPreferenceFunc{}}}
	listeners := model.BiasListeners{Listeners: []model.BiasListener{&weighted_sum.WeightedSumBiasListener{}}}
	ordering := []criteria_ordering.CriteriaOrderingResolver{
		&criteria_ordering.WeakestCriteriaOrderingResolver{},
		&criteria_ordering.StrongestCriteriaOrderingResolver{},
		&criteria_ordering.RandomCriteriaOrderingResolver{Generator: utils.RandomBasedSeedValueGenerator},
		&criteria_ordering.WeakestByProbabilityCriteriaOrderingResolver{Generator: utils.RandomBasedSeedValueGenerator},
		&criteria_ordering.StrongestByProbabilityCriteriaOrderingResolver{
			WeakestByProbability: &criteria_ordering.WeakestByProbabilityCriteriaOrderingResolver{Generator: utils.RandomBasedSeedValueGenerator},
		},
	}
	biases := model.BiasMap{criteria_omission.BiasName: criteria_omission.NewCriteriaOmission(ordering)}
	defer func() {
		if r := recover(); r != nil {
			choice, err = nil, r
		}
	}()
	return dm.MakeDecision(funcs, listeners, &biases, utils.RandomBasedSeedValueGenerator), nil
}

const c15Request = `{
  "preferenceFunction": "weightedSum",
  "knownAlternatives": [
    {"id": "x", "criteria": {"a": 1, "b": 1, "c": 1 %[1]s}},
    {"id": "y", "criteria": {"a": 2, "b": 1, "c": 3 %[1]s}},
    {"id": "z", "criteria": {"a": 9, "b": 0, "c": 0 %[1]s}}
  ],
  "choseToMake": ["x", "y"],
  "criteria": [{"id": "a", "type": "gain"}, {"id": "b", "type": "gain"}, {"id": "c", "type": "gain"}],
  "methodParameters": {"weights": {"a": 1, "b": 2, "c": 3}},
  "biases": [%[2]s]
}`

func TestHuntC15_ExtraAlternativeValue(t *testing.T) {
	extra := `, "note": 7`
	// sanity: the input is accepted and decided when no bias is requested
	base, err := c15Decide(fmt.Sprintf(c15Request, extra, ""))
	if err != nil {
		t.Skipf("request with an undeclared alternative value is rejected even without biases (%v): outside the accepted domain", err)
	}
	if len(base.Result) != 2 {
		t.Fatalf("unexpected base result %v", base.Result)
	}
	// importance (weight x summed considered values): a = 1*3 = 3, b = 2*2 = 4, c = 3*4 = 12 -> weakest is "a"
	for _, ordering := range []string{"", "weakest", "strongest", "weakestByProbability", "strongestByProbability", "random"} {
		props := `{"ratio": 0.34}`
		if ordering != "" {
			props = fmt.Sprintf(`{"ratio": 0.34, "ordering": %q, "randomSeed": 1}`, ordering)
		}
		bias := fmt.Sprintf(`{"name": "criteriaOmission", "props": %s}`, props)
		withExtra, err := c15Decide(fmt.Sprintf(c15Request, extra, bias))
		if err != nil {
			t.Errorf("ordering %q: criteria omission failed on an accepted request: %v", ordering, err)
			continue
		}
		// oracle: same request without the undeclared value (this one works today)
		clean, err := c15Decide(fmt.Sprintf(c15Request, "", bias))
		if err != nil {
			t.Fatalf("ordering %q: clean request failed: %v", ordering, err)
		}
		got := withExtra.Biases[0].(model.BiasParams).Props.(criteria_omission.CriteriaOmissionResult).OmittedCriteria
		exp := clean.Biases[0].(model.BiasParams).Props.(criteria_omission.CriteriaOmissionResult).OmittedCriteria
		if len(got) != 1 || got[0].Id != exp[0].Id {
			t.Errorf("ordering %q: omitted %v, expected %v", ordering, got, exp)
			continue
		}
		if (ordering == "" || ordering == "weakest") && got[0].Id != "a" {
			t.Errorf("ordering %q: omitted %v, expected the weakest criterion a", ordering, got)
		}
		for i, r := range withExtra.Result {
			e := clean.Result[i]
			if r.Alternative.Id != e.Alternative.Id || r.Value() != e.Value() {
				t.Errorf("ordering %q: result[%d] = %v, expected %v", ordering, i, r.AlternativeResult.String(), e.AlternativeResult.String())
			}
			if _, has := r.Alternative.Criteria[got[0].Id]; has || len(r.Alternative.Criteria) != 2 {
				t.Errorf("ordering %q: result alternative %s not restricted to the kept criteria: %v", ordering, r.Alternative.Id, r.Alternative.Criteria)
			}
		}
	}
}
