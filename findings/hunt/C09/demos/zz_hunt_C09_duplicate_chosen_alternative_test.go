// Demo for C09 finding 3: when choseToMake names the same alternative twice (accepted, no
// validation), biases that rebuild the alternatives by id (model.UpdateAlternatives /
// FetchAlternative = first match) hand over data that differs from what they report:
//  - criteriaConcealment draws one value per copy, reports the last one under the id, but both
//    copies handed to the next stage carry the first one;
//  - preferenceReversal with ratio 0 reports that it reversed nothing, yet it replaces the
//    second copy (blurred differently by fatigue before) by the first one.
//
// Copy to: lib/client/   (package client)
// Run:     cd lib && GOFLAGS=-mod=mod go test -vet=off -count=1 -run 'TestHuntC09_DuplicateChosen' ./client/
package client

import (
	"reflect"
	"testing"

	criteria_concealment "github.com/Azbesciak/RealDecisionMaker/lib/logic/biases/criteria-concealment"
	"github.com/Azbesciak/RealDecisionMaker/lib/logic/biases/fatigue"
	preference_reversal "github.com/Azbesciak/RealDecisionMaker/lib/logic/biases/preference-reversal"
	"github.com/Azbesciak/RealDecisionMaker/lib/logic/limited-rationality/majority"
	"github.com/Azbesciak/RealDecisionMaker/lib/model"
	criteria_ordering "github.com/Azbesciak/RealDecisionMaker/lib/model/criteria-ordering"
	reference_criterion "github.com/Azbesciak/RealDecisionMaker/lib/model/reference-criterion"
	"github.com/Azbesciak/RealDecisionMaker/lib/utils"
)

type huntC09DupProbe struct {
	received *model.DecisionMakingParams
}

func (p *huntC09DupProbe) Identifier() string { return "probe" }
func (p *huntC09DupProbe) Apply(_, current *model.DecisionMakingParams, _ *model.BiasProps, _ *model.BiasListener) *model.BiasedResult {
	p.received = current
	return &model.BiasedResult{DMP: current}
}

// returns nil choice when the request is rejected (then the input is outside the accepted domain)
func huntC09DupDecide(biasesParams model.BiasesParams) (choice *model.DecisionMakerChoice, probe *huntC09DupProbe) {
	defer func() {
		if e := recover(); e != nil {
			choice = nil
		}
	}()
	refManager := *reference_criterion.NewReferenceCriteriaManager(
		[]reference_criterion.ReferenceCriterionFactory{&reference_criterion.ImportanceRatioReferenceCriterionManager{}},
	)
	ordering := []criteria_ordering.CriteriaOrderingResolver{&criteria_ordering.WeakestCriteriaOrderingResolver{}}
	probe = &huntC09DupProbe{}
	biases := model.BiasMap{
		criteria_concealment.BiasName: criteria_concealment.NewCriteriaConcealment(utils.RandomBasedSeedValueGenerator, refManager),
		preference_reversal.BiasName:  preference_reversal.NewPreferenceReversal(ordering),
		fatigue.BiasName: fatigue.NewFatigue(utils.RandomBasedSeedValueGenerator, utils.RandomBasedSeedValueGenerator,
			[]fatigue.FatigueFunction{&fatigue.ConstFatigueFunction{}}),
		"probe": probe,
	}
	funcs := model.PreferenceFunctions{Functions: []model.PreferenceFunction{
		majority.NewMajority(utils.RandomBasedSeedValueGenerator, []majority.DrawResolver{&majority.DrawAllowedResolver{}}),
	}}
	listeners := model.BiasListeners{Listeners: []model.BiasListener{&majority.MajorityBiasListener{}}}
	dm := model.DecisionMaker{
		PreferenceFunction: "majorityHeuristic",
		KnownAlternatives: []model.AlternativeWithCriteria{
			{Id: "a", Criteria: model.Weights{"c1": 1, "c2": 5}},
			{Id: "b", Criteria: model.Weights{"c1": 3, "c2": 2}},
		},
		ChoseToMake:      []model.Alternative{"a", "b", "a"},
		Criteria:         model.Criteria{{Id: "c1", Type: model.Gain}, {Id: "c2", Type: model.Gain}},
		MethodParameters: utils.Map{"weights": utils.Map{"c1": 1, "c2": 2}},
		Biases:           biasesParams,
	}
	return dm.MakeDecision(funcs, listeners, &biases, utils.RandomBasedSeedValueGenerator), probe
}

func TestHuntC09_DuplicateChosen_ConcealmentReportsOtherValueThanHandedOver(t *testing.T) {
	choice, probe := huntC09DupDecide(model.BiasesParams{
		utils.Map{"name": "criteriaConcealment", "props": utils.Map{"randomSeed": 3}},
		utils.Map{"name": "probe", "props": utils.Map{}},
	})
	if choice == nil {
		t.Skip("request with a duplicated chosen alternative is rejected")
	}
	added := choice.Biases[0].(model.BiasParams).Props.(criteria_concealment.CriteriaConcealmentResult).AddedCriteria[0]
	for i, a := range probe.received.AllAlternatives() {
		if got, reported := a.Criteria[added.Id], added.AlternativesValues[a.Id]; got != reported {
			t.Errorf("alternative #%d '%s': report says %s=%v, next stage received %v", i, a.Id, added.Id, reported, got)
		}
	}
}

func TestHuntC09_DuplicateChosen_ReversalOfNothingChangesData(t *testing.T) {
	choice, probe := huntC09DupDecide(model.BiasesParams{
		utils.Map{"name": "fatigue", "props": utils.Map{"function": "const", "params": utils.Map{"value": 0.5}, "randomSeed": 5}},
		utils.Map{"name": "preferenceReversal", "props": utils.Map{"ratio": 0}},
		utils.Map{"name": "probe", "props": utils.Map{}},
	})
	if choice == nil {
		t.Skip("request with a duplicated chosen alternative is rejected")
	}
	fatigueReport := choice.Biases[0].(model.BiasParams).Props.(fatigue.FatigueResult)
	reversalReport := choice.Biases[1].(model.BiasParams).Props.(preference_reversal.PreferenceReversalResult)
	if len(reversalReport.ReversedPreferenceCriteria) != 0 {
		t.Fatalf("ratio 0 should reverse nothing, got %v", reversalReport.ReversedPreferenceCriteria)
	}
	// reversal reports no change, so the stage after it must see what fatigue reported
	if !reflect.DeepEqual(fatigueReport.ConsideredAlternatives, probe.received.ConsideredAlternatives) {
		t.Errorf("preferenceReversal reported no changed values, but the data changed:\nfatigue reported:    %v\nnext stage received: %v",
			fatigueReport.ConsideredAlternatives, probe.received.ConsideredAlternatives)
	}
}
