// Demo for C09 finding 2: the anchoring bias with the 'newCriterion' applier reports for the
// criterion it added a valuesRange (min/max of the generated values), but the criterion handed to
// the next stage carries the valuesRange of the reference criterion. The report about the added
// criterion is therefore not what the next stage received (README: "Applier returns new criterion
// params: id, type (same as reference one), valuesRange and methodParameters").
//
// Copy to: lib/client/   (package client)
// Run:     cd lib && GOFLAGS=-mod=mod go test -vet=off -count=1 -run 'TestHuntC09_AnchoringNewCriterion' ./client/
package client

import (
	"testing"

	"github.com/Azbesciak/RealDecisionMaker/lib/logic/biases/anchoring"
	"github.com/Azbesciak/RealDecisionMaker/lib/logic/limited-rationality/majority"
	"github.com/Azbesciak/RealDecisionMaker/lib/model"
	reference_criterion "github.com/Azbesciak/RealDecisionMaker/lib/model/reference-criterion"
	"github.com/Azbesciak/RealDecisionMaker/lib/utils"
)

// a bias that changes nothing and only remembers what it was given: "the next stage"
type huntC09ProbeBias struct {
	received *model.DecisionMakingParams
}

func (p *huntC09ProbeBias) Identifier() string { return "probe" }
func (p *huntC09ProbeBias) Apply(_, current *model.DecisionMakingParams, _ *model.BiasProps, _ *model.BiasListener) *model.BiasedResult {
	p.received = current
	return &model.BiasedResult{DMP: current}
}

func TestHuntC09_AnchoringNewCriterion_ReportedRangeIsWhatNextStageReceives(t *testing.T) {
	refManager := *reference_criterion.NewReferenceCriteriaManager(
		[]reference_criterion.ReferenceCriterionFactory{&reference_criterion.ImportanceRatioReferenceCriterionManager{}},
	)
	probe := &huntC09ProbeBias{}
	biases := model.BiasMap{
		anchoring.BiasName: anchoring.NewAnchoring(
			[]anchoring.AnchoringEvaluator{&anchoring.LinearAnchoringEvaluator{}},
			[]anchoring.ReferencePointsEvaluator{&anchoring.IdealReferenceAlternativeEvaluator{}},
			[]anchoring.AnchoringApplier{anchoring.NewNewCriterionAnchoringApplier(utils.RandomBasedSeedValueGenerator, refManager)},
		),
		"probe": probe,
	}
	funcs := model.PreferenceFunctions{Functions: []model.PreferenceFunction{
		majority.NewMajority(utils.RandomBasedSeedValueGenerator, []majority.DrawResolver{&majority.DrawAllowedResolver{}}),
	}}
	listeners := model.BiasListeners{Listeners: []model.BiasListener{&majority.MajorityBiasListener{}}}
	linear := utils.Map{"function": "linear", "params": utils.Map{"a": 0.5, "b": 0.01}}
	dm := model.DecisionMaker{
		PreferenceFunction: "majorityHeuristic",
		KnownAlternatives: []model.AlternativeWithCriteria{
			{Id: "a", Criteria: model.Weights{"c1": 1, "c2": 5}},
			{Id: "b", Criteria: model.Weights{"c1": 3, "c2": 2}},
			{Id: "c", Criteria: model.Weights{"c1": 4, "c2": 1}},
		},
		ChoseToMake: []model.Alternative{"a", "b", "c"},
		// every criterion has a declared values range, as in the examples of the http client
		Criteria: model.Criteria{
			{Id: "c1", Type: model.Gain, ValuesRange: &utils.ValueRange{Min: 0, Max: 10}},
			{Id: "c2", Type: model.Gain, ValuesRange: &utils.ValueRange{Min: 0, Max: 10}},
		},
		MethodParameters: utils.Map{"weights": utils.Map{"c1": 1, "c2": 2}},
		Biases: model.BiasesParams{
			utils.Map{"name": "anchoring", "props": utils.Map{
				"anchoringAlternatives": []interface{}{utils.Map{"alternative": "a", "coefficient": 1}},
				"loss":                  linear,
				"gain":                  linear,
				"referencePoints":       utils.Map{"function": "ideal"},
				"applier":               utils.Map{"function": "newCriterion", "params": utils.Map{"randomSeed": 1}},
			}},
			utils.Map{"name": "probe", "props": utils.Map{}},
		},
	}
	choice := dm.MakeDecision(funcs, listeners, &biases, utils.RandomBasedSeedValueGenerator)

	report := choice.Biases[0].(model.BiasParams).Props.(anchoring.AnchoringResult).
		ApplierResult.(anchoring.NewCriterionAnchoringApplierResult)
	if len(report.AddedCriteria) != 1 {
		t.Fatalf("expected one added criterion, got %d", len(report.AddedCriteria))
	}
	reported := report.AddedCriteria[0]
	if probe.received == nil {
		t.Fatal("next stage was not called")
	}
	var received *model.Criterion
	for i, c := range probe.received.Criteria {
		if c.Id == reported.Id {
			received = &probe.received.Criteria[i]
		}
	}
	if received == nil {
		t.Fatalf("added criterion '%s' not found in the state handed to the next stage", reported.Id)
	}
	if received.Type != reported.Type {
		t.Errorf("type: report %v, next stage %v", reported.Type, received.Type)
	}
	for _, a := range probe.received.AllAlternatives() {
		if a.Criteria[reported.Id] != reported.AlternativesValues[a.Id] {
			t.Errorf("value of %s for %s: report %v, next stage %v", reported.Id, a.Id, reported.AlternativesValues[a.Id], a.Criteria[reported.Id])
		}
	}
	// the range the next stage works with for that criterion (declared one, or min/max of the values)
	all := probe.received.AllAlternatives()
	effective := model.CriteriaValuesRange(&all, received)
	if *effective != reported.ValuesRange {
		t.Errorf("values range of added criterion '%s': report says {%s}, the next stage received {%s}",
			reported.Id, reported.ValuesRange.String(), effective.String())
	}
}
