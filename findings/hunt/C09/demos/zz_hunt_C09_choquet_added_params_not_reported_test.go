// Demo for C09 finding 4 (interpretive, see findings.json): with the Choquet integral the
// parameters a bias generated for the criterion it added (the capacities of every criteria union
// that contains the new criterion) are handed to the next stage, but the report in the response
// body is empty: "methodParameters": {}. Every other method reports them (weights, thresholds,
// electre criterion). The report is therefore not "exactly what the next stage received".
//
// Copy to: lib/client/   (package client)
// Run:     cd lib && GOFLAGS=-mod=mod go test -vet=off -count=1 -run 'TestHuntC09_ChoquetAddedCriterionParams' ./client/
package client

import (
	"encoding/json"
	"reflect"
	"strings"
	"testing"

	criteria_concealment "github.com/Azbesciak/RealDecisionMaker/lib/logic/biases/criteria-concealment"
	"github.com/Azbesciak/RealDecisionMaker/lib/logic/preference-func/choquet"
	"github.com/Azbesciak/RealDecisionMaker/lib/model"
	reference_criterion "github.com/Azbesciak/RealDecisionMaker/lib/model/reference-criterion"
	"github.com/Azbesciak/RealDecisionMaker/lib/utils"
)

// the final method, wrapped only to see which parameters it received
type huntC09CapturingChoquet struct {
	choquet.ChoquetIntegralPreferenceFunc
	received *model.DecisionMakingParams
}

func (c *huntC09CapturingChoquet) Evaluate(dmp *model.DecisionMakingParams) *model.AlternativesRanking {
	c.received = dmp
	return c.ChoquetIntegralPreferenceFunc.Evaluate(dmp)
}

func huntC09CollectNumbers(v interface{}, into map[string]float64) {
	switch x := v.(type) {
	case map[string]interface{}:
		for k, e := range x {
			if f, ok := e.(float64); ok {
				into[k] = f
			} else {
				huntC09CollectNumbers(e, into)
			}
		}
	case []interface{}:
		for _, e := range x {
			huntC09CollectNumbers(e, into)
		}
	}
}

func TestHuntC09_ChoquetAddedCriterionParams_AreReported(t *testing.T) {
	refManager := *reference_criterion.NewReferenceCriteriaManager(
		[]reference_criterion.ReferenceCriterionFactory{&reference_criterion.ImportanceRatioReferenceCriterionManager{}},
	)
	method := &huntC09CapturingChoquet{}
	funcs := model.PreferenceFunctions{Functions: []model.PreferenceFunction{method}}
	listeners := model.BiasListeners{Listeners: []model.BiasListener{&choquet.ChoquetIntegralBiasListener{}}}
	biases := model.BiasMap{
		criteria_concealment.BiasName: criteria_concealment.NewCriteriaConcealment(utils.RandomBasedSeedValueGenerator, refManager),
	}
	request := `{
	  "preferenceFunction": "choquetIntegral",
	  "knownAlternatives": [
	    {"id": "a", "criteria": {"c1": 1, "c2": 5}},
	    {"id": "b", "criteria": {"c1": 3, "c2": 2}}
	  ],
	  "choseToMake": ["a", "b"],
	  "criteria": [{"id": "c1", "type": "gain"}, {"id": "c2", "type": "gain"}],
	  "methodParameters": {"weights": {"c1": 0.2, "c2": 0.5, "c1,c2": 0.9}},
	  "biases": [{"name": "criteriaConcealment", "props": {"randomSeed": 3}}]
	}`
	var dm model.DecisionMaker
	if err := json.Unmarshal([]byte(request), &dm); err != nil {
		t.Fatal(err)
	}
	choice := dm.MakeDecision(funcs, listeners, &biases, utils.RandomBasedSeedValueGenerator)
	body, err := json.Marshal(choice) // what POST /api/decide writes
	if err != nil {
		t.Fatal(err)
	}
	var response struct {
		Biases []struct {
			Props struct {
				AddedCriteria []struct {
					Id               string      `json:"id"`
					MethodParameters interface{} `json:"methodParameters"`
				} `json:"addedCriteria"`
			} `json:"props"`
		} `json:"biases"`
	}
	if err := json.Unmarshal(body, &response); err != nil {
		t.Fatal(err)
	}
	added := response.Biases[0].Props.AddedCriteria[0]
	reported := map[string]float64{}
	huntC09CollectNumbers(added.MethodParameters, reported)

	// what the next stage (here: the method) received for unions that contain the new criterion
	params := reflect.ValueOf(method.received.MethodParameters)
	weights := params.FieldByName("weights")
	if !weights.IsValid() {
		weights = params.FieldByName("Weights")
	}
	if weights.Kind() == reflect.Ptr {
		weights = weights.Elem()
	}
	checked := 0
	iter := weights.MapRange()
	for iter.Next() {
		key, value := iter.Key().String(), iter.Value().Float()
		isNew := false
		for _, part := range strings.Split(key, ",") {
			if part == added.Id {
				isNew = true
			}
		}
		if !isNew {
			continue
		}
		checked++
		if got, ok := reported[key]; !ok {
			t.Errorf("next stage received capacity %v for '%s' but the report (%s) does not mention it", value, key, mustJSON(added.MethodParameters))
		} else if got != value {
			t.Errorf("capacity of '%s': report %v, next stage received %v", key, got, value)
		}
	}
	if checked == 0 {
		t.Fatalf("no parameters for the added criterion found in the state, test is broken")
	}
}

func mustJSON(v interface{}) string {
	b, _ := json.Marshal(v)
	return string(b)
}
