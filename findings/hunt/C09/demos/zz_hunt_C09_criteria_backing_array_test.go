// Demo for C09 finding 1: Criteria.Add appends to the request's Criteria slice, so with spare
// capacity (JSON-decoded slices, or a sub-slice of a larger caller-owned array) the library
// writes into memory that belongs to the request / to another request.
//
// Copy to: lib/client/   (package client)
// Run:     cd lib && GOFLAGS=-mod=mod go test -vet=off -count=1 -run 'TestHuntC09_Criteria' ./client/
package client

import (
	"encoding/json"
	"fmt"
	"reflect"
	"testing"

	criteria_concealment "github.com/Azbesciak/RealDecisionMaker/lib/logic/biases/criteria-concealment"
	"github.com/Azbesciak/RealDecisionMaker/lib/logic/limited-rationality/majority"
	"github.com/Azbesciak/RealDecisionMaker/lib/model"
	reference_criterion "github.com/Azbesciak/RealDecisionMaker/lib/model/reference-criterion"
	"github.com/Azbesciak/RealDecisionMaker/lib/utils"
)

func huntC09Wiring() (model.PreferenceFunctions, model.BiasListeners, *model.BiasMap) {
	refManager := *reference_criterion.NewReferenceCriteriaManager(
		[]reference_criterion.ReferenceCriterionFactory{
			&reference_criterion.ImportanceRatioReferenceCriterionManager{},
		},
	)
	funcs := model.PreferenceFunctions{Functions: []model.PreferenceFunction{
		majority.NewMajority(utils.RandomBasedSeedValueGenerator, []majority.DrawResolver{&majority.DrawAllowedResolver{}}),
	}}
	listeners := model.BiasListeners{Listeners: []model.BiasListener{&majority.MajorityBiasListener{}}}
	biases := model.BiasMap{
		criteria_concealment.BiasName: criteria_concealment.NewCriteriaConcealment(utils.RandomBasedSeedValueGenerator, refManager),
	}
	return funcs, listeners, &biases
}

func huntC09Decide(dm *model.DecisionMaker) (resp string) {
	defer func() {
		if e := recover(); e != nil {
			resp = fmt.Sprintf("ERROR: %v", e)
		}
	}()
	funcs, listeners, biases := huntC09Wiring()
	choice := dm.MakeDecision(funcs, listeners, biases, utils.RandomBasedSeedValueGenerator)
	b, err := json.Marshal(choice)
	if err != nil {
		panic(err)
	}
	return string(b)
}

// A request decoded from JSON, exactly like the HTTP service does it. encoding/json leaves spare
// capacity in the decoded slice (3 elements -> capacity 4). The whole backing array belongs to the
// request; the library must not write into it.
func TestHuntC09_Criteria_JSONDecodedSpareCapacityIsWritten(t *testing.T) {
	request := `{
	  "preferenceFunction": "majorityHeuristic",
	  "knownAlternatives": [
	    {"id": "a", "criteria": {"c1": 1, "c2": 5, "c3": 2}},
	    {"id": "b", "criteria": {"c1": 3, "c2": 2, "c3": 7}},
	    {"id": "c", "criteria": {"c1": 4, "c2": 1, "c3": 9}}
	  ],
	  "choseToMake": ["a", "b", "c"],
	  "criteria": [{"id": "c1", "type": "gain"}, {"id": "c2", "type": "gain"}, {"id": "c3", "type": "cost"}],
	  "methodParameters": {"weights": {"c1": 1, "c2": 2, "c3": 3}},
	  "biases": [{"name": "criteriaConcealment", "props": {"randomSeed": 7}}]
	}`
	var dm model.DecisionMaker
	if err := json.Unmarshal([]byte(request), &dm); err != nil {
		t.Fatal(err)
	}
	if cap(dm.Criteria) == len(dm.Criteria) {
		t.Skip("decoder left no spare capacity, nothing to observe")
	}
	full := func() model.Criteria { return append(model.Criteria(nil), dm.Criteria[:cap(dm.Criteria)]...) }
	before := full()
	resp := huntC09Decide(&dm)
	if len(resp) > 5 && resp[:5] == "ERROR" {
		t.Fatalf("unexpected error %s", resp)
	}
	after := full()
	if !reflect.DeepEqual(before, after) {
		t.Errorf("MakeDecision wrote into the backing array of the request's Criteria slice:\nbefore: %+v\nafter:  %+v", before, after)
	}
}

// The same defect seen by a library user: two requests are built over one array of criteria, the
// first one uses only the first three of them. Processing the first request replaces the fourth
// criterion of the second request by '__concealedCriterion__', so the answer to the second request
// depends on whether the first one was processed before it.
func TestHuntC09_Criteria_ResponseDependsOnEarlierRequest(t *testing.T) {
	build := func() (*model.DecisionMaker, *model.DecisionMaker) {
		all := model.Criteria{
			{Id: "c1", Type: model.Gain}, {Id: "c2", Type: model.Gain}, {Id: "c3", Type: model.Cost}, {Id: "c4", Type: model.Gain},
		}
		alternatives := func() []model.AlternativeWithCriteria {
			return []model.AlternativeWithCriteria{
				{Id: "a", Criteria: model.Weights{"c1": 1, "c2": 5, "c3": 2, "c4": 9}},
				{Id: "b", Criteria: model.Weights{"c1": 3, "c2": 2, "c3": 7, "c4": 1}},
				{Id: "c", Criteria: model.Weights{"c1": 4, "c2": 1, "c3": 9, "c4": 4}},
			}
		}
		first := &model.DecisionMaker{
			PreferenceFunction: "majorityHeuristic",
			KnownAlternatives:  alternatives(),
			ChoseToMake:        []model.Alternative{"a", "b", "c"},
			Criteria:           all[:3], // only the first three criteria are used by this request
			MethodParameters:   utils.Map{"weights": utils.Map{"c1": 1, "c2": 2, "c3": 3}},
			Biases:             model.BiasesParams{utils.Map{"name": "criteriaConcealment", "props": utils.Map{"randomSeed": 7}}},
		}
		second := &model.DecisionMaker{
			PreferenceFunction: "majorityHeuristic",
			KnownAlternatives:  alternatives(),
			ChoseToMake:        []model.Alternative{"a", "b", "c"},
			Criteria:           all, // all four
			MethodParameters:   utils.Map{"weights": utils.Map{"c1": 1, "c2": 2, "c3": 3, "c4": 4}},
			Biases:             model.BiasesParams{},
		}
		return first, second
	}
	_, secondAlone := build()
	expected := huntC09Decide(secondAlone)

	first, second := build()
	secondBefore := append(model.Criteria(nil), second.Criteria...)
	huntC09Decide(first)
	if !reflect.DeepEqual(secondBefore, second.Criteria) {
		t.Errorf("processing the first request modified the second request's criteria:\nbefore: %+v\nafter:  %+v", secondBefore, second.Criteria)
	}
	actual := huntC09Decide(second)
	if actual != expected {
		t.Errorf("response to the second request depends on history:\nalone:       %s\nafter first: %s", expected, actual)
	}
}
