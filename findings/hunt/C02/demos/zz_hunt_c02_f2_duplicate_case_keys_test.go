package client

// C02 finding 2 demo.
// Copy to: lib/client/   (package client)
// Run:     cd lib && GOFLAGS=-mod=mod GOPROXY=off GOSUMDB=off GOTOOLCHAIN=local \
//          go test -vet=off -count=1 -run TestHuntC02F2 ./client/
//
// Requests whose nested objects (methodParameters / a bias entry) carry one key in two spellings that
// differ only in letter case. utils.DecodeToStruct (mapstructure) picks one of them by ranging over a Go map,
// so the same request gives different responses (and even different accept/reject verdicts) on repetition.
// Expected by C02: one verdict per request and, when accepted, one byte-identical body.

import (
	"encoding/json"
	"fmt"
	"github.com/Azbesciak/RealDecisionMaker/lib/logic/biases/fatigue"
	"github.com/Azbesciak/RealDecisionMaker/lib/logic/limited-rationality/majority"
	"github.com/Azbesciak/RealDecisionMaker/lib/model"
	"github.com/Azbesciak/RealDecisionMaker/lib/utils"
	"testing"
)

func huntF2Decide(body string) (res string, accepted bool) {
	funcs := model.PreferenceFunctions{Functions: []model.PreferenceFunction{
		majority.NewMajority(utils.RandomBasedSeedValueGenerator, []majority.DrawResolver{
			&majority.DrawAllowedResolver{},
			&majority.CurrentIsWinnerDrawResolver{},
			&majority.NewerIsWinnerResolver{},
			&majority.RandomWinnerResolver{},
		}),
	}}
	listeners := model.BiasListeners{Listeners: []model.BiasListener{&majority.MajorityBiasListener{}}}
	biases := model.BiasMap{
		fatigue.BiasName: fatigue.NewFatigue(utils.RandomBasedSeedValueGenerator, utils.RandomBasedSeedValueGenerator,
			[]fatigue.FatigueFunction{&fatigue.ExponentialFromZeroFatigue{}, &fatigue.ConstFatigueFunction{}}),
	}
	var dm model.DecisionMaker
	if err := json.Unmarshal([]byte(body), &dm); err != nil {
		return "bind: " + err.Error(), false
	}
	defer func() {
		if e := recover(); e != nil {
			res, accepted = fmt.Sprintf("rejected: %v", e), false
		}
	}()
	decision := dm.MakeDecision(funcs, listeners, &biases, utils.RandomBasedSeedValueGenerator)
	out, err := json.Marshal(decision)
	if err != nil {
		return "marshal: " + err.Error(), false
	}
	return string(out), true
}

const huntF2Request = `{
 "preferenceFunction": "majorityHeuristic",
 "knownAlternatives": [
  {"id": "a", "criteria": {"c1": 1, "c2": 5}},
  {"id": "b", "criteria": {"c1": 4, "c2": 2}},
  {"id": "c", "criteria": {"c1": 3, "c2": 3}},
  {"id": "d", "criteria": {"c1": 2, "c2": 4}}
 ],
 "choseToMake": ["a", "b", "c", "d"],
 "criteria": [{"id": "c1", "type": "gain"}, {"id": "c2", "type": "gain"}],
 "methodParameters": {"weights": {"c1": 1, "c2": 1}, "randomAlternativesOrdering": true, "drawResolution": "random" %MP%},
 "biasApplyRandomSeed": 1,
 "biases": [%BIASES%]
}`

func huntF2Request_(mp, biases string) string {
	out := huntF2Request
	for _, kv := range [][2]string{{"%MP%", mp}, {"%BIASES%", biases}} {
		for i := 0; i+len(kv[0]) <= len(out); i++ {
			if out[i:i+len(kv[0])] == kv[0] {
				out = out[:i] + kv[1] + out[i+len(kv[0]):]
				break
			}
		}
	}
	return out
}

func huntF2Check(t *testing.T, name, body string) {
	acceptedBodies := map[string]int{}
	acc, rej := 0, 0
	for i := 0; i < 80; i++ {
		res, ok := huntF2Decide(body)
		if ok {
			acc++
			acceptedBodies[res]++
		} else {
			rej++
		}
	}
	if acc > 0 && rej > 0 {
		t.Errorf("%s: same request accepted %d times and rejected %d times", name, acc, rej)
	}
	if len(acceptedBodies) > 1 {
		t.Errorf("%s: same request produced %d different accepted responses in %d submissions", name, len(acceptedBodies), acc)
	}
}

func TestHuntC02F2_DuplicateCaseKeys(t *testing.T) {
	// control: documented spelling only -> repeatable
	huntF2Check(t, "control", huntF2Request_(`, "randomSeed": 1`, ``))
	// the shuffle / draw seed of the heuristic is 1 in some submissions and 5 in others
	huntF2Check(t, "methodParameters randomSeed+randomseed", huntF2Request_(`, "randomSeed": 1, "randomseed": 5`, ``))
	// the bias is applied in some submissions and skipped in others
	huntF2Check(t, "bias applyProbability+applyprobability", huntF2Request_(`, "randomSeed": 1`,
		`{"name":"fatigue","applyProbability":1,"applyprobability":0,"props":{"function":"const","params":{"value":0.5},"randomSeed":3}}`))
	// accepted in some submissions, rejected ("bias 'noSuchBias' not found") in others
	huntF2Check(t, "bias name+NAME", huntF2Request_(`, "randomSeed": 1`,
		`{"name":"fatigue","NAME":"noSuchBias","props":{"function":"const","params":{"value":0.5},"randomSeed":3}}`))
}
