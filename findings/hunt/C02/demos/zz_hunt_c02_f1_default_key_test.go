package client

// C02 finding 1 demo.
// Copy to: lib/client/   (package client)
// Run:     cd lib && GOFLAGS=-mod=mod GOPROXY=off GOSUMDB=off GOTOOLCHAIN=local \
//          go test -vet=off -count=1 -run TestHuntC02F1 ./client/
//
// One request, submitted 80 times to the same wiring as httpClient/main.go (owa + anchoring part of it).
// The anchoring applier "newCriterion" gets its seed spelled "randomseed" (the service matches keys
// case-insensitively, that is the only reason the documented camelCase keys work at all).
// Expected by C02: one verdict and, when accepted, one byte-identical body.
// Observed: two different 200 bodies (seed 7 in some submissions, seed 0 in others).

import (
	"encoding/json"
	"fmt"
	"github.com/Azbesciak/RealDecisionMaker/lib/logic/biases/anchoring"
	"github.com/Azbesciak/RealDecisionMaker/lib/logic/preference-func/owa"
	"github.com/Azbesciak/RealDecisionMaker/lib/model"
	reference_criterion "github.com/Azbesciak/RealDecisionMaker/lib/model/reference-criterion"
	"github.com/Azbesciak/RealDecisionMaker/lib/utils"
	"testing"
)

func huntF1Decide(body string) (res string, accepted bool) {
	funcs := model.PreferenceFunctions{Functions: []model.PreferenceFunction{&owa.OWAPreferenceFunc{}}}
	listeners := model.BiasListeners{Listeners: []model.BiasListener{&owa.OwaBiasListener{}}}
	refMgr := *reference_criterion.NewReferenceCriteriaManager(
		[]reference_criterion.ReferenceCriterionFactory{
			&reference_criterion.ImportanceRatioReferenceCriterionManager{},
			&reference_criterion.RandomUniformReferenceCriterionManager{RandomFactory: utils.RandomBasedSeedValueGenerator},
			&reference_criterion.RandomWeightedReferenceCriterionManager{RandomFactory: utils.RandomBasedSeedValueGenerator},
		},
	)
	biases := model.BiasMap{
		anchoring.BiasName: anchoring.NewAnchoring(
			[]anchoring.AnchoringEvaluator{&anchoring.LinearAnchoringEvaluator{}, &anchoring.ExpFromZeroAnchoringEvaluator{}},
			[]anchoring.ReferencePointsEvaluator{&anchoring.IdealReferenceAlternativeEvaluator{}, &anchoring.NadirReferenceAlternativeEvaluator{}},
			[]anchoring.AnchoringApplier{
				&anchoring.InlineAnchoringApplier{},
				anchoring.NewNewCriterionAnchoringApplier(utils.RandomBasedSeedValueGenerator, refMgr),
			},
		),
	}
	var dm model.DecisionMaker
	if err := json.Unmarshal([]byte(body), &dm); err != nil {
		return "bind: " + err.Error(), false
	}
	defer func() {
		if e := recover(); e != nil {
			res, accepted = fmt.Sprintf("rejected: %v", e), false
		}
	}()
	decision := dm.MakeDecision(funcs, listeners, &biases, utils.RandomBasedSeedValueGenerator)
	out, err := json.Marshal(decision)
	if err != nil {
		return "marshal: " + err.Error(), false
	}
	return string(out), true
}

func TestHuntC02F1_NewCriterionApplierSeedKeyCase(t *testing.T) {
	body := `{
 "preferenceFunction": "owa",
 "knownAlternatives": [
  {"id": "a", "criteria": {"c1": 1, "c2": 5}},
  {"id": "b", "criteria": {"c1": 4, "c2": 2}},
  {"id": "c", "criteria": {"c1": 3, "c2": 3}}
 ],
 "choseToMake": ["a", "b", "c"],
 "criteria": [{"id": "c1", "type": "gain"}, {"id": "c2", "type": "gain"}],
 "methodParameters": {"weights": {"c1": 1, "c2": 2}},
 "biasApplyRandomSeed": 1,
 "biases": [{"name": "anchoring", "props": {
   "anchoringAlternatives": [{"alternative": "a", "coefficient": 1}],
   "loss": {"function": "linear", "params": {"a": 1, "b": 0}},
   "gain": {"function": "linear", "params": {"a": 1, "b": 0}},
   "referencePoints": {"function": "ideal"},
   "applier": {"function": "newCriterion", "params": {"randomseed": 7}}}}]
}`
	acceptedBodies := map[string]int{}
	acc, rej := 0, 0
	for i := 0; i < 80; i++ {
		res, ok := huntF1Decide(body)
		if ok {
			acc++
			acceptedBodies[res]++
		} else {
			rej++
		}
	}
	if acc > 0 && rej > 0 {
		t.Errorf("same request accepted %d times and rejected %d times", acc, rej)
	}
	if len(acceptedBodies) > 1 {
		t.Errorf("same request produced %d different accepted responses in %d submissions:", len(acceptedBodies), acc)
		for b, n := range acceptedBodies {
			var parsed struct {
				Result []struct {
					Evaluation struct {
						Value float64 `json:"value"`
					} `json:"evaluation"`
				} `json:"result"`
			}
			_ = json.Unmarshal([]byte(b), &parsed)
			t.Logf("  %2d x first evaluation value %v", n, parsed.Result[0].Evaluation.Value)
		}
	}
}
