package main

// C02 finding 1, observed at POST /api/decide (companion of zz_hunt_c02_f1_default_key_test.go).
// Copy to: httpClient/   (package main)
// Run:     cp httpClient/go.mod /tmp/hc.mod; cp httpClient/go.sum /tmp/hc.sum
//          echo 'replace github.com/Azbesciak/RealDecisionMaker/lib => <ABSOLUTE PATH OF THIS TREE>/lib' >> /tmp/hc.mod
//          cd httpClient && GOFLAGS=-mod=mod GOPROXY=off GOSUMDB=off GOTOOLCHAIN=local \
//          go test -modfile=/tmp/hc.mod -vet=off -count=1 -run TestHuntC02F1Http .

import (
	"bytes"
	"github.com/gin-gonic/gin"
	"io/ioutil"
	"log"
	"net/http"
	"net/http/httptest"
	"testing"
)

func TestHuntC02F1Http_NewCriterionApplierSeedKeyCase(t *testing.T) {
	log.SetOutput(ioutil.Discard)
	gin.SetMode(gin.ReleaseMode)
	r := gin.New()
	r.POST("/api/decide", decideHandler)
	body := []byte(`{
 "preferenceFunction": "owa",
 "knownAlternatives": [
  {"id": "a", "criteria": {"c1": 1, "c2": 5}},
  {"id": "b", "criteria": {"c1": 4, "c2": 2}},
  {"id": "c", "criteria": {"c1": 3, "c2": 3}}
 ],
 "choseToMake": ["a", "b", "c"],
 "criteria": [{"id": "c1", "type": "gain"}, {"id": "c2", "type": "gain"}],
 "methodParameters": {"weights": {"c1": 1, "c2": 2}},
 "biasApplyRandomSeed": 1,
 "biases": [{"name": "anchoring", "props": {
   "anchoringAlternatives": [{"alternative": "a", "coefficient": 1}],
   "loss": {"function": "linear", "params": {"a": 1, "b": 0}},
   "gain": {"function": "linear", "params": {"a": 1, "b": 0}},
   "referencePoints": {"function": "ideal"},
   "applier": {"function": "newCriterion", "params": {"randomseed": 7}}}}]
}`)
	okBodies := map[string]int{}
	codes := map[int]int{}
	for i := 0; i < 80; i++ {
		rec := httptest.NewRecorder()
		req, _ := http.NewRequest("POST", "/api/decide", bytes.NewReader(body))
		req.Header.Set("Content-Type", "application/json")
		r.ServeHTTP(rec, req)
		codes[rec.Code]++
		if rec.Code == http.StatusOK {
			okBodies[rec.Body.String()]++
		}
	}
	if len(codes) > 1 {
		t.Errorf("same request, different status codes: %v", codes)
	}
	if len(okBodies) > 1 {
		t.Errorf("POST /api/decide returned %d different 200 bodies for one request", len(okBodies))
	}
}
