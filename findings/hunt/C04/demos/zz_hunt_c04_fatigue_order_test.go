package client

// C04 demo: with the `fatigue` bias the value (and so the position class and links) of an alternative depends on
// the order in which alternatives are listed in `choseToMake` / `knownAlternatives`: blurCriteriaValues
// (lib/logic/biases/fatigue/fatigue.go) draws the random blur per alternative in list order. All other biases
// that draw per-alternative random values (criteriaConcealment) sort the alternatives by id first.
//
// Copy to: lib/client/
// Run:     cd lib && go test -vet=off -count=1 -run 'TestC04Hunt_FatigueOrder' ./client/

import (
	"fmt"
	"sort"
	"testing"

	"github.com/Azbesciak/RealDecisionMaker/lib/logic/biases/fatigue"
	"github.com/Azbesciak/RealDecisionMaker/lib/logic/preference-func/choquet"
	"github.com/Azbesciak/RealDecisionMaker/lib/logic/preference-func/owa"
	weighted_sum "github.com/Azbesciak/RealDecisionMaker/lib/logic/preference-func/weighted-sum"
	. "github.com/Azbesciak/RealDecisionMaker/lib/model"
	"github.com/Azbesciak/RealDecisionMaker/lib/utils"
)

func c04huntFatigueDecision(method string, weights Weights, known []AlternativeWithCriteria, chose []string) map[string]string {
	dm := DecisionMaker{
		PreferenceFunction: method,
		KnownAlternatives:  known,
		ChoseToMake:        chose,
		Criteria:           Criteria{{Id: "c1", Type: Gain}, {Id: "c2", Type: Gain}},
		MethodParameters:   utils.Map{"weights": weights},
		Biases: BiasesParams{utils.Map{
			"name": "fatigue",
			"props": utils.Map{
				"function":   "const",
				"params":     utils.Map{"value": 0.3},
				"randomSeed": 123,
			},
		}},
	}
	funcs := PreferenceFunctions{Functions: []PreferenceFunction{
		&weighted_sum.WeightedSumPreferenceFunc{}, &owa.OWAPreferenceFunc{}, &choquet.ChoquetIntegralPreferenceFunc{},
	}}
	listeners := BiasListeners{Listeners: []BiasListener{
		&weighted_sum.WeightedSumBiasListener{}, &owa.OwaBiasListener{}, &choquet.ChoquetIntegralBiasListener{},
	}}
	biases := BiasMap{fatigue.BiasName: fatigue.NewFatigue(
		utils.RandomBasedSeedValueGenerator, utils.RandomBasedSeedValueGenerator,
		[]fatigue.FatigueFunction{&fatigue.ExponentialFromZeroFatigue{}, &fatigue.ConstFatigueFunction{}},
	)}
	res := dm.MakeDecision(funcs, listeners, &biases, utils.RandomBasedSeedValueGenerator)
	out := map[string]string{}
	for _, e := range res.Result {
		links := append([]string{}, e.BetterThanOrSameAs...)
		sort.Strings(links)
		out[e.Alternative.Id] = fmt.Sprintf("value=%v links=%v", e.Value(), links)
	}
	return out
}

func TestC04Hunt_FatigueOrder(t *testing.T) {
	a := AlternativeWithCriteria{Id: "a", Criteria: Weights{"c1": 10, "c2": 20}}
	b := AlternativeWithCriteria{Id: "b", Criteria: Weights{"c1": 20, "c2": 11}}
	c := AlternativeWithCriteria{Id: "c", Criteria: Weights{"c1": 15, "c2": 15}}
	methods := map[string]Weights{
		"weightedSum":     {"c1": 1, "c2": 1},
		"owa":             {"c1": 0.5, "c2": 0.5},
		"choquetIntegral": {"c1": 0.5, "c2": 0.5, "c1,c2": 1},
	}
	for method, weights := range methods {
		base := c04huntFatigueDecision(method, weights, []AlternativeWithCriteria{a, b, c}, []string{"a", "b", "c"})
		permChose := c04huntFatigueDecision(method, weights, []AlternativeWithCriteria{a, b, c}, []string{"c", "b", "a"})
		permKnown := c04huntFatigueDecision(method, weights, []AlternativeWithCriteria{c, a, b}, []string{"a", "b", "c"})
		for _, id := range []string{"a", "b", "c"} {
			if base[id] != permChose[id] {
				t.Errorf("%s: alternative '%s' depends on choseToMake order:\n  [a b c]: %s\n  [c b a]: %s", method, id, base[id], permChose[id])
			}
			if base[id] != permKnown[id] {
				t.Errorf("%s: alternative '%s' depends on knownAlternatives order:\n  [a b c]: %s\n  [c a b]: %s", method, id, base[id], permKnown[id])
			}
		}
	}
}
