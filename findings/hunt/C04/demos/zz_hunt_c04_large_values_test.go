package client

// C04 demo: the 1e-8 rounding in AlternativeResult.rounded() (lib/model/alternative.go) is not faithful for
// large magnitudes: for |value| >= ~9e7 it can move a utility onto a neighbouring float64 (merging two utilities
// that differ by much more than 1e-8 into a "tie"), and for |value| > ~1.797e300 it overflows to +/-Inf so
// that all such utilities tie and are listed by id, i.e. possibly worst first.
//
// Copy to: lib/client/
// Run:     cd lib && go test -vet=off -count=1 -run 'TestC04Hunt_LargeValues' ./client/

import (
	"math"
	"testing"

	. "github.com/Azbesciak/RealDecisionMaker/lib/logic/preference-func/weighted-sum"
	. "github.com/Azbesciak/RealDecisionMaker/lib/model"
	"github.com/Azbesciak/RealDecisionMaker/lib/utils"
)

func c04huntRankSingleCriterion(values map[string]float64, chose []string) AlternativesRanking {
	known := make([]AlternativeWithCriteria, 0, len(values))
	for _, id := range chose {
		known = append(known, AlternativeWithCriteria{Id: id, Criteria: Weights{"c": values[id]}})
	}
	dm := DecisionMaker{
		PreferenceFunction: "weightedSum",
		KnownAlternatives:  known,
		ChoseToMake:        chose,
		Criteria:           Criteria{{Id: "c", Type: Gain}},
		MethodParameters:   utils.Map{"weights": Weights{"c": 1}},
	}
	funcs := PreferenceFunctions{Functions: []PreferenceFunction{&WeightedSumPreferenceFunc{}}}
	return dm.MakeDecision(funcs, BiasListeners{}, &BiasMap{}, utils.RandomBasedSeedValueGenerator).Result
}

func c04huntCheckStrictOrder(t *testing.T, values map[string]float64, expectedOrder []string) {
	ranking := c04huntRankSingleCriterion(values, []string{"a", "b", "c"})
	for i, e := range ranking {
		t.Logf("result[%d] = %s value=%v betterThanOrSameAs=%v (utility %.17g)",
			i, e.Alternative.Id, e.Value(), e.BetterThanOrSameAs, values[e.Alternative.Id])
	}
	for i, id := range expectedOrder {
		if ranking[i].Alternative.Id != id {
			t.Errorf("position %d: expected '%s' (utilities are pairwise distinct by far more than 1e-8), got '%s'",
				i, id, ranking[i].Alternative.Id)
		}
	}
	for i, e := range ranking {
		// pairwise distinct utilities: every entry links exactly to its direct successor
		var expected []string
		if i+1 < len(expectedOrder) {
			expected = []string{expectedOrder[i+1]}
		}
		if e.Alternative.Id != expectedOrder[i] {
			continue
		}
		if len(e.BetterThanOrSameAs) != len(expected) || (len(expected) == 1 && e.BetterThanOrSameAs[0] != expected[0]) {
			t.Errorf("links of '%s': expected %v, got %v", e.Alternative.Id, expected, e.BetterThanOrSameAs)
		}
		if math.IsInf(e.Value(), 0) || math.IsNaN(e.Value()) {
			t.Errorf("value of '%s' is %v, utility was finite (%g)", e.Alternative.Id, e.Value(), values[e.Alternative.Id])
		}
	}
}

// utilities 1e301 < 2e301 < 3e301 -> all become +Inf, "tie", listed a,b,c = worst first
func TestC04Hunt_LargeValues_OverflowToInf(t *testing.T) {
	c04huntCheckStrictOrder(t,
		map[string]float64{"a": 1e301, "b": 2e301, "c": 3e301},
		[]string{"c", "b", "a"})
}

// two neighbouring float64 utilities around 2.3e10 differ by 3.8e-6 (380 x the rounding step) but are merged
func TestC04Hunt_LargeValues_UlpMerge(t *testing.T) {
	lo := 23183004193.767689
	hi := math.Nextafter(lo, math.Inf(1))
	if hi-lo < 1e-6 {
		t.Fatalf("test setup: expected a gap over 1e-6, got %g", hi-lo)
	}
	c04huntCheckStrictOrder(t,
		map[string]float64{"a": lo, "b": hi, "c": 1},
		[]string{"b", "a", "c"})
}
