package client

// C18 demo 3 - reference criterion strategy `randomWeighted` (weight = minWeight / value, "the most influencing
// one has the lowest chance") stops being random as soon as one criterion has importance 0:
// minWeight/value is NaN or 0 for every criterion, every comparison with NaN fails and FindCriterionInRange falls
// through to its last entry - the MOST important criterion is the reference for every seed.
//
// copy to: lib/client/
// run:     cd lib && GOFLAGS=-mod=mod GOPROXY=off GOSUMDB=off GOTOOLCHAIN=local \
//          go test -vet=off -count=1 -run TestHuntC18_RandomWeighted ./client/

import (
	"testing"

	criteria_concealment "github.com/Azbesciak/RealDecisionMaker/lib/logic/biases/criteria-concealment"
	"github.com/Azbesciak/RealDecisionMaker/lib/logic/limited-rationality/majority"
	"github.com/Azbesciak/RealDecisionMaker/lib/logic/preference-func/owa"
	"github.com/Azbesciak/RealDecisionMaker/lib/model"
	reference_criterion "github.com/Azbesciak/RealDecisionMaker/lib/model/reference-criterion"
	"github.com/Azbesciak/RealDecisionMaker/lib/utils"
)

// returns how often each criterion was the reference one; the reference criterion is recognised by the
// valuesRange of the concealed criterion (scaling 1 => exactly the range of the reference criterion)
func c18f3Histogram(t *testing.T, method string, alternatives []model.AlternativeWithCriteria, weights utils.Map, rangeToCriterion map[utils.ValueRange]string) map[string]int {
	funcs := model.PreferenceFunctions{Functions: []model.PreferenceFunction{
		majority.NewMajority(utils.RandomBasedSeedValueGenerator, []majority.DrawResolver{&majority.DrawAllowedResolver{}}),
		&owa.OWAPreferenceFunc{},
	}}
	listeners := model.BiasListeners{Listeners: []model.BiasListener{&majority.MajorityBiasListener{}, &owa.OwaBiasListener{}}}
	refMgr := *reference_criterion.NewReferenceCriteriaManager([]reference_criterion.ReferenceCriterionFactory{
		&reference_criterion.ImportanceRatioReferenceCriterionManager{},
		&reference_criterion.RandomWeightedReferenceCriterionManager{RandomFactory: utils.RandomBasedSeedValueGenerator},
	})
	biases := model.BiasMap{
		criteria_concealment.BiasName: criteria_concealment.NewCriteriaConcealment(utils.RandomBasedSeedValueGenerator, refMgr),
	}
	histogram := map[string]int{}
	for seed := 0; seed < 300; seed++ {
		dm := model.DecisionMaker{
			PreferenceFunction: method,
			KnownAlternatives:  alternatives,
			ChoseToMake:        []string{"x", "y"},
			Criteria:           model.Criteria{{Id: "a", Type: model.Gain}, {Id: "b", Type: model.Gain}, {Id: "c", Type: model.Gain}},
			MethodParameters:   utils.Map{"weights": weights},
			Biases: model.BiasesParams{utils.Map{"name": "criteriaConcealment", "props": utils.Map{
				"randomSeed": 1, "referenceCriterionType": "randomWeighted", "newCriterionRandomSeed": seed,
			}}},
		}
		res := dm.MakeDecision(funcs, listeners, &biases, utils.RandomBasedSeedValueGenerator)
		added := res.Biases[0].(model.BiasParams).Props.(criteria_concealment.CriteriaConcealmentResult).AddedCriteria[0]
		ref, ok := rangeToCriterion[added.ValuesRange]
		if !ok {
			t.Fatalf("range %v of the concealed criterion is not the range of any existing criterion", added.ValuesRange)
		}
		histogram[ref]++
	}
	return histogram
}

func c18f3Check(t *testing.T, histogram map[string]int) {
	t.Logf("reference criterion over 300 seeds: %v (importance a < b < c)", histogram)
	if histogram["c"] == 300 {
		t.Errorf("randomWeighted picked the most important criterion 'c' for every one of 300 seeds; " +
			"the strategy says the most influencing criterion has the lowest chance")
	}
	if histogram["c"] > histogram["a"] || histogram["c"] > histogram["b"] {
		t.Errorf("the most important criterion 'c' was chosen more often than a less important one: %v", histogram)
	}
}

// majority heuristic: importance = declared weight; weight 0 is accepted
func TestHuntC18_RandomWeighted_ZeroWeightMajority(t *testing.T) {
	alternatives := []model.AlternativeWithCriteria{
		{Id: "x", Criteria: model.Weights{"a": 1, "b": 5, "c": 100}},
		{Id: "y", Criteria: model.Weights{"a": 3, "b": 2, "c": 200}},
	}
	ranges := map[utils.ValueRange]string{{Min: 1, Max: 3}: "a", {Min: 2, Max: 5}: "b", {Min: 100, Max: 200}: "c"}
	c18f3Check(t, c18f3Histogram(t, "majorityHeuristic", alternatives, utils.Map{"a": 0, "b": 1, "c": 6}, ranges))
}

// OWA: importance = sum of the values of the considered alternatives; values of both signs summing up to 0
func TestHuntC18_RandomWeighted_ZeroSumValuesOwa(t *testing.T) {
	alternatives := []model.AlternativeWithCriteria{
		{Id: "x", Criteria: model.Weights{"a": -4, "b": 5, "c": 100}},
		{Id: "y", Criteria: model.Weights{"a": 4, "b": 2, "c": 200}},
	}
	ranges := map[utils.ValueRange]string{{Min: -4, Max: 4}: "a", {Min: 2, Max: 5}: "b", {Min: 100, Max: 200}: "c"}
	c18f3Check(t, c18f3Histogram(t, "owa", alternatives, utils.Map{"a": 0.2, "b": 0.3, "c": 0.5}, ranges))
}

// sanity: with strictly positive importances the strategy behaves as documented (this one passes)
func TestHuntC18_RandomWeighted_PositiveWeightsControl(t *testing.T) {
	alternatives := []model.AlternativeWithCriteria{
		{Id: "x", Criteria: model.Weights{"a": 1, "b": 5, "c": 100}},
		{Id: "y", Criteria: model.Weights{"a": 3, "b": 2, "c": 200}},
	}
	ranges := map[utils.ValueRange]string{{Min: 1, Max: 3}: "a", {Min: 2, Max: 5}: "b", {Min: 100, Max: 200}: "c"}
	c18f3Check(t, c18f3Histogram(t, "majorityHeuristic", alternatives, utils.Map{"a": 0.5, "b": 1, "c": 6}, ranges))
}
