package client

// C18 demo 4 - weightedSum: an alternative that carries a value for an attribute which is not a declared
// criterion is accepted by the decision maker (and by every other listener), but WeightedSumBiasListener
// .RankCriteriaAscending panics on it, so no reference criterion can be chosen and neither concealment
// nor mixing adds its criterion.
//
// copy to: lib/client/
// run:     cd lib && GOFLAGS=-mod=mod GOPROXY=off GOSUMDB=off GOTOOLCHAIN=local \
//          go test -vet=off -count=1 -run TestHuntC18_WeightedSumExtraAttribute ./client/

import (
	"testing"

	criteria_concealment "github.com/Azbesciak/RealDecisionMaker/lib/logic/biases/criteria-concealment"
	criteria_mixing "github.com/Azbesciak/RealDecisionMaker/lib/logic/biases/criteria-mixing"
	weighted_sum "github.com/Azbesciak/RealDecisionMaker/lib/logic/preference-func/weighted-sum"
	"github.com/Azbesciak/RealDecisionMaker/lib/model"
	reference_criterion "github.com/Azbesciak/RealDecisionMaker/lib/model/reference-criterion"
	"github.com/Azbesciak/RealDecisionMaker/lib/utils"
)

func c18f4Decide(biasesParams model.BiasesParams) (res *model.DecisionMakerChoice, err interface{}) {
	defer func() {
		if e := recover(); e != nil {
			err = e
		}
	}()
	funcs := model.PreferenceFunctions{Functions: []model.PreferenceFunction{&weighted_sum.WeightedSumPreferenceFunc{}}}
	listeners := model.BiasListeners{Listeners: []model.BiasListener{&weighted_sum.WeightedSumBiasListener{}}}
	refMgr := *reference_criterion.NewReferenceCriteriaManager([]reference_criterion.ReferenceCriterionFactory{
		&reference_criterion.ImportanceRatioReferenceCriterionManager{},
	})
	biases := model.BiasMap{
		criteria_concealment.BiasName: criteria_concealment.NewCriteriaConcealment(utils.RandomBasedSeedValueGenerator, refMgr),
		criteria_mixing.BiasName:      criteria_mixing.NewCriteriaMixing(utils.RandomBasedSeedValueGenerator, refMgr),
	}
	dm := model.DecisionMaker{
		PreferenceFunction: "weightedSum",
		KnownAlternatives: []model.AlternativeWithCriteria{
			{Id: "x", Criteria: model.Weights{"a": 1, "b": 5, "note": 7}},
			{Id: "y", Criteria: model.Weights{"a": 3, "b": 2, "note": 9}},
		},
		ChoseToMake:      []string{"x", "y"},
		Criteria:         model.Criteria{{Id: "a", Type: model.Gain}, {Id: "b", Type: model.Gain}},
		MethodParameters: utils.Map{"weights": utils.Map{"a": 5, "b": 6}},
		Biases:           biasesParams,
	}
	res = dm.MakeDecision(funcs, listeners, &biases, utils.RandomBasedSeedValueGenerator)
	return
}

func TestHuntC18_WeightedSumExtraAttribute(t *testing.T) {
	if _, err := c18f4Decide(nil); err != nil {
		t.Fatalf("control: the request without biases must be accepted, got %v", err)
	}
	for _, bias := range []string{criteria_concealment.BiasName, criteria_mixing.BiasName} {
		res, err := c18f4Decide(model.BiasesParams{utils.Map{"name": bias, "props": utils.Map{"randomSeed": 1}}})
		if err != nil {
			t.Errorf("%s: no criterion added, request failed: %v", bias, err)
			continue
		}
		for _, r := range res.Result {
			if len(r.Alternative.Criteria) != 4 {
				t.Errorf("%s: alternative %s should have a, b, note and the new criterion, has %v", bias, r.Alternative.Id, r.Alternative.Criteria)
			}
			if r.Alternative.Criteria["note"] != map[string]float64{"x": 7, "y": 9}[r.Alternative.Id] {
				t.Errorf("%s: existing value 'note' of %s changed", bias, r.Alternative.Id)
			}
		}
	}
}
