package client

// C18 demo 2 - the "not used" id of a concealed / mixed criterion is name + (number of ids with that prefix).
// After criteriaOmission removed an earlier generated criterion (or when the user already has such an id)
// that id is taken and the request fails with 'cannot add new criterion ... already exist'.
// (See zz_hunt_C18_id_reuse_after_omission_test.go for the non-crashing variant: an id is handed out twice.)
//
// copy to: lib/client/
// run:     cd lib && GOFLAGS=-mod=mod GOPROXY=off GOSUMDB=off GOTOOLCHAIN=local \
//          go test -vet=off -count=1 -run TestHuntC18_IdCollision ./client/

import (
	"fmt"
	"testing"

	criteria_concealment "github.com/Azbesciak/RealDecisionMaker/lib/logic/biases/criteria-concealment"
	criteria_omission "github.com/Azbesciak/RealDecisionMaker/lib/logic/biases/criteria-omission"
	"github.com/Azbesciak/RealDecisionMaker/lib/logic/limited-rationality/majority"
	"github.com/Azbesciak/RealDecisionMaker/lib/model"
	criteria_ordering "github.com/Azbesciak/RealDecisionMaker/lib/model/criteria-ordering"
	reference_criterion "github.com/Azbesciak/RealDecisionMaker/lib/model/reference-criterion"
	"github.com/Azbesciak/RealDecisionMaker/lib/utils"
)

func c18f2Decide(criteria model.Criteria, alternatives []model.AlternativeWithCriteria, weights utils.Map, biasesParams model.BiasesParams) (res *model.DecisionMakerChoice, err interface{}) {
	defer func() {
		if e := recover(); e != nil {
			err = e
		}
	}()
	funcs := model.PreferenceFunctions{Functions: []model.PreferenceFunction{
		majority.NewMajority(utils.RandomBasedSeedValueGenerator, []majority.DrawResolver{&majority.DrawAllowedResolver{}}),
	}}
	listeners := model.BiasListeners{Listeners: []model.BiasListener{&majority.MajorityBiasListener{}}}
	refMgr := *reference_criterion.NewReferenceCriteriaManager([]reference_criterion.ReferenceCriterionFactory{
		&reference_criterion.ImportanceRatioReferenceCriterionManager{},
	})
	biases := model.BiasMap{
		criteria_concealment.BiasName: criteria_concealment.NewCriteriaConcealment(utils.RandomBasedSeedValueGenerator, refMgr),
		criteria_omission.BiasName: criteria_omission.NewCriteriaOmission([]criteria_ordering.CriteriaOrderingResolver{
			&criteria_ordering.WeakestCriteriaOrderingResolver{},
		}),
	}
	ids := make([]string, len(alternatives))
	for i, a := range alternatives {
		ids[i] = a.Id
	}
	dm := model.DecisionMaker{
		PreferenceFunction: "majorityHeuristic",
		KnownAlternatives:  alternatives,
		ChoseToMake:        ids,
		Criteria:           criteria,
		MethodParameters:   utils.Map{"weights": weights},
		Biases:             biasesParams,
	}
	res = dm.MakeDecision(funcs, listeners, &biases, utils.RandomBasedSeedValueGenerator)
	return
}

func c18f2AddedIds(res *model.DecisionMakerChoice) []string {
	var ids []string
	for _, b := range res.Biases {
		if r, ok := b.(model.BiasParams).Props.(criteria_concealment.CriteriaConcealmentResult); ok {
			for _, a := range r.AddedCriteria {
				ids = append(ids, a.Id)
			}
		}
	}
	return ids
}

var c18f2Alts = []model.AlternativeWithCriteria{
	{Id: "x", Criteria: model.Weights{"a": 1, "b": 5}},
	{Id: "y", Criteria: model.Weights{"a": 3, "b": 2}},
}
var c18f2Criteria = model.Criteria{{Id: "a", Type: model.Gain}, {Id: "b", Type: model.Gain}}
var c18f2Weights = utils.Map{"a": 5, "b": 6}

// conceal (weight < 5, the weakest), conceal (weight 0.6*6), omit the weakest = the first concealed one, conceal again
func TestHuntC18_IdCollision_ConcealAfterOmissionFails(t *testing.T) {
	res, err := c18f2Decide(c18f2Criteria, c18f2Alts, c18f2Weights, model.BiasesParams{
		utils.Map{"name": "criteriaConcealment", "props": utils.Map{"randomSeed": 0, "newCriterionImportance": 0}},
		utils.Map{"name": "criteriaConcealment", "props": utils.Map{"randomSeed": 0, "newCriterionImportance": 1}},
		utils.Map{"name": "criteriaOmission", "props": utils.Map{"ratio": 0, "min": 1, "max": 1, "ordering": "weakest"}},
		utils.Map{"name": "criteriaConcealment", "props": utils.Map{"randomSeed": 3}},
	})
	if err != nil {
		t.Fatalf("third concealment did not get an unused id, request failed: %v", err)
	}
	c18f2RequireDistinct(t, c18f2AddedIds(res))
}

// the user's own criterion happens to be called like the second generated id
func TestHuntC18_IdCollision_UserCriterionWithGeneratedName(t *testing.T) {
	const user = "__concealedCriterion__1"
	res, err := c18f2Decide(
		model.Criteria{{Id: "a", Type: model.Gain}, {Id: user, Type: model.Gain}},
		[]model.AlternativeWithCriteria{
			{Id: "x", Criteria: model.Weights{"a": 1, user: 5}},
			{Id: "y", Criteria: model.Weights{"a": 3, user: 2}},
		},
		utils.Map{"a": 5, user: 6},
		model.BiasesParams{utils.Map{"name": "criteriaConcealment", "props": utils.Map{"randomSeed": 1}}},
	)
	if err != nil {
		t.Fatalf("concealment did not get an unused id, request failed: %v", err)
	}
	for _, id := range c18f2AddedIds(res) {
		if id == user || id == "a" {
			t.Errorf("generated id '%s' is already used", id)
		}
	}
}

func c18f2RequireDistinct(t *testing.T, ids []string) {
	t.Logf("ids of the added criteria, in order: %v", ids)
	seen := map[string]bool{}
	for i, id := range ids {
		if seen[id] {
			t.Errorf("%s", fmt.Sprintf("added criterion #%d got id '%s' which was used before in this request", i, id))
		}
		seen[id] = true
	}
}
