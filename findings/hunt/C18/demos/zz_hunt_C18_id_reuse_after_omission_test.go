package client

// C18 demo 2b - strict reading of "an id not used before": conceal, omit exactly that concealed criterion,
// conceal again -> the second concealed criterion gets the very same id '__concealedCriterion__' although that id
// was already used (and reported in biases[0].props.addedCriteria) earlier in the same request.
// Uses the helpers of zz_hunt_C18_id_collision_test.go - copy BOTH files.
//
// copy to: lib/client/   (together with zz_hunt_C18_id_collision_test.go)
// run:     cd lib && GOFLAGS=-mod=mod GOPROXY=off GOSUMDB=off GOTOOLCHAIN=local \
//          go test -vet=off -count=1 -run TestHuntC18_IdReusedAfterOmission ./client/

import (
	"testing"

	criteria_omission "github.com/Azbesciak/RealDecisionMaker/lib/logic/biases/criteria-omission"
	"github.com/Azbesciak/RealDecisionMaker/lib/model"
	"github.com/Azbesciak/RealDecisionMaker/lib/utils"
)

// conceal, omit exactly that concealed criterion (it is the weakest), conceal again: the same id is handed out twice
func TestHuntC18_IdReusedAfterOmission(t *testing.T) {
	res, err := c18f2Decide(c18f2Criteria, c18f2Alts, c18f2Weights, model.BiasesParams{
		utils.Map{"name": "criteriaConcealment", "props": utils.Map{"randomSeed": 0, "newCriterionImportance": 0}},
		utils.Map{"name": "criteriaOmission", "props": utils.Map{"ratio": 0, "min": 1, "max": 1, "ordering": "weakest"}},
		utils.Map{"name": "criteriaConcealment", "props": utils.Map{"randomSeed": 3}},
	})
	if err != nil {
		t.Fatalf("request failed: %v", err)
	}
	omitted := res.Biases[1].(model.BiasParams).Props.(criteria_omission.CriteriaOmissionResult).OmittedCriteria
	t.Logf("omitted: %v", omitted)
	c18f2RequireDistinct(t, c18f2AddedIds(res))
}

