package client

// C18 demo 1 - negative newCriterionScaling yields an inverted valuesRange (min > max); criteria bounding
// then collapses every concealed value onto one point that lies OUTSIDE the scaled reference range.
//
// copy to: lib/client/
// run:     cd lib && GOFLAGS=-mod=mod GOPROXY=off GOSUMDB=off GOTOOLCHAIN=local \
//          go test -vet=off -count=1 -run TestHuntC18_NegativeScaling ./client/

import (
	"encoding/json"
	"math"
	"testing"

	criteria_concealment "github.com/Azbesciak/RealDecisionMaker/lib/logic/biases/criteria-concealment"
	criteria_mixing "github.com/Azbesciak/RealDecisionMaker/lib/logic/biases/criteria-mixing"
	"github.com/Azbesciak/RealDecisionMaker/lib/logic/limited-rationality/majority"
	"github.com/Azbesciak/RealDecisionMaker/lib/model"
	reference_criterion "github.com/Azbesciak/RealDecisionMaker/lib/model/reference-criterion"
	"github.com/Azbesciak/RealDecisionMaker/lib/utils"
)

func c18f1Decide(t *testing.T, props utils.Map) criteria_concealment.AddedCriterion {
	added, _ := c18f1DecideAndMix(t, props, nil)
	return added
}

func c18f1DecideAndMix(t *testing.T, props utils.Map, mixProps utils.Map) (criteria_concealment.AddedCriterion, *criteria_mixing.MixedCriterion) {
	funcs := model.PreferenceFunctions{Functions: []model.PreferenceFunction{
		majority.NewMajority(utils.RandomBasedSeedValueGenerator, []majority.DrawResolver{&majority.DrawAllowedResolver{}}),
	}}
	listeners := model.BiasListeners{Listeners: []model.BiasListener{&majority.MajorityBiasListener{}}}
	refMgr := *reference_criterion.NewReferenceCriteriaManager([]reference_criterion.ReferenceCriterionFactory{
		&reference_criterion.ImportanceRatioReferenceCriterionManager{},
	})
	biases := model.BiasMap{
		criteria_concealment.BiasName: criteria_concealment.NewCriteriaConcealment(utils.RandomBasedSeedValueGenerator, refMgr),
		criteria_mixing.BiasName:      criteria_mixing.NewCriteriaMixing(utils.RandomBasedSeedValueGenerator, refMgr),
	}
	dm := model.DecisionMaker{
		PreferenceFunction: "majorityHeuristic",
		KnownAlternatives: []model.AlternativeWithCriteria{
			{Id: "x", Criteria: model.Weights{"a": 2, "b": 5}},
			{Id: "y", Criteria: model.Weights{"a": 10, "b": 2}},
			{Id: "z", Criteria: model.Weights{"a": 6, "b": 3}},
		},
		ChoseToMake: []string{"x", "y", "z"},
		Criteria:    model.Criteria{{Id: "a", Type: model.Gain}, {Id: "b", Type: model.Gain}},
		// "a" is the weakest criterion => reference criterion for newCriterionImportance = 0, its range is [2, 10]
		MethodParameters: utils.Map{"weights": utils.Map{"a": 5, "b": 6}},
		Biases:           model.BiasesParams{utils.Map{"name": "criteriaConcealment", "props": props}},
	}
	if mixProps != nil {
		dm.Biases = append(dm.Biases, utils.Map{"name": "criteriaMixing", "props": mixProps})
	}
	res := dm.MakeDecision(funcs, listeners, &biases, utils.RandomBasedSeedValueGenerator)
	added := res.Biases[0].(model.BiasParams).Props.(criteria_concealment.CriteriaConcealmentResult).AddedCriteria
	if len(added) != 1 {
		t.Fatalf("expected one added criterion, got %d", len(added))
	}
	b, _ := json.Marshal(added[0])
	t.Logf("props %v -> %s", props, b)
	if mixProps == nil {
		return added[0], nil
	}
	mixed := res.Biases[1].(model.BiasParams).Props.(criteria_mixing.MixedCriterion)
	b, _ = json.Marshal(mixed)
	t.Logf("mixing %v -> %s", mixProps, b)
	return added[0], &mixed
}

func TestHuntC18_NegativeScaling_BoundingMovesValuesOutOfRange(t *testing.T) {
	// reference range [2,10] scaled about its centre 6 by -1 is the interval with end points 10 and 2
	unbounded := c18f1Decide(t, utils.Map{"randomSeed": 7, "newCriterionImportance": 0, "newCriterionScaling": -1})
	for alt, v := range unbounded.AlternativesValues {
		if v < 2 || v > 10 {
			t.Errorf("unbounded: value %v of '%s' outside the scaled reference range [2,10]", v, alt)
		}
	}
	// allow twice the range of the new criterion: [-2, 14]. Every drawn value is already inside, bounding must be a no-op.
	bounded := c18f1Decide(t, utils.Map{"randomSeed": 7, "newCriterionImportance": 0, "newCriterionScaling": -1,
		"allowedValuesRangeScaling": 2})
	for alt, v := range bounded.AlternativesValues {
		if v < 2 || v > 10 {
			t.Errorf("allowedValuesRangeScaling=2: concealed value %v of '%s' is outside the reference range [2,10] scaled by -1", v, alt)
		}
		if math.Abs(v-unbounded.AlternativesValues[alt]) > 1e-9 {
			t.Errorf("allowedValuesRangeScaling=2 (allowed range contains the drawn value) changed value of '%s': %v -> %v",
				alt, unbounded.AlternativesValues[alt], v)
		}
	}
	if bounded.ValuesRange.Min > bounded.ValuesRange.Max {
		t.Errorf("new criterion has an inverted valuesRange %v (such a range is rejected by Criteria.Validate on input)", bounded.ValuesRange)
	}
}

// the inverted range also breaks a following criteriaMixing: the concealed GAIN criterion is rescaled to [0,T]
// upside down (its best alternative gets 0, its worst one gets T), although only cost criteria are to be inverted.
func TestHuntC18_NegativeScaling_MixingInvertsTheGainCriterion(t *testing.T) {
	for seed := 0; seed < 50; seed++ {
		added, mixed := c18f1DecideAndMix(t,
			utils.Map{"randomSeed": 7, "newCriterionImportance": 0, "newCriterionScaling": -1},
			utils.Map{"randomSeed": seed, "mixingRatio": 0.5})
		var scaled model.Weights
		if mixed.Component1.Id == added.Id {
			scaled = mixed.Component1.ScaledValues
		} else if mixed.Component2.Id == added.Id {
			scaled = mixed.Component2.ScaledValues
		} else {
			continue // the concealed criterion was not drawn for mixing with this seed
		}
		for a1, raw1 := range added.AlternativesValues {
			for a2, raw2 := range added.AlternativesValues {
				if raw1 > raw2 && scaled[a1] < scaled[a2] {
					t.Errorf("mixing seed %d: gain criterion '%s' rescaled upside down: raw %s=%v > %s=%v but rescaled %v < %v",
						seed, added.Id, a1, raw1, a2, raw2, scaled[a1], scaled[a2])
				}
			}
		}
		return
	}
	t.Skip("no seed mixed the concealed criterion")
}
