package client

// Demo for property C03 (finding 1): weightedSum never multiplies by the weight.
//
// Copy to:  lib/client/
// Run:      cd lib && GOFLAGS=-mod=mod GOPROXY=off GOSUMDB=off GOTOOLCHAIN=local \
//           go test -vet=off -count=1 ./client -run TestHuntC03Demo_WeightedSum -v
//
// Every sub-test goes through model.DecisionMaker.MakeDecision on a JSON-decoded request (the same path as
// POST /api/decide) and compares evaluation.value with  sum_i w_i * s_i * x_i  (s_i = -1 for cost criteria)
// computed from the criteria values reported in result[].alternative.criteria and, when a bias ran, from the
// weights reported in biases[].

import (
	"encoding/json"
	"fmt"
	"math"
	"math/rand"
	"testing"

	criteria_concealment "github.com/Azbesciak/RealDecisionMaker/lib/logic/biases/criteria-concealment"
	weighted_sum "github.com/Azbesciak/RealDecisionMaker/lib/logic/preference-func/weighted-sum"
	"github.com/Azbesciak/RealDecisionMaker/lib/model"
	reference_criterion "github.com/Azbesciak/RealDecisionMaker/lib/model/reference-criterion"
	"github.com/Azbesciak/RealDecisionMaker/lib/utils"
)

type c03Json = map[string]interface{}

func c03RunWeightedSum(t *testing.T, request string) c03Json {
	t.Helper()
	var dm model.DecisionMaker
	if err := json.Unmarshal([]byte(request), &dm); err != nil {
		t.Fatalf("bad request: %v", err)
	}
	funcs := model.PreferenceFunctions{Functions: []model.PreferenceFunction{&weighted_sum.WeightedSumPreferenceFunc{}}}
	listeners := model.BiasListeners{Listeners: []model.BiasListener{&weighted_sum.WeightedSumBiasListener{}}}
	refMgr := *reference_criterion.NewReferenceCriteriaManager([]reference_criterion.ReferenceCriterionFactory{
		&reference_criterion.ImportanceRatioReferenceCriterionManager{},
	})
	biases := model.BiasMap{
		criteria_concealment.BiasName: criteria_concealment.NewCriteriaConcealment(utils.RandomBasedSeedValueGenerator, refMgr),
	}
	choice := dm.MakeDecision(funcs, listeners, &biases, utils.RandomBasedSeedValueGenerator)
	raw, err := json.Marshal(choice)
	if err != nil {
		t.Fatalf("response not serialisable: %v", err)
	}
	var resp c03Json
	_ = json.Unmarshal(raw, &resp)
	return resp
}

func c03Round(v float64) float64 { return math.Round(v*1e8) / 1e8 }

// The literal example of TestValidFunc: weights (Cost 1, Color 2), values (Cost 200 [cost], Color 10 [gain]).
// 1*(-200) + 2*10 = -180, the implementation reports -190 = -200 + 10.
func TestHuntC03Demo_WeightedSum_Literal(t *testing.T) {
	resp := c03RunWeightedSum(t, `{
 "preferenceFunction":"weightedSum",
 "knownAlternatives":[{"id":"Ferrari","criteria":{"Cost":200,"Color":10}}],
 "choseToMake":["Ferrari"],
 "criteria":[{"id":"Cost","type":"cost"},{"id":"Color","type":"gain"}],
 "methodParameters":{"weights":{"Cost":1,"Color":2}}}`)
	got := resp["result"].([]interface{})[0].(c03Json)["evaluation"].(c03Json)["value"].(float64)
	if want := -180.0; math.Abs(got-want) > 1e-8 {
		t.Errorf("weightedSum value = %v, want 1*(-200) + 2*10 = %v", got, want)
	}
}

// Randomised differential check without biases (fixed seeds).
func TestHuntC03Demo_WeightedSum_Random(t *testing.T) {
	bad := 0
	for seed := int64(0); seed < 200; seed++ {
		r := rand.New(rand.NewSource(seed))
		n := 1 + r.Intn(4)
		var criteria []c03Json
		weights, values := c03Json{}, c03Json{}
		types := map[string]string{}
		for i := 0; i < n; i++ {
			id := fmt.Sprintf("c%d", i)
			types[id] = []string{"gain", "cost"}[r.Intn(2)]
			criteria = append(criteria, c03Json{"id": id, "type": types[id]})
			weights[id] = math.Round((r.Float64()*6-2)*100) / 100
			values[id] = math.Round((r.Float64()*40-20)*100) / 100
		}
		req, _ := json.Marshal(c03Json{
			"preferenceFunction": "weightedSum",
			"knownAlternatives":  []c03Json{{"id": "x", "criteria": values}},
			"choseToMake":        []string{"x"},
			"criteria":           criteria,
			"methodParameters":   c03Json{"weights": weights},
		})
		resp := c03RunWeightedSum(t, string(req))
		res := resp["result"].([]interface{})[0].(c03Json)
		got := res["evaluation"].(c03Json)["value"].(float64)
		want := 0.0
		for id, v := range res["alternative"].(c03Json)["criteria"].(c03Json) {
			x := v.(float64)
			if types[id] == "cost" {
				x = -x
			}
			want += weights[id].(float64) * x
		}
		if math.Abs(got-c03Round(want)) > 2e-8 {
			bad++
			if bad <= 3 {
				t.Errorf("seed %d: value %v, want sum(weight*signed value) = %v\nrequest: %s", seed, got, c03Round(want), req)
			}
		}
	}
	if bad > 0 {
		t.Errorf("%d of 200 random requests report a value different from the weighted sum", bad)
	}
}

// After criteriaConcealment the value must be the weighted sum over the post-bias criteria: the two original
// ones plus the concealed criterion, whose value and weight are both reported in biases[0].props.addedCriteria[0].
func TestHuntC03Demo_WeightedSum_AfterConcealment(t *testing.T) {
	resp := c03RunWeightedSum(t, `{
 "preferenceFunction":"weightedSum",
 "knownAlternatives":[{"id":"a","criteria":{"p":4,"q":10}},{"id":"b","criteria":{"p":8,"q":2}}],
 "choseToMake":["a","b"],
 "criteria":[{"id":"p","type":"gain"},{"id":"q","type":"cost"}],
 "methodParameters":{"weights":{"p":3,"q":0.5}},
 "biases":[{"name":"criteriaConcealment","props":{"randomSeed":7}}]}`)
	added := resp["biases"].([]interface{})[0].(c03Json)["props"].(c03Json)["addedCriteria"].([]interface{})[0].(c03Json)
	newId := added["id"].(string)
	newWeight := added["methodParameters"].(c03Json)["weights"].(c03Json)[newId].(float64)
	for _, re := range resp["result"].([]interface{}) {
		res := re.(c03Json)
		vals := res["alternative"].(c03Json)["criteria"].(c03Json)
		got := res["evaluation"].(c03Json)["value"].(float64)
		want := 3*vals["p"].(float64) - 0.5*vals["q"].(float64) + newWeight*vals[newId].(float64)
		if math.Abs(got-c03Round(want)) > 2e-8 {
			t.Errorf("alternative %v: value %v, want 3*p - 0.5*q + %v*%s = %v (values %v)",
				res["alternative"].(c03Json)["id"], got, newWeight, newId, c03Round(want), vals)
		}
	}
}
