package client

// Demo for property C03 (finding 2): the 1e-8 rounding step (math.Round(v*1e8)/1e8) is not safe for large
// aggregates: above ~1.8e300 it turns a finite aggregate into +Inf (which POST /api/decide cannot even
// serialise: HTTP 400 "json: unsupported value: +Inf"), and from ~1e8 upwards it moves the value by an ulp,
// i.e. by more than 1e-8.
//
// Copy to:  lib/client/
// Run:      cd lib && GOFLAGS=-mod=mod GOPROXY=off GOSUMDB=off GOTOOLCHAIN=local \
//           go test -vet=off -count=1 ./client -run TestHuntC03Demo_Rounding -v
//
// One criterion, weight / capacity 1, so the defining aggregate of every method is exactly the criterion value
// (1*x for weightedSum and OWA, (x-0)*mu({c}) = x for Choquet) and no floating point summation is involved.

import (
	"encoding/json"
	"fmt"
	"math"
	"testing"

	"github.com/Azbesciak/RealDecisionMaker/lib/logic/preference-func/choquet"
	"github.com/Azbesciak/RealDecisionMaker/lib/logic/preference-func/owa"
	weighted_sum "github.com/Azbesciak/RealDecisionMaker/lib/logic/preference-func/weighted-sum"
	"github.com/Azbesciak/RealDecisionMaker/lib/model"
	"github.com/Azbesciak/RealDecisionMaker/lib/utils"
)

func c03SingleCriterionValue(t *testing.T, method string, x float64) float64 {
	t.Helper()
	req := fmt.Sprintf(`{"preferenceFunction":%q,
 "knownAlternatives":[{"id":"x","criteria":{"c":%v}}],
 "choseToMake":["x"],
 "criteria":[{"id":"c","type":"gain"}],
 "methodParameters":{"weights":{"c":1}}}`, method, x)
	var dm model.DecisionMaker
	if err := json.Unmarshal([]byte(req), &dm); err != nil {
		t.Fatalf("bad request: %v", err)
	}
	funcs := model.PreferenceFunctions{Functions: []model.PreferenceFunction{
		&weighted_sum.WeightedSumPreferenceFunc{}, &owa.OWAPreferenceFunc{}, &choquet.ChoquetIntegralPreferenceFunc{},
	}}
	choice := dm.MakeDecision(funcs, model.BiasListeners{}, &model.BiasMap{}, utils.RandomBasedSeedValueGenerator)
	if _, err := json.Marshal(choice); err != nil {
		t.Errorf("%s, x=%v: the decision cannot be serialised for the API response: %v", method, x, err)
	}
	return choice.Result[0].Value()
}

func TestHuntC03Demo_Rounding_Overflow(t *testing.T) {
	for _, method := range []string{"weightedSum", "owa", "choquetIntegral"} {
		x := 1e301
		got := c03SingleCriterionValue(t, method, x)
		if math.IsInf(got, 0) || got != x {
			t.Errorf("%s: value for the single criterion value %v with weight 1 is %v, want %v", method, x, got, x)
		}
	}
}

func TestHuntC03Demo_Rounding_Drift(t *testing.T) {
	for _, method := range []string{"weightedSum", "owa", "choquetIntegral"} {
		x := 12345678901.123457 // exactly representable input; the aggregate 1*x is exact
		got := c03SingleCriterionValue(t, method, x)
		if math.Abs(got-x) > 1e-8 {
			t.Errorf("%s: value for the single criterion value %.6f with weight 1 is %.6f (off by %.3g > 1e-8)",
				method, x, got, math.Abs(got-x))
		}
	}
}
