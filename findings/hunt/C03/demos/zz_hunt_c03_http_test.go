package main

// HTTP-level demo for property C03 (findings 1 and 2) at POST /api/decide.
//
// Copy to:  httpClient/
// Run (the service must be built against this tree's lib, without touching go.mod in the tree):
//   cp httpClient/go.mod /tmp/c03.mod && cp httpClient/go.sum /tmp/c03.sum
//   echo 'replace github.com/Azbesciak/RealDecisionMaker/lib => <ABSOLUTE PATH OF THE TREE>/lib' >> /tmp/c03.mod
//   cd httpClient && GOFLAGS=-mod=mod GOPROXY=off GOSUMDB=off GOTOOLCHAIN=local \
//     go test -vet=off -count=1 -modfile=/tmp/c03.mod -run TestHuntC03Http -v .

import (
	"bytes"
	"encoding/json"
	"math"
	"net/http"
	"net/http/httptest"
	"testing"

	"github.com/gin-gonic/gin"
)

func c03Post(body string) (int, map[string]interface{}, string) {
	gin.SetMode(gin.TestMode)
	r := gin.New()
	r.POST("/api/decide", decideHandler)
	w := httptest.NewRecorder()
	req, _ := http.NewRequest("POST", "/api/decide", bytes.NewBufferString(body))
	req.Header.Set("Content-Type", "application/json")
	r.ServeHTTP(w, req)
	var m map[string]interface{}
	_ = json.Unmarshal(w.Body.Bytes(), &m)
	return w.Code, m, w.Body.String()
}

func c03Value(m map[string]interface{}) (float64, bool) {
	res, ok := m["result"].([]interface{})
	if !ok || len(res) == 0 {
		return 0, false
	}
	v, ok := res[0].(map[string]interface{})["evaluation"].(map[string]interface{})["value"].(float64)
	return v, ok
}

// finding 1: weights (Cost 1, Color 2), values (Cost 200 [cost], Color 10 [gain]) -> 1*(-200) + 2*10 = -180
func TestHuntC03Http_WeightedSumIgnoresWeights(t *testing.T) {
	code, m, raw := c03Post(`{"preferenceFunction":"weightedSum",
 "knownAlternatives":[{"id":"Ferrari","criteria":{"Cost":200,"Color":10}}],
 "choseToMake":["Ferrari"],
 "criteria":[{"id":"Cost","type":"cost"},{"id":"Color","type":"gain"}],
 "methodParameters":{"weights":{"Cost":1,"Color":2}}}`)
	v, ok := c03Value(m)
	if code != 200 || !ok {
		t.Fatalf("unexpected response %d %s", code, raw)
	}
	if math.Abs(v-(-180)) > 1e-8 {
		t.Errorf("evaluation.value = %v, want -180", v)
	}
}

// finding 2: one criterion, weight 1, value 1e301 -> the aggregate is 1e301; the rounding step makes it +Inf and
// the valid request is answered with HTTP 400 "json: unsupported value: +Inf"
func TestHuntC03Http_LargeValue(t *testing.T) {
	for _, method := range []string{"weightedSum", "owa", "choquetIntegral"} {
		code, m, raw := c03Post(`{"preferenceFunction":"` + method + `",
 "knownAlternatives":[{"id":"x","criteria":{"c":1e301}}],
 "choseToMake":["x"],
 "criteria":[{"id":"c","type":"gain"}],
 "methodParameters":{"weights":{"c":1}}}`)
		v, ok := c03Value(m)
		if code != 200 || !ok {
			t.Errorf("%s: status %d, body %.120s", method, code, raw)
			continue
		}
		if v != 1e301 {
			t.Errorf("%s: evaluation.value = %v, want 1e301", method, v)
		}
	}
}
