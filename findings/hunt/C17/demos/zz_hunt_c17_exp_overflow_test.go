package fatigue

// Demo for C17 finding "expFromZero ratio is NaN/Inf instead of 0/finite when e^(alpha*queryNumber) overflows".
//
// Copy to:   lib/logic/biases/fatigue/
// Run with:  cd lib && GOFLAGS=-mod=mod GOPROXY=off GOSUMDB=off GOTOOLCHAIN=local \
//            go test -vet=off -count=1 -run TestHuntC17_ExpOverflow ./logic/biases/fatigue/
//
// Property C17: f = multiplier x (e^(alpha x queryNumber) - 1); every value moves by at most |f x v|;
// f = 0 leaves all data unchanged; quantified over "both ratio functions and any parameters".
//
// With multiplier = 0 the ratio is 0 for every alpha/queryNumber, so nothing may change. The code evaluates
// Multiplier*math.Exp(Alpha*q) - Multiplier, which is 0*Inf - 0 = NaN as soon as alpha*queryNumber > ~709.78:
// every criterion value of every alternative becomes NaN (and POST /api/decide answers
// 400 "json: unsupported value: NaN").
// With a tiny non-zero multiplier the true ratio is an ordinary finite number, but the code reports +Inf and
// moves non-zero values to +-Inf (zero values to NaN), i.e. far beyond |f x v|.

import (
	"math"
	"testing"

	"github.com/Azbesciak/RealDecisionMaker/lib/model"
	"github.com/Azbesciak/RealDecisionMaker/lib/testUtils"
	"github.com/Azbesciak/RealDecisionMaker/lib/utils"
)

func huntC17Apply(params map[string]interface{}) (*model.DecisionMakingParams, FatigueResult) {
	fat := NewFatigue(utils.RandomBasedSeedValueGenerator, utils.RandomBasedSeedValueGenerator,
		[]FatigueFunction{&ExponentialFromZeroFatigue{}, &ConstFatigueFunction{}})
	dmp := &model.DecisionMakingParams{
		ConsideredAlternatives: []model.AlternativeWithCriteria{
			{Id: "a", Criteria: model.Weights{"1": 7, "2": -3}},
			{Id: "b", Criteria: model.Weights{"1": 6, "2": 0}},
		},
		NotConsideredAlternatives: []model.AlternativeWithCriteria{
			{Id: "x", Criteria: model.Weights{"1": 1, "2": 2}},
		},
		Criteria: model.Criteria{{Id: "1", Type: model.Gain}, {Id: "2", Type: model.Cost}},
	}
	listener := model.BiasListener(&testUtils.DummyBiasListener{})
	props := model.BiasProps(map[string]interface{}{
		"function":   FatExpFromZero,
		"params":     params,
		"randomSeed": 123,
	})
	res := fat.Apply(dmp, dmp, &props, &listener)
	return dmp, res.Props.(FatigueResult)
}

func TestHuntC17_ExpOverflow_ZeroMultiplierMustBeIdentity(t *testing.T) {
	// f = 0 x (e^1000 - 1) = 0  =>  all data unchanged
	in, rep := huntC17Apply(map[string]interface{}{"alpha": 1.0, "multiplier": 0.0, "queryNumber": 1000})
	if rep.EffectiveFatigueRatio != 0 {
		t.Errorf("effectiveFatigueRatio: expected 0 (multiplier is 0), got %v", rep.EffectiveFatigueRatio)
	}
	check := func(name string, inA, outA []model.AlternativeWithCriteria) {
		for i, a := range inA {
			for k, v := range a.Criteria {
				if got := outA[i].Criteria[k]; got != v {
					t.Errorf("%s %s[%s]: f = 0 must leave the value unchanged: %v -> %v", name, a.Id, k, v, got)
				}
			}
		}
	}
	check("considered", in.ConsideredAlternatives, rep.ConsideredAlternatives)
	check("notConsidered", in.NotConsideredAlternatives, rep.NotConsideredAlternatives)
}

func TestHuntC17_ExpOverflow_TinyMultiplierFiniteRatio(t *testing.T) {
	// f = 1e-300 x (e^710 - 1) = e^(710 + ln 1e-300) - 1e-300 ~= 2.23e8 : finite and representable
	alpha, mult, q := 1.0, 1e-300, 710.0
	trueF := math.Exp(alpha*q+math.Log(mult)) - mult
	in, rep := huntC17Apply(map[string]interface{}{"alpha": alpha, "multiplier": mult, "queryNumber": q})
	if math.IsInf(rep.EffectiveFatigueRatio, 0) || math.IsNaN(rep.EffectiveFatigueRatio) ||
		math.Abs(rep.EffectiveFatigueRatio-trueF) > 1e-6*trueF {
		t.Errorf("effectiveFatigueRatio: expected ~%v, got %v", trueF, rep.EffectiveFatigueRatio)
	}
	check := func(name string, inA, outA []model.AlternativeWithCriteria) {
		for i, a := range inA {
			for k, v := range a.Criteria {
				got := outA[i].Criteria[k]
				lim := math.Abs(trueF*v) * (1 + 1e-6)
				if math.IsNaN(got) || math.Abs(got-v) > lim {
					t.Errorf("%s %s[%s]: |v'-v| must be <= |f v| = %v, but %v -> %v", name, a.Id, k, lim, v, got)
				}
			}
		}
	}
	check("considered", in.ConsideredAlternatives, rep.ConsideredAlternatives)
	check("notConsidered", in.NotConsideredAlternatives, rep.NotConsideredAlternatives)
}
