package satisfaction

// C13 demo: empty considered set, no current choice.
//
// Copy to:  lib/logic/limited-rationality/satisfaction/
// Run with: cd lib && GOFLAGS=-mod=mod GOPROXY=off GOSUMDB=off GOTOOLCHAIN=local \
//           go test -vet=off -count=1 -run TestHuntC13EmptyConsideredSet ./logic/limited-rationality/satisfaction/
//
// The property quantifies over "any considered set, currentChoice absent / ...". For an empty
// considered set and no current choice there is nothing to examine, so the ranking (order of
// acceptance followed by the alternatives that met no level) must be empty. The current tree
// instead dies with "runtime error: slice bounds out of range [1:0]" in
// limited_rationality.GetAlternativesSearchOrder (alternatives[0], alternatives[1:] on an empty slice);
// POST /api/decide answers 400 with that runtime error. The same request with a currentChoice
// works (ranking = [current]) and e.g. weightedSum answers an empty ranking for the same request.

import (
	"testing"

	"github.com/Azbesciak/RealDecisionMaker/lib/logic/limited-rationality/satisfaction-levels"
	"github.com/Azbesciak/RealDecisionMaker/lib/model"
	"github.com/Azbesciak/RealDecisionMaker/lib/utils"
)

func TestHuntC13EmptyConsideredSet(t *testing.T) {
	sat := NewSatisfaction(utils.RandomBasedSeedValueGenerator, []satisfaction_levels.SatisfactionLevelsSource{
		&satisfaction_levels.IdealDecreasingMulCoefficientSatisfaction,
		&satisfaction_levels.IdealSubtrCoefficientSatisfaction,
		&satisfaction_levels.DecreasingThresholds,
	})
	known := []model.AlternativeWithCriteria{
		{Id: "a", Criteria: model.Weights{"c": 1}},
		{Id: "b", Criteria: model.Weights{"c": 2}},
	}
	for _, random := range []bool{false, true} {
		for _, mp := range []utils.Map{
			{"function": "thresholds", "params": utils.Map{"thresholds": []interface{}{utils.Map{"c": 1.0}}}},
			{"function": "idealMultipliedCoefficient", "params": utils.Map{"coefficient": 0.5, "minValue": 0.1, "maxValue": 1.0}},
			{"function": "idealSubtractiveCoefficient", "params": utils.Map{"coefficient": 0.25, "minValue": 0.1, "maxValue": 1.0}},
		} {
			mp["randomAlternativesOrdering"] = random
			func() {
				defer func() {
					if e := recover(); e != nil {
						t.Errorf("function=%v random=%v: empty considered set without current choice must give an empty ranking, got panic: %v",
							mp["function"], random, e)
					}
				}()
				dm := &model.DecisionMaker{
					PreferenceFunction: methodName,
					KnownAlternatives:  known,
					ChoseToMake:        []string{},
					Criteria:           model.Criteria{{Id: "c", Type: model.Gain}},
					MethodParameters:   mp,
				}
				res := dm.MakeDecision(
					model.PreferenceFunctions{Functions: []model.PreferenceFunction{sat}},
					model.BiasListeners{Listeners: []model.BiasListener{}},
					&model.BiasMap{},
					utils.RandomBasedSeedValueGenerator,
				)
				if len(res.Result) != 0 {
					t.Errorf("function=%v random=%v: expected empty ranking, got %v", mp["function"], random, res.Result)
				}
			}()
		}
	}
}
