package majority

// Copy to: lib/logic/limited-rationality/majority/
// Run:     cd lib && GOFLAGS=-mod=mod GOPROXY=off GOSUMDB=off GOTOOLCHAIN=local \
//          go test -vet=off -count=1 -run TestHuntC11_EqualInfiniteScoresIgnoreDrawPolicy ./logic/limited-rationality/majority/
//
// LOW SEVERITY / PATHOLOGICAL INPUT: weights so large that both sides' totals overflow to +Inf.
// Both scores are then equal (+Inf == +Inf), so "the configured draw policy decides equal scores"
// should apply. takeBetter() detects draws only with |s1-s2| <= eps; Inf-Inf is NaN, so the draw is
// missed, `s2 < s1` is false and the code falls into the "newer wins" branch for EVERY policy.

import (
	"testing"

	"github.com/Azbesciak/RealDecisionMaker/lib/model"
	"github.com/Azbesciak/RealDecisionMaker/lib/utils"
)

func huntC11InfDecide(policy string) *model.DecisionMakerChoice {
	funcs := model.PreferenceFunctions{Functions: []model.PreferenceFunction{
		NewMajority(utils.RandomBasedSeedValueGenerator, []DrawResolver{
			&DrawAllowedResolver{}, &CurrentIsWinnerDrawResolver{}, &NewerIsWinnerResolver{}, &RandomWinnerResolver{},
		}),
	}}
	listeners := model.BiasListeners{Listeners: []model.BiasListener{&MajorityBiasListener{}}}
	dm := model.DecisionMaker{
		PreferenceFunction: "majorityHeuristic",
		Criteria: model.Criteria{
			{Id: "c0", Type: model.Gain}, {Id: "c1", Type: model.Gain},
			{Id: "c2", Type: model.Gain}, {Id: "c3", Type: model.Gain},
		},
		KnownAlternatives: []model.AlternativeWithCriteria{
			{Id: "A", Criteria: model.Weights{"c0": 1, "c1": 1, "c2": 0, "c3": 0}},
			{Id: "B", Criteria: model.Weights{"c0": 0, "c1": 0, "c2": 1, "c3": 1}},
		},
		ChoseToMake: []string{"A", "B"},
		MethodParameters: map[string]interface{}{
			"weights":        map[string]interface{}{"c0": 1e308, "c1": 1e308, "c2": 1e308, "c3": 1e308},
			"drawResolution": policy,
		},
	}
	return dm.MakeDecision(funcs, listeners, &model.BiasMap{}, utils.RandomBasedSeedValueGenerator)
}

func TestHuntC11_EqualInfiniteScoresIgnoreDrawPolicy(t *testing.T) {
	// policy "current": A (the running winner) must survive the draw, B drops out below it.
	res := huntC11InfDecide("current")
	first := res.Result[0]
	second := res.Result[1]
	fe := first.Evaluation.(MajorityEvaluation)
	se := second.Evaluation.(MajorityEvaluation)
	if fe.Value != se.Value && se.ComparedAlternativeValue != se.Value {
		t.Fatalf("precondition: scores are expected to be equal, got %v / %v", fe, se)
	}
	if first.Alternative.Id != "A" || fe.ComparedWith != "" || second.Alternative.Id != "B" || se.ComparedWith != "A" {
		t.Errorf("drawResolution=current, equal scores (%v vs %v): expected A undefeated and B below it, got %s (comparedWith=%q) above %s (comparedWith=%q)",
			se.Value, se.ComparedAlternativeValue, first.Alternative.Id, fe.ComparedWith, second.Alternative.Id, se.ComparedWith)
	}

	// policy "allow": the two must form one tie group (each betterThanOrSameAs the other).
	res = huntC11InfDecide("allow")
	for _, e := range res.Result {
		other := "A"
		if e.Alternative.Id == "A" {
			other = "B"
		}
		found := false
		for _, id := range e.BetterThanOrSameAs {
			if id == other {
				found = true
			}
		}
		if !found {
			t.Errorf("drawResolution=allow, equal scores: %s should be in the same tie group as %s, betterThanOrSameAs=%v",
				e.Alternative.Id, other, e.BetterThanOrSameAs)
		}
	}
}
