package electreIII

// Demo for property C05 (ELECTRE III indices follow the method's definition).
//
// Copy to:  lib/logic/preference-func/electreIII/
// Run with: cd lib && GOFLAGS=-mod=mod GOPROXY=off GOSUMDB=off GOTOOLCHAIN=local \
//           go test -vet=off -count=1 -run 'TestHuntC05' ./logic/preference-func/electreIII/
//
// Violation: every comparison of the distillation (sigma(a,b) > sigma(b,a) + s(sigma(a,b)),
// sigma < lambda - s(lambda), sigma > lambda') is done on raw float64 values without any
// tolerance. When the two sides are EQUAL in the method's (real-number) definition, binary
// rounding decides the outcome, e.g. 0.7 + 0.2 = 0.8999999999999999 < 0.9. The reported
// ascendingIndex / descendingIndex are then not the class numbers of the ELECTRE III
// distillations for that input.

import (
	"encoding/json"
	"math/big"
	"math/rand"
	"reflect"
	"testing"

	. "github.com/Azbesciak/RealDecisionMaker/lib/model"
	"github.com/Azbesciak/RealDecisionMaker/lib/utils"
)

type hxIdx struct {
	Id        string
	Asc, Desc int
	Better    []string
}

func hxDecide(t *testing.T, raw string) []hxIdx {
	var dm DecisionMaker
	if err := json.Unmarshal([]byte(raw), &dm); err != nil {
		t.Fatal(err)
	}
	pf := PreferenceFunctions{Functions: []PreferenceFunction{&ElectreIIIPreferenceFunc{}}}
	res := dm.MakeDecision(pf, BiasListeners{}, &BiasMap{}, utils.RandomBasedSeedValueGenerator)
	out, err := json.Marshal(res)
	if err != nil {
		t.Fatal(err)
	}
	var parsed struct {
		Result []struct {
			Alternative struct {
				Id string `json:"id"`
			} `json:"alternative"`
			Evaluation struct {
				AscendingIndex  int `json:"ascendingIndex"`
				DescendingIndex int `json:"descendingIndex"`
			} `json:"evaluation"`
			BetterThanOrSameAs []string `json:"betterThanOrSameAs"`
		} `json:"result"`
	}
	if err := json.Unmarshal(out, &parsed); err != nil {
		t.Fatal(err)
	}
	r := make([]hxIdx, len(parsed.Result))
	for i, e := range parsed.Result {
		r[i] = hxIdx{e.Alternative.Id, e.Evaluation.AscendingIndex, e.Evaluation.DescendingIndex, e.BetterThanOrSameAs}
	}
	return r
}

// Two alternatives, three criteria, distillation function s(l) = 0 (a = 0, b = 0: non-negative, slope 0,
// and exactly representable, so the only rounding is the code's own).
//
//   cost c0: k=3, q=1, p=3     gain c1: k=2, p=3, v=5     cost c2: k=1, p=3, v=6
//   a0 = (0, 1, 0)   a1 = (0, 2, 2)
//
//   sigma(a0,a1): c0 equal -> 1 ; c1 a0 worse by 1 -> 1 - 1/3 = 2/3 ; c2 a0 cheaper -> 1
//                 C = (3 + 2*2/3 + 1)/6 = 8/9, no discordance above p
//   sigma(a1,a0): c0 equal -> 1 ; c1 a1 not worse -> 1 ; c2 a1 worse by 2 -> 1 - 2/3 = 1/3
//                 C = (3 + 2 + 1/3)/6 = 8/9
//
// The credibility matrix is symmetric (8/9 both ways). With s = 0, a outranks b iff
// sigma(a,b) > sigma(b,a): nobody outranks anybody, both distillations consist of the single class
// {a0,a1}: indices 1/1 for both alternatives, each betterThanOrSameAs the other.
//
// The code computes 0.888888888888889 for sigma(a0,a1) and 0.8888888888888888 for sigma(a1,a0), takes the
// smaller one as the next cut level and lets a0 outrank a1.
func TestHuntC05_FloatTie_ZeroDistillation_SymmetricCredibility(t *testing.T) {
	got := hxDecide(t, `{
	  "preferenceFunction": "electreIII",
	  "knownAlternatives": [
	    {"id": "a0", "criteria": {"c0": 0, "c1": 1, "c2": 0}},
	    {"id": "a1", "criteria": {"c0": 0, "c1": 2, "c2": 2}}
	  ],
	  "choseToMake": ["a0", "a1"],
	  "criteria": [{"id": "c0", "type": "cost"}, {"id": "c1", "type": "gain"}, {"id": "c2", "type": "cost"}],
	  "methodParameters": {
	    "electreCriteria": {
	      "c0": {"k": 3, "q": {"b": 1}, "p": {"b": 3}},
	      "c1": {"k": 2, "p": {"b": 3}, "v": {"b": 5}},
	      "c2": {"k": 1, "p": {"b": 3}, "v": {"b": 6}}
	    },
	    "electreDistillation": {"a": 0, "b": 0}
	  }
	}`)
	want := []hxIdx{
		{"a0", 1, 1, []string{"a1"}},
		{"a1", 1, 1, []string{"a0"}},
	}
	if !reflect.DeepEqual(got, want) {
		t.Errorf("sigma(a0,a1) = sigma(a1,a0) = 8/9, so a0 and a1 must share class 1 in both distillations\n got %+v\nwant %+v", got, want)
	}
}

// Two alternatives, two criteria, constant custom distillation function s(l) = 0.2
// (non-negative, slope 0 -> inside the property's domain).
//
//   gain  c0: k=3, p=4      cost c1: k=2, p=4
//   a0 = (2, 1)   a1 = (0, 0)
//
//   sigma(a0,a1): c0 a0 not worse -> 1 ; c1 a0 worse by 1 -> 1 - 1/4 = 0.75 ; C = (3*1 + 2*0.75)/5 = 0.9
//   sigma(a1,a0): c0 a1 worse by 2 -> 1 - 2/4 = 0.5  ; c1 not worse -> 1     ; C = (3*0.5 + 2*1)/5  = 0.7
//   (no veto thresholds -> credibility = concordance)
//
// lambda0 = 0.9, lambda0 - s = 0.7, no credibility below 0.7 -> lambda1 = 0.
// a0 outranks a1 iff 0.9 > 0.7 + s(0.9) = 0.7 + 0.2 = 0.9  -> FALSE (equality), likewise a1 does not
// outrank a0. Nobody is qualified over the other: both distillations have the single class {a0,a1}:
// ascendingIndex = descendingIndex = 1 for both and each is betterThanOrSameAs the other.
//
// The code computes 0.7 + 0.2 = 0.8999999999999999 < 0.9 and ranks a0 strictly above a1.
func TestHuntC05_FloatTie_TwoAlternatives_ConstantDistillation(t *testing.T) {
	got := hxDecide(t, `{
	  "preferenceFunction": "electreIII",
	  "knownAlternatives": [
	    {"id": "a0", "criteria": {"c0": 2, "c1": 1}},
	    {"id": "a1", "criteria": {"c0": 0, "c1": 0}}
	  ],
	  "choseToMake": ["a0", "a1"],
	  "criteria": [{"id": "c0", "type": "gain"}, {"id": "c1", "type": "cost"}],
	  "methodParameters": {
	    "electreCriteria": {
	      "c0": {"k": 3, "p": {"a": 0, "b": 4}},
	      "c1": {"k": 2, "p": {"a": 0, "b": 4}}
	    },
	    "electreDistillation": {"a": 0, "b": 0.2}
	  }
	}`)
	want := []hxIdx{
		{"a0", 1, 1, []string{"a1"}},
		{"a1", 1, 1, []string{"a0"}},
	}
	if !reflect.DeepEqual(got, want) {
		t.Errorf("0.9 is not greater than 0.7 + s(0.9) = 0.9, so a0 and a1 must share class 1 in both distillations\n got %+v\nwant %+v", got, want)
	}
}

// Default distillation function s(l) = 0.3 - 0.15 l, four alternatives, three criteria.
//
//   gain c0: k=1, q=1, p=4     cost c1: k=4, q=1     cost c2: k=1, q=2, p=5     (no veto)
//   a0=(0,5,4)  a1=(-1,-2,3)  a2=(1,0,0)  a3=(4,3,-5)
//
//   credibility (exact)        a0    a1    a2    a3
//                        a0 [   1   1/3   2/9    0  ]
//                        a1 [   1    1    8/9   2/3 ]
//                        a2 [   1   1/3    1   13/18]
//                        a3 [   1   1/3   1/3    1  ]
//
// Distillation that picks the WORST first (the one reported as descendingIndex after reversal):
//   step 1: lambda0 = 1, lambda1 = 13/18 -> a0 (qualification -3) is the last class.
//   step 2 on {a1,a2,a3}: lambda0 = 8/9, s(8/9) = 3/10 - 2/15 = 1/6, lambda0 - s = 13/18 EXACTLY.
//           lambda1 = max{sigma < 13/18} = 2/3 (sigma(a2,a3) = 13/18 is not below 13/18).
//           At cut level 2/3: a1 S a2 (8/9 > 1/3 + 1/6) and a2 S a3 (13/18 > 1/3 + 23/120);
//           qualifications a1=+1, a2=0, a3=-1 -> a3 is the next-to-last class.
//   step 3 on {a1,a2}: a1 S a2 -> a2, then a1.
//   => descendingIndex: a0=4, a1=1, a2=2, a3=3.
//
// In float64 8/9 - s(8/9) comes out one ulp above 13/18, so the code takes lambda1 = 13/18, loses
// a2 S a3, makes a2 (qualification -1) the worst of {a1,a2,a3} and reports a2=3, a3=2.
func TestHuntC05_FloatTie_DefaultDistillation_CutLevel(t *testing.T) {
	got := hxDecide(t, `{
	  "preferenceFunction": "electreIII",
	  "knownAlternatives": [
	    {"id": "a0", "criteria": {"c0": 0,  "c1": 5,  "c2": 4}},
	    {"id": "a1", "criteria": {"c0": -1, "c1": -2, "c2": 3}},
	    {"id": "a2", "criteria": {"c0": 1,  "c1": 0,  "c2": 0}},
	    {"id": "a3", "criteria": {"c0": 4,  "c1": 3,  "c2": -5}}
	  ],
	  "choseToMake": ["a0", "a1", "a2", "a3"],
	  "criteria": [{"id": "c0", "type": "gain"}, {"id": "c1", "type": "cost"}, {"id": "c2", "type": "cost"}],
	  "methodParameters": {
	    "electreCriteria": {
	      "c0": {"k": 1, "q": {"b": 1}, "p": {"b": 4}},
	      "c1": {"k": 4, "q": {"b": 1}},
	      "c2": {"k": 1, "q": {"b": 2}, "p": {"b": 5}}
	    }
	  }
	}`)
	wantAsc := []int{4, 1, 2, 3}
	wantDesc := []int{4, 1, 2, 3}
	for i, g := range got {
		if g.Asc != wantAsc[i] || g.Desc != wantDesc[i] {
			t.Errorf("%s: ascendingIndex/descendingIndex = %d/%d, ELECTRE III (exact cut level 8/9 - s(8/9) = 13/18) gives %d/%d",
				g.Id, g.Asc, g.Desc, wantAsc[i], wantDesc[i])
		}
	}
}

// ---------------------------------------------------------------------------------------------
// Randomised differential check against an exact (math/big.Rat) implementation of ELECTRE III.
// All inputs are small integers, so every quantity of the method is an exact rational.
// ---------------------------------------------------------------------------------------------

type hxThr struct {
	k, q, p, v float64
	hq, hp, hv bool
}

func hxR(f float64) *big.Rat { return new(big.Rat).SetInt64(int64(f)) }

func hxCred(a, b []float64, thr []hxThr) *big.Rat {
	one, zero := big.NewRat(1, 1), big.NewRat(0, 1)
	n := len(thr)
	ds := make([]*big.Rat, n)
	ws, C := new(big.Rat), new(big.Rat)
	for j := 0; j < n; j++ {
		t := thr[j]
		diff := hxR(b[j] - a[j]) // values already gain-oriented
		q := zero
		if t.hq {
			q = hxR(t.q)
		}
		p := q
		if t.hp {
			p = hxR(t.p)
		}
		var c, d *big.Rat
		switch {
		case diff.Cmp(q) <= 0:
			c = one
		case diff.Cmp(p) >= 0:
			c = zero
		default:
			c = new(big.Rat).Quo(new(big.Rat).Sub(p, diff), new(big.Rat).Sub(p, q))
		}
		switch {
		case !t.hv || diff.Cmp(p) <= 0:
			d = zero
		case diff.Cmp(hxR(t.v)) >= 0:
			d = one
		default:
			d = new(big.Rat).Quo(new(big.Rat).Sub(diff, p), new(big.Rat).Sub(hxR(t.v), p))
		}
		ds[j] = d
		ws.Add(ws, hxR(t.k))
		C.Add(C, new(big.Rat).Mul(hxR(t.k), c))
	}
	C.Quo(C, ws)
	s := new(big.Rat).Set(C)
	for j := 0; j < n; j++ {
		if ds[j].Cmp(C) > 0 {
			s.Mul(s, new(big.Rat).Quo(new(big.Rat).Sub(one, ds[j]), new(big.Rat).Sub(one, C)))
		}
	}
	return s
}

// textbook distillation; bestFirst=true selects maximal qualification (reported as ascendingIndex by
// the code), bestFirst=false selects minimal qualification and reverses the class numbers at the end.
func hxDistill(sig [][]*big.Rat, sA, sB *big.Rat, bestFirst bool) []int {
	sfun := func(x *big.Rat) *big.Rat { return new(big.Rat).Add(new(big.Rat).Mul(sA, x), sB) }
	zero := new(big.Rat)
	n := len(sig)
	class := make([]int, n)
	A := make([]int, n)
	for i := range A {
		A[i] = i
	}
	for k := 1; len(A) > 0; k++ {
		lam := zero
		for _, a := range A {
			for _, b := range A {
				if a != b && sig[a][b].Cmp(lam) > 0 {
					lam = sig[a][b]
				}
			}
		}
		cls := A
		if lam.Sign() != 0 {
			D := A
			for {
				lim := new(big.Rat).Sub(lam, sfun(lam))
				next := zero
				for _, a := range D {
					for _, b := range D {
						if a != b && sig[a][b].Cmp(lim) < 0 && sig[a][b].Cmp(next) > 0 {
							next = sig[a][b]
						}
					}
				}
				qual := map[int]int{}
				for _, a := range D {
					for _, b := range D {
						if a != b && sig[a][b].Cmp(next) > 0 &&
							sig[a][b].Cmp(new(big.Rat).Add(sig[b][a], sfun(sig[a][b]))) > 0 {
							qual[a]++
							qual[b]--
						}
					}
				}
				best := qual[D[0]]
				for _, a := range D {
					if bestFirst && qual[a] > best || !bestFirst && qual[a] < best {
						best = qual[a]
					}
				}
				var nd []int
				for _, a := range D {
					if qual[a] == best {
						nd = append(nd, a)
					}
				}
				if len(nd) == 1 || next.Sign() == 0 {
					cls = nd
					break
				}
				D, lam = nd, next
			}
		}
		in := map[int]bool{}
		for _, a := range cls {
			class[a] = k
			in[a] = true
		}
		var rest []int
		for _, a := range A {
			if !in[a] {
				rest = append(rest, a)
			}
		}
		A = rest
	}
	if !bestFirst {
		mx := 0
		for _, c := range class {
			if c > mx {
				mx = c
			}
		}
		for i := range class {
			class[i] = mx + 1 - class[i]
		}
	}
	return class
}

func TestHuntC05_ExactArithmeticSweep(t *testing.T) {
	type fn struct {
		name string
		f    utils.LinearFunctionParameters
		a, b *big.Rat
	}
	funs := []fn{
		{"default -0.15/0.3", DefaultDistillationFunc, big.NewRat(-3, 20), big.NewRat(3, 10)},
		{"zero 0/0", utils.LinearFunctionParameters{A: 0, B: 0}, big.NewRat(0, 1), big.NewRat(0, 1)},
		{"constant 0.1", utils.LinearFunctionParameters{A: 0, B: 0.1}, big.NewRat(0, 1), big.NewRat(1, 10)},
		{"-0.5/0.5", utils.LinearFunctionParameters{A: -0.5, B: 0.5}, big.NewRat(-1, 2), big.NewRat(1, 2)},
	}
	for _, f := range funs {
		r := rand.New(rand.NewSource(5))
		deviating, total := 0, 20000
		for it := 0; it < total; it++ {
			nAlt, nCrit, grid := 2+r.Intn(5), 1+r.Intn(4), 2+r.Intn(8)
			crit := Criteria{}
			ele := ElectreCriteria{}
			thr := []hxThr{}
			for j := 0; j < nCrit; j++ {
				id := string(rune('c')) + string(rune('0'+j))
				typ := Gain
				if r.Intn(2) == 0 {
					typ = Cost
				}
				crit = append(crit, Criterion{Id: id, Type: typ})
				th := hxThr{k: float64(1 + r.Intn(5))}
				switch r.Intn(6) {
				case 1:
					th.hq, th.q = true, float64(1+r.Intn(3))
				case 2:
					th.hp, th.p = true, float64(1+r.Intn(4))
				case 3:
					th.hq, th.q = true, float64(1+r.Intn(3))
					th.hp, th.p = true, th.q+float64(1+r.Intn(3))
				case 4:
					th.hp, th.p = true, float64(1+r.Intn(4))
					th.hv, th.v = true, th.p+float64(1+r.Intn(4))
				case 5:
					th.hq, th.q = true, float64(1+r.Intn(3))
					th.hp, th.p = true, th.q+float64(1+r.Intn(3))
					th.hv, th.v = true, th.p+float64(1+r.Intn(4))
				}
				thr = append(thr, th)
				ec := ElectreCriterion{K: th.k}
				if th.hq {
					ec.Q = utils.LinearFunctionParameters{B: th.q}
				}
				if th.hp {
					ec.P = utils.LinearFunctionParameters{B: th.p}
				}
				if th.hv {
					ec.V = utils.LinearFunctionParameters{B: th.v}
				}
				ele[id] = ec
			}
			alts := []AlternativeWithCriteria{}
			gains := [][]float64{}
			for i := 0; i < nAlt; i++ {
				w := Weights{}
				g := make([]float64, nCrit)
				for j := 0; j < nCrit; j++ {
					val := float64(r.Intn(grid))
					if r.Intn(4) == 0 {
						val = -val
					}
					w[crit[j].Id] = val
					g[j] = val
					if crit[j].Type == Cost {
						g[j] = -val
					}
				}
				alts = append(alts, AlternativeWithCriteria{Id: "a" + string(rune('0'+i)), Criteria: w})
				gains = append(gains, g)
			}
			sig := make([][]*big.Rat, nAlt)
			for i := range sig {
				sig[i] = make([]*big.Rat, nAlt)
				for j := range sig[i] {
					if i == j {
						sig[i][j] = big.NewRat(1, 1)
					} else {
						sig[i][j] = hxCred(gains[i], gains[j], thr)
					}
				}
			}
			wantAsc := hxDistill(sig, f.a, f.b, true)
			wantDesc := hxDistill(sig, f.a, f.b, false)
			ff := f.f
			res := ElectreIII(alts, crit, &ele, &ff)
			gotAsc, gotDesc := make([]int, nAlt), make([]int, nAlt)
			for i, e := range *res {
				ev := e.Evaluation.(ElectreIIIEvaluation)
				gotAsc[i], gotDesc[i] = ev.AscendingIndex, ev.DescendingIndex
			}
			if !reflect.DeepEqual(gotAsc, wantAsc) || !reflect.DeepEqual(gotDesc, wantDesc) {
				deviating++
				if deviating <= 2 {
					t.Logf("%s: asc got %v want %v, desc got %v want %v, exact credibility %v", f.name, gotAsc, wantAsc, gotDesc, wantDesc, sig)
				}
			}
		}
		if deviating > 0 {
			t.Errorf("distillation function %s: %d of %d random integer instances get indices that differ from exact ELECTRE III", f.name, deviating, total)
		}
	}
}
