package anchoring

// C19 demo 1 - zero gain/loss functions do NOT leave values unchanged when criteria bounding is configured.
//
// Copy to:  lib/logic/biases/anchoring/
// Run with: cd lib && GOFLAGS=-mod=mod GOPROXY=off GOSUMDB=off GOTOOLCHAIN=local \
//           go test -vet=off -count=1 -run TestHuntC19ZeroFunctionsIdentityWithBounding ./logic/biases/anchoring/
//
// Property clause: "... bounding applies as configured, and with the inline applier gain and loss functions
// that are identically zero leave every value unchanged."

import (
	"testing"

	"github.com/Azbesciak/RealDecisionMaker/lib/model"
	reference_criterion "github.com/Azbesciak/RealDecisionMaker/lib/model/reference-criterion"
	"github.com/Azbesciak/RealDecisionMaker/lib/testUtils"
	"github.com/Azbesciak/RealDecisionMaker/lib/utils"
)

func huntC19Anchoring() *Anchoring {
	return NewAnchoring(
		[]AnchoringEvaluator{&LinearAnchoringEvaluator{}, &ExpFromZeroAnchoringEvaluator{}},
		[]ReferencePointsEvaluator{&IdealReferenceAlternativeEvaluator{}, &NadirReferenceAlternativeEvaluator{}},
		[]AnchoringApplier{&InlineAnchoringApplier{}, NewNewCriterionAnchoringApplier(
			utils.RandomBasedSeedValueGenerator,
			*reference_criterion.NewReferenceCriteriaManager([]reference_criterion.ReferenceCriterionFactory{
				&reference_criterion.ImportanceRatioReferenceCriterionManager{},
			}),
		)},
	)
}

func TestHuntC19ZeroFunctionsIdentityWithBounding(t *testing.T) {
	listener := model.BiasListener(&testUtils.DummyBiasListener{})
	zeroLinear := utils.Map{"function": "linear", "params": utils.Map{"a": 0, "b": 0}}
	for _, tc := range []struct {
		name          string
		applierParams utils.Map
	}{
		// observed range of "a" is [-2, 6]; scaled by 0.5 around the middle -> [0, 4]: -2 becomes 0 and 6 becomes 4
		{"allowedValuesRangeScaling=0.5", utils.Map{"allowedValuesRangeScaling": 0.5}},
		// a = -2 becomes 0
		{"disallowNegativeValues=true", utils.Map{"disallowNegativeValues": true}},
		// declared range of "b" is [0, 10], alternative x has b = 12 -> becomes 10
		{"allowedValuesRangeScaling=1", utils.Map{"allowedValuesRangeScaling": 1}},
	} {
		t.Run(tc.name, func(t *testing.T) {
			considered := []model.AlternativeWithCriteria{
				{Id: "x", Criteria: model.Weights{"a": -2, "b": 12}},
				{Id: "y", Criteria: model.Weights{"a": 6, "b": 3}},
			}
			dmp := &model.DecisionMakingParams{
				ConsideredAlternatives: considered,
				Criteria: model.Criteria{
					{Id: "a", Type: model.Gain},
					{Id: "b", Type: model.Cost, ValuesRange: &utils.ValueRange{Min: 0, Max: 10}},
				},
				MethodParameters: testUtils.DummyMethodParameters{Criteria: []string{"a", "b"}},
			}
			props := model.BiasProps(utils.Map{
				"anchoringAlternatives": utils.Array{utils.Map{"alternative": "y", "coefficient": 1}},
				"loss":                  zeroLinear,
				"gain":                  zeroLinear,
				"referencePoints":       utils.Map{"function": "ideal"},
				"applier":               utils.Map{"function": "inline", "params": tc.applierParams},
			})
			res := huntC19Anchoring().Apply(dmp, dmp, &props, &listener)
			for i, a := range res.DMP.ConsideredAlternatives {
				for c, old := range considered[i].Criteria {
					if a.Criteria[c] != old {
						t.Errorf("gain and loss are identically zero, but alternative '%s' criterion '%s' changed %v -> %v",
							a.Id, c, old, a.Criteria[c])
					}
				}
			}
			for _, d := range res.Props.(AnchoringResult).ApplierResult.(InlineAnchoringApplierResult).AppliedDifferences {
				for c, v := range d.Criteria {
					if v != 0 {
						t.Errorf("reported applied difference for '%s'/'%s' is %v, expected 0", d.Id, c, v)
					}
				}
			}
		})
	}
}
