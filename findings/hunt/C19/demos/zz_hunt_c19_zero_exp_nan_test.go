package anchoring

// C19 demo 2 - an expFromZero gain/loss with multiplier 0 (identically zero) and a large alpha yields NaN values.
//
// Copy to:  lib/logic/biases/anchoring/
// Run with: cd lib && GOFLAGS=-mod=mod GOPROXY=off GOSUMDB=off GOTOOLCHAIN=local \
//           go test -vet=off -count=1 -run TestHuntC19ZeroExpFunctionIdentity ./logic/biases/anchoring/
//
// Property clause: "... with the inline applier gain and loss functions that are identically zero leave every
// value unchanged." expFromZero is multiplier*e^(alpha*dif) - multiplier, which is identically 0 for multiplier = 0.

import (
	"testing"

	"github.com/Azbesciak/RealDecisionMaker/lib/model"
	"github.com/Azbesciak/RealDecisionMaker/lib/testUtils"
	"github.com/Azbesciak/RealDecisionMaker/lib/utils"
)

func TestHuntC19ZeroExpFunctionIdentity(t *testing.T) {
	listener := model.BiasListener(&testUtils.DummyBiasListener{})
	zeroExp := utils.Map{"function": "expFromZero", "params": utils.Map{"alpha": 1000, "multiplier": 0}}
	considered := []model.AlternativeWithCriteria{
		{Id: "x", Criteria: model.Weights{"a": 0, "b": 10}},
		{Id: "y", Criteria: model.Weights{"a": 10, "b": 0}},
	}
	dmp := &model.DecisionMakingParams{
		ConsideredAlternatives: considered,
		Criteria:               model.Criteria{{Id: "a", Type: model.Gain}, {Id: "b", Type: model.Cost}},
		MethodParameters:       testUtils.DummyMethodParameters{Criteria: []string{"a", "b"}},
	}
	props := model.BiasProps(utils.Map{
		"anchoringAlternatives": utils.Array{utils.Map{"alternative": "x", "coefficient": 1}},
		"loss":                  zeroExp,
		"gain":                  zeroExp,
		"referencePoints":       utils.Map{"function": "ideal"},
		"applier":               utils.Map{"function": "inline", "params": utils.Map{}},
	})
	anchoring := NewAnchoring(
		[]AnchoringEvaluator{&LinearAnchoringEvaluator{}, &ExpFromZeroAnchoringEvaluator{}},
		[]ReferencePointsEvaluator{&IdealReferenceAlternativeEvaluator{}, &NadirReferenceAlternativeEvaluator{}},
		[]AnchoringApplier{&InlineAnchoringApplier{}},
	)
	res := anchoring.Apply(dmp, dmp, &props, &listener)
	for i, a := range res.DMP.ConsideredAlternatives {
		for c, old := range considered[i].Criteria {
			if a.Criteria[c] != old {
				t.Errorf("gain and loss are identically zero, but alternative '%s' criterion '%s' changed %v -> %v",
					a.Id, c, old, a.Criteria[c])
			}
		}
	}
}
