// Demo for finding "a split condition valid for the request is not clamped to the criteria an earlier bias left"
// (property C07).
//
// Copy to:  lib/client/   (package client)
// Run:      cd lib && GOFLAGS=-mod=mod go test -vet=off -count=1 -run TestHuntC07ReversalAfterOmission ./client/
//
// preferenceReversal {min:2,max:2} alone is fine on the 3 criteria of the request and criteriaOmission {min:2,max:2}
// alone is fine as well (one criterion stays). In sequence the reversal gets a single criterion and
// CriteriaSplitCondition.SplitCriteriaByOrdering slices [0:2] out of it:
//   "runtime error: slice bounds out of range [:2] with capacity 1"  -> HTTP 400
// The documented validation of the split condition (ratio in [0,1], max >= min) accepts both configurations;
// no bias removes every criterion, so the request is inside the domain of C07.
package client

import (
	"encoding/json"
	"fmt"
	"testing"

	"github.com/Azbesciak/RealDecisionMaker/lib/logic/biases/anchoring"
	criteria_concealment "github.com/Azbesciak/RealDecisionMaker/lib/logic/biases/criteria-concealment"
	criteria_mixing "github.com/Azbesciak/RealDecisionMaker/lib/logic/biases/criteria-mixing"
	criteria_omission "github.com/Azbesciak/RealDecisionMaker/lib/logic/biases/criteria-omission"
	"github.com/Azbesciak/RealDecisionMaker/lib/logic/biases/fatigue"
	preference_reversal "github.com/Azbesciak/RealDecisionMaker/lib/logic/biases/preference-reversal"
	aspect_elimination "github.com/Azbesciak/RealDecisionMaker/lib/logic/limited-rationality/aspect-elimination"
	"github.com/Azbesciak/RealDecisionMaker/lib/logic/limited-rationality/majority"
	"github.com/Azbesciak/RealDecisionMaker/lib/logic/limited-rationality/satisfaction"
	satisfaction_levels "github.com/Azbesciak/RealDecisionMaker/lib/logic/limited-rationality/satisfaction-levels"
	"github.com/Azbesciak/RealDecisionMaker/lib/logic/preference-func/choquet"
	"github.com/Azbesciak/RealDecisionMaker/lib/logic/preference-func/electreIII"
	"github.com/Azbesciak/RealDecisionMaker/lib/logic/preference-func/owa"
	weighted_sum "github.com/Azbesciak/RealDecisionMaker/lib/logic/preference-func/weighted-sum"
	"github.com/Azbesciak/RealDecisionMaker/lib/model"
	criteria_ordering "github.com/Azbesciak/RealDecisionMaker/lib/model/criteria-ordering"
	reference_criterion "github.com/Azbesciak/RealDecisionMaker/lib/model/reference-criterion"
	"github.com/Azbesciak/RealDecisionMaker/lib/utils"
)
// ---- wiring copied from httpClient/main.go (c07c) ----

func c07cWiring() (model.PreferenceFunctions, model.BiasListeners, *model.BiasMap) {
	inc := []satisfaction_levels.SatisfactionLevelsSource{
		&satisfaction_levels.IdealIncreasingMulCoefficientSatisfaction,
		&satisfaction_levels.IdealAdditiveCoefficientSatisfaction,
		&satisfaction_levels.IncreasingThresholds,
	}
	dec := []satisfaction_levels.SatisfactionLevelsSource{
		&satisfaction_levels.IdealDecreasingMulCoefficientSatisfaction,
		&satisfaction_levels.IdealSubtrCoefficientSatisfaction,
		&satisfaction_levels.DecreasingThresholds,
	}
	decUpd := satisfaction_levels.SatisfactionLevelsUpdateListeners{Listeners: satisfaction_levels.ListenersMap{
		satisfaction_levels.Thresholds:         &satisfaction_levels.DecreasingThresholds,
		satisfaction_levels.IdealDecreasingMul: &satisfaction_levels.IdealDecreasingMulCoefficientSatisfaction,
		satisfaction_levels.IdealSubtractive:   &satisfaction_levels.IdealSubtrCoefficientSatisfaction,
	}}
	incUpd := satisfaction_levels.SatisfactionLevelsUpdateListeners{Listeners: satisfaction_levels.ListenersMap{
		satisfaction_levels.Thresholds:         &satisfaction_levels.IncreasingThresholds,
		satisfaction_levels.IdealIncreasingMul: &satisfaction_levels.IdealIncreasingMulCoefficientSatisfaction,
		satisfaction_levels.IdealAdditive:      &satisfaction_levels.IdealAdditiveCoefficientSatisfaction,
	}}
	gen := utils.RandomBasedSeedValueGenerator
	funcs := model.PreferenceFunctions{Functions: []model.PreferenceFunction{
		&weighted_sum.WeightedSumPreferenceFunc{},
		&owa.OWAPreferenceFunc{},
		&electreIII.ElectreIIIPreferenceFunc{},
		&choquet.ChoquetIntegralPreferenceFunc{},
		aspect_elimination.NewAspectEliminationHeuristic(inc, gen),
		majority.NewMajority(gen, []majority.DrawResolver{
			&majority.DrawAllowedResolver{}, &majority.CurrentIsWinnerDrawResolver{},
			&majority.NewerIsWinnerResolver{}, &majority.RandomWinnerResolver{},
		}),
		satisfaction.NewSatisfaction(gen, dec),
	}}
	listeners := model.BiasListeners{Listeners: []model.BiasListener{
		&weighted_sum.WeightedSumBiasListener{},
		&owa.OwaBiasListener{},
		&electreIII.ElectreIIIBiasLIstener{},
		&choquet.ChoquetIntegralBiasListener{},
		aspect_elimination.NewAspectEliminationBiasListener(incUpd),
		&majority.MajorityBiasListener{},
		satisfaction.NewSatisfactionBiasListener(decUpd),
	}}
	refMgr := *reference_criterion.NewReferenceCriteriaManager([]reference_criterion.ReferenceCriterionFactory{
		&reference_criterion.ImportanceRatioReferenceCriterionManager{},
		&reference_criterion.RandomUniformReferenceCriterionManager{RandomFactory: gen},
		&reference_criterion.RandomWeightedReferenceCriterionManager{RandomFactory: gen},
	})
	ordering := []criteria_ordering.CriteriaOrderingResolver{
		&criteria_ordering.WeakestCriteriaOrderingResolver{},
		&criteria_ordering.StrongestCriteriaOrderingResolver{},
		&criteria_ordering.RandomCriteriaOrderingResolver{Generator: gen},
		&criteria_ordering.WeakestByProbabilityCriteriaOrderingResolver{Generator: gen},
		&criteria_ordering.StrongestByProbabilityCriteriaOrderingResolver{
			WeakestByProbability: &criteria_ordering.WeakestByProbabilityCriteriaOrderingResolver{Generator: gen},
		},
	}
	biases := model.BiasMap{
		anchoring.BiasName: anchoring.NewAnchoring(
			[]anchoring.AnchoringEvaluator{&anchoring.LinearAnchoringEvaluator{}, &anchoring.ExpFromZeroAnchoringEvaluator{}},
			[]anchoring.ReferencePointsEvaluator{&anchoring.IdealReferenceAlternativeEvaluator{}, &anchoring.NadirReferenceAlternativeEvaluator{}},
			[]anchoring.AnchoringApplier{&anchoring.InlineAnchoringApplier{}, anchoring.NewNewCriterionAnchoringApplier(gen, refMgr)},
		),
		criteria_concealment.BiasName: criteria_concealment.NewCriteriaConcealment(gen, refMgr),
		criteria_mixing.BiasName:      criteria_mixing.NewCriteriaMixing(gen, refMgr),
		preference_reversal.BiasName:  preference_reversal.NewPreferenceReversal(ordering),
		criteria_omission.BiasName:    criteria_omission.NewCriteriaOmission(ordering),
		fatigue.BiasName: fatigue.NewFatigue(gen, gen,
			[]fatigue.FatigueFunction{&fatigue.ExponentialFromZeroFatigue{}, &fatigue.ConstFatigueFunction{}}),
	}
	return funcs, listeners, &biases
}

// c07cDecide does what the POST /api/decide handler does: JSON body -> model.DecisionMaker -> MakeDecision,
// a panic is what the handler turns into a 400 response.
func c07cDecide(body string) (choice *model.DecisionMakerChoice, failure interface{}) {
	var dm model.DecisionMaker
	if err := json.Unmarshal([]byte(body), &dm); err != nil {
		return nil, err
	}
	funcs, listeners, biases := c07cWiring()
	defer func() {
		if e := recover(); e != nil {
			choice, failure = nil, e
		}
	}()
	return dm.MakeDecision(funcs, listeners, biases, utils.RandomBasedSeedValueGenerator), nil
}

// c07cMethodParameters gives valid parameters of every method for gain criteria c1..c3.
func c07cMethodParameters(method string) string {
	switch method {
	case "weightedSum", "owa", "majorityHeuristic":
		return `{"weights":{"c1":1,"c2":2,"c3":3}}`
	case "electreIII":
		return `{"electreCriteria":{
			"c1":{"k":1,"q":{"b":1},"p":{"b":2},"v":{"b":4}},
			"c2":{"k":2,"q":{"b":1},"p":{"b":2},"v":{"b":4}},
			"c3":{"k":3,"q":{"b":1},"p":{"b":2},"v":{"b":4}}}}`
	case "choquetIntegral":
		return `{"weights":{"c1":0.2,"c2":0.3,"c3":0.4,"c1,c2":0.5,"c1,c3":0.6,"c2,c3":0.7,"c1,c2,c3":1}}`
	case "aspectEliminationHeuristic":
		return `{"weights":{"c1":1,"c2":2,"c3":3},"function":"thresholds","params":{"thresholds":[{"c1":2,"c2":2,"c3":2}]}}`
	case "satisfactionHeuristic":
		return `{"function":"thresholds","params":{"thresholds":[{"c1":2,"c2":2,"c3":2}]}}`
	}
	panic("unknown method " + method)
}

var c07cMethods = []string{"weightedSum", "owa", "electreIII", "choquetIntegral", "aspectEliminationHeuristic", "majorityHeuristic", "satisfactionHeuristic"}

func c07cRequest(method, biases string) string {
	return fmt.Sprintf(`{
		"preferenceFunction": %q,
		"criteria": [{"id":"c1","type":"gain"},{"id":"c2","type":"gain"},{"id":"c3","type":"gain"}],
		"knownAlternatives": [
			{"id":"a1","criteria":{"c1":1,"c2":5,"c3":3}},
			{"id":"a2","criteria":{"c1":4,"c2":2,"c3":6}},
			{"id":"a3","criteria":{"c1":3,"c2":3,"c3":1}},
			{"id":"a4","criteria":{"c1":2,"c2":6,"c3":2}}],
		"choseToMake": ["a1","a2","a3"],
		"methodParameters": %s,
		"biases": %s}`, method, c07cMethodParameters(method), biases)
}

func TestHuntC07ReversalAfterOmission(t *testing.T) {
	omission := `{"name":"criteriaOmission","props":{"min":2,"max":2}}`
	reversal := `{"name":"preferenceReversal","props":{"min":2,"max":2}}`
	for _, method := range c07cMethods {
		for _, single := range []string{omission, reversal} {
			if _, failure := c07cDecide(c07cRequest(method, "["+single+"]")); failure != nil {
				t.Fatalf("%s: precondition: %s alone should be answered, got %v", method, single, failure)
			}
		}
		choice, failure := c07cDecide(c07cRequest(method, "["+omission+","+reversal+"]"))
		if failure != nil {
			t.Errorf("%s: [criteriaOmission, preferenceReversal] is answered with an error instead of a ranking: %v", method, failure)
			continue
		}
		if len(choice.Result) != 3 {
			t.Errorf("%s: expected 3 ranked alternatives, got %d", method, len(choice.Result))
		}
		for _, entry := range choice.Result {
			if len(entry.Alternative.Criteria) != 1 {
				t.Errorf("%s: alternative %s should be judged on the one criterion left, has %v", method, entry.Alternative.Id, entry.Alternative.Criteria)
			}
		}
	}
}
