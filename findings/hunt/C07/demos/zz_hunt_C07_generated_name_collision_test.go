// Demo for finding "generated criterion name collides with a surviving generated criterion" (property C07).
//
// Copy to:  lib/client/   (package client)
// Run:      cd lib && GOFLAGS=-mod=mod go test -vet=off -count=1 -run TestHuntC07GeneratedNameCollision ./client/
//
// Sequence (length 4, all biases enabled, inside the quantifier of C07):
//   criteriaConcealment  -> adds __concealedCriterion__
//   criteriaConcealment  -> adds __concealedCriterion__1
//   criteriaOmission     -> (min=max=1, ordering=random, randomSeed=1) omits exactly __concealedCriterion__
//   criteriaConcealment  -> Criteria.NotUsedName counts ONE criterion with the prefix and proposes
//                           "__concealedCriterion__" + "1", which is still in use -> panic -> HTTP 400
// The same happens with the anchoring bias and its newCriterion applier (__anchoring_criterion_ideal / ...ideal1).
// Expected by the property: every one of the seven methods answers with a ranking.
package client

import (
	"encoding/json"
	"fmt"
	"testing"

	"github.com/Azbesciak/RealDecisionMaker/lib/logic/biases/anchoring"
	criteria_concealment "github.com/Azbesciak/RealDecisionMaker/lib/logic/biases/criteria-concealment"
	criteria_mixing "github.com/Azbesciak/RealDecisionMaker/lib/logic/biases/criteria-mixing"
	criteria_omission "github.com/Azbesciak/RealDecisionMaker/lib/logic/biases/criteria-omission"
	"github.com/Azbesciak/RealDecisionMaker/lib/logic/biases/fatigue"
	preference_reversal "github.com/Azbesciak/RealDecisionMaker/lib/logic/biases/preference-reversal"
	aspect_elimination "github.com/Azbesciak/RealDecisionMaker/lib/logic/limited-rationality/aspect-elimination"
	"github.com/Azbesciak/RealDecisionMaker/lib/logic/limited-rationality/majority"
	"github.com/Azbesciak/RealDecisionMaker/lib/logic/limited-rationality/satisfaction"
	satisfaction_levels "github.com/Azbesciak/RealDecisionMaker/lib/logic/limited-rationality/satisfaction-levels"
	"github.com/Azbesciak/RealDecisionMaker/lib/logic/preference-func/choquet"
	"github.com/Azbesciak/RealDecisionMaker/lib/logic/preference-func/electreIII"
	"github.com/Azbesciak/RealDecisionMaker/lib/logic/preference-func/owa"
	weighted_sum "github.com/Azbesciak/RealDecisionMaker/lib/logic/preference-func/weighted-sum"
	"github.com/Azbesciak/RealDecisionMaker/lib/model"
	criteria_ordering "github.com/Azbesciak/RealDecisionMaker/lib/model/criteria-ordering"
	reference_criterion "github.com/Azbesciak/RealDecisionMaker/lib/model/reference-criterion"
	"github.com/Azbesciak/RealDecisionMaker/lib/utils"
)
// ---- wiring copied from httpClient/main.go (c07a) ----

func c07aWiring() (model.PreferenceFunctions, model.BiasListeners, *model.BiasMap) {
	inc := []satisfaction_levels.SatisfactionLevelsSource{
		&satisfaction_levels.IdealIncreasingMulCoefficientSatisfaction,
		&satisfaction_levels.IdealAdditiveCoefficientSatisfaction,
		&satisfaction_levels.IncreasingThresholds,
	}
	dec := []satisfaction_levels.SatisfactionLevelsSource{
		&satisfaction_levels.IdealDecreasingMulCoefficientSatisfaction,
		&satisfaction_levels.IdealSubtrCoefficientSatisfaction,
		&satisfaction_levels.DecreasingThresholds,
	}
	decUpd := satisfaction_levels.SatisfactionLevelsUpdateListeners{Listeners: satisfaction_levels.ListenersMap{
		satisfaction_levels.Thresholds:         &satisfaction_levels.DecreasingThresholds,
		satisfaction_levels.IdealDecreasingMul: &satisfaction_levels.IdealDecreasingMulCoefficientSatisfaction,
		satisfaction_levels.IdealSubtractive:   &satisfaction_levels.IdealSubtrCoefficientSatisfaction,
	}}
	incUpd := satisfaction_levels.SatisfactionLevelsUpdateListeners{Listeners: satisfaction_levels.ListenersMap{
		satisfaction_levels.Thresholds:         &satisfaction_levels.IncreasingThresholds,
		satisfaction_levels.IdealIncreasingMul: &satisfaction_levels.IdealIncreasingMulCoefficientSatisfaction,
		satisfaction_levels.IdealAdditive:      &satisfaction_levels.IdealAdditiveCoefficientSatisfaction,
	}}
	gen := utils.RandomBasedSeedValueGenerator
	funcs := model.PreferenceFunctions{Functions: []model.PreferenceFunction{
		&weighted_sum.WeightedSumPreferenceFunc{},
		&owa.OWAPreferenceFunc{},
		&electreIII.ElectreIIIPreferenceFunc{},
		&choquet.ChoquetIntegralPreferenceFunc{},
		aspect_elimination.NewAspectEliminationHeuristic(inc, gen),
		majority.NewMajority(gen, []majority.DrawResolver{
			&majority.DrawAllowedResolver{}, &majority.CurrentIsWinnerDrawResolver{},
			&majority.NewerIsWinnerResolver{}, &majority.RandomWinnerResolver{},
		}),
		satisfaction.NewSatisfaction(gen, dec),
	}}
	listeners := model.BiasListeners{Listeners: []model.BiasListener{
		&weighted_sum.WeightedSumBiasListener{},
		&owa.OwaBiasListener{},
		&electreIII.ElectreIIIBiasLIstener{},
		&choquet.ChoquetIntegralBiasListener{},
		aspect_elimination.NewAspectEliminationBiasListener(incUpd),
		&majority.MajorityBiasListener{},
		satisfaction.NewSatisfactionBiasListener(decUpd),
	}}
	refMgr := *reference_criterion.NewReferenceCriteriaManager([]reference_criterion.ReferenceCriterionFactory{
		&reference_criterion.ImportanceRatioReferenceCriterionManager{},
		&reference_criterion.RandomUniformReferenceCriterionManager{RandomFactory: gen},
		&reference_criterion.RandomWeightedReferenceCriterionManager{RandomFactory: gen},
	})
	ordering := []criteria_ordering.CriteriaOrderingResolver{
		&criteria_ordering.WeakestCriteriaOrderingResolver{},
		&criteria_ordering.StrongestCriteriaOrderingResolver{},
		&criteria_ordering.RandomCriteriaOrderingResolver{Generator: gen},
		&criteria_ordering.WeakestByProbabilityCriteriaOrderingResolver{Generator: gen},
		&criteria_ordering.StrongestByProbabilityCriteriaOrderingResolver{
			WeakestByProbability: &criteria_ordering.WeakestByProbabilityCriteriaOrderingResolver{Generator: gen},
		},
	}
	biases := model.BiasMap{
		anchoring.BiasName: anchoring.NewAnchoring(
			[]anchoring.AnchoringEvaluator{&anchoring.LinearAnchoringEvaluator{}, &anchoring.ExpFromZeroAnchoringEvaluator{}},
			[]anchoring.ReferencePointsEvaluator{&anchoring.IdealReferenceAlternativeEvaluator{}, &anchoring.NadirReferenceAlternativeEvaluator{}},
			[]anchoring.AnchoringApplier{&anchoring.InlineAnchoringApplier{}, anchoring.NewNewCriterionAnchoringApplier(gen, refMgr)},
		),
		criteria_concealment.BiasName: criteria_concealment.NewCriteriaConcealment(gen, refMgr),
		criteria_mixing.BiasName:      criteria_mixing.NewCriteriaMixing(gen, refMgr),
		preference_reversal.BiasName:  preference_reversal.NewPreferenceReversal(ordering),
		criteria_omission.BiasName:    criteria_omission.NewCriteriaOmission(ordering),
		fatigue.BiasName: fatigue.NewFatigue(gen, gen,
			[]fatigue.FatigueFunction{&fatigue.ExponentialFromZeroFatigue{}, &fatigue.ConstFatigueFunction{}}),
	}
	return funcs, listeners, &biases
}

// c07aDecide does what the POST /api/decide handler does: JSON body -> model.DecisionMaker -> MakeDecision,
// a panic is what the handler turns into a 400 response.
func c07aDecide(body string) (choice *model.DecisionMakerChoice, failure interface{}) {
	var dm model.DecisionMaker
	if err := json.Unmarshal([]byte(body), &dm); err != nil {
		return nil, err
	}
	funcs, listeners, biases := c07aWiring()
	defer func() {
		if e := recover(); e != nil {
			choice, failure = nil, e
		}
	}()
	return dm.MakeDecision(funcs, listeners, biases, utils.RandomBasedSeedValueGenerator), nil
}

// c07aMethodParameters gives valid parameters of every method for gain criteria c1..c3.
func c07aMethodParameters(method string) string {
	switch method {
	case "weightedSum", "owa", "majorityHeuristic":
		return `{"weights":{"c1":1,"c2":2,"c3":3}}`
	case "electreIII":
		return `{"electreCriteria":{
			"c1":{"k":1,"q":{"b":1},"p":{"b":2},"v":{"b":4}},
			"c2":{"k":2,"q":{"b":1},"p":{"b":2},"v":{"b":4}},
			"c3":{"k":3,"q":{"b":1},"p":{"b":2},"v":{"b":4}}}}`
	case "choquetIntegral":
		return `{"weights":{"c1":0.2,"c2":0.3,"c3":0.4,"c1,c2":0.5,"c1,c3":0.6,"c2,c3":0.7,"c1,c2,c3":1}}`
	case "aspectEliminationHeuristic":
		return `{"weights":{"c1":1,"c2":2,"c3":3},"function":"thresholds","params":{"thresholds":[{"c1":2,"c2":2,"c3":2}]}}`
	case "satisfactionHeuristic":
		return `{"function":"thresholds","params":{"thresholds":[{"c1":2,"c2":2,"c3":2}]}}`
	}
	panic("unknown method " + method)
}

var c07aMethods = []string{"weightedSum", "owa", "electreIII", "choquetIntegral", "aspectEliminationHeuristic", "majorityHeuristic", "satisfactionHeuristic"}

const c07aAlternatives = `[
	{"id":"a1","criteria":{"c1":1,"c2":5,"c3":3}},
	{"id":"a2","criteria":{"c1":4,"c2":2,"c3":6}},
	{"id":"a3","criteria":{"c1":3,"c2":3,"c3":1}},
	{"id":"a4","criteria":{"c1":2,"c2":6,"c3":2}}]`

func c07aRequest(method, biases string) string {
	return fmt.Sprintf(`{
		"preferenceFunction": %q,
		"criteria": [{"id":"c1","type":"gain"},{"id":"c2","type":"gain"},{"id":"c3","type":"gain"}],
		"knownAlternatives": %s,
		"choseToMake": ["a1","a2","a3"],
		"methodParameters": %s,
		"biases": %s}`, method, c07aAlternatives, c07aMethodParameters(method), biases)
}

func c07aConcealment(seed int) string {
	return fmt.Sprintf(`{"name":"criteriaConcealment","props":{"randomSeed":%d,"referenceCriterionType":"randomUniform","newCriterionRandomSeed":%d}}`, seed, seed)
}

func c07aAnchoring(seed int) string {
	return fmt.Sprintf(`{"name":"anchoring","props":{
		"anchoringAlternatives":[{"alternative":"a1","coefficient":1}],
		"loss":{"function":"linear","params":{"a":1}},
		"gain":{"function":"linear","params":{"a":1}},
		"referencePoints":{"function":"ideal"},
		"applier":{"function":"newCriterion","params":{"randomSeed":%d}}}}`, seed)
}

func c07aOmitOne(seed int) string {
	return fmt.Sprintf(`{"name":"criteriaOmission","props":{"min":1,"max":1,"ordering":"random","randomSeed":%d}}`, seed)
}

func c07aOmitted(t *testing.T, choice *model.DecisionMakerChoice) string {
	raw, _ := json.Marshal(choice.Biases[2])
	var parsed struct {
		Props struct {
			OmittedCriteria []struct {
				Id string `json:"id"`
			} `json:"omittedCriteria"`
		} `json:"props"`
	}
	if err := json.Unmarshal(raw, &parsed); err != nil || len(parsed.Props.OmittedCriteria) != 1 {
		t.Fatalf("cannot read the omitted criterion from %s", raw)
	}
	return parsed.Props.OmittedCriteria[0].Id
}

func c07aCheck(t *testing.T, method, kind, firstGenerated string, adding func(seed int) string) {
	// the first three biases alone are answered, and the omission drops the FIRST generated criterion
	prefix := "[" + adding(1) + "," + adding(2) + "," + c07aOmitOne(1)
	choice, failure := c07aDecide(c07aRequest(method, prefix+"]"))
	if failure != nil {
		t.Fatalf("%s/%s: precondition: the first three biases should work, got %v", method, kind, failure)
	}
	if omitted := c07aOmitted(t, choice); omitted != firstGenerated {
		t.Fatalf("%s/%s: precondition: expected the omission to drop %s, it dropped %s", method, kind, firstGenerated, omitted)
	}
	// ... the fourth one is the same bias again
	choice, failure = c07aDecide(c07aRequest(method, prefix+","+adding(3)+"]"))
	if failure != nil {
		t.Errorf("%s: [%s, %s, criteriaOmission, %s] is answered with an error instead of a ranking: %v", method, kind, kind, kind, failure)
		return
	}
	if len(choice.Result) != 3 {
		t.Errorf("%s/%s: expected a ranking of the 3 considered alternatives, got %d entries", method, kind, len(choice.Result))
	}
	for _, entry := range choice.Result {
		// 3 original + 2 surviving generated criteria
		if len(entry.Alternative.Criteria) != 5 {
			t.Errorf("%s/%s: alternative %s should be judged on 5 criteria, has %v", method, kind, entry.Alternative.Id, entry.Alternative.Criteria)
		}
	}
}

func TestHuntC07GeneratedNameCollision(t *testing.T) {
	for _, method := range c07aMethods {
		c07aCheck(t, method, "criteriaConcealment", "__concealedCriterion__", c07aConcealment)
		c07aCheck(t, method, "anchoring(newCriterion)", "__anchoring_criterion_ideal", c07aAnchoring)
	}
}
