// Demo for finding "weightedSum + any criteria-ranking bias fails when alternatives carry a value the criteria
// list does not mention" (property C07).
//
// Copy to:  lib/client/   (package client)
// Run:      cd lib && GOFLAGS=-mod=mod go test -vet=off -count=1 -run TestHuntC07WeightedSumExtraValue ./client/
//
// Request validation (DecisionMaker.validateAlternatives) only demands that every alternative has a value for
// every declared criterion; additional values are accepted and the weighted sum without biases ranks such a
// request. As soon as a bias asks the weightedSum listener to rank the criteria (omission, reversal, concealment,
// mixing, anchoring/newCriterion) the request is answered with
//   "criterion 'extra' not found in weights [...]"
// i.e. an error that only the method x bias combination produces.
package client

import (
	"encoding/json"
	"fmt"
	"testing"

	"github.com/Azbesciak/RealDecisionMaker/lib/logic/biases/anchoring"
	criteria_concealment "github.com/Azbesciak/RealDecisionMaker/lib/logic/biases/criteria-concealment"
	criteria_mixing "github.com/Azbesciak/RealDecisionMaker/lib/logic/biases/criteria-mixing"
	criteria_omission "github.com/Azbesciak/RealDecisionMaker/lib/logic/biases/criteria-omission"
	"github.com/Azbesciak/RealDecisionMaker/lib/logic/biases/fatigue"
	preference_reversal "github.com/Azbesciak/RealDecisionMaker/lib/logic/biases/preference-reversal"
	aspect_elimination "github.com/Azbesciak/RealDecisionMaker/lib/logic/limited-rationality/aspect-elimination"
	"github.com/Azbesciak/RealDecisionMaker/lib/logic/limited-rationality/majority"
	"github.com/Azbesciak/RealDecisionMaker/lib/logic/limited-rationality/satisfaction"
	satisfaction_levels "github.com/Azbesciak/RealDecisionMaker/lib/logic/limited-rationality/satisfaction-levels"
	"github.com/Azbesciak/RealDecisionMaker/lib/logic/preference-func/choquet"
	"github.com/Azbesciak/RealDecisionMaker/lib/logic/preference-func/electreIII"
	"github.com/Azbesciak/RealDecisionMaker/lib/logic/preference-func/owa"
	weighted_sum "github.com/Azbesciak/RealDecisionMaker/lib/logic/preference-func/weighted-sum"
	"github.com/Azbesciak/RealDecisionMaker/lib/model"
	criteria_ordering "github.com/Azbesciak/RealDecisionMaker/lib/model/criteria-ordering"
	reference_criterion "github.com/Azbesciak/RealDecisionMaker/lib/model/reference-criterion"
	"github.com/Azbesciak/RealDecisionMaker/lib/utils"
)
// ---- wiring copied from httpClient/main.go (c07b) ----

func c07bWiring() (model.PreferenceFunctions, model.BiasListeners, *model.BiasMap) {
	inc := []satisfaction_levels.SatisfactionLevelsSource{
		&satisfaction_levels.IdealIncreasingMulCoefficientSatisfaction,
		&satisfaction_levels.IdealAdditiveCoefficientSatisfaction,
		&satisfaction_levels.IncreasingThresholds,
	}
	dec := []satisfaction_levels.SatisfactionLevelsSource{
		&satisfaction_levels.IdealDecreasingMulCoefficientSatisfaction,
		&satisfaction_levels.IdealSubtrCoefficientSatisfaction,
		&satisfaction_levels.DecreasingThresholds,
	}
	decUpd := satisfaction_levels.SatisfactionLevelsUpdateListeners{Listeners: satisfaction_levels.ListenersMap{
		satisfaction_levels.Thresholds:         &satisfaction_levels.DecreasingThresholds,
		satisfaction_levels.IdealDecreasingMul: &satisfaction_levels.IdealDecreasingMulCoefficientSatisfaction,
		satisfaction_levels.IdealSubtractive:   &satisfaction_levels.IdealSubtrCoefficientSatisfaction,
	}}
	incUpd := satisfaction_levels.SatisfactionLevelsUpdateListeners{Listeners: satisfaction_levels.ListenersMap{
		satisfaction_levels.Thresholds:         &satisfaction_levels.IncreasingThresholds,
		satisfaction_levels.IdealIncreasingMul: &satisfaction_levels.IdealIncreasingMulCoefficientSatisfaction,
		satisfaction_levels.IdealAdditive:      &satisfaction_levels.IdealAdditiveCoefficientSatisfaction,
	}}
	gen := utils.RandomBasedSeedValueGenerator
	funcs := model.PreferenceFunctions{Functions: []model.PreferenceFunction{
		&weighted_sum.WeightedSumPreferenceFunc{},
		&owa.OWAPreferenceFunc{},
		&electreIII.ElectreIIIPreferenceFunc{},
		&choquet.ChoquetIntegralPreferenceFunc{},
		aspect_elimination.NewAspectEliminationHeuristic(inc, gen),
		majority.NewMajority(gen, []majority.DrawResolver{
			&majority.DrawAllowedResolver{}, &majority.CurrentIsWinnerDrawResolver{},
			&majority.NewerIsWinnerResolver{}, &majority.RandomWinnerResolver{},
		}),
		satisfaction.NewSatisfaction(gen, dec),
	}}
	listeners := model.BiasListeners{Listeners: []model.BiasListener{
		&weighted_sum.WeightedSumBiasListener{},
		&owa.OwaBiasListener{},
		&electreIII.ElectreIIIBiasLIstener{},
		&choquet.ChoquetIntegralBiasListener{},
		aspect_elimination.NewAspectEliminationBiasListener(incUpd),
		&majority.MajorityBiasListener{},
		satisfaction.NewSatisfactionBiasListener(decUpd),
	}}
	refMgr := *reference_criterion.NewReferenceCriteriaManager([]reference_criterion.ReferenceCriterionFactory{
		&reference_criterion.ImportanceRatioReferenceCriterionManager{},
		&reference_criterion.RandomUniformReferenceCriterionManager{RandomFactory: gen},
		&reference_criterion.RandomWeightedReferenceCriterionManager{RandomFactory: gen},
	})
	ordering := []criteria_ordering.CriteriaOrderingResolver{
		&criteria_ordering.WeakestCriteriaOrderingResolver{},
		&criteria_ordering.StrongestCriteriaOrderingResolver{},
		&criteria_ordering.RandomCriteriaOrderingResolver{Generator: gen},
		&criteria_ordering.WeakestByProbabilityCriteriaOrderingResolver{Generator: gen},
		&criteria_ordering.StrongestByProbabilityCriteriaOrderingResolver{
			WeakestByProbability: &criteria_ordering.WeakestByProbabilityCriteriaOrderingResolver{Generator: gen},
		},
	}
	biases := model.BiasMap{
		anchoring.BiasName: anchoring.NewAnchoring(
			[]anchoring.AnchoringEvaluator{&anchoring.LinearAnchoringEvaluator{}, &anchoring.ExpFromZeroAnchoringEvaluator{}},
			[]anchoring.ReferencePointsEvaluator{&anchoring.IdealReferenceAlternativeEvaluator{}, &anchoring.NadirReferenceAlternativeEvaluator{}},
			[]anchoring.AnchoringApplier{&anchoring.InlineAnchoringApplier{}, anchoring.NewNewCriterionAnchoringApplier(gen, refMgr)},
		),
		criteria_concealment.BiasName: criteria_concealment.NewCriteriaConcealment(gen, refMgr),
		criteria_mixing.BiasName:      criteria_mixing.NewCriteriaMixing(gen, refMgr),
		preference_reversal.BiasName:  preference_reversal.NewPreferenceReversal(ordering),
		criteria_omission.BiasName:    criteria_omission.NewCriteriaOmission(ordering),
		fatigue.BiasName: fatigue.NewFatigue(gen, gen,
			[]fatigue.FatigueFunction{&fatigue.ExponentialFromZeroFatigue{}, &fatigue.ConstFatigueFunction{}}),
	}
	return funcs, listeners, &biases
}

// c07bDecide does what the POST /api/decide handler does: JSON body -> model.DecisionMaker -> MakeDecision,
// a panic is what the handler turns into a 400 response.
func c07bDecide(body string) (choice *model.DecisionMakerChoice, failure interface{}) {
	var dm model.DecisionMaker
	if err := json.Unmarshal([]byte(body), &dm); err != nil {
		return nil, err
	}
	funcs, listeners, biases := c07bWiring()
	defer func() {
		if e := recover(); e != nil {
			choice, failure = nil, e
		}
	}()
	return dm.MakeDecision(funcs, listeners, biases, utils.RandomBasedSeedValueGenerator), nil
}

// c07bMethodParameters gives valid parameters of every method for gain criteria c1..c3.
func c07bMethodParameters(method string) string {
	switch method {
	case "weightedSum", "owa", "majorityHeuristic":
		return `{"weights":{"c1":1,"c2":2,"c3":3}}`
	case "electreIII":
		return `{"electreCriteria":{
			"c1":{"k":1,"q":{"b":1},"p":{"b":2},"v":{"b":4}},
			"c2":{"k":2,"q":{"b":1},"p":{"b":2},"v":{"b":4}},
			"c3":{"k":3,"q":{"b":1},"p":{"b":2},"v":{"b":4}}}}`
	case "choquetIntegral":
		return `{"weights":{"c1":0.2,"c2":0.3,"c3":0.4,"c1,c2":0.5,"c1,c3":0.6,"c2,c3":0.7,"c1,c2,c3":1}}`
	case "aspectEliminationHeuristic":
		return `{"weights":{"c1":1,"c2":2,"c3":3},"function":"thresholds","params":{"thresholds":[{"c1":2,"c2":2,"c3":2}]}}`
	case "satisfactionHeuristic":
		return `{"function":"thresholds","params":{"thresholds":[{"c1":2,"c2":2,"c3":2}]}}`
	}
	panic("unknown method " + method)
}

var c07bMethods = []string{"weightedSum", "owa", "electreIII", "choquetIntegral", "aspectEliminationHeuristic", "majorityHeuristic", "satisfactionHeuristic"}

func c07bRequest(method, biases string) string {
	return fmt.Sprintf(`{
		"preferenceFunction": %q,
		"criteria": [{"id":"c1","type":"gain"},{"id":"c2","type":"gain"},{"id":"c3","type":"gain"}],
		"knownAlternatives": [
			{"id":"a1","criteria":{"c1":1,"c2":5,"c3":3,"extra":7}},
			{"id":"a2","criteria":{"c1":4,"c2":2,"c3":6,"extra":1}},
			{"id":"a3","criteria":{"c1":3,"c2":3,"c3":1,"extra":4}},
			{"id":"a4","criteria":{"c1":2,"c2":6,"c3":2,"extra":2}}],
		"choseToMake": ["a1","a2","a3"],
		"methodParameters": %s,
		"biases": %s}`, method, c07bMethodParameters(method), biases)
}

func TestHuntC07WeightedSumExtraValue(t *testing.T) {
	_ = c07bMethods
	// accepted and ranked without biases
	choice, failure := c07bDecide(c07bRequest("weightedSum", "[]"))
	if failure != nil || len(choice.Result) != 3 {
		t.Fatalf("precondition: the request without biases should be ranked, got %v", failure)
	}
	anchoringProps := `"anchoringAlternatives":[{"alternative":"a1","coefficient":1}],
		"loss":{"function":"linear","params":{"a":1}},"gain":{"function":"linear","params":{"a":1}},
		"referencePoints":{"function":"ideal"}`
	biases := map[string]string{
		"criteriaOmission":        `{"name":"criteriaOmission","props":{"min":1,"max":1}}`,
		"preferenceReversal":      `{"name":"preferenceReversal","props":{"min":1,"max":1}}`,
		"criteriaConcealment":     `{"name":"criteriaConcealment","props":{"randomSeed":1}}`,
		"criteriaMixing":          `{"name":"criteriaMixing","props":{"randomSeed":1}}`,
		"anchoring(newCriterion)": `{"name":"anchoring","props":{` + anchoringProps + `,"applier":{"function":"newCriterion","params":{"randomSeed":1}}}}`,
		"anchoring(inline)":       `{"name":"anchoring","props":{` + anchoringProps + `,"applier":{"function":"inline","params":{}}}}`,
		"fatigue":                 `{"name":"fatigue","props":{"function":"const","params":{"value":0.1},"randomSeed":1}}`,
	}
	for name, bias := range biases {
		choice, failure := c07bDecide(c07bRequest("weightedSum", "["+bias+"]"))
		if failure != nil {
			t.Errorf("weightedSum + %s is answered with an error instead of a ranking: %v", name, failure)
			continue
		}
		if len(choice.Result) != 3 {
			t.Errorf("weightedSum + %s: expected 3 ranked alternatives, got %d", name, len(choice.Result))
		}
	}
}
