package main

// C20 round 2, demo 2 - satisfaction / aspect-elimination requests whose coefficient is inside the documented
// range (0, 1) but small are (practically) never answered.
//
// Copy to: httpClient/   (package main, next to main.go)
// Run (from httpClient/, with a modfile that replaces .../lib by this tree's lib):
//   go test -modfile=<modfile> -vet=off -count=1 -run TestHunt2C20_SlowLevelSeries .
//
// Commit 9ed7878 ends a level series when a step no longer changes the level (coefficient 1e-17). A step that is
// just above the resolution of float64 still changes the level, so the loop in satisfaction.checkWithinSatisfactionLevels
// / aspect_elimination.checkWithinSatisfactionLevels walks through (maxValue-minValue)/coefficient levels, one by one,
// ~0.6 us each, as long as some alternative is left: coefficient 1e-9 -> 10 minutes, 1e-12 -> a week,
// 1e-15 (used here) -> 9e14 levels, about 17 years; idealMultipliedCoefficient with coefficient 0.9999999999999999
// lowers the level by one ulp per step (2^52 steps per binade). The handler goroutine burns one core all that
// time; the client never gets a response.
// Every sub test sends ONE request and waits 10 s for the response (a request with coefficient 0.1 on the same
// data is answered in < 1 ms). After a repair (jump to the next level that changes something, or reject series
// with more than N levels) the requests are answered with 200 or 400 at once and the test passes.

import (
	"fmt"
	"io/ioutil"
	"log"
	"net/http"
	"net/http/httptest"
	"strings"
	"testing"
	"time"

	"github.com/gin-gonic/gin"
)

func hunt2C20SlowRouter() *gin.Engine {
	gin.SetMode(gin.ReleaseMode)
	gin.DefaultWriter = ioutil.Discard
	log.SetOutput(ioutil.Discard)
	r := gin.Default()
	api := r.Group("/api")
	api.POST("/decide", decideHandler)
	api.GET("/preferenceFunctions", functionsHandler)
	return r
}

func hunt2C20SatisfactionBody(function string, coefficient string) string {
	// 'a' has the lowest value of the (derived) value range: no level above minValue is low enough for it
	return fmt.Sprintf(`{"preferenceFunction":"satisfactionHeuristic",`+
		`"knownAlternatives":[{"id":"a","criteria":{"c1":0}},{"id":"b","criteria":{"c1":10}}],"choseToMake":["a","b"],`+
		`"criteria":[{"id":"c1","type":"gain"}],`+
		`"methodParameters":{"function":"%s","params":{"coefficient":%s,"minValue":0.1,"maxValue":1}}}`, function, coefficient)
}

func hunt2C20AspectBody(function string, coefficient string) string {
	// 'a' and 'b' both have the ideal value: no level eliminates one of them
	return fmt.Sprintf(`{"preferenceFunction":"aspectEliminationHeuristic",`+
		`"knownAlternatives":[{"id":"a","criteria":{"c1":10}},{"id":"b","criteria":{"c1":10}},{"id":"c","criteria":{"c1":0}}],"choseToMake":["a","b"],`+
		`"criteria":[{"id":"c1","type":"gain"}],`+
		`"methodParameters":{"function":"%s","params":{"coefficient":%s,"minValue":0,"maxValue":1},"weights":{"c1":1}}}`, function, coefficient)
}

func TestHunt2C20_SlowLevelSeries(t *testing.T) {
	r := hunt2C20SlowRouter()
	type result struct {
		code int
		body string
	}
	post := func(body string) chan result {
		done := make(chan result, 1)
		go func() {
			w := httptest.NewRecorder()
			req := httptest.NewRequest(http.MethodPost, "/api/decide", strings.NewReader(body))
			req.Header.Set("Content-Type", "application/json")
			r.ServeHTTP(w, req)
			done <- result{w.Code, w.Body.String()}
		}()
		return done
	}
	cases := []struct{ name, sane, slow string }{
		{"satisfaction/idealSubtractiveCoefficient/1e-15",
			hunt2C20SatisfactionBody("idealSubtractiveCoefficient", "0.1"), hunt2C20SatisfactionBody("idealSubtractiveCoefficient", "1e-15")},
		{"satisfaction/idealMultipliedCoefficient/0.9999999999999999",
			hunt2C20SatisfactionBody("idealMultipliedCoefficient", "0.9"), hunt2C20SatisfactionBody("idealMultipliedCoefficient", "0.9999999999999999")},
		{"aspectElimination/idealAdditiveCoefficient/1e-15",
			hunt2C20AspectBody("idealAdditiveCoefficient", "0.1"), hunt2C20AspectBody("idealAdditiveCoefficient", "1e-15")},
		{"aspectElimination/idealMultipliedCoefficient/1e-15",
			hunt2C20AspectBody("idealMultipliedCoefficient", "0.1"), hunt2C20AspectBody("idealMultipliedCoefficient", "1e-15")},
	}
	for _, c := range cases {
		c := c
		t.Run(c.name, func(t *testing.T) {
			select {
			case res := <-post(c.sane):
				if res.code != 200 || !strings.Contains(res.body, `"result"`) {
					t.Fatalf("the request with an ordinary coefficient should be answered with 200, got %d %.200s", res.code, res.body)
				}
			case <-time.After(10 * time.Second):
				t.Fatalf("the request with an ordinary coefficient was not answered")
			}
			select {
			case res := <-post(c.slow):
				if res.code != 200 && res.code != 400 {
					t.Errorf("answered with %d", res.code)
				}
			case <-time.After(10 * time.Second):
				t.Errorf("no response within 10 s (the handler is still walking through the level series): %s", c.slow)
			}
		})
	}
}
