package main

// C20 round 2, demo 4 - owa and choquetIntegral reject (400) a valid request whose alternatives carry a value
// for a criterion that is not declared; five other methods answer the same data with 200, and so do owa and
// choquetIntegral themselves as soon as any bias that rebuilds the alternatives runs first.
//
// Copy to: httpClient/   (package main, next to main.go)
// Run (from httpClient/, with a modfile that replaces .../lib by this tree's lib):
//   go test -modfile=<modfile> -vet=off -count=1 -run TestHunt2C20_UndeclaredValue .
//
// "a value for a criterion that is not declared takes no part in the decision" (commit a0d5884, e69c1e5):
// superfluous values are legal input. OWAPreferenceFunc.Evaluate / ChoquetIntegralPreferenceFunc.Evaluate hand
// the whole value map of the alternative to owa() / choquetIntegral(), which use len(alternative.Criteria) and
// every key of it: owa panics 'criteria and Weights must have the same length, got 3 and 2', Choquet asks for
// the capacity of the union 'c1,c2,zz' - which ParseParams would reject if it were supplied.
// After a repair (evaluate alternative.WithCriteriaOnly(declared criteria)) all requests are answered with 200.

import (
	"io/ioutil"
	"log"
	"net/http"
	"net/http/httptest"
	"strings"
	"testing"

	"github.com/gin-gonic/gin"
)

func hunt2C20UndeclaredRouter() *gin.Engine {
	gin.SetMode(gin.ReleaseMode)
	gin.DefaultWriter = ioutil.Discard
	log.SetOutput(ioutil.Discard)
	r := gin.Default()
	api := r.Group("/api")
	api.POST("/decide", decideHandler)
	api.GET("/preferenceFunctions", functionsHandler)
	return r
}

func TestHunt2C20_UndeclaredValue(t *testing.T) {
	r := hunt2C20UndeclaredRouter()
	post := func(body string) (int, string) {
		w := httptest.NewRecorder()
		req := httptest.NewRequest(http.MethodPost, "/api/decide", strings.NewReader(body))
		req.Header.Set("Content-Type", "application/json")
		r.ServeHTTP(w, req)
		return w.Code, w.Body.String()
	}
	// 'zz' is not a declared criterion
	const head = `"knownAlternatives":[{"id":"a","criteria":{"c1":1,"c2":5,"zz":9}},{"id":"b","criteria":{"c1":3,"c2":2,"zz":1}}],"choseToMake":["a","b"],` +
		`"criteria":[{"id":"c1","type":"gain"},{"id":"c2","type":"gain"}],`
	const noopBias = `,"biases":[{"name":"fatigue","props":{"function":"const","params":{"value":0}}}]`
	methods := []struct{ name, params string }{
		{"weightedSum", `{"weights":{"c1":1,"c2":2}}`},
		{"majorityHeuristic", `{"weights":{"c1":1,"c2":2}}`},
		{"electreIII", `{"electreCriteria":{"c1":{"k":1,"p":{"b":1}},"c2":{"k":1,"p":{"b":1}}}}`},
		{"satisfactionHeuristic", `{"function":"idealSubtractiveCoefficient","params":{"coefficient":0.2,"minValue":0.1,"maxValue":1}}`},
		{"aspectEliminationHeuristic", `{"function":"idealAdditiveCoefficient","params":{"coefficient":0.2,"minValue":0,"maxValue":1},"weights":{"c1":1,"c2":2}}`},
		{"owa", `{"weights":{"c1":1,"c2":2}}`},
		{"choquetIntegral", `{"weights":{"c1":1,"c2":0.5,"c1,c2":1}}`},
	}
	for _, m := range methods {
		m := m
		t.Run(m.name, func(t *testing.T) {
			body := `{` + head + `"preferenceFunction":"` + m.name + `","methodParameters":` + m.params
			code, resp := post(body + noopBias + `}`)
			if code != 200 || !strings.Contains(resp, `"result"`) {
				t.Fatalf("with a fatigue bias of strength 0 in front: %d %.300s", code, resp)
			}
			code, resp = post(body + `}`)
			if code != 200 || !strings.Contains(resp, `"result"`) {
				t.Errorf("valid request (alternatives carry the undeclared value 'zz') is answered with %d %.200s", code, resp)
			}
		})
	}
}
