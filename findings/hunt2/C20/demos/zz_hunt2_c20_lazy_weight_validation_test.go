package main

// C20 round 2, demo 3 - a missing criterion weight / threshold is answered with a ranking when a bias removes
// the criterion before the heuristic looks at its parameters.
//
// Copy to: httpClient/   (package main, next to main.go)
// Run (from httpClient/, with a modfile that replaces .../lib by this tree's lib):
//   go test -modfile=<modfile> -vet=off -count=1 -run TestHunt2C20_MissingWeightAnsweredWithRanking .
//
// weightedSum, owa, choquetIntegral and electreIII check in ParseParams that every declared criterion has its
// weight. majorityHeuristic, aspectEliminationHeuristic and satisfactionHeuristic only decode their parameters
// there; the weights are zipped with the criteria (and the 'thresholds' are checked against the criteria) in
// Evaluate, i.e. AFTER the biases, against the criteria that are left. Criteria c1, c2 are declared, the weight
// (or the threshold) of c2 is missing: without a bias the request is rejected ("weight for criterion 'c2' not
// found"), with a criteriaOmission that happens to drop c2 the same invalid request gets 200 and a ranking.
// (The bias props are valid and the bias IS applied: this is not the known lazy validation of bias props.)
// After a repair (validate the method parameters against the declared criteria in ParseParams) both are 400.

import (
	"io/ioutil"
	"log"
	"net/http"
	"net/http/httptest"
	"strings"
	"testing"

	"github.com/gin-gonic/gin"
)

func hunt2C20LazyRouter() *gin.Engine {
	gin.SetMode(gin.ReleaseMode)
	gin.DefaultWriter = ioutil.Discard
	log.SetOutput(ioutil.Discard)
	r := gin.Default()
	api := r.Group("/api")
	api.POST("/decide", decideHandler)
	api.GET("/preferenceFunctions", functionsHandler)
	return r
}

func TestHunt2C20_MissingWeightAnsweredWithRanking(t *testing.T) {
	r := hunt2C20LazyRouter()
	post := func(body string) (int, string) {
		w := httptest.NewRecorder()
		req := httptest.NewRequest(http.MethodPost, "/api/decide", strings.NewReader(body))
		req.Header.Set("Content-Type", "application/json")
		r.ServeHTTP(w, req)
		return w.Code, w.Body.String()
	}
	const head = `"knownAlternatives":[{"id":"a","criteria":{"c1":1,"c2":5}},{"id":"b","criteria":{"c1":3,"c2":2}}],"choseToMake":["a","b"],` +
		`"criteria":[{"id":"c1","type":"gain"},{"id":"c2","type":"gain"}],`
	// ordering "random" does not consult the weights; with two criteria its shuffle always puts c2 first
	const omission = `"biases":[{"name":"criteriaOmission","props":{"ordering":"random","ratio":0.5}}]`
	cases := []struct{ name, method string }{
		{"majority: weight of c2 missing",
			`"preferenceFunction":"majorityHeuristic","methodParameters":{"weights":{"c1":1}}`},
		{"aspectElimination: weight of c2 missing",
			`"preferenceFunction":"aspectEliminationHeuristic","methodParameters":{"function":"idealAdditiveCoefficient","params":{"coefficient":0.2,"minValue":0,"maxValue":1},"weights":{"c1":1}}`},
		{"aspectElimination: thresholds without c2",
			`"preferenceFunction":"aspectEliminationHeuristic","methodParameters":{"function":"thresholds","params":{"thresholds":[{"c1":2},{"c1":3}]},"weights":{"c1":1,"c2":2}}`},
		{"satisfaction: thresholds without c2",
			`"preferenceFunction":"satisfactionHeuristic","methodParameters":{"function":"thresholds","params":{"thresholds":[{"c1":2},{"c1":0}]}}`},
	}
	for _, c := range cases {
		c := c
		t.Run(c.name, func(t *testing.T) {
			code, body := post(`{` + head + c.method + `}`)
			if code != 400 || !strings.Contains(body, `"error"`) {
				t.Fatalf("without a bias the missing weight must be rejected, got %d %.300s", code, body)
			}
			t.Logf("without bias: %d %.120s", code, body)
			code, body = post(`{` + head + c.method + `,` + omission + `}`)
			if code == 200 && strings.Contains(body, `"result"`) {
				t.Errorf("the same request (weight/threshold of the declared criterion c2 missing) plus a criteriaOmission bias is answered with a ranking: %d %.400s", code, body)
			} else if code != 400 {
				t.Errorf("unexpected status %d %.300s", code, body)
			}
		})
	}
}
