package main

// C20 round 2, demo 5 (low severity) - a malformed JSON body is answered with 200 and a ranking when its
// first JSON value happens to be a valid request.
//
// Copy to: httpClient/   (package main, next to main.go)
// Run (from httpClient/, with a modfile that replaces .../lib by this tree's lib):
//   go test -modfile=<modfile> -vet=off -count=1 -run TestHunt2C20_TrailingGarbage .
//
// decideHandler binds with c.ShouldBindJSON, i.e. json.NewDecoder(body).Decode(&dm): the decoder stops after
// the first complete value and nobody looks at the rest of the body. `{...}}}}`, `{...} garbage` and two
// concatenated requests are not JSON documents (json.Unmarshal / json.Valid reject all three), yet they are
// answered like the valid request they start with. After a repair (reject when anything but white space
// follows the first value, e.g. read the body and json.Unmarshal it) they are answered with 400.

import (
	"encoding/json"
	"io/ioutil"
	"log"
	"net/http"
	"net/http/httptest"
	"strings"
	"testing"

	"github.com/gin-gonic/gin"
)

func hunt2C20GarbageRouter() *gin.Engine {
	gin.SetMode(gin.ReleaseMode)
	gin.DefaultWriter = ioutil.Discard
	log.SetOutput(ioutil.Discard)
	r := gin.Default()
	api := r.Group("/api")
	api.POST("/decide", decideHandler)
	api.GET("/preferenceFunctions", functionsHandler)
	return r
}

func TestHunt2C20_TrailingGarbage(t *testing.T) {
	r := hunt2C20GarbageRouter()
	post := func(body string) (int, string) {
		w := httptest.NewRecorder()
		req := httptest.NewRequest(http.MethodPost, "/api/decide", strings.NewReader(body))
		req.Header.Set("Content-Type", "application/json")
		r.ServeHTTP(w, req)
		return w.Code, w.Body.String()
	}
	const ok = `{"preferenceFunction":"weightedSum","knownAlternatives":[{"id":"a","criteria":{"c1":1}},{"id":"b","criteria":{"c1":3}}],"choseToMake":["a","b"],"criteria":[{"id":"c1","type":"gain"}],"methodParameters":{"weights":{"c1":1}}}`
	const other = `{"preferenceFunction":"noSuchMethod"}`
	if code, body := post(ok + " \n\t "); code != 200 {
		t.Fatalf("valid request followed by white space: %d %.200s", code, body)
	}
	for _, body := range []string{ok + `}}}}`, ok + ` garbage`, ok + other, ok + `,`, ok + `]`} {
		if json.Valid([]byte(body)) {
			t.Fatalf("test is wrong, this is valid JSON: %s", body)
		}
		code, resp := post(body)
		if code != 400 {
			t.Errorf("malformed JSON body ...%s is answered with %d %.120s", body[len(ok)-12:], code, resp)
		}
	}
}
