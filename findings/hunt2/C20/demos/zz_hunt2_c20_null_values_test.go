package main

// C20 round 2, demo 6 - a criterion value, a weight or a threshold that is given as JSON null (i.e. is missing)
// is silently taken as 0 and the request is answered with a ranking.
//
// Copy to: httpClient/   (package main, next to main.go)
// Run (from httpClient/, with a modfile that replaces .../lib by this tree's lib):
//   go test -modfile=<modfile> -vet=off -count=1 -run TestHunt2C20_NullValues .
//
// knownAlternatives[i].criteria is a map[string]float64: encoding/json stores the zero value for a null element,
// so validateAlternatives finds the key and the alternative is ranked with the value 0 (the response even
// reports "c1":0). methodParameters are decoded with mapstructure, which leaves a nil input untouched: a null
// weight / Choquet capacity / threshold becomes 0 as well. The same requests with the entry left out are
// rejected ("value of criterion 'c1' not found ...", "weight for criterion 'c1' not found ...").
// After a repair (reject null numbers in the value/weight maps) all of them are answered with 400.

import (
	"io/ioutil"
	"log"
	"net/http"
	"net/http/httptest"
	"strings"
	"testing"

	"github.com/gin-gonic/gin"
)

func hunt2C20NullRouter() *gin.Engine {
	gin.SetMode(gin.ReleaseMode)
	gin.DefaultWriter = ioutil.Discard
	log.SetOutput(ioutil.Discard)
	r := gin.Default()
	api := r.Group("/api")
	api.POST("/decide", decideHandler)
	api.GET("/preferenceFunctions", functionsHandler)
	return r
}

func TestHunt2C20_NullValues(t *testing.T) {
	r := hunt2C20NullRouter()
	post := func(body string) (int, string) {
		w := httptest.NewRecorder()
		req := httptest.NewRequest(http.MethodPost, "/api/decide", strings.NewReader(body))
		req.Header.Set("Content-Type", "application/json")
		r.ServeHTTP(w, req)
		return w.Code, w.Body.String()
	}
	const crit = `"criteria":[{"id":"c1","type":"gain"},{"id":"c2","type":"gain"}],"choseToMake":["a","b"],`
	const alts = `"knownAlternatives":[{"id":"a","criteria":{"c1":5,"c2":1}},{"id":"b","criteria":{"c1":3,"c2":0}}],`
	cases := []struct{ name, missing, null string }{
		{"criterion value",
			`{` + crit + `"knownAlternatives":[{"id":"a","criteria":{"c2":1}},{"id":"b","criteria":{"c1":3,"c2":0}}],"preferenceFunction":"weightedSum","methodParameters":{"weights":{"c1":1,"c2":1}}}`,
			`{` + crit + `"knownAlternatives":[{"id":"a","criteria":{"c1":null,"c2":1}},{"id":"b","criteria":{"c1":3,"c2":0}}],"preferenceFunction":"weightedSum","methodParameters":{"weights":{"c1":1,"c2":1}}}`},
		{"weightedSum weight",
			`{` + crit + alts + `"preferenceFunction":"weightedSum","methodParameters":{"weights":{"c2":1}}}`,
			`{` + crit + alts + `"preferenceFunction":"weightedSum","methodParameters":{"weights":{"c1":null,"c2":1}}}`},
		{"owa weight",
			`{` + crit + alts + `"preferenceFunction":"owa","methodParameters":{"weights":{"c2":1}}}`,
			`{` + crit + alts + `"preferenceFunction":"owa","methodParameters":{"weights":{"c1":null,"c2":1}}}`},
		{"majority weight",
			`{` + crit + alts + `"preferenceFunction":"majorityHeuristic","methodParameters":{"weights":{"c2":1}}}`,
			`{` + crit + alts + `"preferenceFunction":"majorityHeuristic","methodParameters":{"weights":{"c1":null,"c2":1}}}`},
		{"choquet capacity",
			`{` + crit + alts + `"preferenceFunction":"choquetIntegral","methodParameters":{"weights":{"c1":0.5,"c2":1}}}`,
			`{` + crit + alts + `"preferenceFunction":"choquetIntegral","methodParameters":{"weights":{"c1":0.5,"c2":1,"c1,c2":null}}}`},
		{"satisfaction threshold",
			`{` + crit + alts + `"preferenceFunction":"satisfactionHeuristic","methodParameters":{"function":"thresholds","params":{"thresholds":[{"c2":0}]}}}`,
			`{` + crit + alts + `"preferenceFunction":"satisfactionHeuristic","methodParameters":{"function":"thresholds","params":{"thresholds":[{"c1":null,"c2":0}]}}}`},
	}
	for _, c := range cases {
		c := c
		t.Run(c.name, func(t *testing.T) {
			code, body := post(c.missing)
			if code != 400 {
				t.Fatalf("entry left out: expected 400, got %d %.200s", code, body)
			}
			code, body = post(c.null)
			if code == 200 && strings.Contains(body, `"result"`) {
				t.Errorf("entry given as null: answered with a ranking (null was taken as 0): %.300s", body)
			} else if code != 400 {
				t.Errorf("unexpected status %d %.200s", code, body)
			}
		})
	}
}
