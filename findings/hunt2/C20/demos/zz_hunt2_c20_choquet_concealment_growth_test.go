package main

// C20 round 2, demo 1 - a 1.3 KB Choquet request makes the server process EXIT (fatal error: out of memory).
//
// Copy to: httpClient/   (package main, next to main.go)
// Run (from httpClient/, with a modfile that replaces .../lib by this tree's lib):
//   go test -modfile=<modfile> -vet=off -count=1 -run TestHunt2C20_ChoquetRepeatedConcealmentKillsProcess .
//
// The request: choquetIntegral with ONE gain criterion and one weight, two alternatives, and the bias
// criteriaConcealment listed 30 times ("One bias can be used multiple times", README). Nothing in it violates a
// documented constraint. ChoquetIntegralBiasListener.OnCriterionAdded answers every added criterion with
// PowerSet(all criteria + the new one) and one new capacity for every subset that contains the new criterion:
// the number of capacities (and the size of the materialised power set, and the length of the keys) DOUBLES with
// every criterion-adding bias. After k concealments the parameters hold 2^(k+1)-1 weights whose keys are up to
// 25*(k+1) bytes long. Measured on the hunt host (in process, no limit): 16 concealments 0.9 s, 20 concealments
// 13 s and 1.8 GB, 22 concealments 81 s and several GB; every further concealment doubles both, so 30 of them
// cannot be served by any host. The request is never answered; the Go runtime aborts with "fatal error: out of
// memory" (or the kernel kills the process), which the deferred recover() in decideHandler cannot catch, and
// later requests are not answered any more.
// criteriaMixing and anchoring with the newCriterion applier add criteria through the same listener call.
//
// The test starts the real handlers in a CHILD process (re-exec of the test binary), so that the crash does not
// take the test runner down. The child limits its address space to 8 GB only to make the demo quick and harmless
// for the host (a small cloud dyno has far less): with the limit the process dies after about 40 s with 5.8 GB
// in use; without it the same request runs some minutes longer and takes all the memory of the host first.
// After a repair (e.g. a bound on the number of Choquet criteria / capacities that a bias may create -> panic ->
// 400) the request is answered at once and the test passes.

import (
	"bufio"
	"bytes"
	"fmt"
	"io/ioutil"
	"log"
	"net/http"
	"net/http/httptest"
	"os"
	"os/exec"
	"strings"
	"syscall"
	"testing"
	"time"

	"github.com/gin-gonic/gin"
)

func hunt2C20GrowthRouter() *gin.Engine {
	gin.SetMode(gin.ReleaseMode)
	gin.DefaultWriter = ioutil.Discard
	log.SetOutput(ioutil.Discard)
	r := gin.Default()
	api := r.Group("/api")
	api.POST("/decide", decideHandler)
	api.GET("/preferenceFunctions", functionsHandler)
	return r
}

func hunt2C20GrowthBody(concealments int) string {
	biases := make([]string, concealments)
	for i := range biases {
		biases[i] = `{"name":"criteriaConcealment","props":{}}`
	}
	return `{"preferenceFunction":"choquetIntegral",` +
		`"knownAlternatives":[{"id":"a","criteria":{"c":1}},{"id":"b","criteria":{"c":2}}],"choseToMake":["a","b"],` +
		`"criteria":[{"id":"c","type":"gain"}],"methodParameters":{"weights":{"c":0.5}},` +
		`"biases":[` + strings.Join(biases, ",") + `]}`
}

const hunt2C20GrowthOkBody = `{"preferenceFunction":"weightedSum","knownAlternatives":[{"id":"a","criteria":{"c1":1}},{"id":"b","criteria":{"c1":3}}],"choseToMake":["a","b"],"criteria":[{"id":"c1","type":"gain"}],"methodParameters":{"weights":{"c1":1}}}`

func TestHunt2C20_ChoquetRepeatedConcealmentKillsProcess(t *testing.T) {
	if os.Getenv("HUNT2_C20_GROWTH_CHILD") == "1" {
		lim := syscall.Rlimit{Cur: 8 << 30, Max: 8 << 30}
		_ = syscall.Setrlimit(syscall.RLIMIT_AS, &lim)
		srv := httptest.NewServer(hunt2C20GrowthRouter())
		fmt.Printf("ADDR %s\n", srv.URL)
		os.Stdout.Sync()
		time.Sleep(240 * time.Second) // self destruct
		os.Exit(0)
	}
	cmd := exec.Command(os.Args[0], "-test.run=^TestHunt2C20_ChoquetRepeatedConcealmentKillsProcess$")
	cmd.Env = append(os.Environ(), "HUNT2_C20_GROWTH_CHILD=1")
	var stderr bytes.Buffer
	cmd.Stderr = &stderr
	out, err := cmd.StdoutPipe()
	if err != nil {
		t.Fatal(err)
	}
	if err := cmd.Start(); err != nil {
		t.Fatal(err)
	}
	exited := make(chan error, 1)
	addrCh := make(chan string, 1)
	go func() {
		sc := bufio.NewScanner(out)
		for sc.Scan() {
			if strings.HasPrefix(sc.Text(), "ADDR ") {
				addrCh <- strings.TrimPrefix(sc.Text(), "ADDR ")
			}
		}
		exited <- cmd.Wait()
	}()
	defer cmd.Process.Kill()
	var addr string
	select {
	case addr = <-addrCh:
	case <-time.After(20 * time.Second):
		t.Fatal("server child did not start")
	}
	post := func(body string, timeout time.Duration) (int, string, error) {
		c := http.Client{Timeout: timeout}
		resp, err := c.Post(addr+"/api/decide", "application/json", strings.NewReader(body))
		if err != nil {
			return 0, "", err
		}
		defer resp.Body.Close()
		b, _ := ioutil.ReadAll(resp.Body)
		return resp.StatusCode, string(b), nil
	}
	if code, _, err := post(hunt2C20GrowthOkBody, 5*time.Second); err != nil || code != 200 {
		t.Fatalf("warm-up request failed: %v %v", code, err)
	}
	// the same request with 3 concealments is a valid request: 200 with a ranking
	if code, body, err := post(hunt2C20GrowthBody(3), 5*time.Second); err != nil || code != 200 || !strings.Contains(body, `"result"`) {
		t.Fatalf("the request with 3 concealments should be answered with 200: %v %v %.200s", code, err, body)
	}
	body := hunt2C20GrowthBody(30)
	t.Logf("request size: %d bytes", len(body))
	code, _, err := post(body, 200*time.Second)
	if err != nil {
		t.Errorf("the request with 30 concealments received no response: %v", err)
	} else if code != 200 && code != 400 {
		t.Errorf("the request with 30 concealments was answered with %d", code)
	}
	select {
	case <-exited:
		tail := stderr.String()
		if i := strings.Index(tail, "goroutine "); i > 0 {
			tail = tail[:i]
		}
		if len(tail) > 600 {
			tail = tail[:600]
		}
		t.Fatalf("the server process EXITED after one request; its stderr starts with:\n%s", tail)
	case <-time.After(500 * time.Millisecond):
	}
	if code, _, err := post(hunt2C20GrowthOkBody, 5*time.Second); err != nil || code != 200 {
		t.Errorf("server does not answer later requests: code=%v err=%v", code, err)
	}
}
