package client

// C18 (round 2) demo - referenceCriterionType "importanceRatio" (the default strategy) picks the wrong end of the
// criteria ranking as soon as the listener reports negative importances, which is what the OWA and satisfaction
// listeners (cumulated raw values), weightedSum (weight x value) and Choquet do for negative criterion values -
// "values of any sign" is inside the property's domain.
//
// FindCriterionInRange walks the ascending ranking until the running sum reaches newCriterionImportance x total.
// That is only meaningful for non-negative importances: with a negative running sum the comparison
// `currentWeight >= expected` is never true for newCriterionImportance = 0 (expected 0), so the fallback - the LAST,
// i.e. the most important criterion - is returned, and for newCriterionImportance = 1 (expected = total < 0) the very
// first criterion already satisfies it, so the LEAST important criterion is returned: the parameter works backwards.
// (lib/model/reference-criterion/importance-reference-criterion_test.go pins 0 -> weakest, 1 -> strongest.)
//
// copy to: lib/client/
// run:     cd lib && GOFLAGS=-mod=mod GOPROXY=off GOSUMDB=off GOTOOLCHAIN=local \
//          go test -vet=off -count=1 -run TestHunt2C18 ./client/

import (
	"encoding/json"
	"math"
	"testing"

	criteria_concealment "github.com/Azbesciak/RealDecisionMaker/lib/logic/biases/criteria-concealment"
	criteria_mixing "github.com/Azbesciak/RealDecisionMaker/lib/logic/biases/criteria-mixing"
	"github.com/Azbesciak/RealDecisionMaker/lib/logic/preference-func/owa"
	"github.com/Azbesciak/RealDecisionMaker/lib/model"
	reference_criterion "github.com/Azbesciak/RealDecisionMaker/lib/model/reference-criterion"
	"github.com/Azbesciak/RealDecisionMaker/lib/utils"
)

var h2c18RefMgr = *reference_criterion.NewReferenceCriteriaManager(
	[]reference_criterion.ReferenceCriterionFactory{
		&reference_criterion.ImportanceRatioReferenceCriterionManager{},
		&reference_criterion.RandomUniformReferenceCriterionManager{RandomFactory: utils.RandomBasedSeedValueGenerator},
		&reference_criterion.RandomWeightedReferenceCriterionManager{RandomFactory: utils.RandomBasedSeedValueGenerator},
	},
)
var h2c18Funcs = model.PreferenceFunctions{Functions: []model.PreferenceFunction{&owa.OWAPreferenceFunc{}}}
var h2c18Listeners = model.BiasListeners{Listeners: []model.BiasListener{&owa.OwaBiasListener{}}}
var h2c18Biases = model.BiasMap{
	criteria_concealment.BiasName: criteria_concealment.NewCriteriaConcealment(utils.RandomBasedSeedValueGenerator, h2c18RefMgr),
	criteria_mixing.BiasName:      criteria_mixing.NewCriteriaMixing(utils.RandomBasedSeedValueGenerator, h2c18RefMgr),
}

// the request exactly as POST /api/decide would receive it; sign = -1 gives the failing problem, +1 its mirror image
func h2c18Request(t *testing.T, sign float64, biases string) *model.DecisionMaker {
	body := `{
	 "preferenceFunction": "owa",
	 "criteria": [{"id":"a","type":"gain"},{"id":"b","type":"gain"},{"id":"c","type":"gain"}],
	 "knownAlternatives": [
	   {"id":"x","criteria":{"a":100,"b":10,"c":1}},
	   {"id":"y","criteria":{"a":200,"b":20,"c":2}}],
	 "choseToMake": ["x","y"],
	 "methodParameters": {"weights":{"a":1,"b":2,"c":3}},
	 "biases": ` + biases + `}`
	var dm model.DecisionMaker
	if err := json.Unmarshal([]byte(body), &dm); err != nil {
		t.Fatal(err)
	}
	for i := range dm.KnownAlternatives {
		for k, v := range dm.KnownAlternatives[i].Criteria {
			dm.KnownAlternatives[i].Criteria[k] = sign * v
		}
	}
	return &dm
}

// ascending importance ranking exactly as the concealment / mixing see it
func h2c18Ranking(dm *model.DecisionMaker) *model.WeightedCriteria {
	pf := h2c18Funcs.Fetch(dm.PreferenceFunction)
	params := &model.DecisionMakingParams{
		NotConsideredAlternatives: *dm.NotConsideredAlternatives(),
		ConsideredAlternatives:    *dm.AlternativesToConsider(),
		Criteria:                  dm.Criteria,
		MethodParameters:          (*pf).ParseParams(dm),
	}
	return (*h2c18Listeners.Fetch(dm.PreferenceFunction)).RankCriteriaAscending(params)
}

func h2c18Range(dm *model.DecisionMaker, criterion string) utils.ValueRange {
	r := utils.ValueRange{Min: math.Inf(1), Max: math.Inf(-1)}
	for _, a := range dm.KnownAlternatives {
		r.Min = math.Min(r.Min, a.Criteria[criterion])
		r.Max = math.Max(r.Max, a.Criteria[criterion])
	}
	return r
}

func h2c18ConcealedRange(t *testing.T, dm *model.DecisionMaker) utils.ValueRange {
	res := dm.MakeDecision(h2c18Funcs, h2c18Listeners, &h2c18Biases, utils.RandomBasedSeedValueGenerator)
	added := res.Biases[0].(model.BiasParams).Props.(criteria_concealment.CriteriaConcealmentResult).AddedCriteria
	if len(added) != 1 {
		t.Fatalf("expected one added criterion, got %v", added)
	}
	return added[0].ValuesRange
}

func h2c18CheckConcealment(t *testing.T, sign float64, name, biases string, expectedRankIndex func(n int) int) {
	dm := h2c18Request(t, sign, biases)
	ranking := *h2c18Ranking(dm)
	expected := ranking[expectedRankIndex(len(ranking))]
	expectedRange := h2c18Range(dm, expected.Id)
	actual := h2c18ConcealedRange(t, dm)
	t.Logf("%s (sign %+.0f): ascending ranking %v", name, sign, ranking)
	if actual != expectedRange {
		t.Errorf("%s (sign %+.0f): reference criterion must be '%s' (importance %v, values range %v) - "+
			"the concealed criterion got the range %v of another criterion",
			name, sign, expected.Id, expected.Weight, expectedRange, actual)
	}
}

const h2c18Weakest = `[{"name":"criteriaConcealment","props":{"randomSeed":1,"referenceCriterionType":"importanceRatio","newCriterionImportance":0}}]`
const h2c18Default = `[{"name":"criteriaConcealment","props":{"randomSeed":1}}]`
const h2c18Strongest = `[{"name":"criteriaConcealment","props":{"randomSeed":1,"referenceCriterionType":"importanceRatio","newCriterionImportance":1}}]`

func h2c18First(int) int  { return 0 }
func h2c18Last(n int) int { return n - 1 }

// control: positive values - newCriterionImportance 0 takes the least, 1 the most important criterion
func TestHunt2C18_ImportanceRatio_PositiveValuesControl(t *testing.T) {
	h2c18CheckConcealment(t, 1, "importance 0", h2c18Weakest, h2c18First)
	h2c18CheckConcealment(t, 1, "default props", h2c18Default, h2c18First)
	h2c18CheckConcealment(t, 1, "importance 1", h2c18Strongest, h2c18Last)
}

// the same problem with every value negated: FAILS - importance 0 (also the default) takes the MOST important
// criterion 'c' (range [-2,-1] instead of [-200,-100]), importance 1 takes the LEAST important one.
func TestHunt2C18_ImportanceRatio_NegativeValues(t *testing.T) {
	h2c18CheckConcealment(t, -1, "importance 0", h2c18Weakest, h2c18First)
	h2c18CheckConcealment(t, -1, "default props", h2c18Default, h2c18First)
	h2c18CheckConcealment(t, -1, "importance 1", h2c18Strongest, h2c18Last)
}

// one criterion with a negative cumulated value is enough: a = -5,-5 / b = 2,3 / c = 10,10 -> ranking a(-10) b(5) c(20);
// the default concealment must refer to 'a' but refers to 'c'. FAILS.
func TestHunt2C18_ImportanceRatio_OnlyWeakestNegative(t *testing.T) {
	dm := h2c18Request(t, 1, h2c18Default)
	dm.KnownAlternatives[0].Criteria = model.Weights{"a": -5, "b": 2, "c": 10}
	dm.KnownAlternatives[1].Criteria = model.Weights{"a": -6, "b": 3, "c": 12}
	ranking := *h2c18Ranking(dm)
	expectedRange := h2c18Range(dm, ranking[0].Id)
	actual := h2c18ConcealedRange(t, dm)
	if actual != expectedRange {
		t.Errorf("ranking %v: default concealment must take the least important criterion '%s' (range %v) as the reference, "+
			"the new criterion has range %v", ranking, ranking[0].Id, expectedRange, actual)
	}
}

// criteria mixing: the target range [0, T] comes from the reference criterion. mixingRatio 1 -> the mixed value is the
// rescaled first component, whose maximum over the alternatives is T. With importance 0 the reference must be 'a'
// (T = 200) but it is 'c' (T = 2). FAILS.
func TestHunt2C18_ImportanceRatio_NegativeValues_Mixing(t *testing.T) {
	dm := h2c18Request(t, -1, `[{"name":"criteriaMixing","props":{"randomSeed":3,"mixingRatio":1,"newCriterionImportance":0}}]`)
	ranking := *h2c18Ranking(dm)
	r := h2c18Range(dm, ranking[0].Id)
	expectedT := math.Max(math.Max(math.Abs(r.Min), math.Abs(r.Max)), r.Max-r.Min)
	res := dm.MakeDecision(h2c18Funcs, h2c18Listeners, &h2c18Biases, utils.RandomBasedSeedValueGenerator)
	mixed := res.Biases[0].(model.BiasParams).Props.(criteria_mixing.MixedCriterion)
	actualT := math.Inf(-1)
	for _, v := range mixed.NewCriterion.ScaledValues {
		actualT = math.Max(actualT, v)
	}
	if math.Abs(actualT-expectedT) > 1e-9 {
		t.Errorf("mixed criterion %s: components must be rescaled to [0, %v] (reference '%s', the least important), got [0, %v]",
			mixed.NewCriterion.Id, expectedT, ranking[0].Id, actualT)
	}
}
