package client

// hunt3 / C09 (clause: "the response to a request is the same whatever requests were processed before it").
//
// Copy to:  lib/client/zz_hunt3_c09_long_s_key_test.go
// Run:      cd lib && GOFLAGS=-mod=mod GOPROXY=off GOSUMDB=off GOTOOLCHAIN=local \
//           go test -vet=off -count=1 -run TestHunt3C09 ./client/
//
// utils.DecodeToStruct rejects objects whose keys differ only in letter case by comparing strings.ToLower(key)
// (fix e93b1e2). mapstructure however matches keys to struct fields with strings.EqualFold, and under Unicode simple
// folding U+017F (LATIN SMALL LETTER LONG S, "ſ") folds to "s" although ToLower leaves it alone. An object holding both
// "props" and "propſ" (or "randomSeed" and "randomſeed") passes the check, and the decoder takes whichever key the map
// iteration meets first: the very same request is answered differently from call to call.

import (
	"encoding/json"
	"testing"

	"github.com/Azbesciak/RealDecisionMaker/lib/logic/biases/criteria-omission"
	"github.com/Azbesciak/RealDecisionMaker/lib/logic/biases/fatigue"
	"github.com/Azbesciak/RealDecisionMaker/lib/logic/preference-func/weighted-sum"
	"github.com/Azbesciak/RealDecisionMaker/lib/model"
	"github.com/Azbesciak/RealDecisionMaker/lib/model/criteria-ordering"
	"github.com/Azbesciak/RealDecisionMaker/lib/utils"
)

func hunt3C09Decide(t *testing.T, request string) string {
	funcs := model.PreferenceFunctions{Functions: []model.PreferenceFunction{&weighted_sum.WeightedSumPreferenceFunc{}}}
	listeners := model.BiasListeners{Listeners: []model.BiasListener{&weighted_sum.WeightedSumBiasListener{}}}
	biases := model.BiasMap{
		criteria_omission.BiasName: criteria_omission.NewCriteriaOmission([]criteria_ordering.CriteriaOrderingResolver{
			&criteria_ordering.WeakestCriteriaOrderingResolver{},
		}),
		fatigue.BiasName: fatigue.NewFatigue(utils.RandomBasedSeedValueGenerator, utils.RandomBasedSeedValueGenerator,
			[]fatigue.FatigueFunction{&fatigue.ConstFatigueFunction{}}),
	}
	var dm model.DecisionMaker
	if err := json.Unmarshal([]byte(request), &dm); err != nil {
		t.Fatal(err)
	}
	var body string
	func() {
		defer func() {
			if e := recover(); e != nil {
				body = "400 " + e.(error).Error()
			}
		}()
		res := dm.MakeDecision(funcs, listeners, &biases, utils.RandomBasedSeedValueGenerator)
		b, err := json.Marshal(res)
		if err != nil {
			t.Fatal(err)
		}
		body = "200 " + string(b)
	}()
	return body
}

const hunt3C09Head = `{"preferenceFunction":"weightedSum",
 "knownAlternatives":[{"id":"a","criteria":{"c1":1,"c2":5,"c3":2}},{"id":"b","criteria":{"c1":4,"c2":1,"c3":3}},{"id":"c","criteria":{"c1":2,"c2":2,"c3":9}}],
 "choseToMake":["a","b","c"],
 "criteria":[{"id":"c1","type":"gain"},{"id":"c2","type":"gain"},{"id":"c3","type":"gain"}],
 "methodParameters":{"weights":{"c1":1,"c2":2,"c3":3}},`

func hunt3C09Repeat(t *testing.T, request string) {
	first := hunt3C09Decide(t, request)
	for i := 1; i < 300; i++ {
		if again := hunt3C09Decide(t, request); again != first {
			t.Fatalf("the same request was answered differently after %d earlier requests:\nfirst: %s\nnow:   %s", i, first, again)
		}
	}
}

func TestHunt3C09_LongS_BiasProps(t *testing.T) {
	// two spellings of "props" in one bias entry: ratio 0.7 omits two criteria, ratio 0 omits none
	hunt3C09Repeat(t, hunt3C09Head+`"biases":[{"name":"criteriaOmission","props":{"ratio":0.7},"propſ":{"ratio":0}}]}`)
}

func TestHunt3C09_LongS_RandomSeed(t *testing.T) {
	// the sibling of the repaired {"randomSeed":1,"randomseed":5}
	hunt3C09Repeat(t, hunt3C09Head+`"biases":[{"name":"fatigue","props":{"function":"const","params":{"value":0.3},"randomSeed":1,"randomſeed":5}}]}`)
}
