// Demo for hunt3 finding "choquetIntegral refuses a bias sequence that lifts the criteria count above 16" (property C07).
//
// Copy to:  lib/client/   (package client)
// Run:      cd lib && GOFLAGS=-mod=mod GOPROXY=off GOSUMDB=off GOTOOLCHAIN=local \
//             go test -vet=off -count=1 -run TestHunt3C07ChoquetCriteriaCap ./client/
//
// Request: choquetIntegral, 13 gain criteria (all 8191 capacities given, ~390 kB of JSON), 4 known alternatives of which
// 3 are considered, and a bias sequence of length 4 (inside the quantifier of C07): criteriaConcealment x4 (default
// options, seeds 0..3). The same happens for 16 criteria + ONE criteriaConcealment / criteriaMixing / anchoring with
// the newCriterion applier, and for any mix of criterion-adding biases that reaches 17 criteria.
//
// Observed: the fourth bias panics in ChoquetIntegralBiasListener.OnCriterionAdded with
//   "choquet integral: cannot add criterion '__concealedCriterion__3', at most 16 criteria are supported"
// (HTTP 400), although the same request with three of the four biases, or with any other method, is answered, and
// although the refused work is small (with the limit lifted the request takes 0.4 s and < 100 MB).
// Expected by C07: the request is answered with a ranking, not with an error produced by the combination.
package client

import (
	"encoding/json"
	"fmt"
	"sort"
	"strings"
	"testing"

	"github.com/Azbesciak/RealDecisionMaker/lib/logic/biases/anchoring"
	criteria_concealment "github.com/Azbesciak/RealDecisionMaker/lib/logic/biases/criteria-concealment"
	criteria_mixing "github.com/Azbesciak/RealDecisionMaker/lib/logic/biases/criteria-mixing"
	criteria_omission "github.com/Azbesciak/RealDecisionMaker/lib/logic/biases/criteria-omission"
	"github.com/Azbesciak/RealDecisionMaker/lib/logic/biases/fatigue"
	preference_reversal "github.com/Azbesciak/RealDecisionMaker/lib/logic/biases/preference-reversal"
	aspect_elimination "github.com/Azbesciak/RealDecisionMaker/lib/logic/limited-rationality/aspect-elimination"
	"github.com/Azbesciak/RealDecisionMaker/lib/logic/limited-rationality/majority"
	"github.com/Azbesciak/RealDecisionMaker/lib/logic/limited-rationality/satisfaction"
	satisfaction_levels "github.com/Azbesciak/RealDecisionMaker/lib/logic/limited-rationality/satisfaction-levels"
	"github.com/Azbesciak/RealDecisionMaker/lib/logic/preference-func/choquet"
	"github.com/Azbesciak/RealDecisionMaker/lib/logic/preference-func/electreIII"
	"github.com/Azbesciak/RealDecisionMaker/lib/logic/preference-func/owa"
	weighted_sum "github.com/Azbesciak/RealDecisionMaker/lib/logic/preference-func/weighted-sum"
	"github.com/Azbesciak/RealDecisionMaker/lib/model"
	criteria_ordering "github.com/Azbesciak/RealDecisionMaker/lib/model/criteria-ordering"
	reference_criterion "github.com/Azbesciak/RealDecisionMaker/lib/model/reference-criterion"
	"github.com/Azbesciak/RealDecisionMaker/lib/utils"
)

// ---- wiring copied from httpClient/main.go ----

func hunt3C07capWiring() (model.PreferenceFunctions, model.BiasListeners, *model.BiasMap) {
	inc := []satisfaction_levels.SatisfactionLevelsSource{
		&satisfaction_levels.IdealIncreasingMulCoefficientSatisfaction,
		&satisfaction_levels.IdealAdditiveCoefficientSatisfaction,
		&satisfaction_levels.IncreasingThresholds,
	}
	dec := []satisfaction_levels.SatisfactionLevelsSource{
		&satisfaction_levels.IdealDecreasingMulCoefficientSatisfaction,
		&satisfaction_levels.IdealSubtrCoefficientSatisfaction,
		&satisfaction_levels.DecreasingThresholds,
	}
	decUpd := satisfaction_levels.SatisfactionLevelsUpdateListeners{Listeners: satisfaction_levels.ListenersMap{
		satisfaction_levels.Thresholds:         &satisfaction_levels.DecreasingThresholds,
		satisfaction_levels.IdealDecreasingMul: &satisfaction_levels.IdealDecreasingMulCoefficientSatisfaction,
		satisfaction_levels.IdealSubtractive:   &satisfaction_levels.IdealSubtrCoefficientSatisfaction,
	}}
	incUpd := satisfaction_levels.SatisfactionLevelsUpdateListeners{Listeners: satisfaction_levels.ListenersMap{
		satisfaction_levels.Thresholds:         &satisfaction_levels.IncreasingThresholds,
		satisfaction_levels.IdealIncreasingMul: &satisfaction_levels.IdealIncreasingMulCoefficientSatisfaction,
		satisfaction_levels.IdealAdditive:      &satisfaction_levels.IdealAdditiveCoefficientSatisfaction,
	}}
	gen := utils.RandomBasedSeedValueGenerator
	funcs := model.PreferenceFunctions{Functions: []model.PreferenceFunction{
		&weighted_sum.WeightedSumPreferenceFunc{},
		&owa.OWAPreferenceFunc{},
		&electreIII.ElectreIIIPreferenceFunc{},
		&choquet.ChoquetIntegralPreferenceFunc{},
		aspect_elimination.NewAspectEliminationHeuristic(inc, gen),
		majority.NewMajority(gen, []majority.DrawResolver{
			&majority.DrawAllowedResolver{}, &majority.CurrentIsWinnerDrawResolver{},
			&majority.NewerIsWinnerResolver{}, &majority.RandomWinnerResolver{},
		}),
		satisfaction.NewSatisfaction(gen, dec),
	}}
	listeners := model.BiasListeners{Listeners: []model.BiasListener{
		&weighted_sum.WeightedSumBiasListener{},
		&owa.OwaBiasListener{},
		&electreIII.ElectreIIIBiasLIstener{},
		&choquet.ChoquetIntegralBiasListener{},
		aspect_elimination.NewAspectEliminationBiasListener(incUpd),
		&majority.MajorityBiasListener{},
		satisfaction.NewSatisfactionBiasListener(decUpd),
	}}
	refMgr := *reference_criterion.NewReferenceCriteriaManager([]reference_criterion.ReferenceCriterionFactory{
		&reference_criterion.ImportanceRatioReferenceCriterionManager{},
		&reference_criterion.RandomUniformReferenceCriterionManager{RandomFactory: gen},
		&reference_criterion.RandomWeightedReferenceCriterionManager{RandomFactory: gen},
	})
	ordering := []criteria_ordering.CriteriaOrderingResolver{
		&criteria_ordering.WeakestCriteriaOrderingResolver{},
		&criteria_ordering.StrongestCriteriaOrderingResolver{},
		&criteria_ordering.RandomCriteriaOrderingResolver{Generator: gen},
		&criteria_ordering.WeakestByProbabilityCriteriaOrderingResolver{Generator: gen},
		&criteria_ordering.StrongestByProbabilityCriteriaOrderingResolver{
			WeakestByProbability: &criteria_ordering.WeakestByProbabilityCriteriaOrderingResolver{Generator: gen},
		},
	}
	biases := model.BiasMap{
		anchoring.BiasName: anchoring.NewAnchoring(
			[]anchoring.AnchoringEvaluator{&anchoring.LinearAnchoringEvaluator{}, &anchoring.ExpFromZeroAnchoringEvaluator{}},
			[]anchoring.ReferencePointsEvaluator{&anchoring.IdealReferenceAlternativeEvaluator{}, &anchoring.NadirReferenceAlternativeEvaluator{}},
			[]anchoring.AnchoringApplier{&anchoring.InlineAnchoringApplier{}, anchoring.NewNewCriterionAnchoringApplier(gen, refMgr)},
		),
		criteria_concealment.BiasName: criteria_concealment.NewCriteriaConcealment(gen, refMgr),
		criteria_mixing.BiasName:      criteria_mixing.NewCriteriaMixing(gen, refMgr),
		preference_reversal.BiasName:  preference_reversal.NewPreferenceReversal(ordering),
		criteria_omission.BiasName:    criteria_omission.NewCriteriaOmission(ordering),
		fatigue.BiasName: fatigue.NewFatigue(gen, gen,
			[]fatigue.FatigueFunction{&fatigue.ExponentialFromZeroFatigue{}, &fatigue.ConstFatigueFunction{}}),
	}
	return funcs, listeners, &biases
}

// hunt3C07capDecide does what the POST /api/decide handler does: JSON body -> model.DecisionMaker -> MakeDecision;
// a panic is what the handler turns into a 400 response.
func hunt3C07capDecide(body string) (choice *model.DecisionMakerChoice, failure interface{}) {
	var dm model.DecisionMaker
	if err := json.Unmarshal([]byte(body), &dm); err != nil {
		return nil, err
	}
	funcs, listeners, biases := hunt3C07capWiring()
	defer func() {
		if e := recover(); e != nil {
			choice, failure = nil, e
		}
	}()
	return dm.MakeDecision(funcs, listeners, biases, utils.RandomBasedSeedValueGenerator), nil
}

// hunt3C07capRequest builds a complete request over n gain criteria c00..c(n-1); for choquetIntegral every one of the
// 2^n-1 capacities is given (|S|/n, a monotone capacity), the other methods get plain weights.
func hunt3C07capRequest(method string, n int, biases []map[string]interface{}) string {
	ids := make([]string, n)
	criteria := make([]map[string]interface{}, n)
	for i := range ids {
		ids[i] = fmt.Sprintf("c%02d", i)
		criteria[i] = map[string]interface{}{"id": ids[i], "type": "gain"}
	}
	weights := map[string]float64{}
	if method == "choquetIntegral" {
		for m := 1; m < 1<<uint(n); m++ {
			var sub []string
			for j := 0; j < n; j++ {
				if m&(1<<uint(j)) != 0 {
					sub = append(sub, ids[j])
				}
			}
			sort.Strings(sub)
			weights[strings.Join(sub, ",")] = float64(len(sub)) / float64(n)
		}
	} else {
		for _, id := range ids {
			weights[id] = 1
		}
	}
	const nAlts = 4
	alts := make([]map[string]interface{}, nAlts)
	for a := range alts {
		values := map[string]float64{}
		for j, id := range ids {
			values[id] = float64((a*7+j*3)%11 + 1)
		}
		alts[a] = map[string]interface{}{"id": fmt.Sprintf("a%d", a), "criteria": values}
	}
	body, _ := json.Marshal(map[string]interface{}{
		"preferenceFunction": method,
		"knownAlternatives":  alts,
		"choseToMake":        []string{"a0", "a1", "a2"},
		"criteria":           criteria,
		"methodParameters":   map[string]interface{}{"weights": weights},
		"biases":             biases,
	})
	return string(body)
}

func hunt3C07capConcealments(k int) []map[string]interface{} {
	var biases []map[string]interface{}
	for i := 0; i < k; i++ {
		biases = append(biases, map[string]interface{}{
			"name":  "criteriaConcealment",
			"props": map[string]interface{}{"randomSeed": i},
		})
	}
	return biases
}

func TestHunt3C07ChoquetCriteriaCap(t *testing.T) {
	// controls: the request is fine without the fourth bias, and with another method
	if choice, failure := hunt3C07capDecide(hunt3C07capRequest("choquetIntegral", 13, hunt3C07capConcealments(3))); failure != nil || len(choice.Result) != 3 {
		t.Fatalf("control (13 criteria, 3 concealments) should be answered, got %v", failure)
	}
	if choice, failure := hunt3C07capDecide(hunt3C07capRequest("weightedSum", 13, hunt3C07capConcealments(4))); failure != nil || len(choice.Result) != 3 {
		t.Fatalf("control (weightedSum, 13 criteria, 4 concealments) should be answered, got %v", failure)
	}

	cases := []struct {
		name   string
		n      int
		biases []map[string]interface{}
	}{
		{"13 criteria + criteriaConcealment x4", 13, hunt3C07capConcealments(4)},
		{"16 criteria + criteriaMixing x1", 16, []map[string]interface{}{{"name": "criteriaMixing", "props": map[string]interface{}{"randomSeed": 1}}}},
	}
	for _, c := range cases {
		choice, failure := hunt3C07capDecide(hunt3C07capRequest("choquetIntegral", c.n, c.biases))
		if failure != nil {
			t.Errorf("%s: choquetIntegral answered with an error produced by the combination instead of a ranking: %v", c.name, failure)
			continue
		}
		if len(choice.Result) != 3 {
			t.Errorf("%s: ranking of 3 considered alternatives expected, got %d entries", c.name, len(choice.Result))
		}
	}
}
