package client

// C18 (round 3) demo - the generated id is checked against the declared criteria only.
//
// Criteria.NotUsedName (repaired in 6d446e1 to skip ids that are in use) looks at the ids of the *declared* criteria.
// The alternatives, however, may carry values under other keys: values of undeclared criteria are legal input that
// "takes no part in the decision" (repair a0d5884, PrepareCumulatedWeightsMap) - five of the seven methods answer such
// requests. The most natural source of such keys is the service itself: every response lists the alternatives as the
// decision maker perceived them, i.e. INCLUDING the values of the concealed / mixed criteria. A client that keeps the
// perceived alternatives and sends them with its next request (same criteria, same biases) carries the key
// "__concealedCriterion__" (or "__b+a__") in knownAlternatives. Concealment / mixing then proposes exactly that id,
// AlternativeWithCriteria.WithCriterion refuses it and the request fails with
//   cannot add new criterion '__concealedCriterion__' because it already exist in alternative ...
// instead of appending one new criterion with an id not used before and giving every alternative a value for it.
// Without the bias the very same request is answered (the extra value is ignored).
//
// copy to: lib/client/
// run:     cd lib && GOFLAGS=-mod=mod GOPROXY=off GOSUMDB=off GOTOOLCHAIN=local \
//          go test -vet=off -count=1 -run TestHunt3C18GeneratedId ./client/

import (
	"encoding/json"
	"fmt"
	"strings"
	"testing"

	criteria_concealment "github.com/Azbesciak/RealDecisionMaker/lib/logic/biases/criteria-concealment"
	criteria_mixing "github.com/Azbesciak/RealDecisionMaker/lib/logic/biases/criteria-mixing"
	"github.com/Azbesciak/RealDecisionMaker/lib/logic/limited-rationality/majority"
	weighted_sum "github.com/Azbesciak/RealDecisionMaker/lib/logic/preference-func/weighted-sum"
	"github.com/Azbesciak/RealDecisionMaker/lib/model"
	reference_criterion "github.com/Azbesciak/RealDecisionMaker/lib/model/reference-criterion"
	"github.com/Azbesciak/RealDecisionMaker/lib/utils"
)

var h3c18aRefMgr = *reference_criterion.NewReferenceCriteriaManager(
	[]reference_criterion.ReferenceCriterionFactory{
		&reference_criterion.ImportanceRatioReferenceCriterionManager{},
		&reference_criterion.RandomUniformReferenceCriterionManager{RandomFactory: utils.RandomBasedSeedValueGenerator},
		&reference_criterion.RandomWeightedReferenceCriterionManager{RandomFactory: utils.RandomBasedSeedValueGenerator},
	},
)
var h3c18aFuncs = model.PreferenceFunctions{Functions: []model.PreferenceFunction{
	&weighted_sum.WeightedSumPreferenceFunc{},
	majority.NewMajority(utils.RandomBasedSeedValueGenerator, []majority.DrawResolver{
		&majority.DrawAllowedResolver{}, &majority.CurrentIsWinnerDrawResolver{}, &majority.NewerIsWinnerResolver{}, &majority.RandomWinnerResolver{},
	}),
}}
var h3c18aListeners = model.BiasListeners{Listeners: []model.BiasListener{
	&weighted_sum.WeightedSumBiasListener{}, &majority.MajorityBiasListener{},
}}
var h3c18aBiases = model.BiasMap{
	criteria_concealment.BiasName: criteria_concealment.NewCriteriaConcealment(utils.RandomBasedSeedValueGenerator, h3c18aRefMgr),
	criteria_mixing.BiasName:      criteria_mixing.NewCriteriaMixing(utils.RandomBasedSeedValueGenerator, h3c18aRefMgr),
}

// decides a request body the way POST /api/decide does: JSON -> DecisionMaker -> MakeDecision, a panic is a 400
func h3c18aDecide(body string) (choice *model.DecisionMakerChoice, failure string) {
	var dm model.DecisionMaker
	if err := json.Unmarshal([]byte(body), &dm); err != nil {
		return nil, err.Error()
	}
	defer func() {
		if e := recover(); e != nil {
			failure = fmt.Sprintf("%v", e)
		}
	}()
	return dm.MakeDecision(h3c18aFuncs, h3c18aListeners, &h3c18aBiases, utils.RandomBasedSeedValueGenerator), ""
}

func h3c18aRequest(method, alternatives, biases string) string {
	return `{"preferenceFunction":"` + method + `",
	 "criteria":[{"id":"a","type":"gain"},{"id":"b","type":"cost"}],
	 "knownAlternatives":` + alternatives + `,
	 "choseToMake":["x","y"],
	 "methodParameters":{"weights":{"a":5,"b":6}},
	 "biases":` + biases + `}`
}

// the first answer's perceived alternatives are sent back as the known alternatives of the next request
func h3c18aReplay(t *testing.T, method, biases, expectedFirstId string) {
	first, failure := h3c18aDecide(h3c18aRequest(method, `[{"id":"x","criteria":{"a":1,"b":5}},{"id":"y","criteria":{"a":3,"b":2}}]`, biases))
	if failure != "" {
		t.Fatalf("first request failed: %s", failure)
	}
	perceived := make([]model.AlternativeWithCriteria, 0)
	for _, r := range first.Result {
		perceived = append(perceived, r.Alternative)
		if _, ok := r.Alternative.Criteria[expectedFirstId]; !ok {
			t.Fatalf("set-up: first answer does not carry %s: %v", expectedFirstId, r.Alternative.Criteria)
		}
	}
	alternatives, _ := json.Marshal(perceived)

	// the perceived alternatives are legal input: without the bias the request is answered, the extra value is ignored
	if _, failure := h3c18aDecide(h3c18aRequest(method, string(alternatives), `[]`)); failure != "" {
		t.Fatalf("set-up: alternatives with an undeclared value are refused even without a bias: %s", failure)
	}

	second, failure := h3c18aDecide(h3c18aRequest(method, string(alternatives), biases))
	if failure != "" {
		t.Errorf("%s: the bias did not append a criterion with an unused id, the request failed: %s", method, failure)
		return
	}
	// what the property asks for: one more value per alternative, under a key nobody used, old values untouched
	for _, r := range second.Result {
		for _, p := range perceived {
			if p.Id != r.Alternative.Id {
				continue
			}
			if len(r.Alternative.Criteria) != len(p.Criteria)+1 {
				t.Errorf("alternative %s: expected %d values, got %v", p.Id, len(p.Criteria)+1, r.Alternative.Criteria)
			}
			for k, v := range p.Criteria {
				if r.Alternative.Criteria[k] != v {
					t.Errorf("alternative %s: value %s changed from %v to %v", p.Id, k, v, r.Alternative.Criteria[k])
				}
			}
		}
	}
}

func TestHunt3C18GeneratedId_ConcealmentReplay_WeightedSum(t *testing.T) {
	h3c18aReplay(t, "weightedSum", `[{"name":"criteriaConcealment","props":{"randomSeed":1}}]`, "__concealedCriterion__")
}

func TestHunt3C18GeneratedId_ConcealmentReplay_Majority(t *testing.T) {
	h3c18aReplay(t, "majorityHeuristic", `[{"name":"criteriaConcealment","props":{"randomSeed":1}}]`, "__concealedCriterion__")
}

func TestHunt3C18GeneratedId_MixingReplay_WeightedSum(t *testing.T) {
	h3c18aReplay(t, "weightedSum", `[{"name":"criteriaMixing","props":{"randomSeed":1,"mixingRatio":0.25}}]`, "__b+a__")
}

// minimal form, no replay: one alternative carries a note under the key the bias is going to use
func TestHunt3C18GeneratedId_Minimal(t *testing.T) {
	alternatives := `[{"id":"x","criteria":{"a":1,"b":5,"__concealedCriterion__":3}},{"id":"y","criteria":{"a":3,"b":2}}]`
	if _, failure := h3c18aDecide(h3c18aRequest("weightedSum", alternatives, `[]`)); failure != "" {
		t.Fatalf("set-up: %s", failure)
	}
	choice, failure := h3c18aDecide(h3c18aRequest("weightedSum", alternatives, `[{"name":"criteriaConcealment","props":{"randomSeed":1}}]`))
	if failure != "" {
		t.Errorf("concealment failed instead of choosing an unused id: %s", failure)
		return
	}
	report, _ := json.Marshal(choice.Biases)
	if strings.Contains(string(report), `"id":"__concealedCriterion__"`) {
		t.Errorf("concealment re-used a key that an alternative already carries: %s", report)
	}
}

// the same root cause on the side of the method parameters: majority (and aspect elimination, electre, the thresholds
// of satisfaction) keep superfluous entries of their parameter maps - ParseParams only requires the declared criteria -
// and Merge then refuses the generated id.
func TestHunt3C18GeneratedId_SuperfluousWeight(t *testing.T) {
	body := `{"preferenceFunction":"majorityHeuristic",
	 "criteria":[{"id":"a","type":"gain"},{"id":"b","type":"cost"}],
	 "knownAlternatives":[{"id":"x","criteria":{"a":1,"b":5}},{"id":"y","criteria":{"a":3,"b":2}}],
	 "choseToMake":["x","y"],
	 "methodParameters":{"weights":{"a":5,"b":6,"__concealedCriterion__":1}},
	 "biases":%s}`
	if _, failure := h3c18aDecide(fmt.Sprintf(body, `[]`)); failure != "" {
		t.Fatalf("set-up: %s", failure)
	}
	if _, failure := h3c18aDecide(fmt.Sprintf(body, `[{"name":"criteriaConcealment","props":{"randomSeed":1}}]`)); failure != "" {
		t.Errorf("concealment failed instead of choosing an unused id: %s", failure)
	}
}
