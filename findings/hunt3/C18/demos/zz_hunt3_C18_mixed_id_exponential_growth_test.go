package client

// C18 (round 3) demo - repeated criteriaMixing: the id of the mixed criterion is the concatenation of its two
// components' ids ("__" + c1 + "+" + c2 + "__"), so mixing two mixed criteria doubles the length. The two components
// are chosen by the request's randomSeed; a seed that selects the two newest criteria (about one seed in n*(n-2), found
// by trying 0,1,2,...) makes the id length follow the Fibonacci recurrence L(k) = L(k-1) + L(k-2) + 5 ~ 1.618^k.
// The id is a key of every alternative's value map, of the weights, of the reports and of the response, so a request of
// ~1.3 kB (20 mixings) is answered with 1.4 MB, 28 mixings (1.7 kB) with 65 MB and ~550 MB of allocations, and
// ~38 mixings (2.3 kB) exhaust the memory: "fatal error: out of memory" is not recoverable, the process exits
// (same class as fff9d85, Choquet capacities, but for every method and with no cap).
//
// Property clause: criteria mixing, under repeated application and for any seed, appends one criterion with an unused
// id and gives every alternative a value - here the application never completes / the service dies.
//
// copy to: lib/client/
// run:     cd lib && GOFLAGS=-mod=mod GOPROXY=off GOSUMDB=off GOTOOLCHAIN=local \
//          go test -vet=off -count=1 -run TestHunt3C18MixedId ./client/
// The crash itself (child process, 3 GB address space limit, needs /bin/sh):
//          H3C18_CRASH=1 go test -vet=off -count=1 -run TestHunt3C18MixedIdCrash ./client/

import (
	"encoding/json"
	"fmt"
	"os"
	"os/exec"
	"strconv"
	"strings"
	"testing"
	"time"

	criteria_mixing "github.com/Azbesciak/RealDecisionMaker/lib/logic/biases/criteria-mixing"
	weighted_sum "github.com/Azbesciak/RealDecisionMaker/lib/logic/preference-func/weighted-sum"
	"github.com/Azbesciak/RealDecisionMaker/lib/model"
	reference_criterion "github.com/Azbesciak/RealDecisionMaker/lib/model/reference-criterion"
	"github.com/Azbesciak/RealDecisionMaker/lib/utils"
)

var h3c18bRefMgr = *reference_criterion.NewReferenceCriteriaManager(
	[]reference_criterion.ReferenceCriterionFactory{&reference_criterion.ImportanceRatioReferenceCriterionManager{}},
)
var h3c18bFuncs = model.PreferenceFunctions{Functions: []model.PreferenceFunction{&weighted_sum.WeightedSumPreferenceFunc{}}}
var h3c18bListeners = model.BiasListeners{Listeners: []model.BiasListener{&weighted_sum.WeightedSumBiasListener{}}}
var h3c18bBiases = model.BiasMap{
	criteria_mixing.BiasName: criteria_mixing.NewCriteriaMixing(utils.RandomBasedSeedValueGenerator, h3c18bRefMgr),
}

// the smallest randomSeed for which mixing n criteria takes the two newest ones (indices n-2 and n-1):
// selectCriteriaToMix draws i1 = int(g*n) and offset = int(g*(n-2)) + 1 from the seeded generator
func h3c18bSeedForNewestTwo(n int) int64 {
	for seed := int64(0); ; seed++ {
		g := utils.RandomBasedSeedValueGenerator(seed)
		i1 := int(g() * float64(n))
		offset := int(g()*float64(n-2)) + 1
		if i1 == n-2 && offset == 1 {
			return seed
		}
	}
}

func h3c18bBody(mixings int) string {
	biases := make([]string, mixings)
	for i := range biases {
		biases[i] = `{"name":"criteriaMixing","props":{"randomSeed":` + strconv.FormatInt(h3c18bSeedForNewestTwo(2+i), 10) + `}}`
	}
	return `{"preferenceFunction":"weightedSum",
	 "criteria":[{"id":"a","type":"gain"},{"id":"b","type":"gain"}],
	 "knownAlternatives":[{"id":"x","criteria":{"a":1,"b":5}},{"id":"y","criteria":{"a":3,"b":2}}],
	 "choseToMake":["x","y"],
	 "methodParameters":{"weights":{"a":5,"b":6}},
	 "biases":[` + strings.Join(biases, ",") + `]}`
}

func h3c18bDecide(body string) (response []byte, longestId int, failure string) {
	var dm model.DecisionMaker
	if err := json.Unmarshal([]byte(body), &dm); err != nil {
		return nil, 0, err.Error()
	}
	defer func() {
		if e := recover(); e != nil {
			failure = fmt.Sprintf("%v", e)
		}
	}()
	choice := dm.MakeDecision(h3c18bFuncs, h3c18bListeners, &h3c18bBiases, utils.RandomBasedSeedValueGenerator)
	for id := range choice.Result[0].Alternative.Criteria {
		if len(id) > longestId {
			longestId = len(id)
		}
	}
	response, _ = json.Marshal(choice)
	return response, longestId, ""
}

func TestHunt3C18MixedIdGrowth(t *testing.T) {
	previous := 0
	for _, mixings := range []int{5, 10, 15, 20, 24} {
		body := h3c18bBody(mixings)
		start := time.Now()
		response, longest, failure := h3c18bDecide(body)
		if failure != "" {
			t.Fatalf("%d mixings failed: %s", mixings, failure)
		}
		t.Logf("%2d mixings: request %5d bytes -> longest criterion id %8d bytes, response %9d bytes (%v)",
			mixings, len(body), longest, len(response), time.Since(start))
		// a well-formed addition costs a bounded amount per bias: allow a generous 100 bytes of id per applied bias
		// on top of the request's own ids (linear growth); the observed ids grow by a factor 11 per 5 more biases.
		if longest > 100*mixings {
			t.Errorf("%d mixings (request of %d bytes): longest criterion id has %d bytes (was %d for the previous size), response has %d bytes",
				mixings, len(body), longest, previous, len(response))
		}
		previous = longest
	}
}

// H3C18_CRASH=1: runs 38 mixings in a child process whose address space is limited to 3 GB and reports how it ended.
func TestHunt3C18MixedIdCrash(t *testing.T) {
	if n := os.Getenv("H3C18_CHILD"); n != "" {
		mixings, _ := strconv.Atoi(n)
		body := h3c18bBody(mixings)
		fmt.Printf("child: request of %d bytes\n", len(body))
		_, longest, failure := h3c18bDecide(body)
		fmt.Printf("child: survived, longest id %d, failure %q\n", longest, failure)
		return
	}
	if os.Getenv("H3C18_CRASH") == "" {
		t.Skip("set H3C18_CRASH=1 to run the out-of-memory reproduction in a memory-limited child process")
	}
	cmd := exec.Command("/bin/sh", "-c", "ulimit -v 3000000; exec "+os.Args[0]+" -test.run '^TestHunt3C18MixedIdCrash$' -test.v")
	cmd.Env = append(os.Environ(), "H3C18_CHILD=38")
	done := make(chan struct{})
	var out []byte
	var err error
	go func() { out, err = cmd.CombinedOutput(); close(done) }()
	select {
	case <-done:
	case <-time.After(10 * time.Minute):
		_ = cmd.Process.Kill()
		t.Fatalf("child did not finish in 10 minutes")
	}
	text := string(out)
	if len(text) > 600 {
		text = text[:600]
	}
	if err != nil || strings.Contains(string(out), "fatal error") {
		t.Errorf("a 2.3 kB request with 38 criteriaMixing biases killed the process (%v):\n%s", err, text)
	}
}
