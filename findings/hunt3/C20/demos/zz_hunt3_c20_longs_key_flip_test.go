package main

// C20 round 3, demo 2 (low severity, overlaps property C02 / rule ND-5) - the same request body is answered 200 with a
// ranking on some calls and 400 on others, because a nested key that equals a field name under Unicode simple case
// folding ("propſ", with U+017F LATIN SMALL LETTER LONG S, folds to "props") escapes the ambiguous-key check of
// utils.DecodeToStruct (repair e93b1e2) but not the decoder's strings.EqualFold matching.
//
// Copy to: httpClient/   (package main, next to main.go)
// Run (from httpClient/, with a modfile that replaces .../lib by this tree's lib):
//   go test -modfile=<modfile> -vet=off -count=1 -run TestHunt3C20_LongSKeyAnswers200And400ByTurns .
//
// Request: weightedSum, two criteria, one criteriaOmission bias whose entry carries "props":{"ratio":0.5} AND
// "propſ":5. rejectAmbiguousKeys folds keys with strings.ToLower, which leaves 'ſ' alone, so it sees two different
// keys; mapstructure looks for the field Props with strings.EqualFold while ranging over the map, and
// EqualFold("propſ","Props") is true: whichever key the map iteration meets first becomes the props of the bias.
// With {"ratio":0.5} the request is answered 200 with a ranking, with 5 the bias cannot parse its props: 400.
// The request is either valid (unknown key ignored -> always 200) or invalid (always 400); the service says both.
// After a repair (fold the keys the way the decoder compares them, e.g. compare with strings.EqualFold, so that
// the request is always rejected with "keys ... differ only in letter case") the test passes.

import (
	"io/ioutil"
	"log"
	"net/http/httptest"
	"strings"
	"testing"

	"github.com/gin-gonic/gin"
)

func TestHunt3C20_LongSKeyAnswers200And400ByTurns(t *testing.T) {
	gin.SetMode(gin.ReleaseMode)
	gin.DefaultWriter = ioutil.Discard
	log.SetOutput(ioutil.Discard)
	r := gin.Default()
	r.POST("/api/decide", decideHandler)
	body := `{"preferenceFunction":"weightedSum",` +
		`"knownAlternatives":[{"id":"a","criteria":{"c":1,"d":2}},{"id":"b","criteria":{"c":2,"d":1}}],"choseToMake":["a","b"],` +
		`"criteria":[{"id":"c"},{"id":"d"}],"methodParameters":{"weights":{"c":1,"d":1}},` +
		`"biases":[{"name":"criteriaOmission","props":{"ratio":0.5},"prop` + "ſ" + `":5}]}`
	codes := map[int]int{}
	sample := map[int]string{}
	for i := 0; i < 400; i++ {
		w := httptest.NewRecorder()
		r.ServeHTTP(w, httptest.NewRequest("POST", "/api/decide", strings.NewReader(body)))
		codes[w.Code]++
		if _, ok := sample[w.Code]; !ok {
			s := w.Body.String()
			if len(s) > 160 {
				s = s[:160]
			}
			sample[w.Code] = s
		}
	}
	if len(codes) != 1 {
		t.Errorf("the same request body was answered with different statuses over 400 calls: %v\n200: %s\n400: %s", codes, sample[200], sample[400])
	}
}
