package main

// C20 round 3, demo 1 - a 3 KB weightedSum request that lists criteriaMixing 50 times makes the server process EXIT
// (fatal error: out of memory): the id of every mixed criterion is the concatenation of the ids of its two components.
//
// Copy to: httpClient/   (package main, next to main.go)
// Run (from httpClient/, with a modfile that replaces .../lib by this tree's lib):
//   go test -modfile=<modfile> -vet=off -count=1 -run TestHunt3C20_RepeatedMixingKillsProcess .
//
// The request: weightedSum, two criteria c and d, two alternatives, weights for both, and the bias criteriaMixing
// listed 50 times ("One bias can be used multiple times", README), each with its own `randomSeed` (documented
// parameter). No documented constraint is violated; the same request with 5 mixings is answered 200.
// criteriaToMix.criterion names the new criterion "__" + c1.Id + "+" + c2.Id + "__". selectCriteriaToMix draws the
// two components with the generator seeded by `randomSeed`; the seeds below make every mixing take the two NEWEST
// criteria (second newest as c1, newest as c2), so the id lengths follow the Fibonacci recurrence
// L(k+1) = L(k) + L(k-1) + 5: 28 mixings -> 1.5 MB id and a 65 MB response, 35 -> a 1.9 GB response, 50 mixings ->
// an id of about 60 GB, repeated in every alternative of every bias report. Measured in process (no limit):
// 20 mixings 8 ms / 1.4 MB response, 25 mixings 0.13 s / 15 MB, 28 mixings 0.6 s / 65 MB / 317 MB RSS; every further
// mixing multiplies all of it by 1.62. The ids are copied into the JSON response and into log.Printf("%#v"), so the
// memory needed is a multiple of the response size. The Go runtime aborts with "fatal error: runtime: out of
// memory" (or the kernel kills the process); a fatal error is not a panic, so the deferred recover() of decideHandler
// does not help, the client gets EOF and later requests are refused.
//
// The test starts the real handlers in a CHILD process (re-exec of the test binary), so that the crash does not take
// the test runner down. The child limits its address space to 6 GB only to make the demo quick and harmless for the
// host; without the limit the same request takes all the memory of the host first.
// After a repair (e.g. criteriaToMix.criterion refuses - panic -> 400 - ids above a fixed length, or names the mixed
// criterion by a short counter-based name) the request is answered at once and the test passes.

import (
	"bufio"
	"bytes"
	"fmt"
	"io/ioutil"
	"log"
	"math/rand"
	"net/http"
	"net/http/httptest"
	"os"
	"os/exec"
	"strings"
	"syscall"
	"testing"
	"time"

	"github.com/gin-gonic/gin"
)

func hunt3C20MixRouter() *gin.Engine {
	gin.SetMode(gin.ReleaseMode)
	gin.DefaultWriter = ioutil.Discard
	log.SetOutput(ioutil.Discard)
	r := gin.Default()
	api := r.Group("/api")
	api.POST("/decide", decideHandler)
	api.GET("/preferenceFunctions", functionsHandler)
	return r
}

// hunt3C20MixSeed returns the smallest randomSeed for which selectCriteriaToMix, given n criteria, takes
// criteria[n-2] and criteria[n-1]: i1 = int(g()*n) == n-2 and offset = int(g()*(n-2))+1 == 1.
// (utils.RandomBasedSeedValueGenerator is rand.New(rand.NewSource(seed)).Float64.)
func hunt3C20MixSeed(n int) int64 {
	if n == 2 {
		return 0 // two criteria: both are taken whatever the draws are
	}
	for s := int64(0); ; s++ {
		g := rand.New(rand.NewSource(s))
		g1, g2 := g.Float64(), g.Float64()
		if int(g1*float64(n)) == n-2 && int(g2*float64(n-2))+1 == 1 {
			return s
		}
	}
}

func hunt3C20MixBody(mixings int) string {
	biases := make([]string, mixings)
	for i := range biases {
		biases[i] = fmt.Sprintf(`{"name":"criteriaMixing","props":{"randomSeed":%d}}`, hunt3C20MixSeed(2+i))
	}
	return `{"preferenceFunction":"weightedSum",` +
		`"knownAlternatives":[{"id":"a","criteria":{"c":1,"d":2}},{"id":"b","criteria":{"c":2,"d":1}}],"choseToMake":["a","b"],` +
		`"criteria":[{"id":"c","type":"gain"},{"id":"d","type":"gain"}],"methodParameters":{"weights":{"c":1,"d":1}},` +
		`"biases":[` + strings.Join(biases, ",") + `]}`
}

const hunt3C20MixOkBody = `{"preferenceFunction":"weightedSum","knownAlternatives":[{"id":"a","criteria":{"c1":1}},{"id":"b","criteria":{"c1":3}}],"choseToMake":["a","b"],"criteria":[{"id":"c1","type":"gain"}],"methodParameters":{"weights":{"c1":1}}}`

func TestHunt3C20_RepeatedMixingKillsProcess(t *testing.T) {
	if os.Getenv("HUNT3_C20_MIX_CHILD") == "1" {
		lim := syscall.Rlimit{Cur: 6 << 30, Max: 6 << 30}
		_ = syscall.Setrlimit(syscall.RLIMIT_AS, &lim)
		srv := httptest.NewServer(hunt3C20MixRouter())
		fmt.Printf("ADDR %s\n", srv.URL)
		os.Stdout.Sync()
		time.Sleep(240 * time.Second) // self destruct
		os.Exit(0)
	}
	cmd := exec.Command(os.Args[0], "-test.run=^TestHunt3C20_RepeatedMixingKillsProcess$")
	cmd.Env = append(os.Environ(), "HUNT3_C20_MIX_CHILD=1")
	var stderr bytes.Buffer
	cmd.Stderr = &stderr
	out, err := cmd.StdoutPipe()
	if err != nil {
		t.Fatal(err)
	}
	if err := cmd.Start(); err != nil {
		t.Fatal(err)
	}
	exited := make(chan error, 1)
	addrCh := make(chan string, 1)
	go func() {
		sc := bufio.NewScanner(out)
		for sc.Scan() {
			if strings.HasPrefix(sc.Text(), "ADDR ") {
				addrCh <- strings.TrimPrefix(sc.Text(), "ADDR ")
			}
		}
		exited <- cmd.Wait()
	}()
	defer cmd.Process.Kill()
	var addr string
	select {
	case addr = <-addrCh:
	case <-time.After(20 * time.Second):
		t.Fatal("server child did not start")
	}
	post := func(body string, timeout time.Duration) (int, string, error) {
		c := http.Client{Timeout: timeout}
		resp, err := c.Post(addr+"/api/decide", "application/json", strings.NewReader(body))
		if err != nil {
			return 0, "", err
		}
		defer resp.Body.Close()
		b, _ := ioutil.ReadAll(resp.Body)
		return resp.StatusCode, string(b), nil
	}
	if code, _, err := post(hunt3C20MixOkBody, 5*time.Second); err != nil || code != 200 {
		t.Fatalf("warm-up request failed: %v %v", code, err)
	}
	// the same request with 5 mixings is a valid request: 200 with a ranking; the newest id is the Fibonacci mix
	code, small, err := post(hunt3C20MixBody(5), 5*time.Second)
	if err != nil || code != 200 || !strings.Contains(small, `"result"`) {
		t.Fatalf("the request with 5 mixings should be answered with 200: %v %v %.200s", code, err, small)
	}
	body := hunt3C20MixBody(50)
	t.Logf("request size: %d bytes", len(body))
	code, answer, err := post(body, 200*time.Second)
	if err != nil {
		t.Errorf("the request with 50 mixings received no response: %v", err)
	} else if code != 200 && code != 400 {
		t.Errorf("the request with 50 mixings was answered with %d", code)
	} else {
		t.Logf("answered with %d, %d bytes", code, len(answer))
	}
	select {
	case <-exited:
		tail := stderr.String()
		if i := strings.Index(tail, "goroutine "); i > 0 {
			tail = tail[:i]
		}
		if len(tail) > 600 {
			tail = tail[:600]
		}
		t.Fatalf("the server process EXITED after one request; its stderr starts with:\n%s", tail)
	case <-time.After(500 * time.Millisecond):
	}
	if code, _, err := post(hunt3C20MixOkBody, 5*time.Second); err != nil || code != 200 {
		t.Errorf("server does not answer later requests: code=%v err=%v", code, err)
	}
}
