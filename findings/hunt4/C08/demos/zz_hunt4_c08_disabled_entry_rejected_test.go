package main

// C08, clause "a disabled bias is equivalent to leaving it out".
//
// Copy to  httpClient/  and run with a modfile that replaces the lib module by this tree's lib
// (copy httpClient/go.mod + go.sum outside the tree, append
//  `replace github.com/Azbesciak/RealDecisionMaker/lib => <tree>/lib`):
//   cd httpClient && GOFLAGS=-mod=mod GOPROXY=off GOSUMDB=off GOTOOLCHAIN=local \
//      go test -modfile=<that go.mod> -vet=off -count=1 -run TestZZHunt4C08Disabled .
//
// Since e93b1e2/8cc7f95 model.ChooseBiases -> utils.DecodeToStruct rejects every bias entry that carries two keys
// differing only in letter case - before it has looked at `disabled`, and also for keys the decoder never reads.
// A disabled entry (unknown name included) therefore turns a request that is answered 200 without it into a 400.

import (
	"bytes"
	"fmt"
	"io/ioutil"
	"log"
	"net/http"
	"net/http/httptest"
	"testing"

	"github.com/gin-gonic/gin"
)

func zzHunt4C08Post(r *gin.Engine, body string) (int, string) {
	w := httptest.NewRecorder()
	req, _ := http.NewRequest("POST", "/api/decide", bytes.NewBufferString(body))
	req.Header.Set("Content-Type", "application/json")
	r.ServeHTTP(w, req)
	return w.Code, w.Body.String()
}

func TestZZHunt4C08DisabledEntryWithCaseVariantKeys(t *testing.T) {
	gin.SetMode(gin.ReleaseMode)
	log.SetOutput(ioutil.Discard)
	r := gin.New()
	r.POST("/api/decide", decideHandler)

	request := func(biases string) string {
		return fmt.Sprintf(`{"preferenceFunction":"weightedSum",
"knownAlternatives":[{"id":"a","criteria":{"x":1,"y":2}},{"id":"b","criteria":{"x":2,"y":1}},{"id":"c","criteria":{"x":3,"y":0}}],
"criteria":[{"id":"x","type":"gain"},{"id":"y","type":"gain"}],
"choseToMake":["a","b","c"],
"methodParameters":{"weights":{"x":1,"y":3}},
"biasApplyRandomSeed":7,
"biases":[%s]}`, biases)
	}
	enabled := `{"name":"criteriaOmission","props":{"ratio":0.4,"min":1,"max":1,"ordering":"weakest"}}`
	codeWithout, bodyWithout := zzHunt4C08Post(r, request(enabled))
	if codeWithout != 200 {
		t.Fatalf("request without the disabled entry: %d %s", codeWithout, bodyWithout)
	}
	for _, disabled := range []string{
		// keys that are no field of a bias entry; the decoder ignores them, nothing is ambiguous
		`{"name":"fatigue","disabled":true,"note":"switched off for run 3","Note":"see run 2"}`,
		// unknown name, disabled: named explicitly in the property's domain
		`{"name":"noSuchBias","disabled":true,"comment":1,"COMMENT":2}`,
		// case variants of fields that are irrelevant once the entry is disabled
		`{"name":"fatigue","Name":"anchoring","disabled":true}`,
		`{"name":"fatigue","disabled":true,"applyProbability":0.5,"applyprobability":0.25}`,
		`{"name":"fatigue","disabled":true,"props":{"function":"const"},"Props":null}`,
	} {
		for _, list := range []string{disabled + "," + enabled, enabled + "," + disabled} {
			code, body := zzHunt4C08Post(r, request(list))
			if code != codeWithout || body != bodyWithout {
				if len(body) > 160 {
					body = body[:160] + "..."
				}
				t.Errorf("biases [%s]\n  answered %d %s\n  without the disabled entry the answer is 200 %s", list, code, body, bodyWithout[len(bodyWithout)-150:])
			}
		}
	}
}
