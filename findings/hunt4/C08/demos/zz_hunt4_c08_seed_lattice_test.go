package client

// C08, clause "over many seeds it fires with the stated frequency".
//
// Copy to  lib/client/  and run (about 100 seconds):
//   cd lib && GOFLAGS=-mod=mod GOPROXY=off GOSUMDB=off GOTOOLCHAIN=local \
//      go test -vet=off -count=1 -run TestZZHunt4C08 ./client
//
// The bias whose firing is counted sits at enabled position `pos`; the biases in front of it have probability 0
// (they never fire and, by the independence clause, do not matter). The production generator
// utils.RandomBasedSeedValueGenerator is used, through DecisionMaker.MakeDecision.
// For seeds in an arithmetic progression (consecutive seeds; seeds 3600 apart; seeds 1e9 apart) the draw at
// particular positions is not equidistributed: over 120 000 seeds the frequency is 8..12 standard deviations
// away from the stated probability. The same count over 120 000 scattered seeds (control) is within 4 sd.

import (
	"math"
	"testing"

	. "github.com/Azbesciak/RealDecisionMaker/lib/logic/preference-func/weighted-sum"
	. "github.com/Azbesciak/RealDecisionMaker/lib/model"
	"github.com/Azbesciak/RealDecisionMaker/lib/utils"
)

type zzHunt4C08Bias struct{}

func (b *zzHunt4C08Bias) Identifier() string { return "mock" }
func (b *zzHunt4C08Bias) Apply(_, current *DecisionMakingParams, _ *BiasProps, _ *BiasListener) *BiasedResult {
	return &BiasedResult{DMP: current, Props: "fired"}
}

func zzHunt4C08Frequency(pos int, p float64, n int, seed func(i int) int64) float64 {
	funcs := PreferenceFunctions{Functions: []PreferenceFunction{&WeightedSumPreferenceFunc{}}}
	listeners := BiasListeners{Listeners: []BiasListener{&WeightedSumBiasListener{}}}
	available := AsBiasesMap(&Biases{&zzHunt4C08Bias{}})
	fired := 0
	for i := 0; i < n; i++ {
		biases := make(BiasesParams, pos+1)
		for k := 0; k < pos; k++ {
			biases[k] = map[string]interface{}{"name": "mock", "applyProbability": 0.0}
		}
		biases[pos] = map[string]interface{}{"name": "mock", "applyProbability": p}
		dm := DecisionMaker{
			PreferenceFunction:  "weightedSum",
			KnownAlternatives:   []AlternativeWithCriteria{{Id: "a", Criteria: Weights{"x": 1}}},
			ChoseToMake:         []Alternative{"a"},
			Criteria:            Criteria{{Id: "x", Type: "gain"}},
			MethodParameters:    utils.Map{"weights": Weights{"x": 1}},
			Biases:              biases,
			BiasApplyRandomSeed: seed(i),
		}
		choice := dm.MakeDecision(funcs, listeners, available, utils.RandomBasedSeedValueGenerator)
		if len(choice.Biases) != pos+1 {
			panic("one entry per enabled bias expected")
		}
		if choice.Biases[pos].(BiasParams).Props != nil {
			fired++
		}
	}
	return float64(fired) / float64(n)
}

func zzHunt4C08Mix(i int) int64 { // scattered seeds for the control runs
	z := uint64(i) + 0x9e3779b97f4a7c15
	z = (z ^ (z >> 30)) * 0xbf58476d1ce4e5b9
	z = (z ^ (z >> 27)) * 0x94d049bb133111eb
	return int64(z ^ (z >> 31))
}

func TestZZHunt4C08FiringFrequencyOverSeedProgressions(t *testing.T) {
	const n = 120000
	for _, c := range []struct {
		name string
		pos  int
		p    float64
		seed func(i int) int64
	}{
		{"control: scattered seeds, position 33, p=0.05", 33, 0.05, zzHunt4C08Mix},
		{"seeds 250000..369999, position 33, p=0.05", 33, 0.05, func(i int) int64 { return 250000 + int64(i) }},
		{"seeds 1250000..1369999, position 33, p=0.05", 33, 0.05, func(i int) int64 { return 1250000 + int64(i) }},
		{"control: scattered seeds, position 18, p=0.99", 18, 0.99, zzHunt4C08Mix},
		{"seeds 0,3600,7200,.., position 18, p=0.99", 18, 0.99, func(i int) int64 { return 3600 * int64(i) }},
		{"control: scattered seeds, position 7, p=0.9", 7, 0.9, zzHunt4C08Mix},
		{"seeds 0,1e9,2e9,.., position 7, p=0.9", 7, 0.9, func(i int) int64 { return 1000000000 * int64(i) }},
	} {
		c := c
		t.Run(c.name, func(t *testing.T) {
			freq := zzHunt4C08Frequency(c.pos, c.p, n, c.seed)
			sd := math.Sqrt(c.p * (1 - c.p) / n)
			z := (freq - c.p) / sd
			t.Logf("applyProbability %v at enabled position %d fired with frequency %.5f over %d seeds (%.1f sd)", c.p, c.pos, freq, n, z)
			if math.Abs(z) > 6 {
				t.Errorf("frequency %.5f is %.1f standard deviations away from the stated probability %v", freq, z, c.p)
			}
		})
	}
}
