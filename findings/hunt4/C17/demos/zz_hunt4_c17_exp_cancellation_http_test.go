package main

// hunt4 / C17 demo at the HTTP observation point (POST /api/decide): the same defect as
// zz_hunt4_c17_exp_cancellation_test.go, seen in biases[0].props.effectiveFatigueRatio and result[].
//
// copy to:  httpClient/
// run:      cp httpClient/go.mod /tmp/c17.mod; cp httpClient/go.sum /tmp/c17.sum
//           echo 'replace github.com/Azbesciak/RealDecisionMaker/lib => <tree>/lib' >> /tmp/c17.mod
//           cd httpClient && GOFLAGS=-mod=mod GOPROXY=off GOSUMDB=off GOTOOLCHAIN=local \
//           go test -modfile=/tmp/c17.mod -vet=off -count=1 -run TestHunt4C17 .

import (
	"encoding/json"
	"math"
	"net/http"
	"net/http/httptest"
	"strings"
	"testing"

	"github.com/gin-gonic/gin"
)

func hunt4Decide(t *testing.T, body string) map[string]interface{} {
	gin.SetMode(gin.TestMode)
	r := gin.New()
	r.POST("/api/decide", decideHandler)
	w := httptest.NewRecorder()
	req, _ := http.NewRequest("POST", "/api/decide", strings.NewReader(body))
	req.Header.Set("Content-Type", "application/json")
	r.ServeHTTP(w, req)
	if w.Code != 200 {
		t.Fatalf("status %d: %s", w.Code, w.Body.String())
	}
	var out map[string]interface{}
	if err := json.Unmarshal(w.Body.Bytes(), &out); err != nil {
		t.Fatal(err)
	}
	return out
}

const hunt4Request = `{
 "preferenceFunction":"weightedSum",
 "knownAlternatives":[
  {"id":"a","criteria":{"p":9,"s":4}},
  {"id":"b","criteria":{"p":5.8,"s":8}},
  {"id":"c","criteria":{"p":6.6,"s":7}}],
 "criteria":[{"id":"p","type":"gain"},{"id":"s","type":"cost"}],
 "choseToMake":["a","b"],
 "methodParameters":{"weights":{"p":1,"s":0.5}},
 "biases":[{"name":"fatigue","props":{"function":"expFromZero","randomSeed":3,
   "params":{"alpha":ALPHA,"multiplier":MULT,"queryNumber":1}}}]}`

func TestHunt4C17_Http_ExpFromZeroRatio(t *testing.T) {
	for _, c := range []struct {
		alpha, mult string
		a, m        float64
	}{
		{"1e-17", "1e16", 1e-17, 1e16}, // f = 0.1, reported 0
		{"2e-16", "1e15", 2e-16, 1e15}, // f = 0.2, reported 0.25
		{"1e-12", "1e11", 1e-12, 1e11}, // f = 0.1, reported 0.100006...
	} {
		body := strings.Replace(strings.Replace(hunt4Request, "ALPHA", c.alpha, 1), "MULT", c.mult, 1)
		out := hunt4Decide(t, body)
		props := out["biases"].([]interface{})[0].(map[string]interface{})["props"].(map[string]interface{})
		got := props["effectiveFatigueRatio"].(float64)
		want := c.m * math.Expm1(c.a*1)
		if math.Abs(got-want) > 1e-6*math.Abs(want) {
			t.Errorf("alpha=%s multiplier=%s queryNumber=1: effectiveFatigueRatio = %v, multiplier x (e^(alpha x queryNumber) - 1) = %v",
				c.alpha, c.mult, got, want)
		}
	}
}
