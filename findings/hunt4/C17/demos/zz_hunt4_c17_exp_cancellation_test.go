package fatigue

// hunt4 / C17 demo: the expFromZero fatigue ratio is computed as  M*exp(a*q) - M  (lib/utils/exp-from-zero.go),
// which cancels catastrophically when a*q is small and M is large. The ratio that is applied and reported is then
// NOT  multiplier x (e^(alpha x queryNumber) - 1):  it is 0 (nothing is blurred although f = 0.1), or 25 % too large
// (values are moved by more than |f x v|). All parameters are ordinary finite numbers, nothing overflows.
//
// copy to:  lib/logic/biases/fatigue/
// run:      cd lib && GOFLAGS=-mod=mod GOPROXY=off GOSUMDB=off GOTOOLCHAIN=local \
//           go test -vet=off -count=1 -run TestHunt4C17 ./logic/biases/fatigue/

import (
	"encoding/json"
	"math"
	"strconv"
	"testing"

	"github.com/Azbesciak/RealDecisionMaker/lib/model"
	"github.com/Azbesciak/RealDecisionMaker/lib/testUtils"
	"github.com/Azbesciak/RealDecisionMaker/lib/utils"
)

func hunt4Fatigue() *Fatigue {
	// production wiring (httpClient/main.go)
	return NewFatigue(
		utils.RandomBasedSeedValueGenerator,
		utils.RandomBasedSeedValueGenerator,
		[]FatigueFunction{&ExponentialFromZeroFatigue{}, &ConstFatigueFunction{}},
	)
}

func hunt4Dmp() *model.DecisionMakingParams {
	criteria := model.Criteria{{Id: "c1", Type: model.Gain}, {Id: "c2", Type: model.Cost}, {Id: "c3", Type: model.Gain}}
	mk := func(id string, base float64) model.AlternativeWithCriteria {
		return model.AlternativeWithCriteria{Id: id, Criteria: model.Weights{"c1": base, "c2": base * 3, "c3": -base * 7}}
	}
	return &model.DecisionMakingParams{
		ConsideredAlternatives:    []model.AlternativeWithCriteria{mk("a", 10), mk("b", 20), mk("c", 30), mk("d", 40)},
		NotConsideredAlternatives: []model.AlternativeWithCriteria{mk("x", 50), mk("y", 60), mk("z", 70)},
		Criteria:                  criteria,
	}
}

func hunt4Apply(t *testing.T, propsJson string) (*model.DecisionMakingParams, FatigueResult) {
	var props model.BiasProps
	if err := json.Unmarshal([]byte(propsJson), &props); err != nil {
		t.Fatal(err)
	}
	dmp := hunt4Dmp()
	listener := model.BiasListener(&testUtils.DummyBiasListener{})
	res := hunt4Fatigue().Apply(dmp, dmp, &props, &listener)
	return dmp, res.Props.(FatigueResult)
}

// f = 1e16 x (e^(1e-17 x 1) - 1) = 0.1 : every value has to be blurred by up to 10 %.
// Observed: effectiveFatigueRatio = 0 and all values bit-identical to the input.
func TestHunt4C17_ExpFromZeroRatioCancelsToZero(t *testing.T) {
	alpha, multiplier, query := 1e-17, 1e16, 1.0
	want := multiplier * math.Expm1(alpha*query) // 0.1
	in, report := hunt4Apply(t, `{"function":"expFromZero","randomSeed":7,
		"params":{"alpha":1e-17,"multiplier":1e16,"queryNumber":1}}`)
	if math.Abs(report.EffectiveFatigueRatio-want) > 1e-6*math.Abs(want) {
		t.Errorf("effectiveFatigueRatio = %v, but multiplier x (e^(alpha x queryNumber) - 1) = %v",
			report.EffectiveFatigueRatio, want)
	}
	moved := 0
	for i, a := range report.ConsideredAlternatives {
		for c, v := range a.Criteria {
			if v != in.ConsideredAlternatives[i].Criteria[c] {
				moved++
			}
		}
	}
	if moved == 0 {
		t.Errorf("f = %v, yet none of the 12 considered values was moved", want)
	}
}

// f = 1e15 x (e^(2e-16 x 1) - 1) = 0.2 : no value may move by more than 20 %.
// Observed: effectiveFatigueRatio = 0.25 and values moved by up to 25 %.
func TestHunt4C17_ExpFromZeroRatioTooLarge_BoundExceeded(t *testing.T) {
	alpha, multiplier, query := 2e-16, 1e15, 1.0
	want := multiplier * math.Expm1(alpha*query) // 0.2
	worst := 0.0
	for seed := 0; seed < 20; seed++ {
		in, report := hunt4Apply(t, `{"function":"expFromZero","randomSeed":`+strconv.Itoa(seed)+`,
			"params":{"alpha":2e-16,"multiplier":1e15,"queryNumber":1}}`)
		if seed == 0 && math.Abs(report.EffectiveFatigueRatio-want) > 1e-6*math.Abs(want) {
			t.Errorf("effectiveFatigueRatio = %v, but multiplier x (e^(alpha x queryNumber) - 1) = %v",
				report.EffectiveFatigueRatio, want)
		}
		check := func(before, after []model.AlternativeWithCriteria) {
			for i, a := range after {
				for c, v := range a.Criteria {
					old := before[i].Criteria[c]
					rel := math.Abs(v-old) / math.Abs(old)
					if rel > worst {
						worst = rel
					}
				}
			}
		}
		check(in.ConsideredAlternatives, report.ConsideredAlternatives)
		check(in.NotConsideredAlternatives, report.NotConsideredAlternatives)
	}
	if worst > want*(1+1e-9) {
		t.Errorf("a value was moved by %.4f x |v| although |f| = %v bounds the move", worst, want)
	}
}
