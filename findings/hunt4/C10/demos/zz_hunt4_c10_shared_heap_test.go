package main

// Demo of audit round hunt4, property C10 (finding 3, LOW confidence - see findings.json).
//
// Copy to:   <worktree>/httpClient/        (package main, next to main.go)
// Run with:  export GOFLAGS=-mod=mod GOPROXY=off GOSUMDB=off GOTOOLCHAIN=local
//            (/tmp/hunt4_out/C10/mod/go.mod is httpClient/go.mod plus 'replace github.com/Azbesciak/RealDecisionMaker/lib => /tmp/wth4/C10/lib';
//             for another worktree copy httpClient/go.mod and go.sum to a directory outside the tree and append that replace line)
//            go test -modfile=/tmp/hunt4_out/C10/mod/go.mod -vet=off -count=1 -run ZZHunt4C10SharedHeap -v .
//            (WITHOUT -race: the race detector multiplies the memory of every run and hides the difference)
//
// A 1.3 kB choquetIntegral request (one criterion, criteriaConcealment listed 19 times - exactly the 20 criteria that
// ChoquetIntegralBiasListener.OnCriterionAdded admits) is answered with 200 after ~5 s and ~0.9 GB of heap.
// The test runs the service in a child process whose address space is limited to 4.5 GB, of which the Go runtime reserves ~2.4 GB up
// front (ulimit -v, the stand-in for a container limit). One at a time, six such requests and six small weightedSum requests are all answered.
// Released together, the very same requests end in "fatal error: runtime: out of memory": the process exits and
// NONE of the twelve requests - the small ones included - gets its response.

import (
	"bufio"
	"bytes"
	"fmt"
	"io/ioutil"
	"log"
	"net/http"
	"net/http/httptest"
	"os"
	"os/exec"
	"strings"
	"sync"
	"testing"

	"github.com/gin-gonic/gin"
)

const zzH4HeapSmall = `{"preferenceFunction":"weightedSum","knownAlternatives":[{"id":"a","criteria":{"c":1}},{"id":"b","criteria":{"c":2}}],"choseToMake":["a","b"],"criteria":[{"id":"c","type":"gain"}],"methodParameters":{"weights":{"c":1}}}`

func zzH4HeapBig() string {
	var b strings.Builder
	b.WriteString(`{"preferenceFunction":"choquetIntegral","knownAlternatives":[{"id":"a","criteria":{"c":1}},{"id":"b","criteria":{"c":2}}],"choseToMake":["a","b"],"criteria":[{"id":"c"}],"methodParameters":{"weights":{"c":0.5}},"biases":[`)
	for i := 0; i < 19; i++ {
		if i > 0 {
			b.WriteString(",")
		}
		b.WriteString(`{"name":"criteriaConcealment","props":{"randomSeed":1}}`)
	}
	b.WriteString(`]}`)
	return b.String()
}

func zzH4HeapCall(r *gin.Engine, body string) int {
	w := httptest.NewRecorder()
	req := httptest.NewRequest(http.MethodPost, "/api/decide", bytes.NewReader([]byte(body)))
	req.Header.Set("Content-Type", "application/json")
	r.ServeHTTP(w, req)
	return w.Code
}

const zzH4HeapPairs = 6

func zzH4HeapChild(mode string) {
	gin.SetMode(gin.ReleaseMode)
	log.SetOutput(ioutil.Discard)
	r := gin.New()
	r.Use(gin.Recovery())
	r.POST("/api/decide", decideHandler)
	big := zzH4HeapBig()
	var mu sync.Mutex
	report := func(kind string, i, code int) {
		mu.Lock()
		fmt.Printf("ANSWER %s %d %d\n", kind, i, code)
		mu.Unlock()
	}
	if mode == "sequential" {
		for i := 0; i < zzH4HeapPairs; i++ {
			report("big", i, zzH4HeapCall(r, big))
			report("small", i, zzH4HeapCall(r, zzH4HeapSmall))
		}
	} else {
		var wg sync.WaitGroup
		start := make(chan struct{})
		for i := 0; i < zzH4HeapPairs; i++ {
			wg.Add(1)
			go func(i int) {
				defer wg.Done()
				<-start
				code := zzH4HeapCall(r, big)
				report("big", i, code)
				// the small request of this client follows on the same "connection"
				report("small", i, zzH4HeapCall(r, zzH4HeapSmall))
			}(i)
		}
		close(start)
		wg.Wait()
	}
	os.Exit(0)
}

func zzH4HeapRun(t *testing.T, mode string) (answers map[string]int, tail string, err error) {
	cmd := exec.Command("sh", "-c", "ulimit -v 4500000; exec \"$0\" -test.run='^TestZZHunt4C10SharedHeap$' -test.timeout=600s", os.Args[0])
	cmd.Env = append(os.Environ(), "ZZ_H4_HEAP_CHILD="+mode)
	var out bytes.Buffer
	cmd.Stdout = &out
	cmd.Stderr = &out
	err = cmd.Run()
	answers = map[string]int{}
	sc := bufio.NewScanner(bytes.NewReader(out.Bytes()))
	sc.Buffer(make([]byte, 1<<20), 1<<26)
	var interesting []string
	for sc.Scan() {
		line := sc.Text()
		var kind string
		var i, code int
		if n, _ := fmt.Sscanf(line, "ANSWER %s %d %d", &kind, &i, &code); n == 3 {
			answers[fmt.Sprintf("%s#%d", kind, i)] = code
		} else if strings.HasPrefix(line, "fatal error") || strings.HasPrefix(line, "runtime: out of memory") {
			interesting = append(interesting, line)
		}
	}
	return answers, strings.Join(interesting, " | "), err
}

func TestZZHunt4C10SharedHeap(t *testing.T) {
	if mode := os.Getenv("ZZ_H4_HEAP_CHILD"); mode != "" {
		zzH4HeapChild(mode)
		return
	}
	seq, seqTail, seqErr := zzH4HeapRun(t, "sequential")
	t.Logf("one at a time: %d answers, exit: %v %s", len(seq), seqErr, seqTail)
	if seqErr != nil || len(seq) != 2*zzH4HeapPairs {
		t.Skipf("the sequential run did not complete under the address-space limit on this machine; the demo shows nothing here")
	}
	for k, code := range seq {
		if code != 200 {
			t.Fatalf("one at a time, request %s must be answered 200, got %d", k, code)
		}
	}
	conc, concTail, concErr := zzH4HeapRun(t, "concurrent")
	t.Logf("concurrently:  %d answers, exit: %v %s", len(conc), concErr, concTail)
	for k, code := range seq {
		got, ok := conc[k]
		if !ok {
			t.Errorf("request %s: answered %d one at a time, NO response when the same requests run concurrently (service process: %v; %s)", k, code, concErr, concTail)
		} else if got != code {
			t.Errorf("request %s: answered %d one at a time, %d concurrently", k, code, got)
		}
	}
}
