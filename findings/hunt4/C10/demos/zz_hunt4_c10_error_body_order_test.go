package main

// Demo of audit round hunt4, property C10 (findings 1 and 2).
//
// Copy to:   <worktree>/httpClient/        (package main, next to main.go)
// Run with:  export GOFLAGS=-mod=mod GOPROXY=off GOSUMDB=off GOTOOLCHAIN=local
//            (/tmp/hunt4_out/C10/mod/go.mod is httpClient/go.mod plus 'replace github.com/Azbesciak/RealDecisionMaker/lib => /tmp/wth4/C10/lib';
//             for another worktree copy httpClient/go.mod and go.sum to a directory outside the tree and append that replace line)
//            go test -modfile=/tmp/hunt4_out/C10/mod/go.mod -race -vet=off -count=1 -run ZZHunt4C10ErrorBody -v .
//
// The test does what the property statement describes: it takes the response of every request one at a time, then
// issues the same requests from 16 goroutines against the real decideHandler and the real package-level registries
// (funcs, biasListeners, biases) and compares status + body byte for byte. Requests that fail validation sit next to
// requests that succeed. The succeeding requests always match; the failing ones do not, because the text of the error
// is built by ranging over a Go map (the process-wide `biases` registry, or a map of the request).

import (
	"bytes"
	"io/ioutil"
	"log"
	"net/http"
	"net/http/httptest"
	"sync"
	"testing"

	"github.com/gin-gonic/gin"
)

type zzH4C10Response struct {
	code int
	body string
}

func zzH4C10Router() *gin.Engine {
	gin.SetMode(gin.ReleaseMode)
	log.SetOutput(ioutil.Discard)
	r := gin.New()
	r.Use(gin.Recovery())
	r.POST("/api/decide", decideHandler)
	return r
}

func zzH4C10Call(r *gin.Engine, body string) zzH4C10Response {
	w := httptest.NewRecorder()
	req := httptest.NewRequest(http.MethodPost, "/api/decide", bytes.NewReader([]byte(body)))
	req.Header.Set("Content-Type", "application/json")
	r.ServeHTTP(w, req)
	return zzH4C10Response{w.Code, w.Body.String()}
}

const zzH4C10Valid = `{"preferenceFunction":"weightedSum","knownAlternatives":[{"id":"a","criteria":{"c":1}},{"id":"b","criteria":{"c":2}}],"choseToMake":["a","b"],"criteria":[{"id":"c","type":"gain"}],"methodParameters":{"weights":{"c":1}},"biases":[{"name":"fatigue","props":{"function":"const","params":{"value":0.1},"randomSeed":3}}]}`

var zzH4C10Failing = map[string]string{
	// finding 1: model.ChooseBiases lists the keys of the shared registry `biases` in map iteration order
	"unknown bias name (registry order)": `{"preferenceFunction":"weightedSum","knownAlternatives":[{"id":"a","criteria":{"c":1}},{"id":"b","criteria":{"c":2}}],"choseToMake":["a","b"],"criteria":[{"id":"c","type":"gain"}],"methodParameters":{"weights":{"c":1}},"biases":[{"name":"noSuchBias","props":{}}]}`,
	// finding 2a: choquet.remapWeights reports whichever redeclared combination the map iteration meets first
	"choquet weights redeclared twice": `{"preferenceFunction":"choquetIntegral","knownAlternatives":[{"id":"a","criteria":{"c":1,"d":1,"e":2}},{"id":"b","criteria":{"c":2,"d":1,"e":2}}],"choseToMake":["a","b"],"criteria":[{"id":"c"},{"id":"d"},{"id":"e"}],"methodParameters":{"weights":{"c":0.1,"d":0.2,"e":0.3,"c,d":0.4,"d,c":0.4,"c,e":0.5,"e,c":0.5,"d,e":0.6,"e,d":0.6,"c,d,e":1}}}`,
	// finding 2b: choquet.prepareWeights reports whichever out-of-range weight the map iteration meets first
	"choquet two weights out of range": `{"preferenceFunction":"choquetIntegral","knownAlternatives":[{"id":"a","criteria":{"c":1,"d":1}},{"id":"b","criteria":{"c":2,"d":1}}],"choseToMake":["a","b"],"criteria":[{"id":"c"},{"id":"d"}],"methodParameters":{"weights":{"c":1.5,"d":2.5,"c,d":3}}}`,
	// finding 2c: utils.rejectAmbiguousKeys walks the entries of a map target in MapKeys order
	"two electre criteria with case-variant keys": `{"preferenceFunction":"electreIII","knownAlternatives":[{"id":"a","criteria":{"c":1,"d":1}},{"id":"b","criteria":{"c":2,"d":1}}],"choseToMake":["a","b"],"criteria":[{"id":"c"},{"id":"d"}],"methodParameters":{"electreCriteria":{"c":{"k":1,"K":2},"d":{"q":{"b":1},"Q":{"b":2},"k":1}}}}`,
}

func TestZZHunt4C10ErrorBody(t *testing.T) {
	router := zzH4C10Router()
	names := make([]string, 0, len(zzH4C10Failing)+1)
	bodies := map[string]string{"valid weightedSum + fatigue": zzH4C10Valid}
	for n, b := range zzH4C10Failing {
		bodies[n] = b
	}
	for n := range bodies {
		names = append(names, n)
	}
	// one at a time
	sequential := map[string]zzH4C10Response{}
	for _, n := range names {
		sequential[n] = zzH4C10Call(router, bodies[n])
	}
	if sequential["valid weightedSum + fatigue"].code != 200 {
		t.Fatalf("the valid request must succeed: %v", sequential["valid weightedSum + fatigue"])
	}
	for n := range zzH4C10Failing {
		if sequential[n].code != 400 {
			t.Fatalf("'%s' must be refused with 400, got %v", n, sequential[n])
		}
	}
	// concurrently
	const workers, rounds = 16, 20
	var mu sync.Mutex
	different := map[string]map[string]int{}
	var wg sync.WaitGroup
	for w := 0; w < workers; w++ {
		wg.Add(1)
		go func(w int) {
			defer wg.Done()
			for i := 0; i < rounds; i++ {
				for k := range names {
					n := names[(k+w+i)%len(names)]
					got := zzH4C10Call(router, bodies[n])
					if got != sequential[n] {
						mu.Lock()
						if different[n] == nil {
							different[n] = map[string]int{}
						}
						different[n][got.body[:zzH4C10Min(len(got.body), 140)]]++
						mu.Unlock()
					}
				}
			}
		}(w)
	}
	wg.Wait()
	for n, bodiesSeen := range different {
		total := 0
		for _, c := range bodiesSeen {
			total += c
		}
		t.Errorf("request '%s': %d of %d concurrent responses differ from the response the same request produced one at a time\n  one at a time: %d %.140s",
			n, total, workers*rounds, sequential[n].code, sequential[n].body)
		for b, c := range bodiesSeen {
			t.Logf("  %3d x concurrent: %s", c, b)
		}
	}
}

func zzH4C10Min(a, b int) int {
	if a < b {
		return a
	}
	return b
}
