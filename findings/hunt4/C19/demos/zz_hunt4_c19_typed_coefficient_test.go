package anchoring

// Demo for hunt4 / C19: a coefficient that IS given is replaced by 1.
//
// Copy to: lib/logic/biases/anchoring/
// Run:     cd lib && GOFLAGS=-mod=mod GOPROXY=off GOSUMDB=off GOTOOLCHAIN=local \
//          go test -vet=off -count=1 -run TestHunt4C19TypedCoefficient ./logic/biases/anchoring/
//
// The props decoder (mapstructure) matches keys to fields without regard to letter case, so "Coefficient" (the
// capitalisation the README uses for AnchoringAlternatives / Function / Params) fills AnchoringAlternative.Coefficient,
// and over JSON that value is used. checkAnchoringAlternatives then looks into the raw props again: when the list is a
// Go []map[string]interface{} (a library caller building the props in Go, the entry point
// model.DecisionMaker.MakeDecision / Anchoring.Apply) it tests a["coefficient"] with an exact, case-sensitive lookup and,
// not finding it, overwrites the decoded coefficient with 1. The reference point is then the plain max/min instead of
// the coefficient-weighted best/worst value.

import (
	"github.com/Azbesciak/RealDecisionMaker/lib/model"
	"github.com/Azbesciak/RealDecisionMaker/lib/model/reference-criterion"
	"github.com/Azbesciak/RealDecisionMaker/lib/testUtils"
	"github.com/Azbesciak/RealDecisionMaker/lib/utils"
	"reflect"
	"testing"
)

func hunt4C19Props(anchoringAlternatives interface{}, referencePoints string) *model.BiasProps {
	props := model.BiasProps(utils.Map{
		"anchoringAlternatives": anchoringAlternatives,
		"loss":                  utils.Map{"function": "linear", "params": utils.Map{"a": 2}},
		"gain":                  utils.Map{"function": "linear", "params": utils.Map{"a": 1}},
		"referencePoints":       utils.Map{"function": referencePoints},
		"applier":               utils.Map{"function": "inline", "params": utils.Map{}},
	})
	return &props
}

func TestHunt4C19TypedCoefficient(t *testing.T) {
	listener := model.BiasListener(&testUtils.DummyBiasListener{})
	a := NewAnchoring(
		[]AnchoringEvaluator{&LinearAnchoringEvaluator{}, &ExpFromZeroAnchoringEvaluator{}},
		[]ReferencePointsEvaluator{&IdealReferenceAlternativeEvaluator{}, &NadirReferenceAlternativeEvaluator{}},
		[]AnchoringApplier{&InlineAnchoringApplier{}, NewNewCriterionAnchoringApplier(
			utils.RandomBasedSeedValueGenerator,
			*reference_criterion.NewReferenceCriteriaManager([]reference_criterion.ReferenceCriterionFactory{
				&reference_criterion.ImportanceRatioReferenceCriterionManager{},
			}),
		)},
	)
	// the scenario of the repository's own TestAnchoring_Apply
	dmp := model.DecisionMakingParams{
		ConsideredAlternatives: []model.AlternativeWithCriteria{
			{Id: "1", Criteria: model.Weights{"a": 1, "b": 2, "c": 3}},
			{Id: "2", Criteria: model.Weights{"a": 2, "b": 0, "c": 2}},
			{Id: "3", Criteria: model.Weights{"a": 4, "b": 3, "c": 4}},
		},
		NotConsideredAlternatives: []model.AlternativeWithCriteria{
			{Id: "4", Criteria: model.Weights{"a": 5, "b": 4, "c": 9}},
			{Id: "5", Criteria: model.Weights{"a": 3, "b": 1, "c": 1}},
		},
		Criteria:         model.Criteria{{Id: "a", Type: model.Gain}, {Id: "b", Type: model.Gain}, {Id: "c", Type: model.Cost}},
		MethodParameters: testUtils.DummyMethodParameters{Criteria: []string{"a", "b", "c"}},
	}
	// alternative 1 with coefficient 3, alternative 4 with coefficient 1:
	//   ideal: a: max(1*3, 5*1) -> 5; b: max(2*3, 4*1) -> 2; c (cost): min(3/3, 9/1) -> 3
	//   nadir: a: min(1*3, 5*1) -> 1; b: min(2*3, 4*1) -> 4; c (cost): max(3/3, 9/1) -> 9
	want := map[string]model.Weights{
		"ideal": {"a": 5, "b": 2, "c": 3},
		"nadir": {"a": 1, "b": 4, "c": 9},
	}
	for _, refPoints := range []string{"ideal", "nadir"} {
		// the shape a JSON request has: []interface{} of map[string]interface{}
		jsonShaped := utils.Array{
			utils.Map{"alternative": "1", "Coefficient": 3.0},
			utils.Map{"alternative": "4", "Coefficient": 1.0},
		}
		// the same content as a Go caller naturally writes it
		goTyped := []map[string]interface{}{
			{"alternative": "1", "Coefficient": 3.0},
			{"alternative": "4", "Coefficient": 1.0},
		}
		viaJsonShape := a.Apply(nil, &dmp, hunt4C19Props(jsonShaped, refPoints), &listener).Props.(AnchoringResult)
		viaGoTyped := a.Apply(nil, &dmp, hunt4C19Props(goTyped, refPoints), &listener).Props.(AnchoringResult)
		if got := viaJsonShape.ReferencePoints[0].Criteria; !reflect.DeepEqual(got, want[refPoints]) {
			t.Errorf("%s, []interface{} props: reference point %v, want %v", refPoints, got, want[refPoints])
		}
		if got := viaGoTyped.ReferencePoints[0].Criteria; !reflect.DeepEqual(got, want[refPoints]) {
			t.Errorf("%s, []map[string]interface{} props with the same content: reference point %v, want the coefficient-weighted %v "+
				"(the given coefficients 3 and 1 were replaced by 1)", refPoints, got, want[refPoints])
		}
		if !reflect.DeepEqual(viaJsonShape.ApplierResult, viaGoTyped.ApplierResult) {
			t.Errorf("%s: applied differences differ between the two spellings of the same props:\n %v\n %v",
				refPoints, viaJsonShape.ApplierResult, viaGoTyped.ApplierResult)
		}
	}
}
