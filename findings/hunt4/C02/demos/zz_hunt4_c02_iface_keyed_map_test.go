package client

// Demo for property C02 (hunt round 4): ambiguous keys inside interface-keyed maps are not rejected.
//
// Copy to:  lib/client/
// Run with: cd lib && go test -vet=off -count=1 -run 'TestZZHunt4C02' ./client/
//
// utils.DecodeToStruct rejects source maps that spell one key in two letter cases (rule ND-5), because mapstructure
// resolves such keys in map iteration order. The check (utils.rejectAmbiguousKeys) only looks at maps whose key KIND is
// string; mapstructure.decodeStructFromMap also accepts maps whose key kind is interface (map[interface{}]interface{},
// which is what gopkg.in/yaml.v2 and several other decoders produce for nested objects) and does the very same
// case-insensitive search by ranging over the map. A request handed to model.DecisionMaker.MakeDecision (the library
// entry point named in the property) whose nested objects are such maps is therefore still answered differently from
// call to call, in one process.

import (
	"encoding/json"
	"fmt"
	"testing"

	criteria_concealment "github.com/Azbesciak/RealDecisionMaker/lib/logic/biases/criteria-concealment"
	weighted_sum "github.com/Azbesciak/RealDecisionMaker/lib/logic/preference-func/weighted-sum"
	"github.com/Azbesciak/RealDecisionMaker/lib/model"
	reference_criterion "github.com/Azbesciak/RealDecisionMaker/lib/model/reference-criterion"
	"github.com/Azbesciak/RealDecisionMaker/lib/utils"
)

func zzHunt4C02Decide(biasesParams model.BiasesParams) (accepted bool, body string) {
	defer func() {
		if e := recover(); e != nil {
			accepted, body = false, fmt.Sprint(e)
		}
	}()
	funcs := model.PreferenceFunctions{Functions: []model.PreferenceFunction{&weighted_sum.WeightedSumPreferenceFunc{}}}
	listeners := model.BiasListeners{Listeners: []model.BiasListener{&weighted_sum.WeightedSumBiasListener{}}}
	refManager := *reference_criterion.NewReferenceCriteriaManager([]reference_criterion.ReferenceCriterionFactory{
		&reference_criterion.ImportanceRatioReferenceCriterionManager{},
	})
	biases := model.BiasMap{
		criteria_concealment.BiasName: criteria_concealment.NewCriteriaConcealment(utils.RandomBasedSeedValueGenerator, refManager),
	}
	dm := model.DecisionMaker{
		PreferenceFunction: "weightedSum",
		KnownAlternatives: []model.AlternativeWithCriteria{
			{Id: "x", Criteria: model.Weights{"a": 1, "b": 2}},
			{Id: "y", Criteria: model.Weights{"a": 2, "b": 1}},
		},
		ChoseToMake:      []model.Alternative{"x", "y"},
		Criteria:         model.Criteria{{Id: "a", Type: "gain"}, {Id: "b", Type: "gain"}},
		MethodParameters: utils.Map{"weights": model.Weights{"a": 1, "b": 2}},
		Biases:           biasesParams,
	}
	decision := dm.MakeDecision(funcs, listeners, &biases, utils.RandomBasedSeedValueGenerator)
	out, err := json.Marshal(decision)
	if err != nil {
		return false, err.Error()
	}
	return true, string(out)
}

func zzHunt4C02Repeat(t *testing.T, request func() model.BiasesParams) {
	const repetitions = 400
	firstAccepted, firstBody := zzHunt4C02Decide(request())
	bodies := map[string]int{}
	verdicts := map[bool]int{}
	for i := 0; i < repetitions; i++ {
		accepted, body := zzHunt4C02Decide(request())
		verdicts[accepted]++
		if accepted {
			bodies[body]++
		}
	}
	if len(verdicts) != 1 {
		t.Errorf("the same request was accepted %d times and rejected %d times", verdicts[true], verdicts[false])
	}
	if len(bodies) > 1 {
		t.Errorf("the same request got %d different accepted answers (first one: accepted=%v %.120s...)", len(bodies), firstAccepted, firstBody)
		for body, count := range bodies {
			t.Logf("%3d x %.160s...", count, body)
		}
	}
}

// the string-keyed spelling of the same requests IS rejected every time (the repaired rule ND-5) ...
func TestZZHunt4C02_StringKeyedMapIsRejected(t *testing.T) {
	for i := 0; i < 50; i++ {
		accepted, _ := zzHunt4C02Decide(model.BiasesParams{
			map[string]interface{}{
				"name":  "criteriaConcealment",
				"props": map[string]interface{}{"randomSeed": 1, "randomseed": 5},
			},
		})
		if accepted {
			t.Fatalf("string keyed ambiguous request accepted")
		}
	}
}

// ... the interface-keyed one is not: two different accepted answers for one request.
func TestZZHunt4C02_InterfaceKeyedSeed(t *testing.T) {
	zzHunt4C02Repeat(t, func() model.BiasesParams {
		return model.BiasesParams{
			map[interface{}]interface{}{
				"name":  "criteriaConcealment",
				"props": map[interface{}]interface{}{"randomSeed": 1, "randomseed": 5},
			},
		}
	})
}

// and the verdict itself flips: 'name' resolves to the existing bias or to the unknown one by turns.
func TestZZHunt4C02_InterfaceKeyedVerdict(t *testing.T) {
	zzHunt4C02Repeat(t, func() model.BiasesParams {
		return model.BiasesParams{
			map[interface{}]interface{}{
				"name":  "criteriaConcealment",
				"NAME":  "noSuchBias",
				"props": map[interface{}]interface{}{"randomSeed": 1},
			},
		}
	})
}
