package electreIII

// hunt4 / C05 demo - every nested (inner) distillation keeps its own copy of the credibility sub-matrix alive:
// memory grows with the cube of the number of alternatives, a request of 121 KB ends in "fatal error: out of memory".
//
// Copy to:  lib/logic/preference-func/electreIII/
// Run:      cd lib && export GOFLAGS=-mod=mod GOPROXY=off GOSUMDB=off GOTOOLCHAIN=local && \
//           go test -vet=off -count=1 -timeout 60m -v -run 'TestHunt4C05' ./logic/preference-func/electreIII/
//           (the failing test fails after about 30 s; on a repaired tree it may need some minutes, see below)
//
// The request is inside the domain of C05: 1100 alternatives, 10 gain criteria without thresholds ("true" criteria),
// positive weights 1,2,4,...,512, custom distillation function s(l) = 0 (non negative on [0,1], slope 0).
// Alternatives t0..t799 are identical (all values 0); b_k (k = 1..300) is, on every criterion, either below or above every
// alternative that comes after it, the set T_k of criteria on which it is below being the complement of the bits of k-1. Hence
//    sigma(x, b_k) = (1023-(k-1))/1023  and  sigma(b_k, x) = (k-1)/1023   for every later x,
// i.e. everybody outranks b_1 with credibility 1, b_2 with 1022/1023, b_3 with 1021/1023 ...  With s = 0 every cut level
// of the first distillation step removes exactly one alternative (b_1, then b_2, ...) from the set of ex-aequo best
// candidates, so the method needs 300 inner distillations before the first class (t0..t799) is found.
// ELECTRE III gives: t_i -> 1/1, b_k -> (302-k)/(302-k)   (checked against the code on a small instance below).
//
// The child process gets 3 GB of address space (ulimit -v). The 1100 x 1100 credibility matrix has 9.7 MB. The child dies
// with "fatal error: out of memory" (not recoverable - in the service the whole server process exits) because every
// nested distillate()/updatePositions() frame keeps its own Matrix.Slice() copy alive: sum of 8*m^2 bytes for
// m = 1100..800 = 2.2 GB live; 8*n^3/3 bytes in general when the candidates leave one by one.
// The control test shows that the same 1100 alternatives with the default distillation function (cut levels at least 0.15
// apart, so at most 7 nested levels) are answered within the same limit.
//
// Time (not asserted here): Slice() tests every column with a linear ContainsInts, an inner level costs m^3; the pure
// chain (no identical tail) costs n^5/20: measured 0.5 s / 8.9 s / 181 s for n = 100 / 200 / 400 (default function: 2.4 s).
// On a tree that repairs only the memory the failing test needs about 2 minutes (measured with a prototype repair).

import (
	"bytes"
	"encoding/json"
	"fmt"
	"os"
	"os/exec"
	"testing"
	"time"

	"github.com/Azbesciak/RealDecisionMaker/lib/model"
	"github.com/Azbesciak/RealDecisionMaker/lib/utils"
)

const hunt4C05ChildEnv = "HUNT4_C05_CHILD"

func hunt4C05Request(n, tail int, customDistillation bool) []byte {
	K := 1
	for (1 << uint(K-1)) < n-tail+1 {
		K++
	}
	type crit struct {
		Id   string `json:"id"`
		Type string `json:"type"`
	}
	type alt struct {
		Id       string             `json:"id"`
		Criteria map[string]float64 `json:"criteria"`
	}
	criteria := []crit{}
	ele := map[string]interface{}{}
	for c := 0; c < K; c++ {
		id := fmt.Sprintf("c%d", c)
		criteria = append(criteria, crit{id, "gain"})
		ele[id] = map[string]interface{}{"k": 1 << uint(c)}
	}
	alts := []alt{}
	ids := []string{}
	h := n - tail
	for k := 1; k <= n; k++ {
		a := alt{Id: fmt.Sprintf("b%d", k), Criteria: map[string]float64{}}
		if k > h {
			a.Id = fmt.Sprintf("t%d", k-h-1)
		}
		for c := 0; c < K; c++ {
			v := 0.0
			if k <= h {
				v = float64(h + 1 - k)
				if (k-1)&(1<<uint(c)) == 0 { // criterion in T_k: b_k is below everything that follows
					v = -v
				}
			}
			a.Criteria[fmt.Sprintf("c%d", c)] = v
		}
		alts = append(alts, a)
		ids = append(ids, a.Id)
	}
	methodParameters := map[string]interface{}{"electreCriteria": ele}
	if customDistillation {
		methodParameters["electreDistillation"] = map[string]float64{"a": 0, "b": 0}
	}
	body, err := json.Marshal(map[string]interface{}{
		"preferenceFunction": "electreIII",
		"knownAlternatives":  alts,
		"choseToMake":        ids,
		"criteria":           criteria,
		"methodParameters":   methodParameters,
	})
	if err != nil {
		panic(err)
	}
	return body
}

func hunt4C05Decide(body []byte) (res *model.DecisionMakerChoice, err interface{}) {
	defer func() {
		if e := recover(); e != nil {
			err = e
		}
	}()
	var dm model.DecisionMaker
	if e := json.NewDecoder(bytes.NewReader(body)).Decode(&dm); e != nil {
		return nil, e
	}
	funcs := model.PreferenceFunctions{Functions: []model.PreferenceFunction{&ElectreIIIPreferenceFunc{}}}
	listeners := model.BiasListeners{Listeners: []model.BiasListener{&ElectreIIIBiasLIstener{}}}
	return dm.MakeDecision(funcs, listeners, &model.BiasMap{}, utils.RandomBasedSeedValueGenerator), nil
}

func hunt4C05Check(t *testing.T, n, tail int, customDistillation bool) {
	body := hunt4C05Request(n, tail, customDistillation)
	st := time.Now()
	res, err := hunt4C05Decide(body)
	if err != nil {
		t.Fatalf("request (%d bytes) rejected: %v", len(body), err)
	}
	h := n - tail
	for i, r := range res.Result {
		if !customDistillation {
			break // control run: only "is answered" matters
		}
		ev := r.Evaluation.(ElectreIIIEvaluation)
		exp := 1
		if i < h {
			exp = h + 1 - i // b_k, k = i+1 -> h+2-k
		}
		if ev.AscendingIndex != exp || ev.DescendingIndex != exp {
			t.Fatalf("%s: got %d/%d, ELECTRE III gives %d/%d", r.Alternative.Id, ev.AscendingIndex, ev.DescendingIndex, exp, exp)
		}
	}
	t.Logf("n=%d request of %d bytes answered correctly in %v", n, len(body), time.Since(st))
}

// the construction itself is right: a small instance is answered with the expected indices
func TestHunt4C05_ChainSmallInstanceIsCorrect(t *testing.T) {
	hunt4C05Check(t, 40, 20, true)
}

func hunt4C05RunChild(test, mode string) (string, error) {
	cmd := exec.Command("sh", "-c", fmt.Sprintf(
		"ulimit -v 3145728; exec timeout 3000 %s -test.v -test.timeout 55m -test.run '^%s$'", os.Args[0], test))
	// few OS threads, so that thread stacks do not eat the address space
	cmd.Env = append(os.Environ(), hunt4C05ChildEnv+"="+mode, "GOMAXPROCS=2")
	out, err := cmd.CombinedOutput()
	text := string(out)
	if len(text) > 1200 {
		text = text[:1200] + "\n..."
	}
	return text, err
}

// control: the same 1100 alternatives with the default distillation function are answered within the same limit
func TestHunt4C05_ControlSameSizeDefaultDistillationWithin3GB(t *testing.T) {
	if os.Getenv(hunt4C05ChildEnv) != "" {
		hunt4C05Check(t, 1100, 800, false)
		return
	}
	text, err := hunt4C05RunChild("TestHunt4C05_ControlSameSizeDefaultDistillationWithin3GB", "control")
	if err != nil {
		t.Fatalf("control failed - the limit is too small for this machine, the demo is not conclusive: %v\n%s", err, text)
	}
	t.Log(text)
}

func TestHunt4C05_ChainRequestIsAnsweredWithin3GB(t *testing.T) {
	if os.Getenv(hunt4C05ChildEnv) != "" {
		hunt4C05Check(t, 1100, 800, true)
		return
	}
	text, err := hunt4C05RunChild("TestHunt4C05_ChainRequestIsAnsweredWithin3GB", "chain")
	if err != nil {
		t.Fatalf("1100 alternatives x 10 criteria, s = 0 (request of %d bytes; credibility matrix 9.7 MB): "+
			"the process did not answer within 3 GB: %v\n%s", len(hunt4C05Request(1100, 800, true)), err, text)
	}
	t.Log(text)
}
