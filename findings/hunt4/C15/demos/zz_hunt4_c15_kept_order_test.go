package client

// Demo for C15 (audit round hunt4): criteria omission hands the kept criteria on in the order of the chosen
// ordering (ascending importance for `weakest`) instead of the declared order. ELECTRE III and weighted sum add
// floating point terms in criteria order, so the decision after the omission is NOT the decision for the request
// with the omitted criteria deleted.
//
// Copy to:  lib/client/   (package client)
// Run:      cd lib && GOFLAGS=-mod=mod GOPROXY=off GOSUMDB=off GOTOOLCHAIN=local \
//           go test -vet=off -count=1 -run 'TestZZHunt4C15' ./client/
//
// Both tests FAIL on the current tree; they pass when omitCriteria keeps the declared order of the kept criteria.

import (
	"encoding/json"
	"fmt"
	"testing"

	"github.com/Azbesciak/RealDecisionMaker/lib/logic/biases/criteria-omission"
	"github.com/Azbesciak/RealDecisionMaker/lib/logic/preference-func/electreIII"
	"github.com/Azbesciak/RealDecisionMaker/lib/logic/preference-func/weighted-sum"
	"github.com/Azbesciak/RealDecisionMaker/lib/model"
	"github.com/Azbesciak/RealDecisionMaker/lib/model/criteria-ordering"
	"github.com/Azbesciak/RealDecisionMaker/lib/utils"
)

// same wiring as httpClient/main.go, restricted to what the two requests use
var zzH4C15Funcs = model.PreferenceFunctions{Functions: []model.PreferenceFunction{
	&weighted_sum.WeightedSumPreferenceFunc{},
	&electreIII.ElectreIIIPreferenceFunc{},
}}
var zzH4C15Listeners = model.BiasListeners{Listeners: []model.BiasListener{
	&weighted_sum.WeightedSumBiasListener{},
	&electreIII.ElectreIIIBiasLIstener{},
}}
var zzH4C15Ordering = []criteria_ordering.CriteriaOrderingResolver{
	&criteria_ordering.WeakestCriteriaOrderingResolver{},
	&criteria_ordering.StrongestCriteriaOrderingResolver{},
	&criteria_ordering.RandomCriteriaOrderingResolver{Generator: utils.RandomBasedSeedValueGenerator},
	&criteria_ordering.WeakestByProbabilityCriteriaOrderingResolver{Generator: utils.RandomBasedSeedValueGenerator},
	&criteria_ordering.StrongestByProbabilityCriteriaOrderingResolver{
		WeakestByProbability: &criteria_ordering.WeakestByProbabilityCriteriaOrderingResolver{Generator: utils.RandomBasedSeedValueGenerator},
	},
}
var zzH4C15Biases = model.BiasMap{
	criteria_omission.BiasName: criteria_omission.NewCriteriaOmission(zzH4C15Ordering),
}

type zzH4C15Entry struct {
	Alternative struct {
		Id string `json:"id"`
	} `json:"alternative"`
	Evaluation         map[string]interface{} `json:"evaluation"`
	BetterThanOrSameAs []string               `json:"betterThanOrSameAs"`
}
type zzH4C15Response struct {
	Result []zzH4C15Entry `json:"result"`
	Biases []struct {
		Props struct {
			OmittedCriteria []struct {
				Id string `json:"id"`
			} `json:"omittedCriteria"`
		} `json:"props"`
	} `json:"biases"`
}

// the POST /api/decide path: JSON -> DecisionMaker -> MakeDecision -> JSON
func zzH4C15Decide(t *testing.T, request string) zzH4C15Response {
	var dm model.DecisionMaker
	if err := json.Unmarshal([]byte(request), &dm); err != nil {
		t.Fatalf("request does not bind: %v", err)
	}
	decision := dm.MakeDecision(zzH4C15Funcs, zzH4C15Listeners, &zzH4C15Biases, utils.RandomBasedSeedValueGenerator)
	body, err := json.Marshal(decision)
	if err != nil {
		t.Fatal(err)
	}
	var resp zzH4C15Response
	if err := json.Unmarshal(body, &resp); err != nil {
		t.Fatal(err)
	}
	return resp
}

func zzH4C15Ranking(resp zzH4C15Response) string {
	out := ""
	for _, e := range resp.Result {
		out += fmt.Sprintf("  %s evaluation=%v betterThanOrSameAs=%v\n", e.Alternative.Id, e.Evaluation, e.BetterThanOrSameAs)
	}
	return out
}

func zzH4C15CheckOmitted(t *testing.T, resp zzH4C15Response, expected string) {
	om := resp.Biases[0].Props.OmittedCriteria
	if len(om) != 1 || om[0].Id != expected {
		t.Fatalf("expected exactly criterion %s omitted, got %v", expected, om)
	}
}

// ELECTRE III, default distillation, no thresholds, weights with one decimal, integer values.
// k: c1 .3, c2 .2, c3 .7, c4 .6, c5 .4 -> floor(5*0.25)=1 criterion omitted, the weakest one is c2 (unique).
// Kept criteria after the bias: [c1 c5 c4 c3] (ascending k); declared order of the reduced request: [c1 c3 c4 c5].
// Concordance of a1 over a2 = (.7+.6+.4)/2.0: 0.8499999999999999 when summed as c1,c3,c4,c5 and 0.8500000000000001 when
// summed as c1,c5,c4,c3. The first distillation cut is 1 - s(1) = 0.85, so in one case 0.85 is below the cut, in the
// other it is not: with the bias a1 is the single best alternative, for the reduced request a2 is and a1 comes third.
func TestZZHunt4C15ElectreOmissionEqualsReducedRequest(t *testing.T) {
	alternatives := `[
		{"id":"a1","criteria":{"c1":1,"c2":3,"c3":1,"c4":3,"c5":2}},
		{"id":"a2","criteria":{"c1":3,"c2":2,"c3":1,"c4":2,"c5":2}},
		{"id":"a3","criteria":{"c1":3,"c2":2,"c3":0,"c4":0,"c5":0}},
		{"id":"a4","criteria":{"c1":3,"c2":0,"c3":0,"c4":3,"c5":1}}]`
	withBias := `{
		"preferenceFunction":"electreIII",
		"knownAlternatives":` + alternatives + `,
		"choseToMake":["a1","a2","a3","a4"],
		"criteria":[{"id":"c1","type":"gain"},{"id":"c2","type":"gain"},{"id":"c3","type":"gain"},{"id":"c4","type":"gain"},{"id":"c5","type":"gain"}],
		"methodParameters":{"electreCriteria":{"c1":{"k":0.3},"c2":{"k":0.2},"c3":{"k":0.7},"c4":{"k":0.6},"c5":{"k":0.4}}},
		"biases":[{"name":"criteriaOmission","props":{"ratio":0.25}}]}`
	// the same request with criterion c2 deleted everywhere (criteria, alternative values, method parameters), no bias
	reduced := `{
		"preferenceFunction":"electreIII",
		"knownAlternatives":[
		{"id":"a1","criteria":{"c1":1,"c3":1,"c4":3,"c5":2}},
		{"id":"a2","criteria":{"c1":3,"c3":1,"c4":2,"c5":2}},
		{"id":"a3","criteria":{"c1":3,"c3":0,"c4":0,"c5":0}},
		{"id":"a4","criteria":{"c1":3,"c3":0,"c4":3,"c5":1}}],
		"choseToMake":["a1","a2","a3","a4"],
		"criteria":[{"id":"c1","type":"gain"},{"id":"c3","type":"gain"},{"id":"c4","type":"gain"},{"id":"c5","type":"gain"}],
		"methodParameters":{"electreCriteria":{"c1":{"k":0.3},"c3":{"k":0.7},"c4":{"k":0.6},"c5":{"k":0.4}}}}`
	biased := zzH4C15Decide(t, withBias)
	zzH4C15CheckOmitted(t, biased, "c2")
	plain := zzH4C15Decide(t, reduced)
	if zzH4C15Ranking(biased) != zzH4C15Ranking(plain) {
		t.Errorf("criteriaOmission of c2 does not give the decision of the request with c2 deleted\nwith the bias:\n%sreduced request:\n%s",
			zzH4C15Ranking(biased), zzH4C15Ranking(plain))
	}
}

// Weighted sum, values of the magnitude 1e8 with one decimal (utilities are not rounded to 1e-8 above 9e7).
// c1 is omitted (strongestByProbability, seed 68). a1 and a4 have the same utility 300000000.8 in exact arithmetic:
//   a1: 200000000.2 + 800000000.6 - 700000000   a4: 200000000.6 + 500000000.5 - 400000000.3
// Summed in the order the bias leaves the kept criteria a1 gets 300000000.8 and a4 300000000.79999995 (a1 strictly
// preferred); summed in the declared order c2,c3,c4 of the reduced request it is the other way round.
func TestZZHunt4C15WeightedSumOmissionEqualsReducedRequest(t *testing.T) {
	withBias := `{
		"preferenceFunction":"weightedSum",
		"knownAlternatives":[
		{"id":"a1","criteria":{"c1":400000000.2,"c2":200000000.2,"c3":800000000.6,"c4":700000000}},
		{"id":"a2","criteria":{"c1":400000000.9,"c2":500000000,"c3":500000000.6,"c4":700000000.9}},
		{"id":"a3","criteria":{"c1":200000000,"c2":700000000.1,"c3":600000000.4,"c4":100000000.8}},
		{"id":"a4","criteria":{"c1":400000000.9,"c2":200000000.6,"c3":500000000.5,"c4":400000000.3}},
		{"id":"a5","criteria":{"c1":500000000.1,"c2":400000000.4,"c3":300000000.8,"c4":700000000}}],
		"choseToMake":["a1","a2","a3","a4","a5"],
		"criteria":[{"id":"c1","type":"gain"},{"id":"c2","type":"gain"},{"id":"c3","type":"gain"},{"id":"c4","type":"cost"}],
		"methodParameters":{"weights":{"c1":0.7,"c2":0.3,"c3":0.08,"c4":0.09}},
		"biases":[{"name":"criteriaOmission","props":{"ratio":0.4,"min":1,"ordering":"strongestByProbability","randomSeed":68}}]}`
	reduced := `{
		"preferenceFunction":"weightedSum",
		"knownAlternatives":[
		{"id":"a1","criteria":{"c2":200000000.2,"c3":800000000.6,"c4":700000000}},
		{"id":"a2","criteria":{"c2":500000000,"c3":500000000.6,"c4":700000000.9}},
		{"id":"a3","criteria":{"c2":700000000.1,"c3":600000000.4,"c4":100000000.8}},
		{"id":"a4","criteria":{"c2":200000000.6,"c3":500000000.5,"c4":400000000.3}},
		{"id":"a5","criteria":{"c2":400000000.4,"c3":300000000.8,"c4":700000000}}],
		"choseToMake":["a1","a2","a3","a4","a5"],
		"criteria":[{"id":"c2","type":"gain"},{"id":"c3","type":"gain"},{"id":"c4","type":"cost"}],
		"methodParameters":{"weights":{"c2":0.3,"c3":0.08,"c4":0.09}}}`
	biased := zzH4C15Decide(t, withBias)
	zzH4C15CheckOmitted(t, biased, "c1")
	plain := zzH4C15Decide(t, reduced)
	if zzH4C15Ranking(biased) != zzH4C15Ranking(plain) {
		t.Errorf("criteriaOmission of c1 does not give the decision of the request with c1 deleted\nwith the bias:\n%sreduced request:\n%s",
			zzH4C15Ranking(biased), zzH4C15Ranking(plain))
	}
}
