package client

// Audit round hunt4, property C04 - demo 1 (weightedSum and owa).
//
// Copy to:  lib/client/   (package client)
// Run:      cd lib && GOFLAGS=-mod=mod GOPROXY=off GOSUMDB=off GOTOOLCHAIN=local \
//           go test -vet=off -count=1 -run TestHunt4C04_CriteriaStrengthSumOrder ./client
//
// The "strength" of a criterion that every criteria-ranking bias works with (criteriaOmission, preferenceReversal,
// and the reference criterion of criteriaConcealment / criteriaMixing / anchoring-newCriterion) is accumulated by
// model.PrepareCumulatedWeightsMap over the considered alternatives IN choseToMake ORDER. Floating point addition is
// not associative: (0.1+0.2)+0.3 = 0.6000000000000001 but (0.3+0.2)+0.1 = 0.6. Two criteria whose strengths are
// mathematically equal are therefore ranked c2 < c1 for choseToMake [a,b,c] and c1 < c2 for [c,b,a]; the omission
// drops a different criterion and the whole ranking is reversed although the request lists the same alternatives.

import (
	"encoding/json"
	"fmt"
	"reflect"
	"testing"

	criteria_omission "github.com/Azbesciak/RealDecisionMaker/lib/logic/biases/criteria-omission"
	preference_reversal "github.com/Azbesciak/RealDecisionMaker/lib/logic/biases/preference-reversal"
	"github.com/Azbesciak/RealDecisionMaker/lib/logic/preference-func/owa"
	weighted_sum "github.com/Azbesciak/RealDecisionMaker/lib/logic/preference-func/weighted-sum"
	"github.com/Azbesciak/RealDecisionMaker/lib/model"
	criteria_ordering "github.com/Azbesciak/RealDecisionMaker/lib/model/criteria-ordering"
	"github.com/Azbesciak/RealDecisionMaker/lib/utils"
)

type h4c04aEntry struct {
	Value float64
	Links []string
}

// the same wiring as httpClient/main.go, the body is decoded like decideHandler does (encoding/json into DecisionMaker)
func h4c04aDecide(t *testing.T, body string) (map[string]h4c04aEntry, []string) {
	ordering := []criteria_ordering.CriteriaOrderingResolver{
		&criteria_ordering.WeakestCriteriaOrderingResolver{},
		&criteria_ordering.StrongestCriteriaOrderingResolver{},
	}
	funcs := model.PreferenceFunctions{Functions: []model.PreferenceFunction{
		&weighted_sum.WeightedSumPreferenceFunc{}, &owa.OWAPreferenceFunc{},
	}}
	listeners := model.BiasListeners{Listeners: []model.BiasListener{
		&weighted_sum.WeightedSumBiasListener{}, &owa.OwaBiasListener{},
	}}
	biases := model.BiasMap{
		criteria_omission.BiasName:   criteria_omission.NewCriteriaOmission(ordering),
		preference_reversal.BiasName: preference_reversal.NewPreferenceReversal(ordering),
	}
	var dm model.DecisionMaker
	if err := json.Unmarshal([]byte(body), &dm); err != nil {
		t.Fatal(err)
	}
	decision := dm.MakeDecision(funcs, listeners, &biases, utils.RandomBasedSeedValueGenerator)
	res := map[string]h4c04aEntry{}
	var order []string
	for _, r := range decision.Result {
		res[r.Alternative.Id] = h4c04aEntry{r.Value(), append([]string{}, r.BetterThanOrSameAs...)}
		order = append(order, r.Alternative.Id)
	}
	return res, order
}

func TestHunt4C04_CriteriaStrengthSumOrder(t *testing.T) {
	alts := map[string]string{
		"a": `{"id":"a","criteria":{"c1":0.1,"c2":0.3}}`,
		"b": `{"id":"b","criteria":{"c1":0.2,"c2":0.2}}`,
		"c": `{"id":"c","criteria":{"c1":0.3,"c2":0.1}}`,
	}
	perms := [][]string{{"a", "b", "c"}, {"a", "c", "b"}, {"b", "a", "c"}, {"b", "c", "a"}, {"c", "a", "b"}, {"c", "b", "a"}}
	cases := []struct{ name, method, weights, bias string }{
		{"weightedSum+criteriaOmission", "weightedSum", `{"c1":1,"c2":1}`, `{"name":"criteriaOmission","props":{"ratio":0.5}}`},
		{"owa+criteriaOmission", "owa", `{"c1":0.5,"c2":0.5}`, `{"name":"criteriaOmission","props":{"ratio":0.5}}`},
		{"owa+preferenceReversal", "owa", `{"c1":0.5,"c2":0.5}`, `{"name":"preferenceReversal","props":{"ratio":0.5}}`},
	}
	for _, c := range cases {
		var first map[string]h4c04aEntry
		var firstOrder, firstChose []string
		for _, known := range perms {
			for _, chose := range perms {
				body := fmt.Sprintf(`{"preferenceFunction":%q,
 "criteria":[{"id":"c1","type":"gain"},{"id":"c2","type":"gain"}],
 "knownAlternatives":[%s,%s,%s],
 "choseToMake":[%q,%q,%q],
 "methodParameters":{"weights":%s},
 "biases":[%s]}`, c.method, alts[known[0]], alts[known[1]], alts[known[2]], chose[0], chose[1], chose[2], c.weights, c.bias)
				res, order := h4c04aDecide(t, body)
				if first == nil {
					first, firstOrder, firstChose = res, order, chose
					continue
				}
				if !reflect.DeepEqual(first, res) {
					t.Errorf("%s: the same alternatives, listed in another order, are ranked differently\n"+
						"  choseToMake %v -> result order %v, value/links %v\n"+
						"  choseToMake %v -> result order %v, value/links %v",
						c.name, firstChose, firstOrder, first, chose, order, res)
					goto nextCase
				}
			}
		}
	nextCase:
	}
}
