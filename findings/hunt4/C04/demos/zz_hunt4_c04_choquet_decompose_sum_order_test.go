package client

// Audit round hunt4, property C04 - demo 2 (choquetIntegral).
//
// Copy to:  lib/client/   (package client)
// Run:      cd lib && GOFLAGS=-mod=mod GOPROXY=off GOSUMDB=off GOTOOLCHAIN=local \
//           go test -vet=off -count=1 -run TestHunt4C04_ChoquetDecomposeSumOrder ./client
//
// choquet.decomposeWeights (behind ChoquetIntegralBiasListener.RankCriteriaAscending) adds the per-alternative shares
// of each criterion in choseToMake order. The shares of c1 and c2 below are mathematically equal (0.75 each); summed
// as a,b,c and as b,a,c they differ in the last bit in opposite directions, so "the weakest criterion" - the one that
// criteriaOmission drops - is c1 for one listing and c2 for the other, and every utility changes.

import (
	"encoding/json"
	"fmt"
	"reflect"
	"testing"

	criteria_omission "github.com/Azbesciak/RealDecisionMaker/lib/logic/biases/criteria-omission"
	"github.com/Azbesciak/RealDecisionMaker/lib/logic/preference-func/choquet"
	"github.com/Azbesciak/RealDecisionMaker/lib/model"
	criteria_ordering "github.com/Azbesciak/RealDecisionMaker/lib/model/criteria-ordering"
	"github.com/Azbesciak/RealDecisionMaker/lib/utils"
)

type h4c04bEntry struct {
	Value float64
	Links []string
}

func h4c04bDecide(t *testing.T, body string) (map[string]h4c04bEntry, []string) {
	ordering := []criteria_ordering.CriteriaOrderingResolver{&criteria_ordering.WeakestCriteriaOrderingResolver{}}
	funcs := model.PreferenceFunctions{Functions: []model.PreferenceFunction{&choquet.ChoquetIntegralPreferenceFunc{}}}
	listeners := model.BiasListeners{Listeners: []model.BiasListener{&choquet.ChoquetIntegralBiasListener{}}}
	biases := model.BiasMap{criteria_omission.BiasName: criteria_omission.NewCriteriaOmission(ordering)}
	var dm model.DecisionMaker
	if err := json.Unmarshal([]byte(body), &dm); err != nil {
		t.Fatal(err)
	}
	decision := dm.MakeDecision(funcs, listeners, &biases, utils.RandomBasedSeedValueGenerator)
	res := map[string]h4c04bEntry{}
	var order []string
	for _, r := range decision.Result {
		res[r.Alternative.Id] = h4c04bEntry{r.Value(), append([]string{}, r.BetterThanOrSameAs...)}
		order = append(order, r.Alternative.Id)
	}
	return res, order
}

func TestHunt4C04_ChoquetDecomposeSumOrder(t *testing.T) {
	perms := [][]string{{"a", "b", "c"}, {"a", "c", "b"}, {"b", "a", "c"}, {"b", "c", "a"}, {"c", "a", "b"}, {"c", "b", "a"}}
	var first map[string]h4c04bEntry
	var firstOrder, firstChose []string
	for _, chose := range perms {
		body := fmt.Sprintf(`{"preferenceFunction":"choquetIntegral",
 "criteria":[{"id":"c1","type":"gain"},{"id":"c2","type":"gain"}],
 "knownAlternatives":[{"id":"a","criteria":{"c1":0.7,"c2":0.6}},{"id":"b","criteria":{"c1":0.5,"c2":0.8}},{"id":"c","criteria":{"c1":0.4,"c2":0.2}}],
 "choseToMake":[%q,%q,%q],
 "methodParameters":{"weights":{"c1":0.5,"c2":0.5,"c1,c2":1}},
 "biases":[{"name":"criteriaOmission","props":{"ratio":0.5}}]}`, chose[0], chose[1], chose[2])
		res, order := h4c04bDecide(t, body)
		if first == nil {
			first, firstOrder, firstChose = res, order, chose
			continue
		}
		if !reflect.DeepEqual(first, res) {
			t.Fatalf("choquetIntegral+criteriaOmission: the same alternatives, listed in another order, are ranked differently\n"+
				"  choseToMake %v -> result order %v, value/links %v\n"+
				"  choseToMake %v -> result order %v, value/links %v",
				firstChose, firstOrder, first, chose, order, res)
		}
	}
}
