// Demo for hunt4 / C16: the mirror of the alternative sitting on the lower end of the range is not the upper end.
//
// Copy to:  lib/logic/biases/preference-reversal/
// Run:      cd lib && go test -vet=off -count=1 -run 'TestHunt4C16' ./logic/biases/preference-reversal/
//
// reverseCriteriaForEachAlternative evaluates (max - v) + min. For v == min the real number max + min - v is exactly
// max, but (max - min) + min is rounded twice and misses max by one ulp for 96 of the 4950 pairs of one-decimal
// numbers in [0.1, 10], e.g. [0.2, 0.9] (0.8999999999999999), [1.1, 5.2], [-0.1, 0.3] (0.30000000000000004; the same arithmetic
// that fix cb93802 removed from IdealCoefficientSatisfactionLevels.Next).
package preference_reversal_test

import (
	"testing"

	"github.com/Azbesciak/RealDecisionMaker/lib/logic/biases/preference-reversal"
	"github.com/Azbesciak/RealDecisionMaker/lib/logic/limited-rationality/satisfaction"
	"github.com/Azbesciak/RealDecisionMaker/lib/logic/limited-rationality/satisfaction-levels"
	"github.com/Azbesciak/RealDecisionMaker/lib/model"
	"github.com/Azbesciak/RealDecisionMaker/lib/model/criteria-ordering"
	"github.com/Azbesciak/RealDecisionMaker/lib/utils"
)

var hunt4Ordering = []criteria_ordering.CriteriaOrderingResolver{
	&criteria_ordering.WeakestCriteriaOrderingResolver{},
	&criteria_ordering.StrongestCriteriaOrderingResolver{},
}

func hunt4Decide(t *testing.T, declared bool, biases []interface{}) *model.DecisionMakerChoice {
	t.Helper()
	q := model.Criterion{Id: "q", Type: model.Gain}
	if declared {
		q.ValuesRange = &utils.ValueRange{Min: 0.2, Max: 0.9}
	}
	dm := model.DecisionMaker{
		PreferenceFunction: "satisfactionHeuristic",
		KnownAlternatives: []model.AlternativeWithCriteria{
			{Id: "a", Criteria: model.Weights{"q": 0.2, "p": 5}},
			{Id: "b", Criteria: model.Weights{"q": 0.9, "p": 5}},
			{Id: "c", Criteria: model.Weights{"q": 0.5, "p": 5}},
		},
		ChoseToMake: []model.Alternative{"b", "c", "a"},
		Criteria:    model.Criteria{q, {Id: "p", Type: model.Gain}},
		MethodParameters: model.RawMethodParameters{
			"function": "thresholds",
			"params": utils.Map{"thresholds": utils.Array{
				utils.Map{"q": 0.9, "p": 5.0}, // only an alternative on the upper end of q's range passes
				utils.Map{"q": 0.2, "p": 5.0},
			}},
		},
		Biases: biases,
	}
	decreasing := []satisfaction_levels.SatisfactionLevelsSource{&satisfaction_levels.DecreasingThresholds}
	updates := satisfaction_levels.SatisfactionLevelsUpdateListeners{Listeners: satisfaction_levels.ListenersMap{
		satisfaction_levels.Thresholds: &satisfaction_levels.DecreasingThresholds,
	}}
	funcs := model.PreferenceFunctions{Functions: []model.PreferenceFunction{
		satisfaction.NewSatisfaction(utils.RandomBasedSeedValueGenerator, decreasing),
	}}
	listeners := model.BiasListeners{Listeners: []model.BiasListener{satisfaction.NewSatisfactionBiasListener(updates)}}
	available := model.BiasMap{preference_reversal.BiasName: preference_reversal.NewPreferenceReversal(hunt4Ordering)}
	return dm.MakeDecision(funcs, listeners, &available, utils.RandomBasedSeedValueGenerator)
}

// q is the weakest criterion (sum 1.6 against 15), ratio 0.5 of two criteria selects exactly q
func hunt4Reversal() interface{} {
	return utils.Map{"name": "preferenceReversal", "props": utils.Map{"ratio": 0.5, "ordering": "weakest"}}
}

func hunt4Report(t *testing.T, choice *model.DecisionMakerChoice, i int) preference_reversal.ReversedPreferenceCriterion {
	t.Helper()
	props := choice.Biases[i].(model.BiasParams).Props.(preference_reversal.PreferenceReversalResult)
	if len(props.ReversedPreferenceCriteria) != 1 || props.ReversedPreferenceCriteria[0].Id != "q" {
		t.Fatalf("expected exactly q to be reversed, got %+v", props)
	}
	return props.ReversedPreferenceCriteria[0]
}

func hunt4Values(choice *model.DecisionMakerChoice) map[string]float64 {
	res := map[string]float64{}
	for _, r := range choice.Result {
		res[r.Alternative.Id] = r.Alternative.Criteria["q"]
	}
	return res
}

// clause "replaces the value v by max + min - v" / "each criterion's range is preserved":
// a sits on min = 0.2 of the range [0.2, 0.9] (declared or observed), so its mirror is max = 0.9 and the
// observed range of q after the reversal is again [0.2, 0.9].
func TestHunt4C16_MirrorOfMinIsMax(t *testing.T) {
	for _, declared := range []bool{true, false} {
		choice := hunt4Decide(t, declared, []interface{}{hunt4Reversal()})
		report := hunt4Report(t, choice, 0)
		if report.ValuesRange.Min != 0.2 || report.ValuesRange.Max != 0.9 {
			t.Fatalf("declared=%v: reported range %+v, expected [0.2, 0.9]", declared, report.ValuesRange)
		}
		if got := report.AlternativesValues["a"]; got != 0.9 {
			t.Errorf("declared=%v: report: a had q = min = 0.2, its mirror in [0.2, 0.9] is 0.9, reported %v", declared, got)
		}
		values := hunt4Values(choice)
		max := values["a"]
		for _, v := range values {
			if v > max {
				max = v
			}
		}
		if max != 0.9 {
			t.Errorf("declared=%v: observed range of q after the reversal is [.., %v], before it was [.., 0.9]: range not preserved", declared, max)
		}
	}
}

// observable consequence in the decision: after the reversal a is the only alternative on the upper end of q, so it
// is the only one to pass the first threshold set {q: 0.9, p: 5} and must win; it is reported as failing that level.
func TestHunt4C16_MirrorOfMinPassesThresholdAtMax(t *testing.T) {
	for _, declared := range []bool{true, false} {
		choice := hunt4Decide(t, declared, []interface{}{hunt4Reversal()})
		first := choice.Result[0]
		eval := first.Evaluation.(satisfaction.SatisfactionEvaluation)
		if first.Alternative.Id != "a" || eval.ThresholdsIndex != 0 {
			t.Errorf("declared=%v: expected a to win on threshold set 0 (q = 0.9 >= 0.9), got '%s' on threshold set %d (a.q = %v)",
				declared, first.Alternative.Id, eval.ThresholdsIndex, hunt4Values(choice)["a"])
		}
	}
}

// clause "reversing the same criteria a second time restores the data", checked only for the two alternatives on the
// ends of the range (where the exact mirror is a representable number, so no rounding argument applies):
// b does not get its 0.9 back, and with the declared range a comes back as 0.20000000000000012.
func TestHunt4C16_SecondReversalRestores(t *testing.T) {
	for _, declared := range []bool{true, false} {
		choice := hunt4Decide(t, declared, []interface{}{hunt4Reversal(), hunt4Reversal()})
		hunt4Report(t, choice, 0)
		hunt4Report(t, choice, 1)
		values := hunt4Values(choice)
		for id, want := range map[string]float64{"a": 0.2, "b": 0.9} { // the two ends of the range
			if values[id] != want {
				t.Errorf("declared=%v: %s.q = %v after two reversals, was %v", declared, id, values[id], want)
			}
		}
	}
}
