package fatigue


func (c *ConstFatigueFunction) Spec_Name() string {
	return FatConstFunc
}

func (c *ConstFatigueFunction) Spec_BlankParams() FatigueFunctionParams {
	return &ConstFatigueParams{}
}

func (c *ConstFatigueFunction) Spec_Evaluate(params FatigueFunctionParams) float64 {
	return params.(*ConstFatigueParams).Value
}
