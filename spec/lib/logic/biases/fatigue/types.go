// Reference declarations of the struct types of this package (fields, types and tags as the API documents them).
// Loaded by the analyzer as an in-memory overlay only; see DESIGN.md, engine E5 (rule E5-types).

package fatigue

import (
	"github.com/Azbesciak/RealDecisionMaker/lib/model"
	"github.com/Azbesciak/RealDecisionMaker/lib/model/criteria-bounding"
	"github.com/Azbesciak/RealDecisionMaker/lib/utils"
)

type Spec_ConstFatigueParams struct {
	Value float64 `json:"value"`
}

type Spec_ConstFatigueFunction struct {
}

type Spec_ExpFatigueParams struct {
	Alpha       float64 `json:"alpha"`
	Multiplier  float64 `json:"multiplier"`
	QueryNumber int64   `json:"queryNumber"`
}

type Spec_ExponentialFromZeroFatigue struct {
}

type Spec_FatigueResult struct {
	EffectiveFatigueRatio     float64                         `json:"effectiveFatigueRatio"`
	ConsideredAlternatives    []model.AlternativeWithCriteria `json:"consideredAlternatives"`
	NotConsideredAlternatives []model.AlternativeWithCriteria `json:"notConsideredAlternatives"`
}

type Spec_FatigueParams struct {
	Function   string      `json:"function"`
	Params     interface{} `json:"params"`
	RandomSeed int64       `json:"randomSeed"`
}

type Spec_Fatigue struct {
	valueGeneratorSource utils.SeededValueGenerator
	signGeneratorSource  utils.SeededValueGenerator
	functions            []FatigueFunction
}

type Spec_CriterionWithBounding struct {
	criterion model.Criterion
	bounding  *criteria_bounding.CriteriaInRangeBounding
}
