// Reference implementation (specification) for the RealDecisionMaker verification framework.
//
// This file is NOT part of the repository build. The analyzer (/verif/analyzer) loads it as an
// in-memory overlay next to the package it describes and compares, statically, the value graph of
// every Spec_X declaration with that of the repository's X (see DESIGN.md, engine E5). Each
// function states what the corresponding repository function has to compute according to
// /verif/properties.jsonl; it was reviewed against the property statements, not generated at
// check time, and it is never executed.

package fatigue

import (
	"github.com/Azbesciak/RealDecisionMaker/lib/utils"
)

func (e *ExponentialFromZeroFatigue) Spec_Name() string {
	return FatExpFromZero
}

func (e *ExponentialFromZeroFatigue) Spec_BlankParams() interface{} {
	return &ExpFatigueParams{}
}

func (e *ExponentialFromZeroFatigue) Spec_Evaluate(params interface{}) float64 {
	p := params.(*ExpFatigueParams)
	function := utils.ExpFromZeroFunction{
		Alpha:      p.Alpha,
		Multiplier: p.Multiplier,
	}
	return function.Spec_Evaluate(float64(p.QueryNumber))
}
