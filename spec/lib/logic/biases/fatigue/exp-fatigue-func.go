package fatigue

import (
	"github.com/Azbesciak/RealDecisionMaker/lib/utils"
)

func (e *ExponentialFromZeroFatigue) Spec_Name() string {
	return FatExpFromZero
}

func (e *ExponentialFromZeroFatigue) Spec_BlankParams() interface{} {
	return &ExpFatigueParams{}
}

func (e *ExponentialFromZeroFatigue) Spec_Evaluate(params interface{}) float64 {
	p := params.(*ExpFatigueParams)
	function := utils.ExpFromZeroFunction{
		Alpha:      p.Alpha,
		Multiplier: p.Multiplier,
	}
	return function.Evaluate(float64(p.QueryNumber))
}
