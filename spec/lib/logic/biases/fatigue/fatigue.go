// Reference implementation (specification) for the RealDecisionMaker verification framework.
//
// This file is NOT part of the repository build. The analyzer (/verif/analyzer) loads it as an
// in-memory overlay next to the package it describes and compares, statically, the value graph of
// every Spec_X declaration with that of the repository's X (see DESIGN.md, engine E5). Each
// function states what the corresponding repository function has to compute according to
// /verif/properties.jsonl; it was reviewed against the property statements, not generated at
// check time, and it is never executed.

package fatigue

import (
	"fmt"
	"github.com/Azbesciak/RealDecisionMaker/lib/model"
	"github.com/Azbesciak/RealDecisionMaker/lib/model/criteria-bounding"
	"github.com/Azbesciak/RealDecisionMaker/lib/utils"
)

func Spec_NewFatigue(
	valueGeneratorSource utils.SeededValueGenerator,
	signGeneratorSource utils.SeededValueGenerator,
	functions []FatigueFunction,
) *Fatigue {
	return &Fatigue{valueGeneratorSource: valueGeneratorSource, signGeneratorSource: signGeneratorSource, functions: functions}
}

func (f *Fatigue) Spec_Identifier() string {
	return BiasName
}

func (f *Fatigue) Spec_Apply(
	_, current *model.DecisionMakingParams,
	props *model.BiasProps,
	_ *model.BiasListener,
) *model.BiasedResult {
	parsedProps := Spec_parseProps(props)
	fun := f.Spec_getFatigueFunction(parsedProps)
	funParams := Spec_parseFatigueFuncParams(fun, parsedProps)
	fatigueRatio := fun.Evaluate(funParams)
	valueGenerator := f.valueGeneratorSource(parsedProps.RandomSeed)
	signGenerator := f.signGeneratorSource(parsedProps.RandomSeed)
	criteria := Spec_matchCriteriaWithBoundings(current, props)
	consideredAlts := Spec_blurCriteriaValues(
		current.ConsideredAlternatives, criteria,
		valueGenerator, signGenerator, fatigueRatio,
	)
	notConsideredAlts := Spec_blurCriteriaValues(
		current.NotConsideredAlternatives, criteria,
		valueGenerator, signGenerator, fatigueRatio,
	)
	return Spec_prepareResult(notConsideredAlts, consideredAlts, current, fatigueRatio)
}

func Spec_matchCriteriaWithBoundings(dmp *model.DecisionMakingParams, props *model.BiasProps) []CriterionWithBounding {
	bounding := criteria_bounding.Spec_FromParams(props)
	result := make([]CriterionWithBounding, len(dmp.Criteria))
	alternatives := dmp.Spec_AllAlternatives()
	for i, c := range dmp.Criteria {
		valuesRange := model.Spec_CriteriaValuesRange(&alternatives, &c)
		result[i] = CriterionWithBounding{
			criterion: c,
			bounding:  bounding.Spec_WithRange(valuesRange),
		}
	}
	return result
}

func Spec_prepareResult(
	notConsideredAlts []model.AlternativeWithCriteria,
	consideredAlts []model.AlternativeWithCriteria,
	current *model.DecisionMakingParams,
	fatigueRatio float64,
) *model.BiasedResult {
	return &model.BiasedResult{
		DMP: &model.DecisionMakingParams{
			NotConsideredAlternatives: notConsideredAlts,
			ConsideredAlternatives:    consideredAlts,
			Criteria:                  current.Criteria,
			MethodParameters:          current.MethodParameters,
		},
		Props: FatigueResult{
			EffectiveFatigueRatio:     fatigueRatio,
			ConsideredAlternatives:    consideredAlts,
			NotConsideredAlternatives: notConsideredAlts,
		},
	}
}

func Spec_blurCriteriaValues(
	alternatives []model.AlternativeWithCriteria,
	criteria []CriterionWithBounding,
	valueGenerator, signGenerator utils.ValueGenerator,
	fatigueRatio float64,
) []model.AlternativeWithCriteria {
	newAlternatives := make([]model.AlternativeWithCriteria, len(alternatives))
	for i, a := range alternatives {
		newWeights := make(model.Weights, len(criteria))
		for _, c := range criteria {
			currentValue := a.Spec_CriterionRawValue(&c.criterion)
			eps := currentValue * valueGenerator() * fatigueRatio
			sign := 1.0
			if signGenerator() >= 0.5 {
				sign = -1
			}
			blurredValue := currentValue + (eps * sign)
			boundedBlurredValue := c.bounding.Spec_BoundValue(blurredValue)
			newWeights[c.criterion.Id] = boundedBlurredValue
		}
		newAlternatives[i] = *a.Spec_WithCriteriaValues(&newWeights)
	}
	return newAlternatives
}

func Spec_parseFatigueFuncParams(fun FatigueFunction, parsedProps *FatigueParams) FatigueFunctionParams {
	funParams := fun.BlankParams()
	utils.Spec_DecodeToStruct(parsedProps.Params, funParams)
	return funParams
}

func Spec_parseProps(props *model.BiasProps) *FatigueParams {
	parsedProps := FatigueParams{}
	utils.Spec_DecodeToStruct(*props, &parsedProps)
	return &parsedProps
}

func (f *Fatigue) Spec_getFatigueFunction(params *FatigueParams) FatigueFunction {
	for _, fun := range f.functions {
		if fun.Name() == params.Function {
			return fun
		}
	}
	panic(fmt.Errorf("function type for fatigue not defined"))
}
