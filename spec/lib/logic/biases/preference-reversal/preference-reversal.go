// Reference implementation (specification) for the RealDecisionMaker verification framework.
//
// This file is NOT part of the repository build. The analyzer (/verif/analyzer) loads it as an
// in-memory overlay next to the package it describes and compares, statically, the value graph of
// every Spec_X declaration with that of the repository's X (see DESIGN.md, engine E5). Each
// function states what the corresponding repository function has to compute according to
// /verif/properties.jsonl; it was reviewed against the property statements, not generated at
// check time, and it is never executed.

package preference_reversal

import (
	"github.com/Azbesciak/RealDecisionMaker/lib/model"
	"github.com/Azbesciak/RealDecisionMaker/lib/model/criteria-ordering"
	"github.com/Azbesciak/RealDecisionMaker/lib/model/criteria-splitting"
	"github.com/Azbesciak/RealDecisionMaker/lib/utils"
)

func Spec_NewPreferenceReversal(
	orderingResolvers []criteria_ordering.CriteriaOrderingResolver,
) *PreferenceReversal {
	return &PreferenceReversal{
		orderingResolvers: orderingResolvers,
	}
}

func (p *PreferenceReversal) Spec_Identifier() string {
	return BiasName
}

func (p *PreferenceReversal) Spec_Apply(
	original, current *model.DecisionMakingParams,
	props *model.BiasProps,
	listener *model.BiasListener,
) *model.BiasedResult {
	ordering, condition := Spec_parseProps(props)
	resolver := criteria_ordering.Spec_FetchOrderingResolver(&p.orderingResolvers, ordering)
	sortedCriteria := resolver.OrderCriteria(current, props, listener)
	splitted := condition.Spec_SplitCriteriaByOrdering(sortedCriteria)
	criteriaToReverse := Spec_getCriteriaToReverse(splitted.Left, original, current)
	updatedAlternatives := Spec_updateAlternativesWithReversedCriteriaValues(criteriaToReverse, current)
	result := Spec_prepareReverseResult(criteriaToReverse, updatedAlternatives)
	return &model.BiasedResult{
		DMP: &model.DecisionMakingParams{
			NotConsideredAlternatives: *updatedAlternatives.notConsideredAlternatives,
			ConsideredAlternatives:    *updatedAlternatives.consideredAlternatives,
			Criteria:                  current.Criteria,
			MethodParameters:          current.MethodParameters,
		},
		Props: PreferenceReversalResult{
			ReversedPreferenceCriteria: result,
		},
	}
}

func Spec_prepareReverseResult(
	criteriaToReverse *[]criterionToReverse,
	reverseResult *criterionReversalResult,
) []ReversedPreferenceCriterion {
	result := make([]ReversedPreferenceCriterion, len(*criteriaToReverse))
	for i, c := range *criteriaToReverse {
		reversal := (*reverseResult.alternativesValues)[i]
		result[i] = ReversedPreferenceCriterion{
			Id:                 c.criterion.Id,
			Type:               c.criterion.Type,
			AlternativesValues: reversal,
			ValuesRange:        *c.valRange,
		}
	}
	return result
}

func Spec_parseProps(props *model.BiasProps) (*criteria_ordering.CriteriaOrdering, *criteria_splitting.CriteriaSplitCondition) {
	ordering := criteria_ordering.Spec_Parse(props)
	splittingProps := criteria_splitting.Spec_Parse(props)
	return ordering, splittingProps
}

func Spec_getCriteriaToReverse(
	criteriaToReverse *model.Criteria,
	_, currentParams *model.DecisionMakingParams,
) *[]criterionToReverse {
	allAlternatives := currentParams.Spec_AllAlternatives()
	result := make([]criterionToReverse, len(*criteriaToReverse))
	for i, c := range *criteriaToReverse {
		valRange := model.Spec_CriteriaValuesRange(&allAlternatives, &c)
		result[i] = criterionToReverse{
			criterion: c,
			valRange:  valRange,
		}
	}
	return &result
}

func Spec_updateAlternativesWithReversedCriteriaValues(
	criteriaToReverse *[]criterionToReverse,
	resParams *model.DecisionMakingParams,
) *criterionReversalResult {
	sortedAlternatives, alternativesValues := Spec_reverseCriteriaForEachAlternative(criteriaToReverse, resParams)
	return &criterionReversalResult{
		notConsideredAlternatives: model.Spec_UpdateAlternatives(&resParams.NotConsideredAlternatives, sortedAlternatives),
		consideredAlternatives:    model.Spec_UpdateAlternatives(&resParams.ConsideredAlternatives, sortedAlternatives),
		alternativesValues:        alternativesValues,
	}
}

func Spec_reverseCriteriaForEachAlternative(
	criteriaToReverse *[]criterionToReverse,
	resParams *model.DecisionMakingParams,
) (*[]model.AlternativeWithCriteria, *[]model.Weights) {
	allAlternatives := resParams.Spec_AllAlternatives()
	alternativesValues := make([]model.Weights, len(*criteriaToReverse))
	for i := range alternativesValues {
		alternativesValues[i] = make(model.Weights, len(allAlternatives))
	}
	for i, a := range allAlternatives {
		newCriteria := a.Criteria.Spec_Copy()
		for ic, c := range *criteriaToReverse {
			currentValue := newCriteria.Spec_Fetch(c.criterion.Id)
			newValue := Spec_mirrorInRange(currentValue, c.valRange)
			alternativesValues[ic][a.Id] = newValue
			(*newCriteria)[c.criterion.Id] = newValue
		}
		allAlternatives[i] = *a.Spec_WithCriteriaValues(newCriteria)
	}
	return &allAlternatives, &alternativesValues
}

func (p *PreferenceReversal) Spec_getCriterionValueRange(originalParams *model.DecisionMakingParams, referenceCriterion *model.Criterion) *utils.ValueRange {
	allAlternatives := originalParams.Spec_AllAlternatives()
	valRange := model.Spec_CriteriaValuesRange(&allAlternatives, referenceCriterion)
	return valRange
}

// C16: max + min - value, measured from the nearer end of the range, so that the two ends are mapped exactly onto
// each other (the range is preserved and a second reversal restores the end points)
func Spec_mirrorInRange(value float64, valRange *utils.ValueRange) float64 {
	if value-valRange.Min <= valRange.Max-value {
		return valRange.Max - (value - valRange.Min)
	}
	return valRange.Min + (valRange.Max - value)
}
