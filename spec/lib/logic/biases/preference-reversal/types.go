// Reference declarations of the struct types of this package (fields, types and tags as the API documents them).
// Loaded by the analyzer as an in-memory overlay only; see DESIGN.md, engine E5 (rule E5-types).

package preference_reversal

import (
	"github.com/Azbesciak/RealDecisionMaker/lib/model"
	"github.com/Azbesciak/RealDecisionMaker/lib/model/criteria-ordering"
	"github.com/Azbesciak/RealDecisionMaker/lib/utils"
)

type Spec_PreferenceReversal struct {
	orderingResolvers []criteria_ordering.CriteriaOrderingResolver
}

type Spec_PreferenceReversalParams struct {
}

type Spec_criterionToReverse struct {
	criterion model.Criterion
	valRange  *utils.ValueRange
}

type Spec_PreferenceReversalResult struct {
	ReversedPreferenceCriteria []ReversedPreferenceCriterion `json:"reversedPreferenceCriteria"`
}

type Spec_ReversedPreferenceCriterion struct {
	Id                 string              `json:"id"`
	Type               model.CriterionType `json:"type"`
	ValuesRange        utils.ValueRange    `json:"valuesRange"`
	AlternativesValues model.Weights       `json:"alternativesValues"`
}

type Spec_criterionReversalResult struct {
	notConsideredAlternatives *[]model.AlternativeWithCriteria
	consideredAlternatives    *[]model.AlternativeWithCriteria
	alternativesValues        *[]model.Weights
}
