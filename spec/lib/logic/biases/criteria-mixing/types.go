// Reference declarations of the struct types of this package (fields, types and tags as the API documents them).
// Loaded by the analyzer as an in-memory overlay only; see DESIGN.md, engine E5 (rule E5-types).

package criteria_mixing

import (
	"github.com/Azbesciak/RealDecisionMaker/lib/model"
	"github.com/Azbesciak/RealDecisionMaker/lib/model/reference-criterion"
	"github.com/Azbesciak/RealDecisionMaker/lib/utils"
)

type Spec_CriteriaMixingParams struct {
	// TODO interaction factor!! how to implement
	RandomSeed  int64   `json:"randomSeed"`
	MixingRatio float64 `json:"mixingRatio"`
}

type Spec_MixedCriterion struct {
	Component1   CriterionComponent     `json:"component1"`
	Component2   CriterionComponent     `json:"component2"`
	NewCriterion CriterionComponent     `json:"newCriterion"`
	Params       model.MethodParameters `json:"params"`
}

type Spec_CriterionComponent struct {
	Id           string              `json:"id"`
	Type         model.CriterionType `json:"type"`
	ScaledValues model.Weights       `json:"scaledValues"`
}

type Spec_MixedCriterionValue struct {
	Value model.Weight `json:"value"`
}

type Spec_CriteriaMixingResult struct {
}

type Spec_CriteriaMixing struct {
	generatorSource          utils.SeededValueGenerator
	referenceCriteriaManager reference_criterion.ReferenceCriteriaManager
}

type Spec_criteriaToMix struct {
	c1, c2 model.Criterion
}

type Spec_mixResult struct {
	c1, c2, result model.Weights
}
