// Reference implementation (specification) for the RealDecisionMaker verification framework.
//
// This file is NOT part of the repository build. The analyzer (/verif/analyzer) loads it as an
// in-memory overlay next to the package it describes and compares, statically, the value graph of
// every Spec_X declaration with that of the repository's X (see DESIGN.md, engine E5). Each
// function states what the corresponding repository function has to compute according to
// /verif/properties.jsonl; it was reviewed against the property statements, not generated at
// check time, and it is never executed.

package criteria_mixing

import (
	"fmt"
	"github.com/Azbesciak/RealDecisionMaker/lib/model"
	"github.com/Azbesciak/RealDecisionMaker/lib/model/reference-criterion"
	"github.com/Azbesciak/RealDecisionMaker/lib/utils"
	"math"
)

func (p *CriteriaMixingParams) Spec_validate() {
	if !utils.Spec_IsProbability(p.MixingRatio) {
		panic(fmt.Errorf("mixingRatio should be in range [0,1]"))
	}
}

func Spec_NewCriteriaMixing(
	generatorSource utils.SeededValueGenerator,
	referenceCriteriaManager reference_criterion.ReferenceCriteriaManager,
) *CriteriaMixing {
	return &CriteriaMixing{
		generatorSource:          generatorSource,
		referenceCriteriaManager: referenceCriteriaManager,
	}
}

func (c *CriteriaMixing) Spec_Identifier() string {
	return BiasName
}

func (c *CriteriaMixing) Spec_Apply(
	_, current *model.DecisionMakingParams,
	props *model.BiasProps,
	listener *model.BiasListener,
) *model.BiasedResult {
	// C20: the props are validated whether or not there is anything to mix
	parsedProps := Spec_parseProps(props)
	referenceCriterionProvider := c.referenceCriteriaManager.Spec_ForParams(props)
	if current.Criteria.Spec_Len() < 2 {
		return &model.BiasedResult{DMP: current}
	}
	generator := c.generatorSource(parsedProps.RandomSeed)
	c2m := Spec_selectCriteriaToMix(current, generator)
	allAlternatives := current.Spec_AllAlternatives()
	referenceCriterion := Spec_referenceCriterion(current, listener, referenceCriterionProvider)
	targetValRange := model.Spec_ValuesRangeWithGroundZero(&allAlternatives, referenceCriterion)
	mixResult := c2m.Spec_mix(&allAlternatives, targetValRange, parsedProps)
	newCriterion := c2m.Spec_criterion(&current.Criteria, targetValRange)
	criterionParams := (*listener).OnCriterionAdded(&newCriterion, referenceCriterion, current.MethodParameters, generator)
	newMethodParams := (*listener).Merge(current.MethodParameters, criterionParams)
	newAlternatives := Spec_updateAlternatives(allAlternatives, newCriterion, mixResult)
	newParams := Spec_updateDMParams(current, newAlternatives, newCriterion, newMethodParams)
	return &model.BiasedResult{
		DMP:   &newParams,
		Props: Spec_prepareMixedCriterion(c2m, mixResult, newCriterion, criterionParams),
	}
}

func Spec_updateDMParams(
	params *model.DecisionMakingParams,
	newAlternatives *[]model.AlternativeWithCriteria,
	newCriterion model.Criterion,
	newMethodParams model.MethodParameters,
) model.DecisionMakingParams {
	return model.DecisionMakingParams{
		NotConsideredAlternatives: *model.Spec_UpdateAlternatives(&params.NotConsideredAlternatives, newAlternatives),
		ConsideredAlternatives:    *model.Spec_UpdateAlternatives(&params.ConsideredAlternatives, newAlternatives),
		Criteria:                  params.Criteria.Spec_Add(&newCriterion),
		MethodParameters:          newMethodParams,
	}
}

func Spec_updateAlternatives(allAlternatives []model.AlternativeWithCriteria, newCriterion model.Criterion, mixResult *mixResult) *[]model.AlternativeWithCriteria {
	return model.Spec_AddCriterionToAlternatives(&allAlternatives, &newCriterion, func(alt *model.AlternativeWithCriteria) model.Weight {
		return mixResult.result[alt.Id]
	})
}

func Spec_prepareMixedCriterion(c2m criteriaToMix, mixResult *mixResult, newCriterion model.Criterion, criterionParams model.AddedCriterionParams) MixedCriterion {
	return MixedCriterion{
		Component1: CriterionComponent{
			Id:           c2m.c1.Id,
			Type:         c2m.c1.Type,
			ScaledValues: mixResult.c1,
		},
		Component2: CriterionComponent{
			Id:           c2m.c2.Id,
			Type:         c2m.c2.Type,
			ScaledValues: mixResult.c2,
		},
		NewCriterion: CriterionComponent{
			Id:           newCriterion.Id,
			Type:         newCriterion.Type,
			ScaledValues: mixResult.result,
		},
		Params: criterionParams,
	}
}

func Spec_selectCriteriaToMix(
	params *model.DecisionMakingParams,
	generator utils.ValueGenerator,
) criteriaToMix {
	criteriaNum := len(params.Criteria)
	i1 := int(generator() * float64(criteriaNum))
	offset := int(generator()*float64(criteriaNum-2)) + 1
	return criteriaToMix{params.Criteria[i1], params.Criteria[(i1+offset)%criteriaNum]}
}

func Spec_referenceCriterion(
	params *model.DecisionMakingParams,
	listener *model.BiasListener,
	refCriterionProvider reference_criterion.ReferenceCriterionProvider,
) *model.Criterion {
	ranked := (*listener).RankCriteriaAscending(params)
	return refCriterionProvider.Provide(ranked)
}

func (c *criteriaToMix) Spec_mix(
	allAlternatives *[]model.AlternativeWithCriteria,
	targetValuesRange *utils.ValueRange,
	props *CriteriaMixingParams,
) *mixResult {
	c1Values := model.Spec_RescaleCriterion(&c.c1, allAlternatives, targetValuesRange)
	c2Values := model.Spec_RescaleCriterion(&c.c2, allAlternatives, targetValuesRange)
	resultValues := make(model.Weights, len(c2Values))
	for a, c1Value := range c1Values {
		c2Value, ok := c2Values[a]
		if !ok {
			panic(fmt.Errorf("criterion value for '%s' not found for alternative '%s'", c.c2, a))
		}
		value := c1Value*props.MixingRatio + c2Value*(1-props.MixingRatio)
		// C18: "hence between the two rescaled components" - also after rounding
		value = math.Max(math.Min(c1Value, c2Value), math.Min(math.Max(c1Value, c2Value), value))
		resultValues[a] = value
	}
	return &mixResult{
		c1:     c1Values,
		c2:     c2Values,
		result: resultValues,
	}
}

func (c *criteriaToMix) Spec_criterion(currentCriteria *model.Criteria, valRange *utils.ValueRange) model.Criterion {
	// C18: a new id that names the two mixed criteria; C20: ids of mixed mixed criteria must not grow without bound
	// (Fibonacci growth exhausted the memory), beyond 128 bytes a short generated name is used instead
	name := "__" + c.c1.Id + "+" + c.c2.Id + "__"
	if len(name) > 128 {
		name = "__mixedCriterion__"
	}
	return model.Criterion{
		Id:          currentCriteria.Spec_NotUsedName(name),
		Type:        model.Gain,
		ValuesRange: valRange,
	}
}

func Spec_parseProps(props *model.BiasProps) *CriteriaMixingParams {
	parsedProps := CriteriaMixingParams{MixingRatio: 0.5}
	utils.Spec_DecodeToStruct(*props, &parsedProps)
	parsedProps.Spec_validate()
	return &parsedProps
}
