// Reference implementation (specification) for the RealDecisionMaker verification framework.
//
// This file is NOT part of the repository build. The analyzer (/verif/analyzer) loads it as an
// in-memory overlay next to the package it describes and compares, statically, the value graph of
// every Spec_X declaration with that of the repository's X (see DESIGN.md, engine E5). Each
// function states what the corresponding repository function has to compute according to
// /verif/properties.jsonl; it was reviewed against the property statements, not generated at
// check time, and it is never executed.

package criteria_concealment

import (
	"github.com/Azbesciak/RealDecisionMaker/lib/model"
	"github.com/Azbesciak/RealDecisionMaker/lib/model/criteria-bounding"
	"github.com/Azbesciak/RealDecisionMaker/lib/utils"
)

func (c *CriteriaConcealment) Spec_addCriterion(
	props *model.BiasProps,
	parsedProps CriteriaConcealmentParams,
	originalParams, resParams *model.DecisionMakingParams,
	listener *model.BiasListener,
	bounding *criteria_bounding.CriteriaBounding,
) (*model.DecisionMakingParams, []AddedCriterion) {
	generator := c.generatorSource(parsedProps.RandomSeed)
	criterionBase := c.Spec_generateNewCriterionBase(listener, parsedProps.NewCriterionScaling, props, originalParams, resParams)
	addResult := Spec_generateCriterionValuesForAlternatives(criterionBase.newCriterion, resParams, generator, bounding)
	addedCriterionParams := (*listener).OnCriterionAdded(criterionBase.newCriterion, criterionBase.referenceCriterion, resParams.MethodParameters, generator)
	finalParams := (*listener).Merge(resParams.MethodParameters, addedCriterionParams)
	newCriteria := resParams.Criteria.Spec_Add(criterionBase.newCriterion)
	return &model.DecisionMakingParams{
			NotConsideredAlternatives: *addResult.notConsideredAlternatives,
			ConsideredAlternatives:    *addResult.consideredAlternatives,
			Criteria:                  newCriteria,
			MethodParameters:          finalParams,
		}, []AddedCriterion{{
			Id:                 criterionBase.newCriterion.Id,
			Type:               criterionBase.newCriterion.Type,
			AlternativesValues: addResult.alternativesValues,
			MethodParameters:   addedCriterionParams,
			ValuesRange:        *criterionBase.newCriterion.ValuesRange,
		}}
}

func (c *CriteriaConcealment) Spec_generateNewCriterionBase(
	listener *model.BiasListener,
	scaling float64,
	props *model.BiasProps,
	originalParams, currentParams *model.DecisionMakingParams,
) newCriterionBase {
	refCriterionProvider := c.referenceCriterionManager.Spec_ForParams(props)
	rankedCriteria := (*listener).RankCriteriaAscending(currentParams)
	referenceCriterion := refCriterionProvider.Provide(rankedCriteria)
	valRange := Spec_getCriterionValueRange(currentParams, referenceCriterion, scaling)
	newCriterion := model.Criterion{
		Id:          Spec_newConcealedCriterionName(&currentParams.Criteria),
		Type:        model.Gain,
		ValuesRange: valRange,
	}
	return newCriterionBase{
		referenceCriterion: referenceCriterion,
		newCriterion:       &newCriterion,
	}
}

func Spec_newConcealedCriterionName(criteria *model.Criteria) string {
	return criteria.Spec_NotUsedName(baseConcealedCriterionName)
}

func Spec_generateCriterionValuesForAlternatives(
	newCriterion *model.Criterion,
	resParams *model.DecisionMakingParams,
	valueGenerator utils.ValueGenerator,
	bounding *criteria_bounding.CriteriaBounding,
) *addCriterionResult {
	generator := utils.Spec_NewValueInRangeGenerator(valueGenerator, newCriterion.ValuesRange)
	sortedAlternatives, alternativesValues := Spec_assignNewCriterionToAlternatives(resParams, generator, newCriterion, bounding)
	return &addCriterionResult{
		notConsideredAlternatives: model.Spec_UpdateAlternatives(&resParams.NotConsideredAlternatives, sortedAlternatives),
		consideredAlternatives:    model.Spec_UpdateAlternatives(&resParams.ConsideredAlternatives, sortedAlternatives),
		alternativesValues:        alternativesValues,
	}
}

func Spec_assignNewCriterionToAlternatives(
	resParams *model.DecisionMakingParams,
	generator utils.ValueGenerator,
	newCriterion *model.Criterion,
	bounding *criteria_bounding.CriteriaBounding,
) (*[]model.AlternativeWithCriteria, model.Weights) {
	allAlternatives := resParams.Spec_AllAlternatives()
	sortedAlternatives := model.Spec_SortAlternativesByName(&allAlternatives)
	alternativesValues := make(model.Weights, len(*sortedAlternatives))
	boundingInRange := bounding.Spec_WithRange(newCriterion.ValuesRange)
	sortedAlternatives = model.Spec_AddCriterionToAlternatives(sortedAlternatives, newCriterion,
		func(a *model.AlternativeWithCriteria) model.Weight {
			newValue := generator()
			newValue = boundingInRange.Spec_BoundValue(newValue)
			alternativesValues[a.Id] = newValue
			return newValue
		})
	return sortedAlternatives, alternativesValues
}

func Spec_getCriterionValueRange(originalParams *model.DecisionMakingParams, referenceCriterion *model.Criterion, scaling float64) *utils.ValueRange {
	allAlternatives := originalParams.Spec_AllAlternatives()
	valRange := model.Spec_CriteriaValuesRange(&allAlternatives, referenceCriterion).Spec_ScaleEqually(scaling)
	return valRange
}
