// Reference implementation (specification) for the RealDecisionMaker verification framework.
//
// This file is NOT part of the repository build. The analyzer (/verif/analyzer) loads it as an
// in-memory overlay next to the package it describes and compares, statically, the value graph of
// every Spec_X declaration with that of the repository's X (see DESIGN.md, engine E5). Each
// function states what the corresponding repository function has to compute according to
// /verif/properties.jsonl; it was reviewed against the property statements, not generated at
// check time, and it is never executed.

package criteria_concealment

import (
	"github.com/Azbesciak/RealDecisionMaker/lib/model"
	"github.com/Azbesciak/RealDecisionMaker/lib/model/criteria-bounding"
	"github.com/Azbesciak/RealDecisionMaker/lib/utils"
)

func (c *CriteriaConcealment) Spec_addCriterion(
	props *model.BiasProps,
	parsedProps CriteriaConcealmentParams,
	originalParams, resParams *model.DecisionMakingParams,
	listener *model.BiasListener,
	bounding *criteria_bounding.CriteriaBounding,
) (*model.DecisionMakingParams, []AddedCriterion) {
	generator := c.generatorSource(parsedProps.RandomSeed)
	criterionBase := c.generateNewCriterionBase(listener, parsedProps.NewCriterionScaling, props, originalParams, resParams)
	addResult := generateCriterionValuesForAlternatives(criterionBase.newCriterion, resParams, generator, bounding)
	addedCriterionParams := (*listener).OnCriterionAdded(criterionBase.newCriterion, criterionBase.referenceCriterion, resParams.MethodParameters, generator)
	finalParams := (*listener).Merge(resParams.MethodParameters, addedCriterionParams)
	newCriteria := resParams.Criteria.Add(criterionBase.newCriterion)
	return &model.DecisionMakingParams{
			NotConsideredAlternatives: *addResult.notConsideredAlternatives,
			ConsideredAlternatives:    *addResult.consideredAlternatives,
			Criteria:                  newCriteria,
			MethodParameters:          finalParams,
		}, []AddedCriterion{{
			Id:                 criterionBase.newCriterion.Id,
			Type:               criterionBase.newCriterion.Type,
			AlternativesValues: addResult.alternativesValues,
			MethodParameters:   addedCriterionParams,
			ValuesRange:        *criterionBase.newCriterion.ValuesRange,
		}}
}

func (c *CriteriaConcealment) Spec_generateNewCriterionBase(
	listener *model.BiasListener,
	scaling float64,
	props *model.BiasProps,
	originalParams, currentParams *model.DecisionMakingParams,
) newCriterionBase {
	refCriterionProvider := c.referenceCriterionManager.ForParams(props)
	rankedCriteria := (*listener).RankCriteriaAscending(currentParams)
	referenceCriterion := refCriterionProvider.Provide(rankedCriteria)
	valRange := getCriterionValueRange(currentParams, referenceCriterion, scaling)
	newCriterion := model.Criterion{
		Id:          newConcealedCriterionName(&currentParams.Criteria),
		Type:        model.Gain,
		ValuesRange: valRange,
	}
	return newCriterionBase{
		referenceCriterion: referenceCriterion,
		newCriterion:       &newCriterion,
	}
}

func Spec_newConcealedCriterionName(criteria *model.Criteria) string {
	return criteria.NotUsedName(baseConcealedCriterionName)
}

func Spec_generateCriterionValuesForAlternatives(
	newCriterion *model.Criterion,
	resParams *model.DecisionMakingParams,
	valueGenerator utils.ValueGenerator,
	bounding *criteria_bounding.CriteriaBounding,
) *addCriterionResult {
	generator := utils.NewValueInRangeGenerator(valueGenerator, newCriterion.ValuesRange)
	sortedAlternatives, alternativesValues := assignNewCriterionToAlternatives(resParams, generator, newCriterion, bounding)
	return &addCriterionResult{
		notConsideredAlternatives: model.UpdateAlternatives(&resParams.NotConsideredAlternatives, sortedAlternatives),
		consideredAlternatives:    model.UpdateAlternatives(&resParams.ConsideredAlternatives, sortedAlternatives),
		alternativesValues:        alternativesValues,
	}
}

func Spec_assignNewCriterionToAlternatives(
	resParams *model.DecisionMakingParams,
	generator utils.ValueGenerator,
	newCriterion *model.Criterion,
	bounding *criteria_bounding.CriteriaBounding,
) (*[]model.AlternativeWithCriteria, model.Weights) {
	allAlternatives := resParams.AllAlternatives()
	sortedAlternatives := model.SortAlternativesByName(&allAlternatives)
	alternativesValues := make(model.Weights, len(*sortedAlternatives))
	boundingInRange := bounding.WithRange(newCriterion.ValuesRange)
	sortedAlternatives = model.AddCriterionToAlternatives(sortedAlternatives, newCriterion,
		func(a *model.AlternativeWithCriteria) model.Weight {
			newValue := generator()
			newValue = boundingInRange.BoundValue(newValue)
			alternativesValues[a.Id] = newValue
			return newValue
		})
	return sortedAlternatives, alternativesValues
}

func Spec_getCriterionValueRange(originalParams *model.DecisionMakingParams, referenceCriterion *model.Criterion, scaling float64) *utils.ValueRange {
	allAlternatives := originalParams.AllAlternatives()
	valRange := model.CriteriaValuesRange(&allAlternatives, referenceCriterion).ScaleEqually(scaling)
	return valRange
}
