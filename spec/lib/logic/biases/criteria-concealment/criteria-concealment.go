// Reference implementation (specification) for the RealDecisionMaker verification framework.
//
// This file is NOT part of the repository build. The analyzer (/verif/analyzer) loads it as an
// in-memory overlay next to the package it describes and compares, statically, the value graph of
// every Spec_X declaration with that of the repository's X (see DESIGN.md, engine E5). Each
// function states what the corresponding repository function has to compute according to
// /verif/properties.jsonl; it was reviewed against the property statements, not generated at
// check time, and it is never executed.

package criteria_concealment

import (
	"github.com/Azbesciak/RealDecisionMaker/lib/model"
	"github.com/Azbesciak/RealDecisionMaker/lib/model/criteria-bounding"
	"github.com/Azbesciak/RealDecisionMaker/lib/model/reference-criterion"
	"github.com/Azbesciak/RealDecisionMaker/lib/utils"
)

func Spec_NewCriteriaConcealment(
	generatorSource utils.SeededValueGenerator,
	referenceCriterionManager reference_criterion.ReferenceCriteriaManager,
) *CriteriaConcealment {
	return &CriteriaConcealment{
		generatorSource:           generatorSource,
		referenceCriterionManager: referenceCriterionManager,
	}
}

func (c *CriteriaConcealment) Spec_Identifier() string {
	return BiasName
}

func (c *CriteriaConcealment) Spec_Apply(
	original, current *model.DecisionMakingParams,
	props *model.BiasProps,
	listener *model.BiasListener,
) *model.BiasedResult {
	parsedProps := *Spec_parseProps(props)
	bounding := criteria_bounding.Spec_FromParams(props)
	resParams, addedCriterion := c.Spec_addCriterion(props, parsedProps, original, current, listener, bounding)
	return &model.BiasedResult{
		DMP: resParams,
		Props: CriteriaConcealmentResult{
			AddedCriteria: addedCriterion,
		},
	}
}

func Spec_parseProps(props *model.BiasProps) *CriteriaConcealmentParams {
	parsedProps := CriteriaConcealmentParams{NewCriterionScaling: 1}
	utils.Spec_DecodeToStruct(*props, &parsedProps)
	if parsedProps.NewCriterionScaling == 0 {
		panic("`concealedCriterionScaling` cannot be 0")
	}
	return &parsedProps
}
