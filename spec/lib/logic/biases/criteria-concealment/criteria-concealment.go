package criteria_concealment

import (
	"github.com/Azbesciak/RealDecisionMaker/lib/model"
	"github.com/Azbesciak/RealDecisionMaker/lib/model/criteria-bounding"
	"github.com/Azbesciak/RealDecisionMaker/lib/model/reference-criterion"
	"github.com/Azbesciak/RealDecisionMaker/lib/utils"
)

func Spec_NewCriteriaConcealment(
	generatorSource utils.SeededValueGenerator,
	referenceCriterionManager reference_criterion.ReferenceCriteriaManager,
) *CriteriaConcealment {
	return &CriteriaConcealment{
		generatorSource:           generatorSource,
		referenceCriterionManager: referenceCriterionManager,
	}
}

func (c *CriteriaConcealment) Spec_Identifier() string {
	return BiasName
}

func (c *CriteriaConcealment) Spec_Apply(
	original, current *model.DecisionMakingParams,
	props *model.BiasProps,
	listener *model.BiasListener,
) *model.BiasedResult {
	parsedProps := *parseProps(props)
	bounding := criteria_bounding.FromParams(props)
	resParams, addedCriterion := c.addCriterion(props, parsedProps, original, current, listener, bounding)
	return &model.BiasedResult{
		DMP: resParams,
		Props: CriteriaConcealmentResult{
			AddedCriteria: addedCriterion,
		},
	}
}

func Spec_parseProps(props *model.BiasProps) *CriteriaConcealmentParams {
	parsedProps := CriteriaConcealmentParams{NewCriterionScaling: 1}
	utils.DecodeToStruct(*props, &parsedProps)
	if parsedProps.NewCriterionScaling == 0 {
		panic("`concealedCriterionScaling` cannot be 0")
	}
	return &parsedProps
}
