// Reference declarations of the struct types of this package (fields, types and tags as the API documents them).
// Loaded by the analyzer as an in-memory overlay only; see DESIGN.md, engine E5 (rule E5-types).

package criteria_concealment

import (
	"github.com/Azbesciak/RealDecisionMaker/lib/model"
	"github.com/Azbesciak/RealDecisionMaker/lib/model/reference-criterion"
	"github.com/Azbesciak/RealDecisionMaker/lib/utils"
)

type Spec_CriteriaConcealment struct {
	generatorSource           utils.SeededValueGenerator
	referenceCriterionManager reference_criterion.ReferenceCriteriaManager
}

type Spec_CriteriaConcealmentParams struct {
	RandomSeed          int64   `json:"randomSeed"`
	NewCriterionScaling float64 `json:"newCriterionScaling"`
}

type Spec_CriteriaConcealmentResult struct {
	AddedCriteria []AddedCriterion `json:"addedCriteria"`
}

type Spec_AddedCriterion struct {
	Id                 string                 `json:"id"`
	Type               model.CriterionType    `json:"type"`
	ValuesRange        utils.ValueRange       `json:"valuesRange"`
	AlternativesValues model.Weights          `json:"alternativesValues"`
	MethodParameters   model.MethodParameters `json:"methodParameters"`
}

type Spec_newCriterionBase struct {
	referenceCriterion *model.Criterion
	newCriterion       *model.Criterion
}

type Spec_addCriterionResult struct {
	notConsideredAlternatives *[]model.AlternativeWithCriteria
	consideredAlternatives    *[]model.AlternativeWithCriteria
	alternativesValues        model.Weights
}
