// Reference implementation (specification) for the RealDecisionMaker verification framework.
//
// This file is NOT part of the repository build. The analyzer (/verif/analyzer) loads it as an
// in-memory overlay next to the package it describes and compares, statically, the value graph of
// every Spec_X declaration with that of the repository's X (see DESIGN.md, engine E5). Each
// function states what the corresponding repository function has to compute according to
// /verif/properties.jsonl; it was reviewed against the property statements, not generated at
// check time, and it is never executed.

package criteria_omission

import (
	"github.com/Azbesciak/RealDecisionMaker/lib/model"
	"github.com/Azbesciak/RealDecisionMaker/lib/model/criteria-ordering"
	"github.com/Azbesciak/RealDecisionMaker/lib/model/criteria-splitting"
)

func Spec_NewCriteriaOmission(omissionResolvers []criteria_ordering.CriteriaOrderingResolver) *CriteriaOmission {
	if len(omissionResolvers) == 0 {
		panic("no criteria omission order resolvers")
	}
	return &CriteriaOmission{omissionResolvers: omissionResolvers}
}

func (c *CriteriaOmission) Spec_Identifier() string {
	return BiasName
}

func (c *CriteriaOmission) Spec_Apply(
	_, current *model.DecisionMakingParams,
	props *model.BiasProps,
	listener *model.BiasListener,
) *model.BiasedResult {
	parsedProps, splitting := Spec_parseProps(props)
	resolver := criteria_ordering.Spec_FetchOrderingResolver(&c.omissionResolvers, parsedProps)
	sortedCriteria := resolver.OrderCriteria(current, props, listener)
	resParams, omitted := Spec_omitCriteria(sortedCriteria, splitting, current, listener)
	return &model.BiasedResult{
		DMP:   resParams,
		Props: CriteriaOmissionResult{OmittedCriteria: *omitted},
	}
}

func Spec_parseProps(props *model.BiasProps) (*criteria_ordering.CriteriaOrdering, *criteria_splitting.CriteriaSplitCondition) {
	ordering := criteria_ordering.Spec_Parse(props)
	splittingProps := criteria_splitting.Spec_Parse(props)
	return ordering, splittingProps
}
