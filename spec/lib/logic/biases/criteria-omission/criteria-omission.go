package criteria_omission

import (
	"github.com/Azbesciak/RealDecisionMaker/lib/model"
	"github.com/Azbesciak/RealDecisionMaker/lib/model/criteria-ordering"
	"github.com/Azbesciak/RealDecisionMaker/lib/model/criteria-splitting"
)

func Spec_NewCriteriaOmission(omissionResolvers []criteria_ordering.CriteriaOrderingResolver) *CriteriaOmission {
	if len(omissionResolvers) == 0 {
		panic("no criteria omission order resolvers")
	}
	return &CriteriaOmission{omissionResolvers: omissionResolvers}
}

func (c *CriteriaOmission) Spec_Identifier() string {
	return BiasName
}

func (c *CriteriaOmission) Spec_Apply(
	_, current *model.DecisionMakingParams,
	props *model.BiasProps,
	listener *model.BiasListener,
) *model.BiasedResult {
	parsedProps, splitting := parseProps(props)
	resolver := criteria_ordering.FetchOrderingResolver(&c.omissionResolvers, parsedProps)
	sortedCriteria := resolver.OrderCriteria(current, props, listener)
	resParams, omitted := omitCriteria(sortedCriteria, splitting, current, listener)
	return &model.BiasedResult{
		DMP:   resParams,
		Props: CriteriaOmissionResult{OmittedCriteria: *omitted},
	}
}

func Spec_parseProps(props *model.BiasProps) (*criteria_ordering.CriteriaOrdering, *criteria_splitting.CriteriaSplitCondition) {
	ordering := criteria_ordering.Parse(props)
	splittingProps := criteria_splitting.Parse(props)
	return ordering, splittingProps
}
