// Reference declarations of the struct types of this package (fields, types and tags as the API documents them).
// Loaded by the analyzer as an in-memory overlay only; see DESIGN.md, engine E5 (rule E5-types).

package criteria_omission

import (
	"github.com/Azbesciak/RealDecisionMaker/lib/model"
	"github.com/Azbesciak/RealDecisionMaker/lib/model/criteria-ordering"
)

type Spec_CriteriaOmission struct {
	omissionResolvers []criteria_ordering.CriteriaOrderingResolver
}

type Spec_CriteriaOmissionParams struct {
}

type Spec_CriteriaOmissionResult struct {
	OmittedCriteria model.Criteria `json:"omittedCriteria"`
}
