// Reference implementation (specification) for the RealDecisionMaker verification framework.
//
// This file is NOT part of the repository build. The analyzer (/verif/analyzer) loads it as an
// in-memory overlay next to the package it describes and compares, statically, the value graph of
// every Spec_X declaration with that of the repository's X (see DESIGN.md, engine E5). Each
// function states what the corresponding repository function has to compute according to
// /verif/properties.jsonl; it was reviewed against the property statements, not generated at
// check time, and it is never executed.

package criteria_omission

import (
	"github.com/Azbesciak/RealDecisionMaker/lib/model"
	"github.com/Azbesciak/RealDecisionMaker/lib/model/criteria-splitting"
)

func Spec_omitCriteria(
	omissionOrderCriteria *model.Criteria,
	parsedProps *criteria_splitting.CriteriaSplitCondition,
	current *model.DecisionMakingParams,
	listener *model.BiasListener,
) (*model.DecisionMakingParams, *model.Criteria) {
	omissionPartition := parsedProps.Spec_SplitCriteriaByOrdering(omissionOrderCriteria)
	resultMethodParameters := (*listener).OnCriteriaRemoved(omissionPartition.Right, current.MethodParameters)
	consideredAlternatives := model.Spec_PreserveCriteriaForAlternatives(&current.ConsideredAlternatives, omissionPartition.Right)
	notConsideredAlternatives := model.Spec_PreserveCriteriaForAlternatives(&current.NotConsideredAlternatives, omissionPartition.Right)
	return &model.DecisionMakingParams{
		NotConsideredAlternatives: *notConsideredAlternatives,
		ConsideredAlternatives:    *consideredAlternatives,
		Criteria:                  *omissionPartition.Right,
		MethodParameters:          resultMethodParameters,
	}, omissionPartition.Left
}
