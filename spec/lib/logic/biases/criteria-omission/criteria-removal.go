// Reference implementation (specification) for the RealDecisionMaker verification framework.
//
// This file is NOT part of the repository build. The analyzer (/verif/analyzer) loads it as an
// in-memory overlay next to the package it describes and compares, statically, the value graph of
// every Spec_X declaration with that of the repository's X (see DESIGN.md, engine E5). Each
// function states what the corresponding repository function has to compute according to
// /verif/properties.jsonl; it was reviewed against the property statements, not generated at
// check time, and it is never executed.

package criteria_omission

import (
	"github.com/Azbesciak/RealDecisionMaker/lib/model"
	"github.com/Azbesciak/RealDecisionMaker/lib/model/criteria-splitting"
)

func Spec_omitCriteria(
	omissionOrderCriteria *model.Criteria,
	parsedProps *criteria_splitting.CriteriaSplitCondition,
	current *model.DecisionMakingParams,
	listener *model.BiasListener,
) (*model.DecisionMakingParams, *model.Criteria) {
	omissionPartition := parsedProps.Spec_SplitCriteriaByOrdering(omissionOrderCriteria)
	// C15: the ordering decides which criteria are omitted; the kept ones are handed on in the order they had before, so
	// that the decision equals the one for the request with the omitted criteria deleted
	keptCriteria := Spec_inOrderOf(&current.Criteria, omissionPartition.Right)
	resultMethodParameters := (*listener).OnCriteriaRemoved(keptCriteria, current.MethodParameters)
	consideredAlternatives := model.Spec_PreserveCriteriaForAlternatives(&current.ConsideredAlternatives, keptCriteria)
	notConsideredAlternatives := model.Spec_PreserveCriteriaForAlternatives(&current.NotConsideredAlternatives, keptCriteria)
	return &model.DecisionMakingParams{
		NotConsideredAlternatives: *notConsideredAlternatives,
		ConsideredAlternatives:    *consideredAlternatives,
		Criteria:                  *keptCriteria,
		MethodParameters:          resultMethodParameters,
	}, omissionPartition.Left
}

func Spec_inOrderOf(ordered, selected *model.Criteria) *model.Criteria {
	isSelected := make(map[string]bool, len(*selected))
	for _, c := range *selected {
		isSelected[c.Id] = true
	}
	result := make(model.Criteria, 0, len(*selected))
	for _, c := range *ordered {
		if isSelected[c.Id] {
			result = append(result, c)
		}
	}
	return &result
}
