package criteria_omission

import (
	"github.com/Azbesciak/RealDecisionMaker/lib/model"
	"github.com/Azbesciak/RealDecisionMaker/lib/model/criteria-splitting"
)

func Spec_omitCriteria(
	omissionOrderCriteria *model.Criteria,
	parsedProps *criteria_splitting.CriteriaSplitCondition,
	current *model.DecisionMakingParams,
	listener *model.BiasListener,
) (*model.DecisionMakingParams, *model.Criteria) {
	omissionPartition := parsedProps.SplitCriteriaByOrdering(omissionOrderCriteria)
	resultMethodParameters := (*listener).OnCriteriaRemoved(omissionPartition.Right, current.MethodParameters)
	consideredAlternatives := model.PreserveCriteriaForAlternatives(&current.ConsideredAlternatives, omissionPartition.Right)
	notConsideredAlternatives := model.PreserveCriteriaForAlternatives(&current.NotConsideredAlternatives, omissionPartition.Right)
	return &model.DecisionMakingParams{
		NotConsideredAlternatives: *notConsideredAlternatives,
		ConsideredAlternatives:    *consideredAlternatives,
		Criteria:                  *omissionPartition.Right,
		MethodParameters:          resultMethodParameters,
	}, omissionPartition.Left
}
