// Reference implementation (specification) for the RealDecisionMaker verification framework.
//
// This file is NOT part of the repository build. The analyzer (/verif/analyzer) loads it as an
// in-memory overlay next to the package it describes and compares, statically, the value graph of
// every Spec_X declaration with that of the repository's X (see DESIGN.md, engine E5). Each
// function states what the corresponding repository function has to compute according to
// /verif/properties.jsonl; it was reviewed against the property statements, not generated at
// check time, and it is never executed.

package anchoring

import (
	"github.com/Azbesciak/RealDecisionMaker/lib/model"
)

func (i *InlineAnchoringApplier) Spec_Identifier() string {
	return InlineAnchoringApplierName
}

func (i *InlineAnchoringApplier) Spec_BlankParams() FunctionParams {
	return &InlineAnchoringApplierParams{}
}

func (i *InlineAnchoringApplier) Spec_ApplyAnchoring(
	dmp *model.DecisionMakingParams,
	perReferencePointDiffs *[]ReferencePointsDifference,
	boundingsWithScales BoundingsWithScales,
	params FunctionParams,
	_ *model.BiasListener,
) (*model.DecisionMakingParams, AnchoringApplierResult) {
	parsedParams := params.(*InlineAnchoringApplierParams)
	newAlternatives := make([]model.AlternativeWithCriteria, len(*perReferencePointDiffs))
	appliedDifferences := make([]model.AlternativeWithCriteria, len(*perReferencePointDiffs))
	for i, p := range *perReferencePointDiffs {
		newWeights := *Spec_arithmeticAverage(p.ReferencePointsDifference)
		differences := make(model.Weights, len(boundingsWithScales))
		for c, scaling := range boundingsWithScales {
			difference := newWeights.Spec_Fetch(c)
			value := p.Alternative.Criteria.Spec_Fetch(c)
			newValue := value + scaling.scaling.ValuesRange.Spec_Diff()*difference
			newValue = scaling.bounding.Spec_BoundValue(newValue)
			differences[c] = newValue - value
			newWeights[c] = newValue
		}
		newAlternatives[i] = *p.Alternative.Spec_WithCriteriaValues(&newWeights)
		appliedDifferences[i] = *p.Alternative.Spec_WithCriteriaValues(&differences)
	}
	notConsidered := dmp.NotConsideredAlternatives
	result := InlineAnchoringApplierResult{
		AppliedDifferences: appliedDifferences,
	}
	if parsedParams.ApplyOnNotConsidered {
		notConsidered = *model.Spec_UpdateAlternatives(&notConsidered, &newAlternatives)
	} else {
		result.AppliedDifferences = *model.Spec_UpdateAlternatives(&dmp.ConsideredAlternatives, &appliedDifferences)
	}
	return &model.DecisionMakingParams{
		ConsideredAlternatives:    *model.Spec_UpdateAlternatives(&dmp.ConsideredAlternatives, &newAlternatives),
		NotConsideredAlternatives: notConsidered,
		Criteria:                  dmp.Criteria,
		MethodParameters:          dmp.MethodParameters,
	}, result
}

func Spec_arithmeticAverage(points []ReferencePointDifference) *model.Weights {
	newWeights := make(model.Weights, len(points[0].Coefficients))
	for i, a := range points {
		for c, v := range a.Coefficients {
			if i == 0 {
				newWeights[c] = v
			} else {
				oldWeight := newWeights.Spec_Fetch(c)
				newWeights[c] = oldWeight + v
			}
		}
	}
	referencePointsCount := float64(len(points))
	if referencePointsCount > 1 {
		for c, v := range newWeights {
			newWeights[c] = v / referencePointsCount
		}
	}
	return &newWeights
}
