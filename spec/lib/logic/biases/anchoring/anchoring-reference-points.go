// Reference implementation (specification) for the RealDecisionMaker verification framework.
//
// This file is NOT part of the repository build. The analyzer (/verif/analyzer) loads it as an
// in-memory overlay next to the package it describes and compares, statically, the value graph of
// every Spec_X declaration with that of the repository's X (see DESIGN.md, engine E5). Each
// function states what the corresponding repository function has to compute according to
// /verif/properties.jsonl; it was reviewed against the property statements, not generated at
// check time, and it is never executed.

package anchoring

import (
	"fmt"
	"github.com/Azbesciak/RealDecisionMaker/lib/model"
)

func Spec_calculateDiffsPerReferencePoint(
	alternatives []model.AlternativeWithCriteria,
	referencePoints []model.AlternativeWithCriteria,
	criteria *model.Criteria,
	scaleRatios CriteriaScaling,
	loss, gain AnchoringWithParams,
) []ReferencePointsDifference {
	referencePointsDiffs := make([]ReferencePointsDifference, len(alternatives))
	for ia, a := range alternatives {
		refPointDiffs := make([]ReferencePointDifference, len(referencePoints))
		for ir, r := range referencePoints {
			refPointDiffs[ir] = Spec_calculateReferencePointDiffs(criteria, a, r, scaleRatios, loss, gain)
		}
		referencePointsDiffs[ia] = ReferencePointsDifference{
			Alternative:               a,
			ReferencePointsDifference: refPointDiffs,
		}
	}
	return referencePointsDiffs
}

func Spec_calculateReferencePointDiffs(
	criteria *model.Criteria,
	a, r model.AlternativeWithCriteria,
	scaleRatios CriteriaScaling,
	loss, gain AnchoringWithParams,
) ReferencePointDifference {
	referencePointsDiffs := make(model.Weights, len(*criteria))
	for _, c := range *criteria {
		difference := a.Spec_CriterionValue(&c) - r.Spec_CriterionValue(&c)
		if scaleRatio, ok := scaleRatios[c.Id]; ok {
			// C19: the difference scaled by the criterion's value range (a division: the two ends of the range differ by 1)
			scaledDif := 0.0
			if scaleRatio.Scale != 0 {
				scaledDif = difference / scaleRatio.ValuesRange.Spec_Diff()
			}
			var value float64
			if scaledDif > 0 {
				value = gain.fun.Evaluate(gain.params, scaledDif)
			} else {
				value = -loss.fun.Evaluate(loss.params, -scaledDif)
			}
			referencePointsDiffs[c.Id] = value
		} else {
			panic(fmt.Errorf("unknown criterion '%s' in alternative '%s': %v", c.Id, a.Id, a))
		}
	}
	return ReferencePointDifference{
		ReferencePoint: r.Id,
		Coefficients:   referencePointsDiffs,
	}
}
