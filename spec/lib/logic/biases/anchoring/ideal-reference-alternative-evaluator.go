// Reference implementation (specification) for the RealDecisionMaker verification framework.
//
// This file is NOT part of the repository build. The analyzer (/verif/analyzer) loads it as an
// in-memory overlay next to the package it describes and compares, statically, the value graph of
// every Spec_X declaration with that of the repository's X (see DESIGN.md, engine E5). Each
// function states what the corresponding repository function has to compute according to
// /verif/properties.jsonl; it was reviewed against the property statements, not generated at
// check time, and it is never executed.

package anchoring

import (
	"fmt"
	"github.com/Azbesciak/RealDecisionMaker/lib/model"
)

func (i *IdealReferenceAlternativeEvaluator) Spec_Identifier() string {
	return IdealReferenceAltEvaluator
}

func (i *IdealReferenceAlternativeEvaluator) Spec_BlankParams() FunctionParams {
	return i
}

func (i *IdealReferenceAlternativeEvaluator) Spec_Evaluate(
	params FunctionParams,
	alternatives *[]AnchoringAlternativeWithCriteria,
	criteria *model.Criteria,
) []model.AlternativeWithCriteria {
	return Spec_findBest(alternatives, criteria, IdealReferenceAltEvaluator, func(c *model.Criterion, a, b valueWithCoefficient) bool {
		return Spec_canNewBeBetter(a, b) && Spec_isBetter(c, a, b)
	})
}

func (i *NadirReferenceAlternativeEvaluator) Spec_Identifier() string {
	return NadirReferenceAltEvaluator
}

func (i *NadirReferenceAlternativeEvaluator) Spec_BlankParams() FunctionParams {
	return i
}

func Spec_isBetter(criterion *model.Criterion, a, b valueWithCoefficient) bool {
	if criterion.Spec_IsGain() {
		aVal, bVal := a.value*a.coefficient, b.value*b.coefficient
		if aVal == bVal {
			return a.value <= b.value
		} else {
			return aVal < bVal
		}
	} else {
		// division replacement
		aVal, bVal := a.value*b.coefficient, b.value*a.coefficient
		if aVal == bVal {
			return a.value >= b.value
		} else {
			return aVal > bVal
		}
	}
}

func Spec_canNewBeBetter(a, b valueWithCoefficient) bool {
	if b.coefficient == 0 && a.coefficient == 0 {
		return true
	} else if a.coefficient == 0 {
		return true
	} else if b.coefficient == 0 {
		return false
	}
	return true
}

func (i *NadirReferenceAlternativeEvaluator) Spec_Evaluate(
	params FunctionParams,
	alternatives *[]AnchoringAlternativeWithCriteria,
	criteria *model.Criteria,
) []model.AlternativeWithCriteria {
	return Spec_findBest(alternatives, criteria, NadirReferenceAltEvaluator, func(c *model.Criterion, a, b valueWithCoefficient) bool {
		return Spec_canNewBeBetter(a, b) && !Spec_isBetter(c, a, b)
	})
}

func Spec_findBest(
	alternatives *[]AnchoringAlternativeWithCriteria,
	criteria *model.Criteria,
	name string,
	isBetter func(c *model.Criterion, a, b valueWithCoefficient) bool,
) []model.AlternativeWithCriteria {
	best := Spec_prepareCriteriaWithCoefficients(alternatives, criteria)
	Spec_findBestCriteriaValues(alternatives, criteria, best, isBetter)
	result := Spec_extractCriteriaValues(best)
	return []model.AlternativeWithCriteria{{
		Id:       name,
		Criteria: result,
	}}
}

func Spec_extractCriteriaValues(best *map[string]valueWithCoefficient) model.Weights {
	result := make(model.Weights, len(*best))
	for criterion, value := range *best {
		result[criterion] = value.value
	}
	return result
}

func Spec_findBestCriteriaValues(
	alternatives *[]AnchoringAlternativeWithCriteria,
	criteria *model.Criteria,
	best *map[string]valueWithCoefficient,
	isBetter func(c *model.Criterion, a valueWithCoefficient, b valueWithCoefficient) bool,
) {
	for i := 1; i < len(*alternatives); i++ {
		alt := (*alternatives)[i]
		for _, c := range *criteria {
			criterionValue := alt.Alternative.Spec_CriterionRawValue(&c)
			if oldValue, ok := (*best)[c.Id]; !ok {
				panic(fmt.Errorf("criterion '%s' not found in criteria %v", c.Id, *criteria.Spec_Names()))
			} else {
				newValue := valueWithCoefficient{
					value:       criterionValue,
					coefficient: alt.Coefficient,
				}
				if isBetter(&c, oldValue, newValue) {
					(*best)[c.Id] = newValue
				}
			}
		}
	}
}

func Spec_prepareCriteriaWithCoefficients(
	alternatives *[]AnchoringAlternativeWithCriteria,
	criteria *model.Criteria,
) *map[string]valueWithCoefficient {
	best := make(map[string]valueWithCoefficient, len(*criteria))
	firstAlternative := (*alternatives)[0]
	for criterionId, criterionValue := range firstAlternative.Alternative.Criteria {
		best[criterionId] = valueWithCoefficient{
			value:       criterionValue,
			coefficient: firstAlternative.Coefficient,
		}
	}
	return &best
}
