package anchoring

import (
	"github.com/Azbesciak/RealDecisionMaker/lib/model"
)

func Spec_evaluatePerCriterionNormalizationScaleRatio(criteria *model.Criteria, allAlternatives []model.AlternativeWithCriteria) CriteriaScaling {
	scaleRatios := make(CriteriaScaling, len(*criteria))
	for _, c := range *criteria {
		criterionRange := model.CriteriaValuesRange(&allAlternatives, &c)
		scale := model.GetNormalScaleRatio(criterionRange)
		scaleRatios[c.Id] = ScaleWithValueRange{
			Scale:       scale,
			ValuesRange: *criterionRange,
		}
	}
	return scaleRatios
}
