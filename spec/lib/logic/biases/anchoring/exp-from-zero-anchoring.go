package anchoring

import (
	"github.com/Azbesciak/RealDecisionMaker/lib/utils"
)

func (e *ExpFromZeroAnchoringEvaluator) Spec_Identifier() string {
	return ExpFromZeroFunctionName
}

func (e *ExpFromZeroAnchoringEvaluator) Spec_BlankParams() FunctionParams {
	return &utils.ExpFromZeroFunction{}
}

func (e *ExpFromZeroAnchoringEvaluator) Spec_Evaluate(params FunctionParams, difference float64) float64 {
	p := params.(*utils.ExpFromZeroFunction)
	return p.Evaluate(difference)
}
