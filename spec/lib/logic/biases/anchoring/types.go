// Reference declarations of the struct types of this package (fields, types and tags as the API documents them).
// Loaded by the analyzer as an in-memory overlay only; see DESIGN.md, engine E5 (rule E5-types).

package anchoring

import (
	"github.com/Azbesciak/RealDecisionMaker/lib/model"
	"github.com/Azbesciak/RealDecisionMaker/lib/model/criteria-bounding"
	"github.com/Azbesciak/RealDecisionMaker/lib/model/reference-criterion"
	"github.com/Azbesciak/RealDecisionMaker/lib/utils"
)

type Spec_ApplierWithParams struct {
	fun    AnchoringApplier
	params FunctionParams
}

type Spec_ReferencePointDifference struct {
	ReferencePoint model.Alternative `json:"referencePoint"`
	Coefficients   model.Weights     `json:"coefficients"`
}

type Spec_ReferencePointsDifference struct {
	Alternative               model.AlternativeWithCriteria `json:"alternative"`
	ReferencePointsDifference []ReferencePointDifference    `json:"referencePointsDifference"`
}

type Spec_ScaleWithValueRange struct {
	Scale       float64          `json:"scale"`
	ValuesRange utils.ValueRange `json:"valuesRange"`
}

type Spec_AnchoringParams struct {
	AnchoringAlternatives []AnchoringAlternative `json:"anchoringAlternatives"`
	Loss                  FunctionDefinition     `json:"loss"`
	Gain                  FunctionDefinition     `json:"gain"`
	ReferencePoints       FunctionDefinition     `json:"referencePoints"`
	// +CriteriaBounding
	Applier FunctionDefinition `json:"applier"`
}

type Spec_AnchoringAlternative struct {
	Alternative model.Alternative `json:"alternative"`
	Coefficient float64           `json:"coefficient"`
}

type Spec_AnchoringAlternativeWithCriteria struct {
	Alternative model.AlternativeWithCriteria `json:"alternative"`
	Coefficient float64                       `json:"coefficient"`
}

type Spec_AnchoringResult struct {
	ReferencePoints               []model.AlternativeWithCriteria `json:"referencePoints"`
	CriteriaScaling               CriteriaScaling                 `json:"criteriaScaling"`
	PerReferencePointsDifferences []ReferencePointsDifference     `json:"perReferencePointsDifferences"`
	ApplierResult                 AnchoringApplierResult          `json:"applierResult,omitempty"`
}

type Spec_Anchoring struct {
	anchoringEvaluators       []AnchoringEvaluator
	referencePointsEvaluators []ReferencePointsEvaluator
	anchoringAppliers         []AnchoringApplier
}

type Spec_AnchoringWithParams struct {
	fun    AnchoringEvaluator
	params FunctionParams
}

type Spec_BoundingWithScale struct {
	bounding *criteria_bounding.CriteriaInRangeBounding
	scaling  ScaleWithValueRange
}

type Spec_ExpFromZeroAnchoringEvaluator struct {
}

type Spec_IdealReferenceAlternativeEvaluator struct {
}

type Spec_valueWithCoefficient struct {
	value       float64
	coefficient float64
}

type Spec_NadirReferenceAlternativeEvaluator struct {
}

type Spec_InlineAnchoringApplier struct {
}

type Spec_InlineAnchoringApplierParams struct {
	ApplyOnNotConsidered bool `json:"applyOnNotConsidered"`
}

type Spec_InlineAnchoringApplierResult struct {
	AppliedDifferences []model.AlternativeWithCriteria `json:"appliedDifferences"`
}

type Spec_LinearAnchoringEvaluator struct {
}

type Spec_NewCriterionAnchoringApplier struct {
	generator                 utils.SeededValueGenerator
	referenceCriterionManager reference_criterion.ReferenceCriteriaManager
}

type Spec_NewCriterionAnchoringApplierParams struct {
	RandomSeed int64 `json:"randomSeed"`
}

type Spec_additionalCriterionAnchoringState struct {
	listener           *model.BiasListener
	referenceCriterion *model.Criterion
	generator          utils.SeededValueGenerator
	params             NewCriterionAnchoringApplierParams
	currentCriteria    model.Criteria
	methodParams       model.MethodParameters
	addedCriteria      []AddedCriterion
}

type Spec_AddedCriterion struct {
	Id                 string                 `json:"id"`
	Type               model.CriterionType    `json:"type"`
	ValuesRange        utils.ValueRange       `json:"valuesRange"`
	MethodParameters   model.MethodParameters `json:"methodParameters"`
	AlternativesValues model.Weights          `json:"alternativesValues"`
}

type Spec_NewCriterionAnchoringApplierResult struct {
	ReferenceCriterion model.Criterion  `json:"referenceCriterion"`
	AddedCriteria      []AddedCriterion `json:"addedCriteria"`
}

type Spec_FunctionDefinition struct {
	Function string         `json:"function"`
	Params   FunctionParams `json:"params"`
}
