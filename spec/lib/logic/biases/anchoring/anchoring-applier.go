// Reference implementation (specification) for the RealDecisionMaker verification framework.
//
// This file is NOT part of the repository build. The analyzer (/verif/analyzer) loads it as an
// in-memory overlay next to the package it describes and compares, statically, the value graph of
// every Spec_X declaration with that of the repository's X (see DESIGN.md, engine E5). Each
// function states what the corresponding repository function has to compute according to
// /verif/properties.jsonl; it was reviewed against the property statements, not generated at
// check time, and it is never executed.

package anchoring

import (
	"fmt"
)

func (a *Anchoring) Spec_getAnchoringApplier(params *FunctionDefinition) ApplierWithParams {
	for _, fun := range a.anchoringAppliers {
		if fun.Identifier() == params.Function {
			return ApplierWithParams{
				fun:    fun,
				params: Spec_parseFuncParams(fun, params),
			}
		}
	}
	existing := a.Spec_knownAnchoringAppliersNames()
	panic(fmt.Errorf("anchoring applier function '%s' not found in %v", params.Function, existing))
}

func (a *Anchoring) Spec_knownAnchoringAppliersNames() []string {
	existing := make([]string, len(a.anchoringAppliers))
	for i, id := range a.anchoringAppliers {
		existing[i] = id.Identifier()
	}
	return existing
}
