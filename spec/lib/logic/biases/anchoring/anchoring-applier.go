package anchoring

import (
	"fmt"
)

func (a *Anchoring) Spec_getAnchoringApplier(params *FunctionDefinition) ApplierWithParams {
	for _, fun := range a.anchoringAppliers {
		if fun.Identifier() == params.Function {
			return ApplierWithParams{
				fun:    fun,
				params: parseFuncParams(fun, params),
			}
		}
	}
	existing := a.knownAnchoringAppliersNames()
	panic(fmt.Errorf("anchoring applier function '%s' not found in %v", params.Function, existing))
}

func (a *Anchoring) Spec_knownAnchoringAppliersNames() []string {
	existing := make([]string, len(a.anchoringAppliers))
	for i, id := range a.anchoringAppliers {
		existing[i] = id.Identifier()
	}
	return existing
}
