// Reference implementation (specification) for the RealDecisionMaker verification framework.
//
// This file is NOT part of the repository build. The analyzer (/verif/analyzer) loads it as an
// in-memory overlay next to the package it describes and compares, statically, the value graph of
// every Spec_X declaration with that of the repository's X (see DESIGN.md, engine E5). Each
// function states what the corresponding repository function has to compute according to
// /verif/properties.jsonl; it was reviewed against the property statements, not generated at
// check time, and it is never executed.

package anchoring

import (
	"fmt"
	"github.com/Azbesciak/RealDecisionMaker/lib/model"
	"github.com/Azbesciak/RealDecisionMaker/lib/model/reference-criterion"
	"github.com/Azbesciak/RealDecisionMaker/lib/utils"
)

func Spec_NewNewCriterionAnchoringApplier(
	generator utils.SeededValueGenerator,
	referenceCriterionManager reference_criterion.ReferenceCriteriaManager,
) *NewCriterionAnchoringApplier {
	return &NewCriterionAnchoringApplier{
		generator:                 generator,
		referenceCriterionManager: referenceCriterionManager,
	}
}

func (n *NewCriterionAnchoringApplier) Spec_Identifier() string {
	return NewCriterionAnchoringApplierName
}

func (n *NewCriterionAnchoringApplier) Spec_BlankParams() FunctionParams {
	// C02: no default entry that could compete with a differently spelled key of the request (the zero seed is
	// the zero value of the decoded struct anyway)
	return &utils.Map{}
}

func Spec_addedCriterionName(criteria *model.Criteria, refPointDif model.Alternative) string {
	return criteria.Spec_NotUsedName("__anchoring_criterion_" + refPointDif)
}

func (a *additionalCriterionAnchoringState) Spec_newCriterion(ri int, r ReferencePointDifference) *AddedCriterion {
	if len(a.addedCriteria) == ri {
		generator := a.generator(a.params.RandomSeed + int64(ri))
		newCriterionName := Spec_addedCriterionName(&a.currentCriteria, r.ReferencePoint)
		criterion := model.Criterion{
			Id:          newCriterionName,
			Type:        a.referenceCriterion.Type,
			ValuesRange: a.referenceCriterion.ValuesRange,
		}
		a.currentCriteria = a.currentCriteria.Spec_Add(&criterion)
		newCriterionParams := (*a.listener).OnCriterionAdded(&criterion, a.referenceCriterion, a.methodParams, generator)
		addedCriterion := AddedCriterion{
			Id:                 criterion.Id,
			Type:               criterion.Type,
			ValuesRange:        utils.ValueRange{},
			MethodParameters:   newCriterionParams,
			AlternativesValues: model.Weights{},
		}
		a.addedCriteria = append(a.addedCriteria, addedCriterion)
		a.methodParams = (*a.listener).Merge(a.methodParams, newCriterionParams)
	}
	// cannot return addedCriterion in if because append makes a copy of it.
	return &a.addedCriteria[ri]
}

func (n *NewCriterionAnchoringApplier) Spec_ApplyAnchoring(
	dmp *model.DecisionMakingParams,
	perReferencePointDiffs *[]ReferencePointsDifference,
	boundingsWithScales BoundingsWithScales,
	params FunctionParams,
	listener *model.BiasListener,
) (*model.DecisionMakingParams, AnchoringApplierResult) {
	parsedParams := NewCriterionAnchoringApplierParams{}
	utils.Spec_DecodeToStruct(params, &parsedParams)
	referenceCriterionProvider := n.referenceCriterionManager.Spec_ForParams(&params)
	criteria := *(*listener).RankCriteriaAscending(dmp)
	state := additionalCriterionAnchoringState{
		listener:           listener,
		referenceCriterion: referenceCriterionProvider.Provide(&criteria),
		generator:          n.generator,
		params:             parsedParams,
		addedCriteria:      []AddedCriterion{},
		currentCriteria:    *dmp.Criteria.Spec_ShallowCopy(),
		methodParams:       dmp.MethodParameters,
	}
	Spec_normalizeCriteriaByTotalValue(criteria)
	if scaling, ok := boundingsWithScales[state.referenceCriterion.Id]; !ok {
		panic(fmt.Errorf("scaling for criterion '%s' not found", state.referenceCriterion.Id))
	} else {
		newAlternatives := Spec_addAnchoringCriteriaToAlternatives(perReferencePointDiffs, &state, &criteria, &scaling)
		result := NewCriterionAnchoringApplierResult{
			ReferenceCriterion: *state.referenceCriterion,
			AddedCriteria:      state.addedCriteria,
		}
		return &model.DecisionMakingParams{
			ConsideredAlternatives:    *model.Spec_UpdateAlternatives(&dmp.ConsideredAlternatives, &newAlternatives),
			NotConsideredAlternatives: *model.Spec_UpdateAlternatives(&dmp.NotConsideredAlternatives, &newAlternatives),
			Criteria:                  state.currentCriteria,
			MethodParameters:          state.methodParams,
		}, result
	}
}

func Spec_addAnchoringCriteriaToAlternatives(
	perReferencePointDiffs *[]ReferencePointsDifference,
	state *additionalCriterionAnchoringState,
	criteria *model.WeightedCriteria,
	bounding *BoundingWithScale,
) []model.AlternativeWithCriteria {
	diff := bounding.scaling.ValuesRange.Spec_Diff() / 2
	newAlternatives := make([]model.AlternativeWithCriteria, len(*perReferencePointDiffs))
	for i, p := range *perReferencePointDiffs {
		alt := p.Alternative
		for ri, r := range p.ReferencePointsDifference {
			anchoringCriterion := state.Spec_newCriterion(ri, r)
			criterionValue := 0.0
			for _, c := range *criteria {
				value := r.Coefficients.Spec_Fetch(c.Id)
				criterionValue += value * c.Weight
			}
			newValue := Spec_pointOfRange(&bounding.scaling.ValuesRange, diff, criterionValue)
			newValue = bounding.bounding.Spec_BoundValue(newValue)
			alt = *alt.Spec_WithCriterion(anchoringCriterion.Id, newValue)
			anchoringCriterion.AlternativesValues[alt.Id] = newValue
			valuesRange := &anchoringCriterion.ValuesRange
			if i == 0 {
				valuesRange.Min = newValue
				valuesRange.Max = newValue
			} else {
				if valuesRange.Min >= newValue {
					valuesRange.Min = newValue
				}
				if valuesRange.Max <= newValue {
					valuesRange.Max = newValue
				}
			}
		}
		newAlternatives[i] = alt
	}
	return newAlternatives
}

func Spec_normalizeCriteriaByTotalValue(criteria model.WeightedCriteria) {
	minWeight := criteria[0].Weight
	dif := 0.0
	if minWeight < _minAllowedWeight {
		dif = _minAllowedWeight - minWeight
	}
	total := 0.0
	for i, c := range criteria {
		weight := c.Weight + dif
		total += weight
		criteria[i].Weight = weight
	}
	for i, c := range criteria {
		criteria[i].Weight = c.Weight / total
	}
}

// C19: mid-range plus half-range x mean, measured from the end of the range the mean points to: means of 1 and -1 give
// the ends of the reference range exactly, means between them stay inside it
func Spec_pointOfRange(valuesRange *utils.ValueRange, halfRange, ratio float64) float64 {
	if ratio >= 0 {
		return valuesRange.Max - halfRange*(1-ratio)
	}
	return valuesRange.Min + halfRange*(1+ratio)
}
