package anchoring

import (
	"github.com/Azbesciak/RealDecisionMaker/lib/utils"
)

func Spec_parseFuncParams(fun FunctionBase, parsedProps *FunctionDefinition) FunctionParams {
	funParams := fun.BlankParams()
	utils.DecodeToStruct(parsedProps.Params, funParams)
	return funParams
}
