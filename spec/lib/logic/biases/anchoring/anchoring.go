// Reference implementation (specification) for the RealDecisionMaker verification framework.
//
// This file is NOT part of the repository build. The analyzer (/verif/analyzer) loads it as an
// in-memory overlay next to the package it describes and compares, statically, the value graph of
// every Spec_X declaration with that of the repository's X (see DESIGN.md, engine E5). Each
// function states what the corresponding repository function has to compute according to
// /verif/properties.jsonl; it was reviewed against the property statements, not generated at
// check time, and it is never executed.

package anchoring

import (
	"fmt"
	"github.com/Azbesciak/RealDecisionMaker/lib/model"
	"github.com/Azbesciak/RealDecisionMaker/lib/model/criteria-bounding"
	"github.com/Azbesciak/RealDecisionMaker/lib/utils"
)

func Spec_NewAnchoring(
	anchoringEvaluators []AnchoringEvaluator,
	referencePointsEvaluators []ReferencePointsEvaluator,
	anchoringAppliers []AnchoringApplier,
) *Anchoring {
	return &Anchoring{
		anchoringEvaluators:       anchoringEvaluators,
		referencePointsEvaluators: referencePointsEvaluators,
		anchoringAppliers:         anchoringAppliers,
	}
}

func (a *Anchoring) Spec_Identifier() string {
	return BiasName
}

func (a *Anchoring) Spec_Apply(
	_, current *model.DecisionMakingParams,
	props *model.BiasProps,
	listener *model.BiasListener,
) *model.BiasedResult {
	parsedProps := Spec_parseProps(props)
	loss := a.Spec_getAnchoringEvaluatorFunction(&parsedProps.Loss, "loss")
	gain := a.Spec_getAnchoringEvaluatorFunction(&parsedProps.Gain, "gain")
	applier := a.Spec_getAnchoringApplier(&parsedProps.Applier)
	allAlternatives := current.Spec_AllAlternatives()
	referencePoints := a.Spec_evaluateAnchoringAlternatives(allAlternatives, parsedProps, &current.Criteria)
	bounding := criteria_bounding.Spec_FromParams(&parsedProps.Applier.Params)
	criteriaScaling := Spec_evaluatePerCriterionNormalizationScaleRatio(&current.Criteria, allAlternatives)
	perReferencePointsDiffs := Spec_calculateDiffsPerReferencePoint(
		allAlternatives, referencePoints, &current.Criteria, criteriaScaling, loss, gain,
	)
	matchedBoundingsWithScales := Spec_matchScalingWithBounding(bounding, criteriaScaling)
	newDmp, applierResult := applier.fun.ApplyAnchoring(
		current, &perReferencePointsDiffs, matchedBoundingsWithScales, applier.params, listener,
	)
	return &model.BiasedResult{
		DMP: newDmp,
		Props: AnchoringResult{
			ReferencePoints:               referencePoints,
			CriteriaScaling:               criteriaScaling,
			PerReferencePointsDifferences: perReferencePointsDiffs,
			ApplierResult:                 applierResult,
		},
	}
}

func Spec_parseProps(props *model.BiasProps) *AnchoringParams {
	parsedProps := AnchoringParams{}
	utils.Spec_DecodeToStruct(*props, &parsedProps)
	Spec_checkAnchoringAlternatives(props, &parsedProps)
	return &parsedProps
}

func Spec_checkAnchoringAlternatives(props *model.BiasProps, params *AnchoringParams) {
	if len(params.AnchoringAlternatives) == 0 {
		panic(fmt.Errorf("no anchoring alternatives passed"))
	}
	asMap := (*props).(utils.Map)
	anchoringAltsObj := asMap["anchoringAlternatives"]
	anchoring, ok := anchoringAltsObj.([]map[string]interface{})
	if !ok {
		for _, p := range params.AnchoringAlternatives {
			p.Coefficient = 1
		}
	} else {
		for i, a := range anchoring {
			if _, ok := a["coefficient"]; !ok {
				(*params).AnchoringAlternatives[i].Coefficient = 1
			}
		}
	}
}

func Spec_fetchAnchoringAlternativesWithCriteria(alternatives *[]model.AlternativeWithCriteria, anchoringAlternatives *[]AnchoringAlternative) *[]AnchoringAlternativeWithCriteria {
	alternativesCount := len(*anchoringAlternatives)
	result := make([]AnchoringAlternativeWithCriteria, alternativesCount)
	for i, a := range *anchoringAlternatives {
		alternativeWithCriteria := model.Spec_FetchAlternative(alternatives, a.Alternative)
		result[i] = AnchoringAlternativeWithCriteria{
			Alternative: alternativeWithCriteria,
			Coefficient: a.Coefficient,
		}
	}
	return &result
}

func Spec_matchScalingWithBounding(bounding *criteria_bounding.CriteriaBounding, scaling CriteriaScaling) BoundingsWithScales {
	result := make(BoundingsWithScales, len(scaling))
	for c, s := range scaling {
		valuesRange := s.ValuesRange
		result[c] = BoundingWithScale{
			bounding: bounding.Spec_WithRange(&valuesRange),
			scaling:  s,
		}
	}
	return result
}
