// Reference implementation (specification) for the RealDecisionMaker verification framework.
//
// This file is NOT part of the repository build. The analyzer (/verif/analyzer) loads it as an
// in-memory overlay next to the package it describes and compares, statically, the value graph of
// every Spec_X declaration with that of the repository's X (see DESIGN.md, engine E5). Each
// function states what the corresponding repository function has to compute according to
// /verif/properties.jsonl; it was reviewed against the property statements, not generated at
// check time, and it is never executed.

package anchoring

import (
	"fmt"
	"github.com/Azbesciak/RealDecisionMaker/lib/model"
)

func (a *Anchoring) Spec_getAnchoringEvaluatorFunction(params *FunctionDefinition, anchoringType string) AnchoringWithParams {
	for _, fun := range a.anchoringEvaluators {
		if fun.Identifier() == params.Function {
			return AnchoringWithParams{
				fun:    fun,
				params: Spec_parseFuncParams(fun, params),
			}
		}
	}
	existing := a.Spec_knownAnchoringEvaluatorsNames()
	panic(fmt.Errorf("%s anchoring function '%s' not found in %v", anchoringType, params.Function, existing))
}

func (a *Anchoring) Spec_knownAnchoringEvaluatorsNames() []string {
	existing := make([]string, len(a.anchoringEvaluators))
	for i, id := range a.anchoringEvaluators {
		existing[i] = id.Identifier()
	}
	return existing
}

func (a *Anchoring) Spec_evaluateAnchoringAlternatives(
	allAlternatives []model.AlternativeWithCriteria,
	parsedProps *AnchoringParams,
	criteria *model.Criteria,
) []model.AlternativeWithCriteria {
	anchoringAlternatives := Spec_fetchAnchoringAlternativesWithCriteria(&allAlternatives, &parsedProps.AnchoringAlternatives)
	referencePointsEvaluator := a.Spec_getReferencePointsFunction(&parsedProps.ReferencePoints)
	referencePoints := referencePointsEvaluator.Evaluate(parsedProps.ReferencePoints, anchoringAlternatives, criteria)
	return referencePoints
}

func (a *Anchoring) Spec_getReferencePointsFunction(params *FunctionDefinition) ReferencePointsEvaluator {
	for _, fun := range a.referencePointsEvaluators {
		if fun.Identifier() == params.Function {
			return fun
		}
	}
	knownReferencePointsEvaluators := a.Spec_knownReferencePointsEvaluatorsNames()
	panic(fmt.Errorf(
		"reference points function type '%s' not found in %v",
		params.Function, knownReferencePointsEvaluators,
	))
}

func (a *Anchoring) Spec_knownReferencePointsEvaluatorsNames() []string {
	existing := make([]string, len(a.referencePointsEvaluators))
	for i, id := range a.referencePointsEvaluators {
		existing[i] = id.Identifier()
	}
	return existing
}
