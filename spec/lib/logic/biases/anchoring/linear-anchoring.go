package anchoring

import (
	"github.com/Azbesciak/RealDecisionMaker/lib/utils"
)

func (i *LinearAnchoringEvaluator) Spec_Identifier() string {
	return LinearFunctionName
}

func (i *LinearAnchoringEvaluator) Spec_BlankParams() FunctionParams {
	return &utils.LinearFunctionParameters{}
}

func (i *LinearAnchoringEvaluator) Spec_Evaluate(params FunctionParams, difference float64) float64 {
	p := params.(*utils.LinearFunctionParameters)
	res, _ := p.Evaluate(difference)
	return res
}
