// Reference implementation (specification) for the RealDecisionMaker verification framework.
//
// This file is NOT part of the repository build. The analyzer (/verif/analyzer) loads it as an
// in-memory overlay next to the package it describes and compares, statically, the value graph of
// every Spec_X declaration with that of the repository's X (see DESIGN.md, engine E5). Each
// function states what the corresponding repository function has to compute according to
// /verif/properties.jsonl; it was reviewed against the property statements, not generated at
// check time, and it is never executed.

package choquet

import (
	"fmt"
	"github.com/Azbesciak/RealDecisionMaker/lib/model"
	"github.com/Azbesciak/RealDecisionMaker/lib/utils"
	"sort"
	"strings"
)

func (c *ChoquetIntegralPreferenceFunc) Spec_ParseParams(dm *model.DecisionMaker) interface{} {
	weights := model.ExtractWeights(dm)
	parsedWeights := parse(&dm.Criteria, &weights)
	return choquetParams{weights: parsedWeights, criteria: &dm.Criteria}
}

func Spec_parse(criteria *model.Criteria, weights *model.Weights) *model.Weights {
	validateAllCriteriaAreGain(criteria)
	newWeights := remapWeights(weights)
	validateAllWeightsAvailable(newWeights, criteria)
	return prepareWeights(newWeights, criteria)
}

func Spec_remapWeights(weights *model.Weights) *model.Weights {
	result := make(model.Weights, len(*weights))
	for k, v := range *weights {
		criteria := containedCriteria(k)
		validCriterionKey := criterionKey(&criteria)
		if _, ok := result[validCriterionKey]; ok {
			if len(criteria) == 1 {
				panic(fmt.Errorf("value for criterion %v is redeclared", validCriterionKey))
			} else {
				panic(fmt.Errorf("values for criteria %v are redeclared", validCriterionKey))
			}
		}
		result[validCriterionKey] = v
	}
	return &result
}

func Spec_validateAllCriteriaAreGain(criteria *model.Criteria) {
	for _, c := range *criteria {
		if c.Type != model.Gain {
			panic(fmt.Errorf("%s: only Gain criteria acceptable for Choquet integral", c.Id))
		}
	}
}

func Spec_validateAllWeightsAvailable(weights *model.Weights, criteria *model.Criteria) {
	criteriaNames := criteria.Names()
	// combinations are checked one by one, in PowerSet order: the first missing one is reported
	// before more combinations than given weights were generated, whatever the number of criteria.
	EachSubSet(*criteriaNames, func(rcc []string) {
		getWeightForCriteriaUnion(&rcc, weights)
	})
}

func Spec_containedCriteria(key string) []string {
	return strings.Split(key, criteriaSeparator)
}

func Spec_prepareWeights(weights *model.Weights, criteria *model.Criteria) *model.Weights {
	resultWeights := make(model.Weights, len(*weights))
	for k, v := range *weights {
		splittedValues := containedCriteria(k)
		identifiable := utils.ToIdentifiable(criteria)
		if !utils.ContainsAll(identifiable, &splittedValues) {
			panic(fmt.Errorf("%s: not all weights are present in criteria %s", k, *criteria))
		}
		validateWeightValue(&splittedValues, v)
		resultWeights[criterionKey(&splittedValues)] = v
	}
	return &resultWeights
}

func Spec_validateWeightValue(criterionKey *[]string, v model.Weight) {
	if v < 0 || v > 1 {
		panic(fmt.Errorf("%s: weight must be in range [0,1], got %f", *criterionKey, v))
	}
}

func Spec_getWeightForCriteriaUnion(commonWeightCriteria *[]string, weights *model.Weights) model.Weight {
	weightKey := criterionKey(commonWeightCriteria)
	criteriaUnionWeight := getWeightForCombinedCriterion(weights, &weightKey)
	return criteriaUnionWeight
}

func Spec_getWeightForCombinedCriterion(weights *model.Weights, weightKey *string) model.Weight {
	criteriaUnionWeight, ok := (*weights)[*weightKey]
	if !ok {
		panic(fmt.Errorf("weight for criteria union '%s' not found", *weightKey))
	}
	return criteriaUnionWeight
}

func Spec_criterionKey(criteria *[]string) string {
	sort.Strings(*criteria)
	return strings.Join(*criteria, criteriaSeparator)
}
