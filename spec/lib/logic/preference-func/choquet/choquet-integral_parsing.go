// Reference implementation (specification) for the RealDecisionMaker verification framework.
//
// This file is NOT part of the repository build. The analyzer (/verif/analyzer) loads it as an
// in-memory overlay next to the package it describes and compares, statically, the value graph of
// every Spec_X declaration with that of the repository's X (see DESIGN.md, engine E5). Each
// function states what the corresponding repository function has to compute according to
// /verif/properties.jsonl; it was reviewed against the property statements, not generated at
// check time, and it is never executed.

package choquet

import (
	"fmt"
	"github.com/Azbesciak/RealDecisionMaker/lib/model"
	"github.com/Azbesciak/RealDecisionMaker/lib/utils"
	"sort"
	"strings"
)

func (c *ChoquetIntegralPreferenceFunc) Spec_ParseParams(dm *model.DecisionMaker) interface{} {
	weights := model.Spec_ExtractWeights(dm)
	parsedWeights := Spec_parse(&dm.Criteria, &weights)
	return choquetParams{weights: parsedWeights, criteria: &dm.Criteria}
}

func Spec_parse(criteria *model.Criteria, weights *model.Weights) *model.Weights {
	Spec_validateAllCriteriaAreGain(criteria)
	newWeights := Spec_remapWeights(weights)
	Spec_validateAllWeightsAvailable(newWeights, criteria)
	return Spec_prepareWeights(newWeights, criteria)
}

func Spec_remapWeights(weights *model.Weights) *model.Weights {
	result := make(model.Weights, len(*weights))
	for k, v := range *weights {
		criteria := Spec_containedCriteria(k)
		validCriterionKey := Spec_criterionKey(&criteria)
		if _, ok := result[validCriterionKey]; ok {
			if len(criteria) == 1 {
				panic(fmt.Errorf("value for criterion %v is redeclared", validCriterionKey))
			} else {
				panic(fmt.Errorf("values for criteria %v are redeclared", validCriterionKey))
			}
		}
		result[validCriterionKey] = v
	}
	return &result
}

func Spec_validateAllCriteriaAreGain(criteria *model.Criteria) {
	for _, c := range *criteria {
		// C20: a criterion without an explicit type is a gain criterion
		if !c.Spec_IsGain() {
			panic(fmt.Errorf("%s: only Gain criteria acceptable for Choquet integral", c.Id))
		}
	}
}

func Spec_validateAllWeightsAvailable(weights *model.Weights, criteria *model.Criteria) {
	criteriaNames := criteria.Spec_Names()
	// combinations are checked one by one, in PowerSet order: the first missing one is reported
	// before more combinations than given weights were generated, whatever the number of criteria.
	Spec_EachSubSet(*criteriaNames, func(rcc []string) {
		Spec_getWeightForCriteriaUnion(&rcc, weights)
	})
}

func Spec_containedCriteria(key string) []string {
	return strings.Split(key, criteriaSeparator)
}

func Spec_prepareWeights(weights *model.Weights, criteria *model.Criteria) *model.Weights {
	resultWeights := make(model.Weights, len(*weights))
	for k, v := range *weights {
		splittedValues := Spec_containedCriteria(k)
		identifiable := utils.Spec_ToIdentifiable(criteria)
		if !utils.Spec_ContainsAll(identifiable, &splittedValues) {
			panic(fmt.Errorf("%s: not all weights are present in criteria %s", k, *criteria))
		}
		Spec_validateWeightValue(&splittedValues, v)
		resultWeights[Spec_criterionKey(&splittedValues)] = v
	}
	return &resultWeights
}

func Spec_validateWeightValue(criterionKey *[]string, v model.Weight) {
	if v < 0 || v > 1 {
		panic(fmt.Errorf("%s: weight must be in range [0,1], got %f", *criterionKey, v))
	}
}

func Spec_getWeightForCriteriaUnion(commonWeightCriteria *[]string, weights *model.Weights) model.Weight {
	weightKey := Spec_criterionKey(commonWeightCriteria)
	criteriaUnionWeight := Spec_getWeightForCombinedCriterion(weights, &weightKey)
	return criteriaUnionWeight
}

func Spec_getWeightForCombinedCriterion(weights *model.Weights, weightKey *string) model.Weight {
	criteriaUnionWeight, ok := (*weights)[*weightKey]
	if !ok {
		panic(fmt.Errorf("weight for criteria union '%s' not found", *weightKey))
	}
	return criteriaUnionWeight
}

func Spec_criterionKey(criteria *[]string) string {
	sort.Strings(*criteria)
	return strings.Join(*criteria, criteriaSeparator)
}
