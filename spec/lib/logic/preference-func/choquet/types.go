// Reference declarations of the struct types of this package (fields, types and tags as the API documents them).
// Loaded by the analyzer as an in-memory overlay only; see DESIGN.md, engine E5 (rule E5-types).

package choquet

import (
	"github.com/Azbesciak/RealDecisionMaker/lib/model"
)

type Spec_ChoquetIntegralBiasListener struct {
}

type Spec_ChoquetIntegralPreferenceFunc struct {
}

type Spec_weightComponent struct {
	criteria   []string
	valueAdded model.Weight
}

type Spec_criterionWeight struct {
	criterion string
	weight    model.Weight
}

type Spec_choquetParams struct {
	weights  *model.Weights
	criteria *model.Criteria
}
