// Reference implementation (specification) for the RealDecisionMaker verification framework.
//
// This file is NOT part of the repository build. The analyzer (/verif/analyzer) loads it as an
// in-memory overlay next to the package it describes and compares, statically, the value graph of
// every Spec_X declaration with that of the repository's X (see DESIGN.md, engine E5). Each
// function states what the corresponding repository function has to compute according to
// /verif/properties.jsonl; it was reviewed against the property statements, not generated at
// check time, and it is never executed.

package choquet

import (
	"github.com/Azbesciak/RealDecisionMaker/lib/model"
	"github.com/Azbesciak/RealDecisionMaker/lib/utils"
	"sort"
)

func (c *ChoquetIntegralPreferenceFunc) Spec_Identifier() string {
	return methodName
}

func (c *ChoquetIntegralPreferenceFunc) Spec_MethodParameters() interface{} {
	return model.Spec_WeightsParamOnly()
}

func (c *ChoquetIntegralPreferenceFunc) Spec_Evaluate(dmp *model.DecisionMakingParams) *model.AlternativesRanking {
	params := dmp.MethodParameters.(choquetParams)
	prefFunc := func(alternative *model.AlternativeWithCriteria) *model.AlternativeResult {
		return Spec_choquetIntegral(alternative, params.weights)
	}
	return model.Spec_Rank(dmp, prefFunc)
}

func Spec_ChoquetIntegral(
	alternative model.AlternativeWithCriteria,
	criteria model.Criteria,
	weights model.Weights,
) *model.AlternativeResult {
	resultWeights := Spec_parse(&criteria, &weights)
	return Spec_choquetIntegral(&alternative, resultWeights)
}

func Spec_choquetIntegral(
	alternative *model.AlternativeWithCriteria,
	weights *model.Weights,
) *model.AlternativeResult {
	sortedCriteria := Spec_prepareCriteriaInAscendingOrder(alternative)
	result, _ := Spec_computeTotalWeight(sortedCriteria, weights)
	return model.Spec_ValueAlternativeResult(alternative, result)
}

func Spec_computeTotalWeight(sortedCriteria *criteriaWeights, weights *model.Weights) (model.Weight, []weightComponent) {
	var result model.Weight = 0
	var previousWeight model.Weight = 0
	var components []weightComponent
	totalElements := len(*sortedCriteria)
	for i := 0; i < totalElements; {
		commonWeightCriteria := make([]string, totalElements-i)
		for x := 0; x < totalElements-i; x++ {
			commonWeightCriteria[x] = (*sortedCriteria)[i+x].criterion
		}
		var current = (*sortedCriteria)[i]
		var j int
		for j = i + 1; j < totalElements; j++ {
			var nextValue = (*sortedCriteria)[j]
			if !utils.Spec_FloatsAreEqual(current.weight, nextValue.weight, 0.00001) {
				break
			}
		}
		criteriaUnionWeight := Spec_getWeightForCriteriaUnion(&commonWeightCriteria, weights)
		valueAdded := criteriaUnionWeight * (current.weight - previousWeight)
		result += valueAdded
		components = append(components, weightComponent{commonWeightCriteria, valueAdded})
		previousWeight = current.weight
		i = j
	}
	return result, components
}

func Spec_prepareCriteriaInAscendingOrder(alternative *model.AlternativeWithCriteria) *criteriaWeights {
	var sorted = make(criteriaWeights, len(alternative.Criteria))
	i := 0
	for k, v := range alternative.Criteria {
		sorted[i] = criterionWeight{k, v}
		i++
	}
	sort.Sort(&sorted)
	return &sorted
}

func (c *criteriaWeights) Spec_Len() int {
	return len(*c)
}

func (c *criteriaWeights) Spec_Less(i, j int) bool {
	return (*c)[i].weight < (*c)[j].weight
}

func (c *criteriaWeights) Spec_Swap(i, j int) {
	(*c)[i], (*c)[j] = (*c)[j], (*c)[i]
}
