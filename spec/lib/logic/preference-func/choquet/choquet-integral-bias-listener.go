// Reference implementation (specification) for the RealDecisionMaker verification framework.
//
// This file is NOT part of the repository build. The analyzer (/verif/analyzer) loads it as an
// in-memory overlay next to the package it describes and compares, statically, the value graph of
// every Spec_X declaration with that of the repository's X (see DESIGN.md, engine E5). Each
// function states what the corresponding repository function has to compute according to
// /verif/properties.jsonl; it was reviewed against the property statements, not generated at
// check time, and it is never executed.

package choquet

import (
	"fmt"
	"github.com/Azbesciak/RealDecisionMaker/lib/model"
	"github.com/Azbesciak/RealDecisionMaker/lib/utils"
)

func (c *ChoquetIntegralBiasListener) Spec_Identifier() string {
	return methodName
}

func (c *ChoquetIntegralBiasListener) Spec_OnCriterionAdded(
	criterion *model.Criterion,
	referenceCriterion *model.Criterion,
	params model.MethodParameters,
	generator utils.ValueGenerator,
) model.AddedCriterionParams {
	parsedParams := params.(choquetParams)
	oldWeights := parsedParams.weights
	newCriteria := parsedParams.criteria.Spec_Add(criterion)
	// C20: the capacities double with every added criterion; beyond 20 criteria the addition is refused (a 400), so that
	// no request can exhaust the memory by repeating a criterion-adding bias
	if len(newCriteria) > 20 {
		panic(fmt.Errorf("choquet integral: cannot add criterion '%s', at most %d criteria are supported", criterion.Id, 20))
	}
	newWeightsKeys := Spec_PowerSet(*newCriteria.Spec_Names())
	newWeights := make(model.Weights, len(*newWeightsKeys))
	for _, k := range *newWeightsKeys {
		cKey := Spec_criterionKey(&k)
		if _, ok := (*oldWeights)[cKey]; ok {
			continue
		}
		originalKeyCriteriaWithoutNewOne := utils.Spec_RemoveSingleStringOccurrence(k, criterion.Id)
		if len(originalKeyCriteriaWithoutNewOne) == 0 {
			newWeights[criterion.Id] = generator()
			continue
		}
		newWeights[cKey] = Spec_getWeightForCriteriaUnion(&originalKeyCriteriaWithoutNewOne, oldWeights)
	}
	return choquetParams{weights: &newWeights, criteria: &model.Criteria{*criterion}}
}

func (c *ChoquetIntegralBiasListener) Spec_OnCriteriaRemoved(
	leftCriteria *model.Criteria,
	params model.MethodParameters,
) model.MethodParameters {
	cParams := params.(choquetParams)
	expectedSet := *Spec_PowerSet(*leftCriteria.Spec_Names())
	filteredWeights := make(model.Weights, len(expectedSet))
	for _, criteria := range expectedSet {
		key := Spec_criterionKey(&criteria)
		filteredWeights[key] = cParams.weights.Spec_Fetch(key)
	}
	return choquetParams{weights: &filteredWeights, criteria: leftCriteria}
}

func (c *ChoquetIntegralBiasListener) Spec_RankCriteriaAscending(params *model.DecisionMakingParams) *model.WeightedCriteria {
	criteriaWeights := Spec_decomposeWeights(params)
	return params.Criteria.Spec_SortByWeights(*criteriaWeights)
}

func Spec_decomposeWeights(params *model.DecisionMakingParams) *model.Weights {
	combinedWeights := *params.MethodParameters.(choquetParams).weights
	weights := make(model.Weights, len(params.Criteria))
	for _, c := range params.Criteria {
		weights[c.Id] = 0
	}
	// C04: summed in the order of the alternatives' ids, not in the order they are listed in
	for _, a := range *model.Spec_SortAlternativesByName(&params.ConsideredAlternatives) {
		sortedCriteria := Spec_prepareCriteriaInAscendingOrder(&a)
		_, w := Spec_computeTotalWeight(sortedCriteria, &combinedWeights)
		for _, criteriaValues := range w {
			for _, c := range criteriaValues.criteria {
				w, ok := weights[c]
				if !ok {
					panic(fmt.Errorf("criterion '%s' not found in criteria %v", c, params.Criteria))
				} else {
					weights[c] = w + criteriaValues.valueAdded
				}
			}
		}
	}
	return &weights
}

func (c *ChoquetIntegralBiasListener) Spec_Merge(params model.MethodParameters, addition model.MethodParameters) model.MethodParameters {
	oldParams := params.(choquetParams)
	newParams := addition.(choquetParams)
	resultWeights := oldParams.weights.Spec_Merge(newParams.weights)
	// C09: a fresh criteria list, never the spare capacity of the list the old parameters point to
	resultCriteria := make(model.Criteria, 0, len(*oldParams.criteria)+len(*newParams.criteria))
	resultCriteria = append(append(resultCriteria, *oldParams.criteria...), *newParams.criteria...)
	return choquetParams{weights: resultWeights, criteria: &resultCriteria}
}
