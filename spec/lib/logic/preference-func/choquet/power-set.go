// Reference implementation (specification) for the RealDecisionMaker verification framework.
//
// This file is NOT part of the repository build. The analyzer (/verif/analyzer) loads it as an
// in-memory overlay next to the package it describes and compares, statically, the value graph of
// every Spec_X declaration with that of the repository's X (see DESIGN.md, engine E5). Each
// function states what the corresponding repository function has to compute according to
// /verif/properties.jsonl; it was reviewed against the property statements, not generated at
// check time, and it is never executed.

package choquet

import (
	"math"
)

func Spec_PowerSet(original []string) *[][]string {
	powerSetSize := Spec_PowerSetSize(len(original))
	result := make([][]string, 0, powerSetSize)

	var index int
	for index < powerSetSize {
		var subSet []string

		for j, elem := range original {
			if index&(1<<uint(j)) > 0 {
				subSet = append(subSet, elem)
			}
		}
		if len(subSet) > 0 {
			result = append(result, subSet)
		}
		index++
	}
	return &result
}

func Spec_EachSubSet(original []string, consumer func(subSet []string)) {
	powerSetSize := Spec_PowerSetSize(len(original))
	for index := 1; index < powerSetSize; index++ {
		var subSet []string
		for j, elem := range original {
			if index&(1<<uint(j)) > 0 {
				subSet = append(subSet, elem)
			}
		}
		consumer(subSet)
	}
}

func Spec_PowerSetSize(elements int) int {
	if elements <= 0 {
		return 0
	}
	// C20: 2^elements must not overflow (the validation loop over all unions would not run at all)
	if elements >= 62 {
		return int(^uint(0) >> 1)
	}
	return int(math.Pow(2, float64(elements)))
}
