package weighted_sum

import (
	"fmt"
	. "github.com/Azbesciak/RealDecisionMaker/lib/model"
)

func (p *weightedSumParams) Spec_Criterion(criterion string) WeightedCriterion {
	for _, c := range *p.weightedCriteria {
		if c.Id == criterion {
			return c
		}
	}
	panic(fmt.Errorf("criterion '%s' not found in weights %v", criterion, *p.weightedCriteria))
}

func (w *WeightedSumPreferenceFunc) Spec_ParseParams(dm *DecisionMaker) interface{} {
	weights := ExtractWeights(dm)
	weightedCriteria := dm.Criteria.ZipWithWeights(&weights)
	return weightedSumParams{weightedCriteria: weightedCriteria}
}

func (w *WeightedSumPreferenceFunc) Spec_Identifier() string {
	return methodName
}

func (w *WeightedSumPreferenceFunc) Spec_MethodParameters() interface{} {
	return WeightsParamOnly()
}

func (w *WeightedSumPreferenceFunc) Spec_Evaluate(dmp *DecisionMakingParams) *AlternativesRanking {
	params := dmp.MethodParameters.(weightedSumParams)
	prefFunc := func(alternative *AlternativeWithCriteria) *AlternativeResult {
		return WeightedSum(*alternative, *params.weightedCriteria)
	}
	return Rank(dmp, prefFunc)
}

func Spec_WeightedSum(alternative AlternativeWithCriteria, criteria WeightedCriteria) *AlternativeResult {
	var total Weight = 0
	for _, criterion := range criteria {
		total += alternative.CriterionValue(&criterion.Criterion)
	}
	return ValueAlternativeResult(&alternative, total)
}
