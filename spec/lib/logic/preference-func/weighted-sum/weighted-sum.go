// Reference implementation (specification) for the RealDecisionMaker verification framework.
//
// This file is NOT part of the repository build. The analyzer (/verif/analyzer) loads it as an
// in-memory overlay next to the package it describes and compares, statically, the value graph of
// every Spec_X declaration with that of the repository's X (see DESIGN.md, engine E5). Each
// function states what the corresponding repository function has to compute according to
// /verif/properties.jsonl; it was reviewed against the property statements, not generated at
// check time, and it is never executed.

package weighted_sum

import (
	"fmt"
	. "github.com/Azbesciak/RealDecisionMaker/lib/model"
)

func (p *weightedSumParams) Spec_Criterion(criterion string) WeightedCriterion {
	for _, c := range *p.weightedCriteria {
		if c.Id == criterion {
			return c
		}
	}
	panic(fmt.Errorf("criterion '%s' not found in weights %v", criterion, *p.weightedCriteria))
}

func (w *WeightedSumPreferenceFunc) Spec_ParseParams(dm *DecisionMaker) interface{} {
	weights := Spec_ExtractWeights(dm)
	weightedCriteria := dm.Criteria.Spec_ZipWithWeights(&weights)
	return weightedSumParams{weightedCriteria: weightedCriteria}
}

func (w *WeightedSumPreferenceFunc) Spec_Identifier() string {
	return methodName
}

func (w *WeightedSumPreferenceFunc) Spec_MethodParameters() interface{} {
	return Spec_WeightsParamOnly()
}

func (w *WeightedSumPreferenceFunc) Spec_Evaluate(dmp *DecisionMakingParams) *AlternativesRanking {
	params := dmp.MethodParameters.(weightedSumParams)
	prefFunc := func(alternative *AlternativeWithCriteria) *AlternativeResult {
		return Spec_WeightedSum(*alternative, *params.weightedCriteria)
	}
	return Spec_Rank(dmp, prefFunc)
}

func Spec_WeightedSum(alternative AlternativeWithCriteria, criteria WeightedCriteria) *AlternativeResult {
	// C03: sum over the weighted criteria of weight x value, the value negated for cost criteria
	var total Weight = 0
	for _, criterion := range criteria {
		total += criterion.Weight * alternative.Spec_CriterionValue(&criterion.Criterion)
	}
	return Spec_ValueAlternativeResult(&alternative, total)
}
