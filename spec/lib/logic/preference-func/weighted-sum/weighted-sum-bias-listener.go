package weighted_sum

import (
	"github.com/Azbesciak/RealDecisionMaker/lib/model"
	"github.com/Azbesciak/RealDecisionMaker/lib/utils"
)

func (w *WeightedSumBiasListener) Spec_Identifier() string {
	return methodName
}

func (w *WeightedSumBiasListener) Spec_Merge(params model.MethodParameters, addition model.MethodParameters) model.MethodParameters {
	oldWeights := *params.(weightedSumParams).weightedCriteria
	addedWeights := addition.(WeightedSumAddedCriterion).weights
	merged := append(oldWeights, addedWeights...)
	return weightedSumParams{weightedCriteria: &merged}
}

func (w *WeightedSumBiasListener) Spec_OnCriterionAdded(
	criterion *model.Criterion,
	referenceCriterion *model.Criterion,
	params model.MethodParameters,
	generator utils.ValueGenerator,
) model.AddedCriterionParams {
	wParams := params.(weightedSumParams)
	leastImportantParam := wParams.Criterion(referenceCriterion.Identifier())
	newCriterionWeight := generator() * leastImportantParam.Weight
	newCriterion := model.WeightedCriteria{{
		Criterion: *criterion,
		Weight:    newCriterionWeight,
	}}
	return WeightedSumAddedCriterion{
		Weights: model.Weights{criterion.Id: newCriterionWeight},
		weights: newCriterion,
	}
}

func (w *WeightedSumBiasListener) Spec_OnCriteriaRemoved(leftCriteria *model.Criteria, params model.MethodParameters) model.MethodParameters {
	wParams := params.(weightedSumParams)
	result := make(model.WeightedCriteria, len(*leftCriteria))
	for i, c := range *leftCriteria {
		result[i] = wParams.Criterion(c.Id)
	}
	return weightedSumParams{weightedCriteria: &result}
}

func (w *WeightedSumBiasListener) Spec_RankCriteriaAscending(params *model.DecisionMakingParams) *model.WeightedCriteria {
	wParams := params.MethodParameters.(weightedSumParams)
	weights := model.PrepareCumulatedWeightsMap(params, func(criterion string, value model.Weight) model.Weight {
		cryt := wParams.Criterion(criterion)
		return cryt.Weight * value
	})
	return params.Criteria.SortByWeights(*weights)
}
