// Reference implementation (specification) for the RealDecisionMaker verification framework.
//
// This file is NOT part of the repository build. The analyzer (/verif/analyzer) loads it as an
// in-memory overlay next to the package it describes and compares, statically, the value graph of
// every Spec_X declaration with that of the repository's X (see DESIGN.md, engine E5). Each
// function states what the corresponding repository function has to compute according to
// /verif/properties.jsonl; it was reviewed against the property statements, not generated at
// check time, and it is never executed.

package weighted_sum

import (
	"github.com/Azbesciak/RealDecisionMaker/lib/model"
	"github.com/Azbesciak/RealDecisionMaker/lib/utils"
)

func (w *WeightedSumBiasListener) Spec_Identifier() string {
	return methodName
}

func (w *WeightedSumBiasListener) Spec_Merge(params model.MethodParameters, addition model.MethodParameters) model.MethodParameters {
	oldWeights := *params.(weightedSumParams).weightedCriteria
	addedWeights := addition.(WeightedSumAddedCriterion).weights
	merged := append(oldWeights, addedWeights...)
	return weightedSumParams{weightedCriteria: &merged}
}

func (w *WeightedSumBiasListener) Spec_OnCriterionAdded(
	criterion *model.Criterion,
	referenceCriterion *model.Criterion,
	params model.MethodParameters,
	generator utils.ValueGenerator,
) model.AddedCriterionParams {
	wParams := params.(weightedSumParams)
	leastImportantParam := wParams.Spec_Criterion(referenceCriterion.Spec_Identifier())
	newCriterionWeight := generator() * leastImportantParam.Weight
	newCriterion := model.WeightedCriteria{{
		Criterion: *criterion,
		Weight:    newCriterionWeight,
	}}
	return WeightedSumAddedCriterion{
		Weights: model.Weights{criterion.Id: newCriterionWeight},
		weights: newCriterion,
	}
}

func (w *WeightedSumBiasListener) Spec_OnCriteriaRemoved(leftCriteria *model.Criteria, params model.MethodParameters) model.MethodParameters {
	wParams := params.(weightedSumParams)
	result := make(model.WeightedCriteria, len(*leftCriteria))
	for i, c := range *leftCriteria {
		result[i] = wParams.Spec_Criterion(c.Id)
	}
	return weightedSumParams{weightedCriteria: &result}
}

func (w *WeightedSumBiasListener) Spec_RankCriteriaAscending(params *model.DecisionMakingParams) *model.WeightedCriteria {
	wParams := params.MethodParameters.(weightedSumParams)
	weights := model.Spec_PrepareCumulatedWeightsMap(params, func(criterion string, value model.Weight) model.Weight {
		cryt := wParams.Spec_Criterion(criterion)
		return cryt.Weight * value
	})
	return params.Criteria.Spec_SortByWeights(*weights)
}
