// Reference declarations of the struct types of this package (fields, types and tags as the API documents them).
// Loaded by the analyzer as an in-memory overlay only; see DESIGN.md, engine E5 (rule E5-types).

package weighted_sum

import (
	. "github.com/Azbesciak/RealDecisionMaker/lib/model"
	"github.com/Azbesciak/RealDecisionMaker/lib/model"
)

type Spec_WeightedSumBiasListener struct {
}

type Spec_WeightedSumAddedCriterion struct {
	Weights model.Weights `json:"weights"`
	weights model.WeightedCriteria
}

type Spec_WeightedSumPreferenceFunc struct {
}

type Spec_weightedSumParams struct {
	weightedCriteria *WeightedCriteria
}
