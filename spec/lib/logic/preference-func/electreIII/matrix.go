// Reference implementation (specification) for the RealDecisionMaker verification framework.
//
// This file is NOT part of the repository build. The analyzer (/verif/analyzer) loads it as an
// in-memory overlay next to the package it describes and compares, statically, the value graph of
// every Spec_X declaration with that of the repository's X (see DESIGN.md, engine E5). Each
// function states what the corresponding repository function has to compute according to
// /verif/properties.jsonl; it was reviewed against the property statements, not generated at
// check time, and it is never executed.

package electreIII

import (
	"fmt"
	"github.com/Azbesciak/RealDecisionMaker/lib/utils"
	"sort"
)

func Spec_NewMatrix(values *[][]float64) *Matrix {
	size := len(*values)
	data := make([]float64, size*size)
	for i, v := range *values {
		copy(data[i*size:(i+1)*size], v)
	}
	return &Matrix{Size: size, Data: data}
}

func (m *Matrix) Spec_At(row, col int) float64 {
	return m.Data[row*m.Size+col]
}

func Spec_calcCoords(index, size int) (row, col int) {
	return index / size, index % size
}

func (m *Matrix) Spec_Matches(groupsNumber int, groupEvaluator func(row, col int) int, predicate func(value float64) bool) []int {
	groups := make([]int, groupsNumber)
	for i, v := range m.Data {
		groupIndex := groupEvaluator(Spec_calcCoords(i, m.Size))
		if predicate(v) {
			groups[groupIndex] += 1
		}
	}
	return groups
}

func (m *Matrix) Spec_MatchesInRow(predicate func(value float64) bool) []int {
	return m.Spec_Matches(m.Size, func(row, col int) int {
		return row
	}, predicate)
}

func (m *Matrix) Spec_MatchesInColumn(predicate func(value float64) bool) []int {
	return m.Spec_Matches(m.Size, func(row, col int) int {
		return col
	}, predicate)
}

func (m *Matrix) Spec_Filter(filter func(row, col int, v float64) bool) *Matrix {
	newVals := make([]float64, m.Size*m.Size)
	for i, v := range m.Data {
		row, col := Spec_calcCoords(i, m.Size)
		if filter(row, col, v) {
			newVals[i] = v
		} else {
			newVals[i] = 0
		}
	}
	return &Matrix{Size: m.Size, Data: newVals}
}

func (m *Matrix) Spec_FindBest(isBetter func(old, new float64) bool) float64 {
	if m.Size == 0 {
		panic(fmt.Errorf("matrix is empty"))
	}
	best := m.Data[0]
	for _, v := range m.Data {
		if isBetter(best, v) {
			best = v
		}
	}
	return best
}

func (m *Matrix) Spec_Max() float64 {
	return m.Spec_FindBest(func(old, new float64) bool {
		return new > old
	})
}

func (m *Matrix) Spec_Min() float64 {
	return m.Spec_FindBest(func(old, new float64) bool {
		return new < old
	})
}

func (m *Matrix) Spec_Without(indices *[]int) *Matrix {
	size := m.Size
	if len(*indices) == size {
		return m
	}
	data := make([]float64, m.Size*m.Size)
	copy(data, m.Data)
	toRemove := len(*indices)
	sorted := make([]int, toRemove)
	copy(sorted, *indices)
	sort.Sort(sort.Reverse(sort.IntSlice(sorted)))
	for _, v := range sorted {
		data = append(data[0:v*size], data[(v+1)*size:]...)
	}
	size -= toRemove
	resultData := make([]float64, size*size)
	dataIndex := 0
	for i, v := range data {
		rowIndex := i % m.Size
		if !utils.Spec_ContainsInts(&sorted, &rowIndex) {
			resultData[dataIndex] = v
			dataIndex++
		}
	}
	return &Matrix{Size: size, Data: resultData}
}

func (m *Matrix) Spec_Slice(indices *[]int) *Matrix {
	resultSize := len(*indices)
	if resultSize == m.Size {
		return m
	}
	data := make([]float64, 0)
	sort.Ints(*indices)
	for _, v := range *indices {
		data = append(data, m.Data[v*m.Size:(v+1)*m.Size]...)
	}
	resultData := make([]float64, resultSize*resultSize)
	dataIndex := 0
	for i, v := range data {
		rowIndex := i % m.Size
		if utils.Spec_ContainsInts(indices, &rowIndex) {
			resultData[dataIndex] = v
			dataIndex++
		}
	}
	return &Matrix{Size: resultSize, Data: resultData}
}
