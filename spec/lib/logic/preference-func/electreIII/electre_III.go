// Reference implementation (specification) for the RealDecisionMaker verification framework.
//
// This file is NOT part of the repository build. The analyzer (/verif/analyzer) loads it as an
// in-memory overlay next to the package it describes and compares, statically, the value graph of
// every Spec_X declaration with that of the repository's X (see DESIGN.md, engine E5). Each
// function states what the corresponding repository function has to compute according to
// /verif/properties.jsonl; it was reviewed against the property statements, not generated at
// check time, and it is never executed.

package electreIII

import (
	"fmt"
	. "github.com/Azbesciak/RealDecisionMaker/lib/model"
	"github.com/Azbesciak/RealDecisionMaker/lib/utils"
)

func (e *ElectreIIIPreferenceFunc) Spec_Identifier() string {
	return methodName
}

func (e *ElectreIIIPreferenceFunc) Spec_MethodParameters() interface{} {
	return ElectreIIIInputParams{}
}

func (e *ElectreIIIPreferenceFunc) Spec_Evaluate(dmp *DecisionMakingParams) *AlternativesRanking {
	params := dmp.MethodParameters.(electreIIIParams)
	return Spec_ElectreIII(dmp.ConsideredAlternatives, dmp.Criteria, params.Criteria, params.DistillationFun)
}

func Spec_ElectreIII(
	alternatives []AlternativeWithCriteria,
	criteria Criteria,
	electreCriteria *ElectreCriteria,
	distillationFun *utils.LinearFunctionParameters,
) *AlternativesRanking {
	matrix := Spec_evaluateCredibilityMatrix(&alternatives, &criteria, electreCriteria)
	ascending := Spec_RankAscending(matrix, distillationFun)
	descending := Spec_RankDescending(matrix, distillationFun)
	return Spec_EvaluateRanking(ascending, descending, &alternatives)
}

func Spec_evaluateCredibilityMatrix(
	alternatives *[]AlternativeWithCriteria,
	criteria *Criteria,
	electreCriteria *ElectreCriteria,
) *AlternativesMatrix {
	alternativesNum := len(*alternatives)
	credibilityFlatMatrix := make([]float64, alternativesNum*alternativesNum)
	alternativesIds := make(Alternatives, alternativesNum)
	for i, a1 := range *alternatives {
		alternativesIds[i] = a1.Id
		for j, a2 := range *alternatives {
			credibilityFlatMatrix[i*alternativesNum+j] = Spec_evaluateAlternativesPair(i, j, &a1, &a2, criteria, electreCriteria)
		}
	}
	return &AlternativesMatrix{&alternativesIds, &Matrix{
		Size: alternativesNum,
		Data: credibilityFlatMatrix,
	}}
}

func Spec_evaluateAlternativesPair(i, j int, a1, a2 *AlternativeWithCriteria, criteria *Criteria, electreCriteria *ElectreCriteria) float64 {
	if i == j {
		return 1
	} else {
		eleRes := Spec_electreIIICredibility(a1, a2, criteria, electreCriteria)
		return eleRes.D
	}
}

func Spec_electreIIICredibility(
	a1, a2 *AlternativeWithCriteria,
	criteria *Criteria,
	criteriaThresholds *ElectreCriteria,
) *ElectreResult {
	electreRes := make([]*electreIIISingleResult, len(*criteria))
	for i, c := range *criteria {
		electreRes[i] = Spec_evaluatePair(a1, a2, &c, criteriaThresholds)
	}
	c := Spec_calculateTotalC(&electreRes)
	d := Spec_calculateCredibility(c, &electreRes)
	return &ElectreResult{C: c, D: d}
}

func Spec_calculateTotalC(results *[]*electreIIISingleResult) float64 {
	weightSum := 0.0
	totalC := 0.0
	for _, c := range *results {
		weightSum += c.criterion.K
		totalC += c.criterion.K * c.result.C
	}
	return totalC / weightSum
}

func Spec_calculateCredibility(C float64, results *[]*electreIIISingleResult) float64 {
	credibility := C
	for _, res := range *results {
		if res.result.D > C {
			credibility *= (1 - res.result.D) / (1 - C)
		}
	}
	return credibility
}

func Spec_evaluatePair(
	a1, a2 *AlternativeWithCriteria,
	c *Criterion,
	criteriaThresholds *ElectreCriteria,
) *electreIIISingleResult {
	c1Val := a1.Spec_CriterionValue(c)
	c2Val := a2.Spec_CriterionValue(c)
	ths, foundThreshold := (*criteriaThresholds)[c.Id]
	if !foundThreshold {
		panic(fmt.Errorf("properties for criterion '%s' not found", c.Id))
	}
	return &electreIIISingleResult{
		criterion: &ths,
		result:    Spec_calculateElectreResult(c1Val, c2Val, c, &ths),
	}
}

func Spec_calculateElectreResult(c1Val, c2Val Weight, c *Criterion, ths *ElectreCriterion) *ElectreResult {
	if c1Val >= c2Val {
		return &ElectreResult{C: 1}
	}
	originalFirstCriterionValue := c1Val * Weight(c.Spec_Multiplier())
	criteriaValueDifference := c2Val - c1Val
	q, qok := ths.Q.Spec_Evaluate(originalFirstCriterionValue)
	if qok && q >= criteriaValueDifference {
		return &ElectreResult{C: 1}
	}
	p, pok := ths.P.Spec_Evaluate(originalFirstCriterionValue)
	if pok && p >= criteriaValueDifference {
		return &ElectreResult{C: 1 - (criteriaValueDifference-q)/(p-q)}
	}
	v, vok := ths.V.Spec_Evaluate(originalFirstCriterionValue)
	if vok && v >= criteriaValueDifference {
		return &ElectreResult{D: (criteriaValueDifference - p) / (v - p)}
	}
	if vok && v < criteriaValueDifference {
		return &ElectreResult{D: 1}
	}
	return &ElectreResult{}
}
