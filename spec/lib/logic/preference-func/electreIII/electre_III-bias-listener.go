// Reference implementation (specification) for the RealDecisionMaker verification framework.
//
// This file is NOT part of the repository build. The analyzer (/verif/analyzer) loads it as an
// in-memory overlay next to the package it describes and compares, statically, the value graph of
// every Spec_X declaration with that of the repository's X (see DESIGN.md, engine E5). Each
// function states what the corresponding repository function has to compute according to
// /verif/properties.jsonl; it was reviewed against the property statements, not generated at
// check time, and it is never executed.

package electreIII

import (
	"fmt"
	"github.com/Azbesciak/RealDecisionMaker/lib/model"
	"github.com/Azbesciak/RealDecisionMaker/lib/utils"
)

func (e *ElectreIIIBiasLIstener) Spec_Identifier() string {
	return methodName
}

func (e *ElectreIIIBiasLIstener) Spec_Merge(params model.MethodParameters, addition model.MethodParameters) model.MethodParameters {
	oldEleParams := params.(electreIIIParams)
	newEleParams := addition.(electreIIIParams)
	newCriteria := make(ElectreCriteria, len(*oldEleParams.Criteria)+len(*newEleParams.Criteria))
	for c, v := range *oldEleParams.Criteria {
		newCriteria[c] = v
	}
	for c, v := range *newEleParams.Criteria {
		_, ok := newCriteria[c]
		if ok {
			panic(fmt.Errorf("criterion '%s' already exist in params in electre Criteria, merge %v with %v", c, *oldEleParams.Criteria, *newEleParams.Criteria))
		}
		newCriteria[c] = v
	}
	return electreIIIParams{Criteria: &newCriteria, DistillationFun: oldEleParams.DistillationFun}
}

func (e *ElectreIIIBiasLIstener) Spec_OnCriterionAdded(
	criterion *model.Criterion,
	referenceCriterion *model.Criterion,
	params model.MethodParameters,
	generator utils.ValueGenerator,
) model.AddedCriterionParams {
	eleParams := params.(electreIIIParams)
	weakestCriterion := (*eleParams.Criteria)[referenceCriterion.Id]
	return electreIIIParams{Criteria: &ElectreCriteria{
		criterion.Id: ElectreCriterion{
			K: generator() * weakestCriterion.K,
			Q: weakestCriterion.Q,
			P: weakestCriterion.P,
			V: weakestCriterion.V,
		},
	}}
}

func (e *ElectreIIIBiasLIstener) Spec_OnCriteriaRemoved(
	leftCriteria *model.Criteria,
	params model.MethodParameters,
) model.MethodParameters {
	eleParams := params.(electreIIIParams)
	resCriteria := make(ElectreCriteria, len(*leftCriteria))
	for _, c := range *leftCriteria {
		criterion, ok := (*eleParams.Criteria)[c.Id]
		if !ok {
			panic(fmt.Errorf("criterion '%s' not found in electre Criteria %v", c.Id, *eleParams.Criteria))
		}
		resCriteria[c.Id] = criterion
	}
	return electreIIIParams{Criteria: &resCriteria, DistillationFun: eleParams.DistillationFun}
}

func (e *ElectreIIIBiasLIstener) Spec_RankCriteriaAscending(params *model.DecisionMakingParams) *model.WeightedCriteria {
	eleParams := params.MethodParameters.(electreIIIParams)
	weights := make(model.Weights, len(*eleParams.Criteria))
	for k, v := range *eleParams.Criteria {
		weights[k] = v.K
	}
	return params.Criteria.Spec_SortByWeights(weights)
}
