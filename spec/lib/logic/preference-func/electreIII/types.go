// Reference declarations of the struct types of this package (fields, types and tags as the API documents them).
// Loaded by the analyzer as an in-memory overlay only; see DESIGN.md, engine E5 (rule E5-types).

package electreIII

import (
	. "github.com/Azbesciak/RealDecisionMaker/lib/model"
	"github.com/Azbesciak/RealDecisionMaker/lib/utils"
)

type Spec_ElectreIIIBiasLIstener struct {
}

type Spec_ElectreIIIPreferenceFunc struct {
}

type Spec_ElectreIIIInputParams struct {
	Criteria        ElectreCriteria                `json:"electreCriteria"`
	DistillationFun utils.LinearFunctionParameters `json:"electreDistillation,omitempty"`
}

type Spec_ElectreResult struct {
	C float64 `json:"c"`
	D float64 `json:"d"`
}

type Spec_ElectreCriterion struct {
	K float64                        `json:"k"`
	Q utils.LinearFunctionParameters `json:"q"`
	P utils.LinearFunctionParameters `json:"p"`
	V utils.LinearFunctionParameters `json:"v"`
}

type Spec_AlternativesMatrix struct {
	Alternatives *Alternatives `json:"alternatives"`
	Values       *Matrix       `json:"values"`
}

type Spec_electreIIISingleResult struct {
	criterion *ElectreCriterion
	result    *ElectreResult
}

type Spec_electreIIIParams struct {
	Criteria        *ElectreCriteria                `json:"criteria"`
	DistillationFun *utils.LinearFunctionParameters `json:"distillationFun,omitempty"`
}

type Spec_Matrix struct {
	Size int
	Data []float64
}

type Spec_ElectreIIIEvaluation struct {
	AscendingIndex  int `json:"ascendingIndex"`
	DescendingIndex int `json:"descendingIndex"`
}
