// Reference implementation (specification) for the RealDecisionMaker verification framework.
//
// This file is NOT part of the repository build. The analyzer (/verif/analyzer) loads it as an
// in-memory overlay next to the package it describes and compares, statically, the value graph of
// every Spec_X declaration with that of the repository's X (see DESIGN.md, engine E5). Each
// function states what the corresponding repository function has to compute according to
// /verif/properties.jsonl; it was reviewed against the property statements, not generated at
// check time, and it is never executed.

package electreIII

import (
	. "github.com/Azbesciak/RealDecisionMaker/lib/model"
)

func Spec_EvaluateRanking(ascending, descending *[]int, alternatives *[]AlternativeWithCriteria) *AlternativesRanking {
	ranking := make(AlternativesRanking, 0)
	for ia, alt1Asc := range *ascending {
		alt1Desc := (*descending)[ia]
		betterOrSameAs := make([]Alternative, 0)

		for ib, alt2Asc := range *ascending {
			if ia == ib {
				continue
			}
			alt2Desc := (*descending)[ib]
			if alt1Asc <= alt2Asc && alt1Desc <= alt2Desc {
				betterOrSameAs = append(betterOrSameAs, (*alternatives)[ib].Id)
			}
		}
		ranking = append(ranking, AlternativesRankEntry{
			AlternativeResult: AlternativeResult{Alternative: (*alternatives)[ia], Evaluation: ElectreIIIEvaluation{
				AscendingIndex:  alt1Asc,
				DescendingIndex: alt1Desc,
			}},
			BetterThanOrSameAs: betterOrSameAs,
		})
	}
	return &ranking
}
