// Reference implementation (specification) for the RealDecisionMaker verification framework.
//
// This file is NOT part of the repository build. The analyzer (/verif/analyzer) loads it as an
// in-memory overlay next to the package it describes and compares, statically, the value graph of
// every Spec_X declaration with that of the repository's X (see DESIGN.md, engine E5). Each
// function states what the corresponding repository function has to compute according to
// /verif/properties.jsonl; it was reviewed against the property statements, not generated at
// check time, and it is never executed.

package electreIII

import (
	"fmt"
	"github.com/Azbesciak/RealDecisionMaker/lib/utils"
)

func Spec_RankAscending(matrix *AlternativesMatrix, distillationFun *utils.LinearFunctionParameters) *[]int {
	return rank(matrix, distillationFun, greater)
}

func Spec_RankDescending(matrix *AlternativesMatrix, distillationFun *utils.LinearFunctionParameters) *[]int {
	ranking := rank(matrix, distillationFun, lower)
	maxPosition := Max(ranking)
	minusValuesFrom(ranking, maxPosition+1)
	return ranking
}

func Spec_Max(values *[]int) int {
	if len(*values) == 0 {
		panic(fmt.Errorf("slice is empty"))
	}
	best := (*values)[0]
	for _, v := range *values {
		if v > best {
			best = v
		}
	}
	return best
}

func Spec_minusValuesFrom(values *[]int, value int) {
	for i, v := range *values {
		(*values)[i] = value - v
	}
}

func Spec_rank(matrix *AlternativesMatrix, distillationFun *utils.LinearFunctionParameters, evaluateFunction CompareFunction) *[]int {
	position := 1
	withoutD := removeDiagonal(matrix)
	maxCred := withoutD.Max()
	positions := make([]int, len(*matrix.Alternatives))
	indices := make([]int, len(positions))
	for i := range indices {
		indices[i] = i
	}
	return distillate(maxCred, position, withoutD, distillationFun, evaluateFunction, false)
}

func Spec_samePositions(size, value int) *[]int {
	pos := make([]int, size)
	for i := range pos {
		pos[i] = value
	}
	return &pos
}

func Spec_distillate(
	maxCred float64, position int,
	matrix *Matrix,
	distillationFun *utils.LinearFunctionParameters,
	evaluateFunction CompareFunction,
	isInner bool,
) *[]int {
	if maxCred == 0 {
		return samePositions(matrix.Size, position)
	}
	minCred, valuesToConsider := getDistillateMatrix(distillationFun, maxCred, matrix)
	quality := computeQuality(valuesToConsider)
	_, bestIndices := findBestMatch(quality, evaluateFunction)
	positions := samePositions(matrix.Size, 0)
	updatePositions(position, minCred, matrix, bestIndices, positions, distillationFun, evaluateFunction)
	indicesLeftToUpdate := updatedPositions(bestIndices, positions)
	if len(*indicesLeftToUpdate) == matrix.Size || isInner {
		return positions
	}
	position++
	nextIterationMatrix := matrix.Without(indicesLeftToUpdate)
	furtherPositions := distillate(nextIterationMatrix.Max(), position, nextIterationMatrix, distillationFun, evaluateFunction, false)
	writePositionsSequentially(furtherPositions, positions)
	return positions
}

func Spec_writePositionsSequentially(positionsToWrite, positions *[]int) {
	toWriteIndex := 0
	for i, p := range *positions {
		if p == 0 {
			if toWriteIndex >= len(*positionsToWrite) {
				panic(fmt.Errorf(
					"position %d is out of scope for possible possitions %v and all positions %v",
					i, *positionsToWrite, *positions,
				))
			}
			(*positions)[i] = (*positionsToWrite)[toWriteIndex]
			toWriteIndex++
		}
	}
}

func Spec_updatedPositions(indices, positions *[]int) *[]int {
	newValues := make([]int, 0)
	for _, p := range *indices {
		if (*positions)[p] != 0 {
			newValues = append(newValues, p)
		}
	}
	return &newValues
}

func Spec_updatePositions(
	position int, minCred float64,
	valuesToConsider *Matrix, bestIndices, positions *[]int,
	distillationFun *utils.LinearFunctionParameters, evaluateFunction CompareFunction,
) {
	bestIndicesNum := len(*bestIndices)
	if bestIndicesNum > 1 && minCred > 0 {
		nextToFilter := valuesToConsider.Slice(bestIndices)
		subPositions := distillate(minCred, position, nextToFilter, distillationFun, evaluateFunction, true)
		updateValues(bestIndices, positions, subPositions)
	} else if bestIndicesNum > 0 {
		updateValues(bestIndices, positions, samePositions(bestIndicesNum, position))
	}
}

func Spec_getDistillateMatrix(distillationFun *utils.LinearFunctionParameters, maxCred float64, matrix *Matrix) (float64, *Matrix) {
	v, _ := distillationFun.Evaluate(maxCred)
	minCredThreshold := maxCred - v
	minCred := matrix.FindBest(func(old, new float64) bool {
		// ok because the lowest value is 0, on diagonal for sure.
		return new < minCredThreshold && new > old
	})
	valuesToConsider := matrix.Filter(func(row, col int, v float64) bool {
		if v <= minCred {
			return false
		}
		funcValueForThisField, _ := distillationFun.Evaluate(v)
		value := matrix.At(col, row) + funcValueForThisField
		return v > value
	})
	return minCred, valuesToConsider
}

func Spec_updateValues(indicesToUpdate, original, new *[]int) {
	for i, v := range *indicesToUpdate {
		(*original)[v] = (*new)[i]
	}
}

func Spec_removeDiagonal(matrix *AlternativesMatrix) *Matrix {
	return matrix.Values.Filter(func(row, col int, v float64) bool {
		return row != col
	})
}

func Spec_computeQuality(matrix *Matrix) *[]int {
	strength := matrix.MatchesInRow(utils.IsPositive)
	weakness := matrix.MatchesInColumn(utils.IsPositive)
	return calcQuality(&strength, &weakness)
}

func Spec_calcQuality(strength, weakness *[]int) *[]int {
	quality := make([]int, len(*strength))
	for i, s := range *strength {
		quality[i] = s - (*weakness)[i]
	}
	return &quality
}

func Spec_greater(old, new int) bool {
	return old < new
}

func Spec_lower(old, new int) bool {
	return old > new
}

func Spec_findBestMatch(values *[]int, isBetter CompareFunction) (value int, indices *[]int) {
	bestValue := (*values)[0]
	bestIndices := make([]int, 0)
	for i, v := range *values {
		if isBetter(bestValue, v) {
			bestValue = v
			bestIndices = []int{i}
		} else if v == bestValue {
			bestIndices = append(bestIndices, i)
		}
	}
	return bestValue, &bestIndices
}

var Spec_DefaultDistillationFunc = utils.LinearFunctionParameters{A: -.15, B: .3}
